// Package drive applies events (admin request strings through
// query.DoAdmin, row operations in update transactions, persist, close+reopen)
// to a real db19 database and to the dbmodel reference model, and compares
// everything that can be observed of the real database with the model:
// tables, views, Database.Schema text, columns, indexes, foreign key links in
// both directions (with positions), rows through every index, Info
// Nrows/Size and the database's own quick and full check.
//
// Shared by the checks C04, C05, C19, C20, C21.
package drive

import (
	"fmt"
	"io"
	"log"
	"os"
	"sort"
	"strings"
	"sync"
	"time"

	"github.com/apmckinlay/gsuneido/core"
	"github.com/apmckinlay/gsuneido/db19"
	"github.com/apmckinlay/gsuneido/db19/meta"
	"github.com/apmckinlay/gsuneido/db19/stor"
	"github.com/apmckinlay/gsuneido/dbms/query"
	"github.com/apmckinlay/gsuneido/options"

	"verif/lib"
	"verif/model/dbmodel"
)

var initOnce sync.Once

// Init sets the process-global knobs of the code under test: the
// transaction-object factory used by trigger calls, a small checker worker
// pool, and silences the log output of the database (corruption messages are
// expected in crash tests).
func Init() {
	initOnce.Do(func() {
		db19.MakeSuTran = func(ut *db19.UpdateTran) *core.SuTran {
			return core.NewSuTran(nil, true)
		}
		options.Nworkers = 2
		if os.Getenv("VERIF_DBLOG") == "" {
			log.SetOutput(io.Discard)
		}
	})
}

// Quiet silences os.Stderr (failed assertions inside the database print a
// stack trace there before panicking; refused requests are expected here) and
// returns the function that restores it. Call as `defer drive.Quiet()()` at
// the top of a check's run function so that lib's own messages, printed after
// run returns, stay visible.
func Quiet() func() {
	saved := os.Stderr
	if os.Getenv("VERIF_DBLOG") != "" {
		return func() {}
	}
	if null, err := os.OpenFile(os.DevNull, os.O_WRONLY, 0); err == nil {
		os.Stderr = null
	}
	return func() { os.Stderr = saved }
}

// Event is one step of a history.
type Event struct {
	Kind string          `json:"kind"` // admin | tx | abandon | persist | reopen | seq
	Req  *dbmodel.Req    `json:"req,omitempty"`
	Ops  []dbmodel.RowOp `json:"ops,omitempty"`
	Seq  []Event         `json:"seq,omitempty"` // seq: a macro event, its parts applied in order
}

// Seq is a macro event.
func Seq(evs ...Event) Event { return Event{Kind: "seq", Seq: evs} }

// Flatten expands macro events.
func Flatten(evs []Event) []Event {
	var out []Event
	for _, e := range evs {
		if e.Kind == "seq" {
			out = append(out, Flatten(e.Seq)...)
		} else {
			out = append(out, e)
		}
	}
	return out
}

func Admin(r dbmodel.Req) Event          { return Event{Kind: "admin", Req: &r} }
func Tx(ops ...dbmodel.RowOp) Event      { return Event{Kind: "tx", Ops: ops} }
func Abandon(ops ...dbmodel.RowOp) Event { return Event{Kind: "abandon", Ops: ops} }
func Persist() Event                     { return Event{Kind: "persist"} }
func Reopen() Event                      { return Event{Kind: "reopen"} }

func (e Event) String() string {
	switch e.Kind {
	case "admin":
		return e.Req.Text()
	case "tx", "abandon":
		var ps []string
		for _, op := range e.Ops {
			ps = append(ps, op.String())
		}
		return e.Kind + "[" + strings.Join(ps, "; ") + "]"
	case "seq":
		return strings.Join(EventsText(e.Seq), " + ")
	}
	return e.Kind
}

func EventsText(evs []Event) []string {
	var out []string
	for _, e := range evs {
		out = append(out, e.String())
	}
	return out
}

// Sys is a real database together with its model twin.
type Sys struct {
	Store *stor.Stor // heap store (nil for file databases)
	File  string     // file name for file databases
	DB    *db19.Database
	M     *dbmodel.DB
	// Unmodeled is set when an event hit dbmodel.ErrUnmodeled.
	Unmodeled bool
	// Before is what was observable immediately before the most recent
	// close+reopen event.
	Before *Obs
	// OnReopen, if set, is called after every close+reopen event; it returns
	// whether the reopened database disagrees with the model and the precise
	// class of that failure. A disagreement taints the system: everything that
	// happens afterwards is a consequence of a failure that is reported for the
	// path prefix ending with that reopen.
	OnReopen   func(s *Sys) (class string, bad bool)
	Tainted    bool
	TaintClass string
	// Log is the list of primitive events applied so far.
	Log []Event
	// PersistOffs collects the offset of the state returned by every persist
	// event, in order (used by the history checks C05/C19).
	PersistOffs []uint64
	closed      bool
}

const persistInterval = 24 * time.Hour // never fires: persists are events

// NewHeap creates an empty database on an in-memory store running the real
// checker/merger pipeline.
func NewHeap() *Sys {
	Init()
	st := stor.HeapStor(8192)
	db := db19.CreateDb(st)
	db19.StartConcur(db, persistInterval)
	return &Sys{Store: st, DB: db, M: dbmodel.New()}
}

// NewFile creates an empty database in a real (mmap) file.
func NewFile(file string) (*Sys, error) {
	Init()
	db, err := db19.CreateDatabase(file)
	if err != nil {
		return nil, err
	}
	db19.StartConcur(db, persistInterval)
	return &Sys{File: file, DB: db, M: dbmodel.New()}, nil
}

// Close closes the real database (clean shutdown).
func (s *Sys) Close() {
	if !s.closed {
		s.closed = true
		s.DB.Close()
	}
}

// reopen closes and reopens the database.
func (s *Sys) reopen() error {
	s.Before = Observe(s.DB)
	s.DB.Close()
	var db *db19.Database
	var err error
	if s.Store != nil {
		db, err = db19.OpenDbStor(s.Store, stor.Update, true)
	} else {
		db, err = db19.OpenDb(s.File, stor.Update, true)
	}
	if err != nil {
		s.closed = true
		return err
	}
	db19.StartConcur(db, persistInterval)
	s.DB = db
	return nil
}

// outcome of executing something on the implementation
func try(f func()) (failed bool, msg string, runtimeErr bool) {
	e := lib.Try(f)
	if e == nil {
		return false, "", false
	}
	return true, lib.PanicText(e), lib.IsRuntimeError(e)
}

// Apply executes one event on the implementation and on the model and
// returns a description of any disagreement about its outcome ("" if none).
// It does not compare states; use Compare for that.
func (s *Sys) Apply(ev Event) string {
	if ev.Kind != "seq" {
		s.Log = append(s.Log, ev)
	}
	switch ev.Kind {
	case "admin":
		want := s.M.Admin(*ev.Req)
		failed, msg, _ := try(func() { query.DoAdmin(s.DB, ev.Req.Text(), nil) })
		if failed != (want != nil) {
			return fmt.Sprintf("request %q: implementation %s, model %s", ev.Req.Text(),
				outcome(failed, msg), outcomeErr(want))
		}
	case "tx":
		want := s.M.Tx(ev.Ops)
		if want == dbmodel.ErrUnmodeled {
			s.Unmodeled = true
		}
		failed, msg := s.runTx(ev.Ops, true)
		if s.Unmodeled {
			return ""
		}
		if failed != (want != nil) {
			return fmt.Sprintf("transaction %s: implementation %s, model %s", ev.String(),
				outcome(failed, msg), outcomeErr(want))
		}
	case "abandon":
		s.runTx(ev.Ops, false)
	case "persist":
		if failed, msg, _ := try(func() { s.PersistOffs = append(s.PersistOffs, s.DB.Persist().Off) }); failed {
			return "persist panicked: " + msg
		}
	case "reopen":
		var err error
		if failed, msg, _ := try(func() { err = s.reopen() }); failed {
			return "close+reopen panicked: " + msg
		}
		if err != nil {
			return "reopen after clean close failed: " + err.Error()
		}
		if s.OnReopen != nil && !s.Tainted {
			if class, bad := s.OnReopen(s); bad {
				s.Tainted, s.TaintClass = true, class
			}
		}
	case "seq":
		for _, e := range ev.Seq {
			if m := s.Apply(e); m != "" {
				return m
			}
		}
	default:
		panic("drive: bad event kind " + ev.Kind)
	}
	return ""
}

func outcome(failed bool, msg string) string {
	if failed {
		return "refused (" + msg + ")"
	}
	return "succeeded"
}

func outcomeErr(err error) string {
	if err != nil {
		return "must refuse (" + err.Error() + ")"
	}
	return "must succeed"
}

// runTx runs the operations in one update transaction. commit=false aborts
// it at the end (an abandoned transaction). Returns whether it failed.
func (s *Sys) runTx(ops []dbmodel.RowOp, commit bool) (failed bool, msg string) {
	ut := s.DB.NewUpdateTran()
	if ut == nil {
		return true, "could not start update transaction"
	}
	failed, msg, _ = try(func() {
		for _, op := range ops {
			realRowOp(ut, op)
		}
	})
	if failed || !commit {
		ut.Abort()
		return failed, msg
	}
	if r := ut.Complete(); r != "" {
		return true, "commit failed: " + r
	}
	s.Quiesce()
	return false, ""
}

// NoQuiesce disables the merge barrier after commits (used only by the
// delayed-merge schedules of C04).
var NoQuiesce = false

// Quiesce waits until the background merger has merged every committed
// transaction. Commit returns before the merge of its index changes has
// happened (concur.go); sequential histories are made deterministic by
// passing a no-op through the merger's queue, which is processed in order.
func (s *Sys) Quiesce() {
	if NoQuiesce {
		return
	}
	s.DB.RunExclusive("verif_barrier", func() {})
}

func pack(v string) core.Packable { return core.SuStr(v) }

// realRowOp performs one row operation through the UpdateTran API.
func realRowOp(ut *db19.UpdateTran, op dbmodel.RowOp) {
	ts := ut.GetSchema(op.Table) // panics for a nonexistent table
	switch op.Kind {
	case "insert":
		var rb core.RecordBuilder
		for _, c := range ts.Columns {
			if c == "-" {
				rb.Add(pack(""))
			} else {
				rb.Add(pack(op.Row[c]))
			}
		}
		ut.Output(nil, op.Table, rb.Trim().Build())
	case "delete", "update":
		off, rec := findRow(ut, op.Table, ts.Columns, op.Row)
		if off == 0 {
			return
		}
		if op.Kind == "delete" {
			ut.Delete(nil, op.Table, off)
			return
		}
		var rb core.RecordBuilder
		for i, c := range ts.Columns {
			if v, ok := op.Set[c]; ok && c != "-" {
				rb.Add(pack(v))
			} else {
				rb.AddRaw(rec.GetRaw(i))
			}
		}
		ut.Update(nil, op.Table, off, rb.Trim().Build())
	default:
		panic("drive: bad row op " + op.Kind)
	}
}

// findRow scans index 0 for the row whose columns have the given values.
func findRow(ut *db19.UpdateTran, table string, cols []string, key map[string]string) (uint64, core.Record) {
	it := ut.IndexIter(table, 0)
	for it.Next(ut); !it.Eof(); it.Next(ut) {
		off := it.CurOff()
		rec := ut.GetRecord(off)
		ok := true
		for c, v := range key { // a column the table does not have reads as ""
			got := ""
			if i := colIndex(cols, c); i >= 0 && c != "-" {
				got = str(rec, i)
			}
			if got != v {
				ok = false
			}
		}
		if ok {
			return off, rec
		}
	}
	return 0, ""
}

func str(rec core.Record, i int) string {
	raw := rec.GetRaw(i)
	if raw == "" {
		return ""
	}
	if raw[0] != core.PackString {
		return fmt.Sprintf("<raw %x>", raw)
	}
	return raw[1:]
}

// ---------------------------------------------------------------- observation

type FkObs struct {
	Table  string
	Cols   []string
	IIndex int
	Mode   int
}

type IdxObs struct {
	Mode     byte
	Cols     []string
	Fk       FkObs // Table "" if none
	FkToHere []FkObs
	Rows     []string   // rendered logical rows in index order
	Keys     [][]string // index column values of each row in index order
	Size     int64      // sum of record lengths read through this index
}

type TableObs struct {
	Name    string
	Schema  string // Database.Schema(name)
	Parse   string // Schema.String() (re-parsable form)
	Cols    []string
	Derived []string
	Idx     []IdxObs
	HasInfo bool
	Nrows   int
	Size    int64
}

// Obs is everything observable of a database state.
type Obs struct {
	Tables    []TableObs
	InfoNames []string // table names that have an Info entry
	Views     map[string]string
	Err       string // a panic while observing
}

// Text renders an observation canonically (for before/after comparisons).
func (o *Obs) Text() string {
	var sb strings.Builder
	for _, t := range o.Tables {
		fmt.Fprintf(&sb, "%s | %v %v info=%v nrows=%d size=%d\n", t.Schema, t.Cols, t.Derived, t.HasInfo, t.Nrows, t.Size)
		for _, ix := range t.Idx {
			fmt.Fprintf(&sb, "  %c%v fk=%v from=%v rows=%v\n", ix.Mode, ix.Cols, ix.Fk, ix.FkToHere, ix.Rows)
		}
	}
	fmt.Fprintf(&sb, "infos=%v\n", o.InfoNames)
	var vn []string
	for n := range o.Views {
		vn = append(vn, n)
	}
	sort.Strings(vn)
	for _, n := range vn {
		fmt.Fprintf(&sb, "view %s = %s\n", n, o.Views[n])
	}
	if o.Err != "" {
		sb.WriteString("ERROR " + o.Err + "\n")
	}
	return sb.String()
}

type readTran interface {
	GetAllSchema() []*meta.Schema
	GetAllInfo() []*meta.Info
	GetAllViews() []string
	GetInfo(string) *meta.Info
}

// Observe reads everything through a fresh read transaction.
func Observe(db *db19.Database) *Obs {
	rt := db.NewReadTran()
	return ObserveTran(db, rt)
}

// ObserveTran reads everything visible to the given read transaction (which
// may have been moved to a past state with Asof).
func ObserveTran(db *db19.Database, rt *db19.ReadTran) *Obs {
	o := &Obs{Views: map[string]string{}}
	if failed, msg, _ := try(func() { observe(db, rt, o) }); failed {
		o.Err = msg
	}
	return o
}

func observe(db *db19.Database, rt *db19.ReadTran, o *Obs) {
	schemas := rt.GetAllSchema()
	sort.Slice(schemas, func(i, j int) bool { return schemas[i].Table < schemas[j].Table })
	for _, ti := range rt.GetAllInfo() {
		o.InfoNames = append(o.InfoNames, ti.Table)
	}
	sort.Strings(o.InfoNames)
	vs := rt.GetAllViews()
	for i := 0; i+1 < len(vs); i += 2 {
		o.Views[vs[i]] = vs[i+1]
	}
	for _, ts := range schemas {
		t := TableObs{Name: ts.Table, Schema: ts.Schema.String2(), Parse: ts.Schema.String(),
			Cols: append([]string(nil), ts.Columns...), Derived: append([]string(nil), ts.Derived...)}
		info := rt.GetInfo(ts.Table)
		if info != nil {
			t.HasInfo = true
			t.Nrows = info.Nrows
			t.Size = info.Size
		}
		var live []string
		for _, c := range ts.Columns {
			if c != "-" {
				live = append(live, c)
			}
		}
		sort.Strings(live)
		for i := range ts.Indexes {
			ix := &ts.Indexes[i]
			io := IdxObs{Mode: ix.Mode, Cols: append([]string(nil), ix.Columns...)}
			if ix.Fk.Table != "" {
				io.Fk = FkObs{Table: ix.Fk.Table, Cols: append([]string(nil), ix.Fk.Columns...),
					IIndex: ix.Fk.IIndex, Mode: int(ix.Fk.Mode)}
			}
			for _, f := range ix.FkToHere {
				io.FkToHere = append(io.FkToHere, FkObs{Table: f.Table, Cols: append([]string(nil), f.Columns...),
					IIndex: f.IIndex, Mode: int(f.Mode)})
			}
			sort.Slice(io.FkToHere, func(a, b int) bool {
				x, y := io.FkToHere[a], io.FkToHere[b]
				if x.Table != y.Table {
					return x.Table < y.Table
				}
				return x.IIndex < y.IIndex
			})
			if info != nil && i < len(info.Indexes) {
				it := rt.IndexIter(ts.Table, i)
				for it.Next(rt); !it.Eof(); it.Next(rt) {
					rec := rt.GetRecord(it.CurOff())
					io.Size += int64(rec.Len())
					var parts []string
					for _, c := range live {
						parts = append(parts, c+"="+str(rec, colIndex(ts.Columns, c)))
					}
					io.Rows = append(io.Rows, "{"+strings.Join(parts, " ")+"}")
					key := make([]string, len(ix.Columns))
					for k, c := range ix.Columns {
						key[k] = str(rec, colIndex(ts.Columns, c))
					}
					io.Keys = append(io.Keys, key)
				}
			}
			t.Idx = append(t.Idx, io)
		}
		o.Tables = append(o.Tables, t)
	}
}

func colIndex(cols []string, c string) int {
	for i, x := range cols {
		if x == c {
			return i
		}
	}
	return -1
}

// ---------------------------------------------------------------- comparison

func eqStrs(a, b []string) bool {
	if len(a) != len(b) {
		return false
	}
	for i := range a {
		if a[i] != b[i] {
			return false
		}
	}
	return true
}

// CompareOpts relaxes the comparison for databases produced by dump/load or
// compact: dropped-column placeholders are gone and (after load) the index
// order may differ.
type CompareOpts struct {
	Squeezed      bool // "-" columns removed
	AnyIndexOrder bool
}

// CompareObs compares an observation with the model; it returns the list of
// differences (empty if the database shows exactly the model state).
func CompareObs(o *Obs, m *dbmodel.DB, opt CompareOpts) []string {
	var d []string
	add := func(f string, a ...any) { d = append(d, fmt.Sprintf(f, a...)) }
	if o.Err != "" {
		add("reading the database panicked: %s", o.Err)
	}
	var names []string
	for _, t := range o.Tables {
		names = append(names, t.Name)
	}
	if want := m.TableNames(); !eqStrs(names, want) {
		add("tables %v, model %v", names, want)
	}
	if want := m.TableNames(); !eqStrs(o.InfoNames, want) {
		add("tables with an info (row count) entry %v, model tables %v", o.InfoNames, want)
	}
	var vn []string
	for n := range o.Views {
		vn = append(vn, n)
	}
	sort.Strings(vn)
	if want := m.ViewNames(); !eqStrs(vn, want) {
		add("views %v, model %v", vn, want)
	}
	for n, def := range o.Views {
		if want, ok := m.Views[n]; ok && want != def {
			add("view %s = %q, model %q", n, def, want)
		}
	}
	for _, t := range o.Tables {
		mt := m.Tables[t.Name]
		if mt == nil {
			continue
		}
		if !opt.Squeezed && !opt.AnyIndexOrder {
			if want := m.SchemaText(t.Name, true); t.Schema != want {
				add("schema %q, model %q", t.Schema, want)
			}
		}
		wantCols := mt.Cols
		if opt.Squeezed {
			wantCols = mt.LiveCols()
		}
		if !eqStrs(t.Cols, wantCols) {
			add("%s columns %v, model %v", t.Name, t.Cols, wantCols)
		}
		if !eqStrs(t.Derived, mt.Derived) {
			add("%s derived columns %v, model %v", t.Name, t.Derived, mt.Derived)
		}
		if !t.HasInfo {
			add("%s has no info entry", t.Name)
		} else if t.Nrows != len(mt.Rows) {
			add("%s info nrows %d, model %d rows", t.Name, t.Nrows, len(mt.Rows))
		}
		if len(t.Idx) != len(mt.Idx) {
			add("%s has %d indexes, model %d", t.Name, len(t.Idx), len(mt.Idx))
			continue
		}
		haveKey := false
		used := make([]bool, len(mt.Idx))
		for i, ix := range t.Idx {
			if ix.Mode == 'k' {
				haveKey = true
			}
			mi := i
			if opt.AnyIndexOrder {
				mi = mt.FindIndex(ix.Cols)
				if mi < 0 {
					add("%s index %c%v not in the model", t.Name, ix.Mode, ix.Cols)
					continue
				}
			}
			used[mi] = true
			mx := mt.Idx[mi]
			what := fmt.Sprintf("%s index %d %c%v", t.Name, i, ix.Mode, ix.Cols)
			if ix.Mode != mx.Mode || !eqStrs(ix.Cols, mx.Cols) {
				add("%s, model %c%v", what, mx.Mode, mx.Cols)
				continue
			}
			for _, c := range ix.Cols {
				if colIndex(t.Cols, c) < 0 && colIndex(t.Cols, strings.TrimSuffix(c, "_lower!")) < 0 {
					add("%s refers to nonexistent column %s", what, c)
				}
			}
			// outgoing foreign key
			if ix.Fk.Table != mx.FkTable || ix.Fk.Table != "" && (!eqStrs(ix.Fk.Cols, mx.FkCols) || ix.Fk.Mode != mx.FkMode) {
				add("%s foreign key %v, model in %s%v mode %d", what, ix.Fk, mx.FkTable, mx.FkCols, mx.FkMode)
			} else if ix.Fk.Table != "" {
				// the link must name the position of the target index in the
				// target table as it is now
				tt := findTable(o, ix.Fk.Table)
				if tt == nil {
					add("%s foreign key target table %s does not exist", what, ix.Fk.Table)
				} else if ix.Fk.IIndex < 0 || ix.Fk.IIndex >= len(tt.Idx) ||
					!eqStrs(tt.Idx[ix.Fk.IIndex].Cols, ix.Fk.Cols) {
					add("%s foreign key IIndex %d does not select %s%v", what, ix.Fk.IIndex, ix.Fk.Table, ix.Fk.Cols)
				} else if tt.Idx[ix.Fk.IIndex].Mode != 'k' {
					add("%s foreign key target %s%v is not a key", what, ix.Fk.Table, ix.Fk.Cols)
				}
			}
			// incoming links
			var want []string
			for _, r := range m.FkToHere(mt, mi) {
				want = append(want, fmt.Sprint(r.Table, r.Cols, r.Mode))
			}
			sort.Strings(want)
			var got []string
			for _, f := range ix.FkToHere {
				got = append(got, fmt.Sprint(f.Table, f.Cols, f.Mode))
				st := findTable(o, f.Table)
				if st == nil {
					add("%s back link from nonexistent table %s", what, f.Table)
				} else if f.IIndex < 0 || f.IIndex >= len(st.Idx) || !eqStrs(st.Idx[f.IIndex].Cols, f.Cols) {
					add("%s back link %v: IIndex does not select %s%v", what, f, f.Table, f.Cols)
				} else if st.Idx[f.IIndex].Fk.Table != t.Name || !eqStrs(st.Idx[f.IIndex].Fk.Cols, ix.Cols) {
					add("%s back link %v is not matched by a forward link (%v)", what, f, st.Idx[f.IIndex].Fk)
				}
			}
			sort.Strings(got)
			if !eqStrs(got, want) {
				add("%s back links %v, model %v", what, got, want)
			}
			// rows: the same set through every index, ordered by the index
			wantRows := mt.RowsText()
			gotRows := append([]string(nil), ix.Rows...)
			sort.Strings(gotRows)
			if !eqStrs(gotRows, wantRows) {
				add("%s delivers rows %v, model %v", what, ix.Rows, wantRows)
			}
			for r := 1; r < len(ix.Keys); r++ {
				c := cmpTuple(ix.Keys[r-1], ix.Keys[r])
				strict := ix.Mode == 'k' || ix.Mode == 'u' && !allEmpty(ix.Keys[r])
				if c > 0 || c == 0 && strict {
					add("%s rows out of order or duplicated: %v then %v", what, ix.Keys[r-1], ix.Keys[r])
				}
			}
			if t.HasInfo && ix.Size != t.Size {
				add("%s: sum of record sizes %d, info size %d", what, ix.Size, t.Size)
			}
		}
		for mi, u := range used {
			if !u {
				add("%s model index %c%v missing", t.Name, mt.Idx[mi].Mode, mt.Idx[mi].Cols)
			}
		}
		if !haveKey {
			add("%s has no key", t.Name)
		}
	}
	return d
}

func allEmpty(t []string) bool {
	for _, s := range t {
		if s != "" {
			return false
		}
	}
	return true
}

func cmpTuple(a, b []string) int {
	for i := range a {
		if a[i] != b[i] {
			if a[i] < b[i] {
				return -1
			}
			return 1
		}
	}
	return 0
}

func findTable(o *Obs, name string) *TableObs {
	for i := range o.Tables {
		if o.Tables[i].Name == name {
			return &o.Tables[i]
		}
	}
	return nil
}

// Compare observes the live database and compares it with the model.
func (s *Sys) Compare() []string {
	return CompareObs(Observe(s.DB), s.M, CompareOpts{})
}

// Reparse checks that the re-parsable schema text of every table parses back
// (through the implementation's admin parser) to the model's definition.
func Reparse(o *Obs, m *dbmodel.DB) []string {
	var d []string
	for _, t := range o.Tables {
		mt := m.Tables[t.Name]
		if mt == nil {
			continue
		}
		var sch query.Schema
		if failed, msg, _ := try(func() { sch = query.NewAdminParser(t.Parse).Schema() }); failed {
			d = append(d, fmt.Sprintf("schema text %q does not parse: %s", t.Parse, msg))
			continue
		}
		if sch.Table != mt.Name || !eqStrs(sch.Columns, mt.Cols) || !eqStrs(sch.Derived, mt.Derived) ||
			len(sch.Indexes) != len(mt.Idx) {
			d = append(d, fmt.Sprintf("schema text %q re-parses to %s %v %v with %d indexes; model %v %v with %d",
				t.Parse, sch.Table, sch.Columns, sch.Derived, len(sch.Indexes), mt.Cols, mt.Derived, len(mt.Idx)))
			continue
		}
		for i := range sch.Indexes {
			ix, mx := &sch.Indexes[i], mt.Idx[i]
			fkCols := ix.Fk.Columns
			if ix.Fk.Table == "" {
				fkCols = nil
			}
			if ix.Mode != mx.Mode || !eqStrs(ix.Columns, mx.Cols) || ix.Fk.Table != mx.FkTable ||
				!eqStrs(fkCols, mx.FkCols) || ix.Fk.Table != "" && int(ix.Fk.Mode) != mx.FkMode {
				d = append(d, fmt.Sprintf("schema text %q: index %d re-parses to %c%v in %q%v mode %d; model %s",
					t.Parse, i, ix.Mode, ix.Columns, ix.Fk.Table, ix.Fk.Columns, ix.Fk.Mode, dbmodel.IndexText(mx)))
			}
		}
	}
	return d
}

// CheckDb runs the database's own consistency checks (quick and full). Note
// that Database.Check forces a persist first.
func (s *Sys) CheckDb() []string {
	var d []string
	for _, full := range []bool{false, true} {
		var err error
		if failed, msg, _ := try(func() { err = s.DB.Check(full) }); failed {
			d = append(d, fmt.Sprintf("Database.Check(full=%v) panicked: %s", full, msg))
		} else if err != nil {
			d = append(d, fmt.Sprintf("Database.Check(full=%v): %v", full, err))
		}
	}
	return d
}
