package drive

import (
	"crypto/sha256"

	"verif/lib"
	"verif/model/dbmodel"
)

// Explorer is a level-synchronous breadth-first search over event sequences.
//
// The state graph is enumerated on the reference model (pure, deterministic):
// a state is (model state, abstract persistence state), deduplicated on its
// canonical text; the path stored with a state is a shortest event path to
// it. EVERY transition (state, event) of the graph is then executed on the
// real implementation: the shortest path is replayed on a fresh database
// (real + model twin), the event applied, the outcome compared with the
// model and the reached state judged by Judge.
//
// Because the enumeration is deterministic, the worker sub-processes of a
// sharded run (lib.Spec.Procs, each GOMAXPROCS=1 - the database pipeline's
// goroutine hand-offs are several times cheaper on one P) all compute the same
// graph and execute the transitions i with i % NShards == Shard.
type Explorer struct {
	C        *lib.Ctx
	Events   []Event // alphabet
	MaxDepth int     // number of events beyond the seed
	// New makes a fresh system.
	New func() *Sys
	// Abs advances the abstract persistence state (part of the dedup key) over
	// one primitive event; before/after are the model states around it (the
	// same pointer if the event changed nothing). May be nil.
	Abs func(abs string, ev Event, before, after *dbmodel.DB) string
	// Judge is called after the last event of a path has been applied (its
	// outcome already agreed with the model); it returns violations. changed
	// tells whether the event changed the model state.
	// path is the complete history (seed + path + event).
	Judge func(s *Sys, path []Event, changed bool) []Violation
	// Fail reports a violation with the path that produced it.
	Fail func(v Violation, path []Event)
	// MaxTransitions caps the number of transitions executed (0 = none).
	MaxTransitions int

	States, Transitions, Executed, Skipped int
	PerDepth                               []int // new states per depth
}

// Violation is one oracle failure with an optional precise class.
type Violation struct {
	Class string
	Msg   string
}

type node struct {
	path []int // indexes into Events, after the seed
	m    *dbmodel.DB
	abs  string
}

// Replay builds a fresh system and applies the events. It returns the index
// and text of the first outcome disagreement, if any.
func Replay(newSys func() *Sys, evs []Event) (*Sys, int, string) {
	s, bad, msg, _ := ReplayTaint(newSys, evs)
	return s, bad, msg
}

// ReplayTaint is Replay that also returns the index of the event at which
// the system became tainted (Sys.OnReopen), -1 if it did not.
func ReplayTaint(newSys func() *Sys, evs []Event) (s *Sys, bad int, msg string, taintAt int) {
	s = newSys()
	taintAt = -1
	for i, ev := range evs {
		m := s.Apply(ev)
		if s.Tainted && taintAt < 0 {
			taintAt = i
		}
		if m != "" {
			return s, i, m, taintAt
		}
	}
	return s, -1, "", taintAt
}

func hashKey(s string) [16]byte {
	h := sha256.Sum256([]byte(s))
	var k [16]byte
	copy(k[:], h[:16])
	return k
}

// modelStep applies an event to a clone of the model. unmodeled: the model
// declines to decide the event (transition not explored). abs, if not nil,
// is advanced over every primitive event.
func modelStep(m *dbmodel.DB, ev Event, absf func(string, Event, *dbmodel.DB, *dbmodel.DB) string, abs string) (next *dbmodel.DB, nabs string, changed, unmodeled bool) {
	if ev.Kind == "seq" {
		next, nabs = m, abs
		for _, e := range ev.Seq {
			var ch, un bool
			next, nabs, ch, un = modelStep(next, e, absf, nabs)
			if un {
				return m, abs, false, true
			}
			changed = changed || ch
		}
		return next, nabs, changed, false
	}
	next, changed, unmodeled = modelStep1(m, ev)
	nabs = abs
	if absf != nil && !unmodeled {
		if !changed {
			next = m
		}
		nabs = absf(abs, ev, m, next)
	}
	return next, nabs, changed, unmodeled
}

func modelStep1(m *dbmodel.DB, ev Event) (next *dbmodel.DB, changed, unmodeled bool) {
	switch ev.Kind {
	case "admin":
		c := m.Clone()
		if c.Admin(*ev.Req) != nil {
			return m, false, false
		}
		return c, c.Canon() != m.Canon(), false
	case "tx":
		c := m.Clone()
		err := c.Tx(ev.Ops)
		if err == dbmodel.ErrUnmodeled {
			return m, false, true
		}
		if err != nil {
			return m, false, false
		}
		return c, c.Canon() != m.Canon(), false
	}
	return m, false, false
}

// Run explores from the given seed (a fixed event prefix, possibly empty).
func (x *Explorer) Run(seed []Event) {
	c := x.C
	shard0 := c.Shard == 0
	// seed on the model
	m := dbmodel.New()
	abs := ""
	for _, ev := range seed {
		nm, nabs, _, un := modelStep(m, ev, x.Abs, abs)
		if un {
			lib.Infra("seed contains an unmodeled event %s", ev.String())
		}
		m, abs = nm, nabs
	}
	// seed on the implementation (every worker: cheap, and a broken seed must not go unnoticed)
	root, bad, msg := Replay(x.New, seed)
	if bad >= 0 {
		root.Close()
		if shard0 {
			x.Fail(Violation{Msg: "seed: " + msg}, seed[:bad+1])
		}
		return
	}
	root.Close()
	visited := map[[16]byte]bool{hashKey(m.Canon() + "|" + abs): true}
	x.States++
	if shard0 {
		c.State(1)
		c.Distinct(m.Canon() + "|" + abs)
	}
	frontier := []node{{m: m, abs: abs}}
	ti := 0 // global transition counter (identical in every worker)
	stopped := false
	for depth := 1; depth <= x.MaxDepth && len(frontier) > 0 && !stopped; depth++ {
		var next []node
		for _, nd := range frontier {
			for ei, ev := range x.Events {
				nm, nabs, changed, un := modelStep(nd.m, ev, x.Abs, nd.abs)
				if un {
					x.Skipped++
					continue
				}
				x.Transitions++
				mine := ti%c.NShards == c.Shard
				ti++
				if mine && !stopped {
					if c.Expired() || x.MaxTransitions > 0 && x.Transitions > x.MaxTransitions {
						stopped = true
						c.Cap("BFS stopped in depth %d after %d transitions", depth, x.Transitions)
					} else {
						x.execute(seed, nd, ei, changed)
					}
				}
				key := nm.Canon() + "|" + nabs
				k := hashKey(key)
				if !visited[k] {
					visited[k] = true
					x.States++
					if shard0 {
						c.State(1)
						c.Distinct(key)
					}
					p := append(append([]int(nil), nd.path...), ei)
					next = append(next, node{path: p, m: nm, abs: nabs})
				}
			}
		}
		x.PerDepth = append(x.PerDepth, len(next))
		frontier = next
	}
}

// execute replays seed + path + event on the real implementation and judges it.
func (x *Explorer) execute(seed []Event, nd node, ei int, changed bool) {
	c := x.C
	evs := make([]Event, 0, len(seed)+len(nd.path)+1)
	evs = append(evs, seed...)
	for _, p := range nd.path {
		evs = append(evs, x.Events[p])
	}
	evs = append(evs, x.Events[ei])
	s, bad, msg, taintAt := ReplayTaint(x.New, evs)
	defer s.Close()
	x.Executed++
	c.Eval(1)
	c.Transition(1)
	c.TraceValidated(1)
	if taintAt >= 0 && taintAt < len(evs)-1 {
		// a close+reopen inside the path already disagreed with the model: that
		// failure is reported for the prefix path (which is a transition of its
		// own); what follows is its consequence
		c.Count("transitions_after_an_earlier_reopen_failure", 1)
		if s.TaintClass != "" {
			x.Fail(Violation{Class: s.TaintClass, Msg: "consequence of an earlier failed close+reopen (event " +
				evs[taintAt].String() + ")"}, evs[:taintAt+1])
		}
		return
	}
	if bad >= 0 {
		x.Fail(Violation{Msg: msg}, evs[:bad+1])
		return
	}
	for _, v := range x.Judge(s, evs, changed) {
		x.Fail(v, evs)
	}
}

// ModelState is a state of the model-side search with a shortest path to it.
type ModelState struct {
	Path []Event
	M    *dbmodel.DB
}

// EnumerateStates runs the breadth-first search on the model alone and
// returns every distinct model state reachable from seed within maxDepth
// events, each with a shortest path (seed included).
func EnumerateStates(events []Event, seed []Event, maxDepth int) []ModelState {
	m := dbmodel.New()
	for _, ev := range seed {
		nm, _, _, un := modelStep(m, ev, nil, "")
		if un {
			lib.Infra("seed contains an unmodeled event %s", ev.String())
		}
		m = nm
	}
	visited := map[[16]byte]bool{hashKey(m.Canon()): true}
	out := []ModelState{{Path: append([]Event(nil), seed...), M: m}}
	frontier := []int{0}
	for depth := 1; depth <= maxDepth; depth++ {
		var next []int
		for _, fi := range frontier {
			for _, ev := range events {
				nm, _, changed, un := modelStep(out[fi].M, ev, nil, "")
				if un || !changed {
					continue
				}
				k := hashKey(nm.Canon())
				if visited[k] {
					continue
				}
				visited[k] = true
				p := append(append([]Event(nil), out[fi].Path...), ev)
				out = append(out, ModelState{Path: p, M: nm})
				next = append(next, len(out)-1)
			}
		}
		frontier = next
	}
	return out
}
