// Package dbmodel is the reference model of a gSuneido database used by the
// C04/C05/C19/C20/C21 checks: tables (physical columns incl. dropped "-",
// derived columns, indexes/keys with foreign keys), views and rows as plain
// Go maps. It imports nothing from the repository: every rule below was
// written from the documentation (suneidoc/Database: Administration, Foreign
// Keys, Updating) and, where the documentation is silent (exact failure
// conditions of admin requests), from the anchored code paths named in the
// comments. All operations are atomic: on error the model is unchanged.
package dbmodel

import (
	"errors"
	"fmt"
	"sort"
	"strings"
)

// Foreign key modes (as in the documentation: block, cascade, cascade update).
const (
	Block         = 0
	CascadeUpdate = 1
	Cascade       = 3
)

// Index is a key ('k'), index ('i') or unique index ('u').
type Index struct {
	Mode    byte     `json:"mode"`
	Cols    []string `json:"cols"`
	FkTable string   `json:"fk_table,omitempty"`
	FkCols  []string `json:"fk_cols,omitempty"` // target columns; filled (= Cols) when omitted in the request
	FkMode  int      `json:"fk_mode,omitempty"`
	// BestKey is the key that was chosen to make an 'i'/'u' index unique when
	// the index was created (db19/meta/schema.go SetBestKeys). It is part of the
	// model only because "alter drop key" is refused for a key used that way.
	BestKey []string `json:"-"`
}

// Row maps live column name -> value ("" and absent are the same).
type Row map[string]string

type Table struct {
	Name    string
	Cols    []string // physical columns in order, "-" for a dropped column
	Derived []string // capitalised rule columns (and x_lower!)
	Idx     []Index
	Rows    []Row
}

type DB struct {
	Tables map[string]*Table
	Views  map[string]string
}

func New() *DB { return &DB{Tables: map[string]*Table{}, Views: map[string]string{}} }

func (r Row) clone() Row {
	c := Row{}
	for k, v := range r {
		if v != "" {
			c[k] = v
		}
	}
	return c
}

func (ix Index) clone() Index {
	ix.Cols = append([]string(nil), ix.Cols...)
	ix.FkCols = append([]string(nil), ix.FkCols...)
	ix.BestKey = append([]string(nil), ix.BestKey...)
	return ix
}

func (t *Table) Clone() *Table {
	c := &Table{Name: t.Name, Cols: append([]string(nil), t.Cols...),
		Derived: append([]string(nil), t.Derived...)}
	for _, ix := range t.Idx {
		c.Idx = append(c.Idx, ix.clone())
	}
	for _, r := range t.Rows {
		c.Rows = append(c.Rows, r.clone())
	}
	return c
}

func (db *DB) Clone() *DB {
	c := New()
	for n, t := range db.Tables {
		c.Tables[n] = t.Clone()
	}
	for n, d := range db.Views {
		c.Views[n] = d
	}
	return c
}

func (db *DB) TableNames() []string {
	var ns []string
	for n := range db.Tables {
		ns = append(ns, n)
	}
	sort.Strings(ns)
	return ns
}

func (db *DB) ViewNames() []string {
	var ns []string
	for n := range db.Views {
		ns = append(ns, n)
	}
	sort.Strings(ns)
	return ns
}

// LiveCols are the physical columns that have not been dropped.
func (t *Table) LiveCols() []string {
	var cs []string
	for _, c := range t.Cols {
		if c != "-" {
			cs = append(cs, c)
		}
	}
	return cs
}

func contains(list []string, s string) bool {
	for _, x := range list {
		if x == s {
			return true
		}
	}
	return false
}

func equal(a, b []string) bool {
	if len(a) != len(b) {
		return false
	}
	for i := range a {
		if a[i] != b[i] {
			return false
		}
	}
	return true
}

func (t *Table) FindIndex(cols []string) int {
	for i := range t.Idx {
		if equal(t.Idx[i].Cols, cols) {
			return i
		}
	}
	return -1
}

// FkRef is one foreign key pointing at an index ("from S(cols)").
type FkRef struct {
	Table  string   // source table
	IIndex int      // position of the source index in the source table
	Cols   []string // source index columns
	Mode   int
}

// FkToHere lists the foreign keys of all tables that point at index i of
// table t (both directions of a link are derived from the source side, so they
// cannot disagree in the model).
func (db *DB) FkToHere(t *Table, i int) []FkRef {
	var refs []FkRef
	for _, sn := range db.TableNames() {
		s := db.Tables[sn]
		for j, ix := range s.Idx {
			if ix.FkTable == t.Name && equal(ix.FkCols, t.Idx[i].Cols) {
				refs = append(refs, FkRef{Table: sn, IIndex: j, Cols: ix.Cols, Mode: ix.FkMode})
			}
		}
	}
	return refs
}

// ---------------------------------------------------------------- text

func joinCols(cols []string) string { return "(" + strings.Join(cols, ",") + ")" }

// IndexText renders one index the way Schema.String() does:
// key(a) | index(b,c) | index unique(d) [ in T[(cols)] [ cascade [ update]]]
func IndexText(ix Index) string {
	s := map[byte]string{'k': "key", 'i': "index", 'u': "index unique"}[ix.Mode]
	s += joinCols(ix.Cols)
	if ix.FkTable != "" {
		s += " in " + ix.FkTable
		if !equal(ix.FkCols, ix.Cols) {
			s += joinCols(ix.FkCols)
		}
		switch ix.FkMode {
		case Cascade:
			s += " cascade"
		case CascadeUpdate:
			s += " cascade update"
		}
	}
	return s
}

// SchemaText is the expected Database.Schema(table) text: table, all physical
// and derived columns, the indexes in creation order, each followed by its
// sorted " from S(cols)" back links. withFrom=false gives the re-parsable
// form (Schema.String()).
func (db *DB) SchemaText(name string, withFrom bool) string {
	t := db.Tables[name]
	if t == nil {
		return ""
	}
	var sb strings.Builder
	sb.WriteString(t.Name + " (" + strings.Join(append(append([]string(nil), t.Cols...), t.Derived...), ",") + ") ")
	for i, ix := range t.Idx {
		if i > 0 {
			sb.WriteString(" ")
		}
		sb.WriteString(IndexText(ix))
		if withFrom {
			var from []string
			for _, r := range db.FkToHere(t, i) {
				from = append(from, " from "+r.Table+joinCols(r.Cols))
			}
			sort.Strings(from)
			sb.WriteString(strings.Join(from, ""))
		}
	}
	return sb.String()
}

func rowText(r Row, cols []string) string {
	var parts []string
	for _, c := range cols {
		parts = append(parts, c+"="+r[c])
	}
	return "{" + strings.Join(parts, " ") + "}"
}

// RowsText is the sorted list of logical rows (live columns only).
func (t *Table) RowsText() []string {
	cols := t.LiveCols()
	sort.Strings(cols)
	var out []string
	for _, r := range t.Rows {
		out = append(out, rowText(r, cols))
	}
	sort.Strings(out)
	return out
}

// Canon is the canonical text of the whole model state (used to deduplicate
// BFS states). bestKeys adds the hidden BestKey choice, which influences which
// later "alter drop key" requests succeed.
func (db *DB) Canon() string {
	var sb strings.Builder
	for _, n := range db.TableNames() {
		t := db.Tables[n]
		sb.WriteString(db.SchemaText(n, false))
		for _, ix := range t.Idx {
			if ix.Mode != 'k' {
				sb.WriteString(" bk" + joinCols(ix.BestKey))
			}
		}
		sb.WriteString(" " + strings.Join(t.RowsText(), "") + "\n")
	}
	for _, n := range db.ViewNames() {
		sb.WriteString("view " + n + " = " + db.Views[n] + "\n")
	}
	return sb.String()
}

// LogicalCanon ignores dropped-column placeholders, index order and BestKey:
// what dump/load/compact must preserve.
func (db *DB) LogicalCanon() string {
	var sb strings.Builder
	for _, n := range db.TableNames() {
		t := db.Tables[n]
		sb.WriteString(n + " (" + strings.Join(append(t.LiveCols(), t.Derived...), ",") + ")")
		var ixs []string
		for _, ix := range t.Idx {
			ixs = append(ixs, IndexText(ix))
		}
		sort.Strings(ixs)
		sb.WriteString(" " + strings.Join(ixs, " "))
		sb.WriteString(" " + strings.Join(t.RowsText(), "") + "\n")
	}
	for _, n := range db.ViewNames() {
		sb.WriteString("view " + n + " = " + db.Views[n] + "\n")
	}
	return sb.String()
}

// ---------------------------------------------------------------- admin requests

// Req is one admin request in structured form; Text() renders the request
// string that is handed to the implementation's parser.
type Req struct {
	Kind  string   `json:"kind"` // create ensure alter_create alter_drop alter_rename rename view drop
	Table string   `json:"table,omitempty"`
	Cols  []string `json:"cols,omitempty"` // physical, Capitalised (derived) in request order
	Idx   []Index  `json:"idx,omitempty"`
	From  []string `json:"from,omitempty"` // alter_rename: columns; rename: [from]
	To    []string `json:"to,omitempty"`
	Def   string   `json:"def,omitempty"` // view definition
	// NoCols: the request has no "(columns)" part at all
	NoCols bool `json:"no_cols,omitempty"`
}

func idxReqText(ix Index) string {
	s := map[byte]string{'k': "key", 'i': "index", 'u': "index unique"}[ix.Mode]
	s += joinCols(ix.Cols)
	if ix.FkTable != "" {
		s += " in " + ix.FkTable
		if len(ix.FkCols) > 0 {
			s += joinCols(ix.FkCols)
		}
		switch ix.FkMode {
		case Cascade:
			s += " cascade"
		case CascadeUpdate:
			s += " cascade update"
		}
	}
	return s
}

func (r Req) spec() string {
	var parts []string
	if !r.NoCols {
		parts = append(parts, joinCols(r.Cols))
	}
	for _, ix := range r.Idx {
		parts = append(parts, idxReqText(ix))
	}
	return strings.Join(parts, " ")
}

// Text is the admin request string.
func (r Req) Text() string {
	switch r.Kind {
	case "create":
		return "create " + r.Table + " " + r.spec()
	case "ensure":
		return "ensure " + r.Table + " " + r.spec()
	case "alter_create":
		return "alter " + r.Table + " create " + r.spec()
	case "alter_drop":
		return "alter " + r.Table + " drop " + r.spec()
	case "alter_rename":
		var ps []string
		for i := range r.From {
			ps = append(ps, r.From[i]+" to "+r.To[i])
		}
		return "alter " + r.Table + " rename " + strings.Join(ps, ", ")
	case "rename":
		return "rename " + r.From[0] + " to " + r.To[0]
	case "view":
		return "view " + r.Table + " = " + r.Def
	case "drop":
		return "drop " + r.Table
	}
	panic("dbmodel: bad request kind " + r.Kind)
}

func isSystemTable(n string) bool {
	switch n {
	case "tables", "columns", "indexes", "views":
		return true
	}
	return false
}

func isDerivedName(c string) bool {
	return c != "" && (c[0] >= 'A' && c[0] <= 'Z' || strings.HasSuffix(c, "_lower!"))
}

// splitCols separates a request's column list into physical and derived
// columns and rejects duplicates (the parser does: "duplicate column").
func splitCols(cols []string) (phys, der []string, err error) {
	for _, c := range cols {
		if isDerivedName(c) {
			if contains(der, c) {
				return nil, nil, errors.New("duplicate column: " + c)
			}
			der = append(der, c)
		} else if c == "-" {
			phys = append(phys, c)
		} else {
			if contains(phys, c) {
				return nil, nil, errors.New("duplicate column: " + c)
			}
			phys = append(phys, c)
		}
	}
	return phys, der, nil
}

// normIdx fills FkCols the way the parser does (omitted => index columns).
func normIdx(ixs []Index) []Index {
	var out []Index
	for _, ix := range ixs {
		ix = ix.clone()
		ix.BestKey = nil
		if ix.FkTable != "" && len(ix.FkCols) == 0 {
			ix.FkCols = append([]string(nil), ix.Cols...)
		}
		if ix.FkTable == "" {
			ix.FkCols = nil
			ix.FkMode = 0
		}
		out = append(out, ix)
	}
	return out
}

func sameIndexDef(a, b Index) bool {
	return a.Mode == b.Mode && equal(a.Cols, b.Cols) && a.FkTable == b.FkTable &&
		a.FkMode == b.FkMode && equal(a.FkCols, b.FkCols)
}

// Admin applies one admin request. A nil result means the request must
// succeed, an error that it must be refused leaving everything unchanged.
func (db *DB) Admin(r Req) error {
	c := db.Clone()
	if err := c.admin(r); err != nil {
		return err
	}
	if err := c.validate(); err != nil {
		return err
	}
	db.Tables, db.Views = c.Tables, c.Views
	return nil
}

func (db *DB) admin(r Req) error {
	switch r.Kind {
	case "create":
		if isSystemTable(r.Table) {
			return errors.New("can't modify system table")
		}
		phys, der, err := splitCols(r.Cols)
		if err != nil {
			return err
		}
		if db.Tables[r.Table] != nil {
			return errors.New("can't create existing table")
		}
		return db.create(r.Table, phys, der, normIdx(r.Idx))
	case "ensure":
		return db.ensure(r)
	case "alter_create":
		return db.alterCreate(r)
	case "alter_drop":
		return db.alterDrop(r)
	case "alter_rename":
		return db.alterRename(r)
	case "rename":
		return db.renameTable(r.From[0], r.To[0])
	case "view":
		if isSystemTable(r.Table) {
			return errors.New("can't modify system table")
		}
		if _, ok := db.Views[r.Table]; ok {
			return errors.New("view already exists")
		}
		db.Views[r.Table] = strings.TrimSpace(r.Def)
		return nil
	case "drop":
		if isSystemTable(r.Table) {
			return errors.New("can't modify system table")
		}
		if _, ok := db.Views[r.Table]; ok { // a view is dropped first
			delete(db.Views, r.Table)
			return nil
		}
		t := db.Tables[r.Table]
		if t == nil {
			return errors.New("can't drop nonexistent table")
		}
		for i := range t.Idx {
			for _, ref := range db.FkToHere(t, i) {
				if ref.Table != t.Name {
					return errors.New("can't drop table used by foreign keys")
				}
			}
		}
		delete(db.Tables, r.Table)
		return nil
	}
	return errors.New("invalid admin")
}

// checkTable: the structural rules of a table definition
// (db19/meta/schema/schema.go Schema.Check): a key is required, index columns
// must be columns of the table, a non-key index needs columns, no two indexes
// over the same columns.
func (t *Table) check() error {
	for _, d := range t.Derived {
		if strings.HasSuffix(d, "_lower!") && !contains(t.Cols, strings.TrimSuffix(d, "_lower!")) {
			return errors.New("_lower! nonexistent column")
		}
	}
	haveKey := false
	for i, ix := range t.Idx {
		if ix.Mode == 'k' {
			haveKey = true
		}
		if ix.Mode != 'k' && len(ix.Cols) == 0 {
			return errors.New("index columns must not be empty")
		}
		for _, c := range ix.Cols {
			if !contains(t.Cols, c) && !contains(t.Cols, strings.TrimSuffix(c, "_lower!")) {
				return errors.New("invalid index column: " + c)
			}
		}
		for j := 0; j < i; j++ {
			if equal(t.Idx[j].Cols, ix.Cols) {
				return errors.New("duplicate index")
			}
		}
	}
	if !haveKey {
		return errors.New("key required")
	}
	return nil
}

// validate: every table is well formed and every foreign key points at an
// existing key of an existing table (meta.go metaUpdate.validate).
func (db *DB) validate() error {
	for _, n := range db.TableNames() {
		t := db.Tables[n]
		if err := t.check(); err != nil {
			return fmt.Errorf("%s: %w", n, err)
		}
		for _, ix := range t.Idx {
			if ix.FkTable == "" {
				continue
			}
			tt := db.Tables[ix.FkTable]
			if tt == nil {
				return errors.New("foreign key references nonexistent table")
			}
			j := tt.FindIndex(ix.FkCols)
			if j < 0 {
				return errors.New("foreign key references nonexistent index")
			}
			if tt.Idx[j].Mode != 'k' {
				return errors.New("foreign key must point to key")
			}
		}
	}
	return nil
}

// setBestKeys chooses, for the 'i'/'u' indexes from position nold on, the key
// needing the fewest additional columns (ties: fewer key columns, then first).
func (t *Table) setBestKeys(nold int) {
	for i := nold; i < len(t.Idx); i++ {
		ix := &t.Idx[i]
		if ix.Mode == 'k' {
			continue
		}
		best := -1
		bestN, bestCols := 1<<30, 1<<30
		for j, k := range t.Idx {
			if k.Mode != 'k' {
				continue
			}
			n := 0
			for _, c := range k.Cols {
				if !contains(ix.Cols, c) {
					n++
				}
			}
			if n < bestN || n == bestN && len(k.Cols) < bestCols {
				best, bestN, bestCols = j, n, len(k.Cols)
			}
		}
		if best >= 0 {
			ix.BestKey = append([]string{}, t.Idx[best].Cols...)
		}
	}
}

// ErrQuirkSelfRefFirst: see create.
var ErrQuirkSelfRefFirst = errors.New("create: self-referencing foreign key before another foreign key (implementation refuses)")

func (db *DB) create(name string, phys, der []string, idx []Index) error {
	t := &Table{Name: name, Cols: phys, Derived: der, Idx: idx}
	if err := t.check(); err != nil {
		return err
	}
	// Mirrored implementation quirk (reported as an observation, it does not
	// contradict any of the checked properties because the request is refused
	// and nothing changes): when a NEW table is created, a self-referencing
	// foreign key index that precedes a foreign key index to another table makes
	// meta.go createFkeys replace the table's entry by a copy, the later index's
	// IIndex is then set on the stale original and validation refuses the
	// request with "foreign key IIndex mismatch".
	self := false
	for _, ix := range idx {
		if ix.FkTable == name {
			self = true
		} else if ix.FkTable != "" && self {
			return ErrQuirkSelfRefFirst
		}
	}
	t.setBestKeys(0)
	db.Tables[name] = t
	return nil // foreign key targets are checked by validate
}

func (db *DB) ensure(r Req) error {
	if isSystemTable(r.Table) {
		return errors.New("can't modify system table")
	}
	phys, der, err := splitCols(r.Cols)
	if err != nil {
		return err
	}
	idx := normIdx(r.Idx)
	t := db.Tables[r.Table]
	if t == nil {
		return db.create(r.Table, phys, der, idx)
	}
	// fast path of Database.Ensure (schemaSubset): all columns present and
	// every index present => nothing to do, but an index that exists with a
	// different definition is refused ("index exists but is different"). The
	// indexes are looked at in request order and the first missing one ends the
	// comparison.
	subset := true
	for _, c := range phys {
		if !contains(t.Cols, c) {
			subset = false
		}
	}
	for _, c := range der {
		if !contains(t.Derived, c) {
			subset = false
		}
	}
	if subset {
		all := true
		for _, ix := range idx {
			j := t.FindIndex(ix.Cols)
			if j < 0 {
				all = false
				break
			}
			if !sameIndexDef(t.Idx[j], ix) {
				return errors.New("ensure: index exists but is different")
			}
		}
		if all {
			return nil
		}
	}
	var newIdx []Index
	for _, ix := range idx {
		if t.FindIndex(ix.Cols) < 0 {
			newIdx = append(newIdx, ix)
		}
	}
	for _, c := range phys {
		if !contains(t.Cols, c) {
			t.Cols = append(t.Cols, c)
		}
	}
	for _, c := range der {
		if !contains(t.Derived, c) {
			t.Derived = append(t.Derived, c)
		}
	}
	return db.addIndexes(t, newIdx)
}

// addIndexes appends new indexes to an existing table; with existing rows the
// new indexes must be buildable: no duplicate values in a key / non-empty
// unique index and every non-empty foreign key value present in the target.
func (db *DB) addIndexes(t *Table, newIdx []Index) error {
	nold := len(t.Idx)
	for _, ix := range newIdx {
		if t.FindIndex(ix.Cols) >= 0 {
			return errors.New("duplicate index")
		}
		t.Idx = append(t.Idx, ix)
	}
	if err := t.check(); err != nil {
		return err
	}
	t.setBestKeys(nold)
	for i := nold; i < len(t.Idx); i++ {
		ix := t.Idx[i]
		if ix.FkTable != "" {
			tt := db.Tables[ix.FkTable]
			if tt == nil {
				return errors.New("can't create foreign key to nonexistent table")
			}
			if tt.FindIndex(ix.FkCols) < 0 {
				return errors.New("can't create foreign key to nonexistent index")
			}
		}
		if len(t.Rows) == 0 {
			continue
		}
		if err := t.uniqueOK(i); err != nil {
			return err
		}
		if ix.FkTable != "" {
			for _, row := range t.Rows {
				if !db.fkTargetExists(ix, row) {
					return errors.New("cannot build index: blocked by foreign key")
				}
			}
		}
	}
	return nil
}

func (db *DB) alterCreate(r Req) error {
	if isSystemTable(r.Table) {
		return errors.New("can't modify system table")
	}
	phys, der, err := splitCols(r.Cols)
	if err != nil {
		return err
	}
	t := db.Tables[r.Table]
	if t == nil {
		return errors.New("can't alter nonexistent table")
	}
	for _, c := range phys {
		if contains(t.Cols, c) {
			return errors.New("can't create existing column")
		}
	}
	for _, c := range der {
		if contains(t.Derived, c) {
			return errors.New("can't create existing column")
		}
	}
	t.Cols = append(t.Cols, phys...)
	t.Derived = append(t.Derived, der...)
	return db.addIndexes(t, normIdx(r.Idx))
}

func capitalize(s string) string {
	if s == "" {
		return s
	}
	return strings.ToUpper(s[:1]) + s[1:]
}

func uncapitalize(s string) string {
	if s == "" {
		return s
	}
	return strings.ToLower(s[:1]) + s[1:]
}

func (db *DB) alterDrop(r Req) error {
	if isSystemTable(r.Table) {
		return errors.New("can't modify system table")
	}
	phys, der, err := splitCols(r.Cols)
	if err != nil {
		return err
	}
	t := db.Tables[r.Table]
	if t == nil {
		return errors.New("can't alter nonexistent table")
	}
	drop := normIdx(r.Idx)
	// indexes are dropped before columns (meta.go dropIndexes)
	for _, d := range drop {
		exists := false
		for i, ix := range t.Idx {
			if equal(ix.Cols, d.Cols) {
				if len(db.FkToHere(t, i)) != 0 {
					return errors.New("can't drop index used by foreign keys")
				}
				exists = true
			} else if equal(ix.BestKey, d.Cols) && (ix.Mode != 'k' || len(d.Cols) == 0) {
				return errors.New("can't drop key used to make index unique")
			}
		}
		if !exists {
			return errors.New("can't drop nonexistent index")
		}
	}
	if len(drop) > 0 {
		var keep []Index
		haveKey := false
		for _, ix := range t.Idx {
			dropped := false
			for _, d := range drop {
				if equal(ix.Cols, d.Cols) {
					dropped = true
				}
			}
			if !dropped {
				keep = append(keep, ix)
				if ix.Mode == 'k' {
					haveKey = true
				}
			}
		}
		if !haveKey {
			return errors.New("can't drop all keys")
		}
		t.Idx = keep
	}
	inIndex := func(c string) bool {
		for _, ix := range t.Idx {
			if contains(ix.Cols, c) {
				return true
			}
		}
		return false
	}
	for _, c := range phys {
		if inIndex(c) {
			return errors.New("can't drop column used by index")
		}
		if u := uncapitalize(c); contains(t.Cols, u) && u != "-" {
			for i := range t.Cols {
				if t.Cols[i] == u {
					t.Cols[i] = "-"
					break
				}
			}
			for _, row := range t.Rows {
				delete(row, u)
			}
		} else if cc := capitalize(c); contains(t.Derived, cc) {
			t.Derived = without(t.Derived, cc)
		} else {
			return errors.New("can't drop nonexistent column")
		}
	}
	for _, c := range der {
		if !contains(t.Derived, c) {
			return errors.New("can't drop nonexistent column")
		}
		if inIndex(c) {
			return errors.New("can't drop column used by index")
		}
		t.Derived = without(t.Derived, c)
	}
	return nil
}

func without(list []string, s string) []string {
	var out []string
	for _, x := range list {
		if x != s {
			out = append(out, x)
		}
	}
	return out
}

func replaceAll(list []string, from, to string) []string {
	out := append([]string(nil), list...)
	for i := range out {
		if out[i] == from {
			out[i] = to
		}
	}
	return out
}

func (db *DB) alterRename(r Req) error {
	if isSystemTable(r.Table) {
		return errors.New("can't modify system table")
	}
	t := db.Tables[r.Table]
	if t == nil {
		return errors.New("can't alter nonexistent table")
	}
	for i, from := range r.From {
		to := r.To[i]
		if from == "-" || !contains(t.Cols, from) {
			return errors.New("can't rename nonexistent column")
		}
		if contains(t.Cols, to) {
			return errors.New("can't rename to existing column")
		}
		t.Cols = replaceAll(t.Cols, from, to)
		t.Derived = replaceAll(t.Derived, from, to)
		for j := range t.Idx {
			t.Idx[j].Cols = replaceAll(t.Idx[j].Cols, from, to)
			t.Idx[j].BestKey = replaceAll(t.Idx[j].BestKey, from, to)
		}
		// foreign keys of any table (including this one) that name this
		// table's columns follow the rename
		for _, s := range db.Tables {
			for j := range s.Idx {
				if s.Idx[j].FkTable == t.Name {
					s.Idx[j].FkCols = replaceAll(s.Idx[j].FkCols, from, to)
				}
			}
		}
		for _, row := range t.Rows {
			if v, ok := row[from]; ok {
				delete(row, from)
				row[to] = v
			}
		}
	}
	for i := range t.Idx {
		for j := 0; j < i; j++ {
			if equal(t.Idx[i].Cols, t.Idx[j].Cols) {
				return errors.New("rename causes duplicate index")
			}
		}
	}
	return nil
}

func (db *DB) renameTable(from, to string) error {
	if isSystemTable(from) || isSystemTable(to) {
		return errors.New("can't modify system table")
	}
	t := db.Tables[from]
	if t == nil {
		return errors.New("can't rename nonexistent table")
	}
	if db.Tables[to] != nil {
		return errors.New("can't rename to existing table")
	}
	// Foreign keys that point at the renamed table are not rewritten
	// (meta.go RenameTable only re-registers the table's own outgoing keys), so
	// the request is refused while any table - including the table itself -
	// references it: validate() then finds a key to a nonexistent table.
	delete(db.Tables, from)
	t.Name = to
	db.Tables[to] = t
	return nil
}

// ---------------------------------------------------------------- rows

// ErrUnmodeled marks a situation this model deliberately does not decide
// (finding F2 of property C08: delete of a target row under "cascade update").
var ErrUnmodeled = errors.New("dbmodel: not modeled")

// RowOp is one data operation of a transaction.
type RowOp struct {
	Kind  string            `json:"kind"` // insert | delete | update
	Table string            `json:"table"`
	Row   map[string]string `json:"row,omitempty"` // insert: the row; delete/update: key column values identifying the row
	Set   map[string]string `json:"set,omitempty"` // update: new values
}

func (op RowOp) String() string {
	ks := func(m map[string]string) string {
		var keys []string
		for k := range m {
			keys = append(keys, k)
		}
		sort.Strings(keys)
		var ps []string
		for _, k := range keys {
			ps = append(ps, k+":"+m[k])
		}
		return "{" + strings.Join(ps, ",") + "}"
	}
	switch op.Kind {
	case "insert":
		return "insert " + ks(op.Row) + " into " + op.Table
	case "delete":
		return "delete " + op.Table + " " + ks(op.Row)
	}
	return "update " + op.Table + " " + ks(op.Row) + " set " + ks(op.Set)
}

func tuple(r Row, cols []string) []string {
	out := make([]string, len(cols))
	for i, c := range cols {
		out[i] = r[c]
	}
	return out
}

func allEmpty(t []string) bool {
	for _, s := range t {
		if s != "" {
			return false
		}
	}
	return true
}

// uniqueOK: no two rows agree on a key, or on a unique index unless all its
// values are empty ("the only duplicates allowed are empty values").
func (t *Table) uniqueOK(i int) error {
	ix := t.Idx[i]
	if ix.Mode == 'i' {
		return nil
	}
	seen := map[string]bool{}
	for _, r := range t.Rows {
		tp := tuple(r, ix.Cols)
		if ix.Mode == 'u' && allEmpty(tp) {
			continue
		}
		k := strings.Join(tp, "\x00")
		if seen[k] {
			return fmt.Errorf("duplicate key: %s in %s", joinCols(ix.Cols), t.Name)
		}
		seen[k] = true
	}
	return nil
}

// fkTargetExists: "Rows in the source table must have a matching row in the
// target table ... Empty foreign keys are allowed".
func (db *DB) fkTargetExists(ix Index, row Row) bool {
	n := len(ix.FkCols)
	if n > len(ix.Cols) {
		n = len(ix.Cols)
	}
	key := tuple(row, ix.Cols[:n])
	if allEmpty(key) {
		return true
	}
	tt := db.Tables[ix.FkTable]
	if tt == nil {
		return false
	}
	for _, tr := range tt.Rows {
		if equal(tuple(tr, ix.FkCols[:n]), key) {
			return true
		}
	}
	return false
}

func (t *Table) find(key map[string]string) int {
	for i, r := range t.Rows {
		ok := true
		for k, v := range key {
			if r[k] != v {
				ok = false
			}
		}
		if ok {
			return i
		}
	}
	return -1
}

// Tx applies a transaction atomically: either every operation succeeds and
// the result is committed, or the model is unchanged and the error returned.
// Deleting/updating a row that does not exist is a no-op.
func (db *DB) Tx(ops []RowOp) error {
	c := db.Clone()
	for _, op := range ops {
		if err := c.rowOp(op); err != nil {
			return err
		}
	}
	db.Tables = c.Tables
	return nil
}

func (db *DB) rowOp(op RowOp) error {
	t := db.Tables[op.Table]
	if t == nil {
		return errors.New("nonexistent table: " + op.Table)
	}
	switch op.Kind {
	case "insert":
		row := Row{}
		for _, c := range t.LiveCols() {
			if v := op.Row[c]; v != "" {
				row[c] = v
			}
		}
		return db.insert(t, row)
	case "delete":
		i := t.find(op.Row)
		if i < 0 {
			return nil
		}
		return db.deleteRow(t, i)
	case "update":
		i := t.find(op.Row)
		if i < 0 {
			return nil
		}
		return db.update(t, i, op.Set, true)
	}
	return errors.New("bad row op")
}

func (db *DB) insert(t *Table, row Row) error {
	for i, ix := range t.Idx {
		if ix.FkTable != "" && !db.fkTargetExists(ix, row) {
			return errors.New("output blocked by foreign key")
		}
		_ = i
	}
	t.Rows = append(t.Rows, row)
	for i := range t.Idx {
		if err := t.uniqueOK(i); err != nil {
			t.Rows = t.Rows[:len(t.Rows)-1]
			return err
		}
	}
	return nil
}

// sources returns the rows of ref's table that reference the target key.
func (db *DB) sources(ref FkRef, key []string) (s *Table, rows []int) {
	s = db.Tables[ref.Table]
	for i, r := range s.Rows {
		if equal(tuple(r, ref.Cols[:len(key)]), key) {
			rows = append(rows, i)
		}
	}
	return s, rows
}

func (db *DB) deleteRow(t *Table, ri int) error {
	row := t.Rows[ri]
	// block first (for all indexes), then cascade
	for i, ix := range t.Idx {
		key := tuple(row, ix.Cols)
		if allEmpty(key) {
			continue
		}
		for _, ref := range db.FkToHere(t, i) {
			_, srcs := db.sources(ref, key)
			if len(srcs) == 0 {
				continue
			}
			switch ref.Mode {
			case Block:
				return errors.New("delete blocked by foreign key")
			case CascadeUpdate:
				return ErrUnmodeled
			}
		}
	}
	// remove the row itself first so that self references terminate
	t.Rows = append(append([]Row(nil), t.Rows[:ri]...), t.Rows[ri+1:]...)
	for i, ix := range t.Idx {
		key := tuple(row, ix.Cols)
		if allEmpty(key) {
			continue
		}
		for _, ref := range db.FkToHere(t, i) {
			if ref.Mode != Cascade {
				continue
			}
			for {
				s, srcs := db.sources(ref, key)
				if len(srcs) == 0 {
					break
				}
				if err := db.deleteRow(s, srcs[0]); err != nil {
					return err
				}
			}
		}
	}
	return nil
}

func (db *DB) update(t *Table, ri int, set map[string]string, outputBlock bool) error {
	old := t.Rows[ri]
	nw := old.clone()
	for _, c := range t.LiveCols() {
		if v, ok := set[c]; ok {
			if v == "" {
				delete(nw, c)
			} else {
				nw[c] = v
			}
		}
	}
	changed := false
	for _, c := range t.LiveCols() {
		if old[c] != nw[c] {
			changed = true
		}
	}
	if !changed {
		return nil
	}
	type casc struct {
		ref      FkRef
		old, new []string
	}
	var cascades []casc
	for i, ix := range t.Idx {
		ok, nk := tuple(old, ix.Cols), tuple(nw, ix.Cols)
		if equal(ok, nk) {
			continue
		}
		if !allEmpty(ok) {
			for _, ref := range db.FkToHere(t, i) {
				_, srcs := db.sources(ref, ok)
				if len(srcs) == 0 {
					continue
				}
				if ref.Mode == Block {
					return errors.New("update blocked by foreign key")
				}
				cascades = append(cascades, casc{ref, ok, nk})
			}
		}
		if outputBlock && ix.FkTable != "" && !db.fkTargetExists(ix, nw) {
			return errors.New("update blocked by foreign key")
		}
	}
	t.Rows[ri] = nw
	for i := range t.Idx {
		if err := t.uniqueOK(i); err != nil {
			return err
		}
	}
	for _, cs := range cascades {
		for {
			s, srcs := db.sources(cs.ref, cs.old)
			if len(srcs) == 0 {
				break
			}
			set := map[string]string{}
			for k, c := range cs.ref.Cols[:len(cs.new)] {
				set[c] = cs.new[k]
			}
			if err := db.update(s, srcs[0], set, false); err != nil {
				return err
			}
		}
	}
	return nil
}

// SortedBy returns the rows ordered by the given columns (ties keep an
// arbitrary but deterministic order) - the order an index over cols must
// deliver them in, as far as cols decide it.
func (t *Table) SortedBy(cols []string) []Row {
	rows := append([]Row(nil), t.Rows...)
	sort.SliceStable(rows, func(i, j int) bool {
		a, b := tuple(rows[i], cols), tuple(rows[j], cols)
		for k := range a {
			if a[k] != b[k] {
				return a[k] < b[k]
			}
		}
		return false
	})
	return rows
}

// RowText renders a row over the table's live columns (sorted by name).
func (t *Table) RowText(r Row) string {
	cols := t.LiveCols()
	sort.Strings(cols)
	return rowText(r, cols)
}
