// Package cspipe wires clients to the REAL gSuneido server connection code
// (dbms.newServerConn through the verif overlay export dbms.VerifServeConn)
// over an in-memory net.Pipe, including the hello exchange and the TLS
// upgrade, exactly as dbms/cs_test.go does. Used by checks C40 and C41.
//
// It also contains RawClient: an independent, minimal implementation of the
// wire format (mux frame header + request encoding) so that a check can send
// ANY request, well-formed or not, without going through DbmsClient.
package cspipe

import (
	"crypto/tls"
	"encoding/binary"
	"errors"
	"fmt"
	"io"
	"log"
	"net"
	"runtime"
	"sync"
	"sync/atomic"
	"time"

	"github.com/apmckinlay/gsuneido/core"
	"github.com/apmckinlay/gsuneido/db19"
	"github.com/apmckinlay/gsuneido/dbms"
	"github.com/apmckinlay/gsuneido/options"
)

// IOTimeout bounds every client side read/write. It is NOT an oracle: when it
// expires the execution is reported as hung (an infrastructure error).
var IOTimeout = 20 * time.Second

var initOnce sync.Once

// FatalCount counts calls of core.Fatal (e.g. DbmsClient's "lost connection").
var FatalCount atomic.Int64

// LastFatal is the text of the most recent core.Fatal.
var LastFatal atomic.Value

// Init sets the process-global knobs the server code reads. Call once.
func Init() {
	initOnce.Do(func() {
		options.BuiltDate = "Dec 29 2020 12:34"
		options.Action = "server"
		log.SetOutput(fatalCatcher{})
		// core.Fatal ends with core.Exit; in the harness it ends the calling
		// goroutine only (the client mux reader calls Fatal("lost connection")
		// whenever a connection is closed)
		core.Exit = func(int) {
			FatalCount.Add(1)
			runtime.Goexit()
		}
		dbms.VerifNoAuthDelay()
	})
}

// fatalCatcher swallows log output but remembers "FATAL:" lines.
type fatalCatcher struct{}

func (fatalCatcher) Write(p []byte) (int, error) {
	s := string(p)
	for i := 0; i+6 < len(s); i++ {
		if s[i:i+6] == "FATAL:" {
			LastFatal.Store(s[i:])
			break
		}
	}
	return len(p), nil
}

// Server is one database served through the real server connection code.
type Server struct {
	Db    *db19.Database
	Local *dbms.DbmsLocal
	mu    sync.Mutex
	conns []net.Conn
	done  []chan struct{}
}

// NewServer wraps db (which must already have a checker) and makes it the
// process-wide dbms of the server worker threads (core.GetDbms), as
// gsuneido.go does in server mode. One Server at a time per process.
func NewServer(db *db19.Database) *Server {
	Init()
	s := &Server{Db: db, Local: dbms.NewDbmsLocal(db)}
	core.DbmsAuth = true // server mode: the server's own dbms is not wrapped
	// Server worker threads are pooled and keep the dbms they first got from
	// core.GetDbms (Thread.Reset does not clear it). In a real server there is
	// one database per process; here there is one per execution, so the
	// threads are given a stable forwarding object whose target is switched.
	theProxy.IDbms = s.Local
	core.GetDbms = func() core.IDbms { return theProxy }
	return s
}

// proxy forwards every IDbms method (promoted from the embedded interface)
// to the DbmsLocal of the current Server.
type proxy struct{ core.IDbms }

var theProxy = &proxy{}

// Connect creates a new client connection: a net.Pipe whose one end is handed
// to the real newServerConn in a goroutine; on the other end the hello is
// exchanged and the connection upgraded to TLS. The returned conn is the
// client's TLS connection.
func (s *Server) Connect() (net.Conn, error) {
	p1, p2 := net.Pipe()
	done := make(chan struct{})
	go func() {
		defer close(done)
		dbms.VerifServeConn(s.Local, p1)
	}()
	p2.SetDeadline(time.Now().Add(IOTimeout))
	// the hello message is fixed size (50 bytes); the client answers with the
	// identical message, so the version check passes by construction
	hello := make([]byte, 50)
	if _, err := io.ReadFull(p2, hello); err != nil {
		p2.Close()
		return nil, fmt.Errorf("hello: %w", err)
	}
	if _, err := p2.Write(hello); err != nil {
		p2.Close()
		return nil, fmt.Errorf("hello reply: %w", err)
	}
	tc := tls.Client(p2, &tls.Config{InsecureSkipVerify: true})
	if err := tc.Handshake(); err != nil {
		p2.Close()
		return nil, fmt.Errorf("tls handshake: %w", err)
	}
	p2.SetDeadline(time.Time{})
	s.mu.Lock()
	s.conns = append(s.conns, tc)
	s.done = append(s.done, done)
	s.mu.Unlock()
	return tc, nil
}

// Shutdown closes every client connection and waits for the server side of
// each to finish. Returns an error if one does not finish (a hang).
func (s *Server) Shutdown() error {
	s.mu.Lock()
	conns, done := s.conns, s.done
	s.conns, s.done = nil, nil
	s.mu.Unlock()
	for _, c := range conns {
		c.SetDeadline(time.Now().Add(2 * time.Second))
		c.Close()
	}
	for _, d := range done {
		select {
		case <-d:
		case <-time.After(IOTimeout):
			return errors.New("server side of a connection did not end after the client closed it")
		}
	}
	return nil
}

// ------------------------------------------------------------------ RawClient

// ErrClosed is returned when the server closed the connection.
var ErrClosed = errors.New("connection closed by server")

// ErrHang is returned when no response arrived within IOTimeout.
var ErrHang = errors.New("no response within the i/o timeout")

// RawClient speaks the wire format directly.
// frame = size(4, big endian) sessionId(4) final(1) payload(size).
type RawClient struct {
	Conn net.Conn
}

// Msg builds a request payload.
type Msg struct{ B []byte }

func Cmd(c byte) *Msg { return &Msg{B: []byte{c}} }

func (m *Msg) Byte(b byte) *Msg { m.B = append(m.B, b); return m }

func (m *Msg) Bool(b bool) *Msg {
	if b {
		return m.Byte(1)
	}
	return m.Byte(0)
}

// Int appends a zig-zag varint.
func (m *Msg) Int(i int64) *Msg {
	n := uint64(i<<1) ^ uint64(i>>63)
	for n > 0x7f {
		m.B = append(m.B, byte(n|0x80))
		n >>= 7
	}
	m.B = append(m.B, byte(n))
	return m
}

// Str appends a size prefixed string.
func (m *Msg) Str(s string) *Msg {
	m.Int(int64(len(s)))
	m.B = append(m.B, s...)
	return m
}

// Send writes one complete request for session sid.
func (rc *RawClient) Send(sid uint32, payload []byte) error {
	buf := make([]byte, 9+len(payload))
	binary.BigEndian.PutUint32(buf, uint32(len(payload)))
	binary.BigEndian.PutUint32(buf[4:], sid)
	buf[8] = 1
	copy(buf[9:], payload)
	rc.Conn.SetWriteDeadline(time.Now().Add(IOTimeout))
	_, err := rc.Conn.Write(buf)
	if err != nil {
		if isTimeout(err) {
			return ErrHang
		}
		return ErrClosed
	}
	return nil
}

// Recv reads one complete response (all its frames) for any session.
func (rc *RawClient) Recv() (sid uint32, payload []byte, err error) {
	rc.Conn.SetReadDeadline(time.Now().Add(IOTimeout))
	hdr := make([]byte, 9)
	for {
		if _, err := io.ReadFull(rc.Conn, hdr); err != nil {
			if isTimeout(err) {
				return 0, nil, ErrHang
			}
			return 0, nil, ErrClosed
		}
		n := binary.BigEndian.Uint32(hdr)
		sid = binary.BigEndian.Uint32(hdr[4:])
		part := make([]byte, n)
		if _, err := io.ReadFull(rc.Conn, part); err != nil {
			if isTimeout(err) {
				return 0, nil, ErrHang
			}
			return 0, nil, ErrClosed
		}
		payload = append(payload, part...)
		if hdr[8] == 1 {
			return sid, payload, nil
		}
	}
}

func isTimeout(err error) bool {
	var ne net.Error
	return errors.As(err, &ne) && ne.Timeout()
}

// Reader decodes a response payload.
type Reader struct {
	B   []byte
	Bad bool // ran off the end
}

func (r *Reader) Byte() byte {
	if len(r.B) == 0 {
		r.Bad = true
		return 0
	}
	b := r.B[0]
	r.B = r.B[1:]
	return b
}

func (r *Reader) Bool() bool { return r.Byte() == 1 }

func (r *Reader) Int() int64 {
	var n uint64
	for shift := uint(0); ; shift += 7 {
		b := r.Byte()
		n |= uint64(b&0x7f) << shift
		if b&0x80 == 0 || r.Bad {
			break
		}
	}
	return int64(n>>1) ^ -int64(n&1)
}

func (r *Reader) Str() string {
	n := int(r.Int())
	if n < 0 || n > len(r.B) {
		r.Bad = true
		return ""
	}
	s := string(r.B[:n])
	r.B = r.B[n:]
	return s
}

func (r *Reader) Strs() []string {
	n := int(r.Int())
	var out []string
	for i := 0; i < n && !r.Bad; i++ {
		out = append(out, r.Str())
	}
	return out
}
