// instrument rewrites selected repository source files so that their
// synchronisation goes through the controlled scheduler (verifshim/vsched).
// It is purely syntactic (go/parser, go/ast, go/printer) and is re-run from the
// current working tree on every check run, so an edited/mutated file is what
// gets instrumented. Anything it does not understand is a hard error (exit 2).
//
// usage: instrument -conf instrument.json -repo /repo -out <dir> [-src rel=path]...
// prints the repo-relative path of every file written to <dir>.
//
// conf: {"files":[{"path":"db19/concur.go","imports":true,"chans":true,
//
//	"rangeChans":["em.jobChan","workChan"],"yieldFuncs":"^(Get|Put)$",
//	"consts":{"bufSize":"2"}}]}
package main

import (
	"bytes"
	"encoding/json"
	"flag"
	"fmt"
	"go/ast"
	"go/format"
	"go/parser"
	"go/token"
	"os"
	"path/filepath"
	"reflect"
	"regexp"
	"strconv"
	"strings"
)

const shimBase = "github.com/apmckinlay/gsuneido/verifshim/"

type fileConf struct {
	Path       string            `json:"path"`
	Imports    bool              `json:"imports"`
	Chans      bool              `json:"chans"`
	RangeChans []string          `json:"rangeChans"`
	RangeMaps  []string          `json:"rangeMaps"` // `for k, v := range <expr>` over a map -> deterministic sorted iteration
	YieldFuncs string            `json:"yieldFuncs"`
	Consts     map[string]string `json:"consts"`
	ConstToVar []string          `json:"constToVar"` // turn `const x = …` into `var x = …` (scaled-model knobs)
	KeepTime   bool              `json:"keepTime"`   // do not rewrite "time"
	KeepRand   bool              `json:"keepRand"`
	Log        bool              `json:"log"` // rewrite "log" to the vlog shim (Fatal* panics instead of exiting)
}

type conf struct {
	Files []fileConf `json:"files"`
}

type srcFlags map[string]string

func (s srcFlags) String() string { return "" }
func (s srcFlags) Set(v string) error {
	k, p, ok := strings.Cut(v, "=")
	if !ok {
		return fmt.Errorf("bad -src %q", v)
	}
	s[k] = p
	return nil
}

func fatal(format string, a ...any) {
	fmt.Fprintf(os.Stderr, "instrument: "+format+"\n", a...)
	os.Exit(2)
}

func main() {
	confPath := flag.String("conf", "", "")
	repo := flag.String("repo", "/repo", "")
	out := flag.String("out", "", "")
	srcs := srcFlags{}
	flag.Var(srcs, "src", "rel=path override (mutated copy)")
	flag.Parse()
	b, err := os.ReadFile(*confPath)
	if err != nil {
		fatal("%v", err)
	}
	var cf conf
	if err := json.Unmarshal(b, &cf); err != nil {
		fatal("%s: %v", *confPath, err)
	}
	for _, fc := range cf.Files {
		src := filepath.Join(*repo, fc.Path)
		if p, ok := srcs[fc.Path]; ok {
			src = p
		}
		res, err := instrumentFile(src, fc)
		if err != nil {
			fatal("%s: %v", fc.Path, err)
		}
		dst := filepath.Join(*out, fc.Path)
		os.MkdirAll(filepath.Dir(dst), 0o755)
		if old, err := os.ReadFile(dst); err != nil || !bytes.Equal(old, res) {
			if err := os.WriteFile(dst, res, 0o644); err != nil {
				fatal("%v", err)
			}
		}
		fmt.Println(fc.Path)
	}
}

type rewriter struct {
	fset      *token.FileSet
	fc        fileConf
	nsel      int
	ngo       int
	usesSched bool
	recv2     map[*ast.UnaryExpr]bool
	rangeSet  map[string]bool
	mapSet    map[string]bool
	err       error
}

func instrumentFile(path string, fc fileConf) ([]byte, error) {
	fset := token.NewFileSet()
	f, err := parser.ParseFile(fset, path, nil, parser.ParseComments)
	if err != nil {
		return nil, err
	}
	rw := &rewriter{fset: fset, fc: fc, recv2: map[*ast.UnaryExpr]bool{}, rangeSet: map[string]bool{}, mapSet: map[string]bool{}}
	for _, r := range fc.RangeChans {
		rw.rangeSet[r] = true
	}
	for _, r := range fc.RangeMaps {
		rw.mapSet[r] = true
	}
	// keep only directive comments and those before the package clause
	var keep []*ast.CommentGroup
	for _, cg := range f.Comments {
		if cg.End() < f.Package {
			keep = append(keep, cg)
			continue
		}
		for _, c := range cg.List {
			if strings.HasPrefix(c.Text, "//go:") {
				keep = append(keep, cg)
				break
			}
		}
	}
	f.Comments = keep

	if len(fc.Consts) > 0 {
		rw.overrideConsts(f)
	}
	for _, name := range fc.ConstToVar {
		if !constToVar(f, name) {
			return nil, fmt.Errorf("constToVar: single-name const %q not found", name)
		}
	}
	if fc.Chans || len(fc.RangeMaps) > 0 {
		for _, d := range f.Decls {
			if fd, ok := d.(*ast.FuncDecl); ok && fd.Body != nil {
				rw.block(fd.Body)
			} else {
				rw.walk(reflect.ValueOf(d))
			}
		}
		for r := range rw.rangeSet {
			if rw.rangeSet[r] {
				return nil, fmt.Errorf("rangeChans entry %q matched no range statement", r)
			}
		}
	}
	if fc.YieldFuncs != "" {
		re, err := regexp.Compile(fc.YieldFuncs)
		if err != nil {
			return nil, err
		}
		for _, d := range f.Decls {
			if fd, ok := d.(*ast.FuncDecl); ok && fd.Body != nil && re.MatchString(funcName(fd)) {
				rw.yieldBlock(fd.Body)
			}
		}
	}
	if rw.err != nil {
		return nil, rw.err
	}
	if fc.Imports {
		rw.rewriteImports(f)
	}
	if rw.usesSched {
		addImport(f, "vsched", shimBase+"vsched")
	}
	var buf bytes.Buffer
	if err := format.Node(&buf, fset, f); err != nil {
		return nil, err
	}
	// re-parse as a sanity check
	if _, err := parser.ParseFile(token.NewFileSet(), path, buf.Bytes(), 0); err != nil {
		return nil, fmt.Errorf("instrumented output does not parse: %v", err)
	}
	hdr := "// Code generated by /verif/engine/cmd/instrument from " + fc.Path + "; DO NOT EDIT.\n"
	return append([]byte(hdr), buf.Bytes()...), nil
}

func funcName(fd *ast.FuncDecl) string {
	if fd.Recv != nil && len(fd.Recv.List) > 0 {
		t := fd.Recv.List[0].Type
		if s, ok := t.(*ast.StarExpr); ok {
			t = s.X
		}
		if ix, ok := t.(*ast.IndexExpr); ok {
			t = ix.X
		}
		if id, ok := t.(*ast.Ident); ok {
			return id.Name + "." + fd.Name.Name
		}
	}
	return fd.Name.Name
}

func (rw *rewriter) rewriteImports(f *ast.File) {
	m := map[string][2]string{
		`"sync"`:        {"sync", shimBase + "vsync"},
		`"sync/atomic"`: {"atomic", shimBase + "vatomic"},
	}
	if rw.fc.Log {
		m[`"log"`] = [2]string{"log", shimBase + "vlog"}
	}
	if !rw.fc.KeepTime {
		m[`"time"`] = [2]string{"time", shimBase + "vtime"}
	}
	if !rw.fc.KeepRand {
		m[`"math/rand/v2"`] = [2]string{"rand", shimBase + "vrand"}
	}
	for _, im := range f.Imports {
		if r, ok := m[im.Path.Value]; ok {
			if im.Name == nil {
				im.Name = ast.NewIdent(r[0])
			}
			im.Path.Value = strconv.Quote(r[1])
			im.EndPos = 0
		}
	}
}

func addImport(f *ast.File, name, path string) {
	spec := &ast.ImportSpec{Name: ast.NewIdent(name), Path: &ast.BasicLit{Kind: token.STRING, Value: strconv.Quote(path)}}
	for _, d := range f.Decls {
		if gd, ok := d.(*ast.GenDecl); ok && gd.Tok == token.IMPORT {
			if !gd.Lparen.IsValid() {
				gd.Lparen = gd.Pos()
				gd.Rparen = gd.End()
			}
			gd.Specs = append(gd.Specs, spec)
			f.Imports = append(f.Imports, spec)
			return
		}
	}
	gd := &ast.GenDecl{Tok: token.IMPORT, Specs: []ast.Spec{spec}}
	f.Decls = append([]ast.Decl{gd}, f.Decls...)
	f.Imports = append(f.Imports, spec)
}

func (rw *rewriter) overrideConsts(f *ast.File) {
	found := map[string]bool{}
	for _, d := range f.Decls {
		gd, ok := d.(*ast.GenDecl)
		if !ok || (gd.Tok != token.CONST && gd.Tok != token.VAR) {
			continue
		}
		for _, sp := range gd.Specs {
			vs := sp.(*ast.ValueSpec)
			for i, n := range vs.Names {
				if v, ok := rw.fc.Consts[n.Name]; ok && i < len(vs.Values) {
					e, err := parser.ParseExpr(v)
					if err != nil {
						rw.err = err
						return
					}
					vs.Values[i] = e
					found[n.Name] = true
				}
			}
		}
	}
	for n := range rw.fc.Consts {
		if !found[n] {
			rw.err = fmt.Errorf("const override %q not found", n)
		}
	}
}

// constToVar turns `const name = v` (its own declaration or a member of a
// group) into a package-level var with the same initial value.
func constToVar(f *ast.File, name string) bool {
	for di, d := range f.Decls {
		gd, ok := d.(*ast.GenDecl)
		if !ok || gd.Tok != token.CONST {
			continue
		}
		for si, sp := range gd.Specs {
			vs := sp.(*ast.ValueSpec)
			if len(vs.Names) == 1 && vs.Names[0].Name == name && len(vs.Values) == 1 {
				nv := &ast.GenDecl{Tok: token.VAR, Specs: []ast.Spec{&ast.ValueSpec{
					Names: []*ast.Ident{ast.NewIdent(name)}, Type: vs.Type, Values: vs.Values}}}
				gd.Specs = append(gd.Specs[:si:si], gd.Specs[si+1:]...)
				if len(gd.Specs) == 0 {
					f.Decls[di] = nv
				} else {
					f.Decls = append(f.Decls, nv)
				}
				return true
			}
		}
	}
	return false
}

func sched(name string) ast.Expr {
	return &ast.SelectorExpr{X: ast.NewIdent("vsched"), Sel: ast.NewIdent(name)}
}

func call(fn ast.Expr, args ...ast.Expr) *ast.CallExpr {
	return &ast.CallExpr{Fun: fn, Args: args}
}

func (rw *rewriter) exprText(e ast.Expr) string {
	var buf bytes.Buffer
	format.Node(&buf, rw.fset, e)
	return buf.String()
}

var exprType = reflect.TypeOf((*ast.Expr)(nil)).Elem()
var stmtType = reflect.TypeOf((*ast.Stmt)(nil)).Elem()

// walk rewrites expressions and statements below v in place (post-order for
// expressions; statements lists are handled by block/stmtList).
func (rw *rewriter) walk(v reflect.Value) {
	if !v.IsValid() {
		return
	}
	switch v.Kind() {
	case reflect.Interface:
		if v.IsNil() {
			return
		}
		if v.Type() == exprType {
			e := v.Interface().(ast.Expr)
			ne := rw.expr(e)
			if ne != e && v.CanSet() {
				v.Set(reflect.ValueOf(ne))
			}
			return
		}
		if v.Type() == stmtType {
			st := v.Interface().(ast.Stmt)
			ns := rw.stmt(st)
			if ns != st && v.CanSet() {
				v.Set(reflect.ValueOf(ns))
			}
			return
		}
		rw.walk(v.Elem())
	case reflect.Ptr:
		if v.IsNil() {
			return
		}
		switch v.Interface().(type) {
		case *ast.Object, *ast.Scope, *ast.CommentGroup, *ast.Comment:
			return
		}
		rw.walk(v.Elem())
	case reflect.Struct:
		for i := 0; i < v.NumField(); i++ {
			rw.walk(v.Field(i))
		}
	case reflect.Slice:
		for i := 0; i < v.Len(); i++ {
			rw.walk(v.Index(i))
		}
	}
}

// expr rewrites one expression (children first).
func (rw *rewriter) expr(e ast.Expr) ast.Expr {
	switch x := e.(type) {
	case *ast.FuncLit:
		rw.block(x.Body)
		return x
	case *ast.UnaryExpr:
		x.X = rw.expr(x.X)
		if x.Op == token.ARROW && rw.fc.Chans {
			rw.usesSched = true
			if rw.recv2[x] {
				return call(sched("Recv2"), x.X)
			}
			return call(sched("Recv"), x.X)
		}
		return x
	case *ast.CallExpr:
		rw.walk(reflect.ValueOf(x).Elem())
		if id, ok := x.Fun.(*ast.Ident); ok && id.Name == "close" && len(x.Args) == 1 && rw.fc.Chans {
			rw.usesSched = true
			return call(sched("Close"), x.Args[0])
		}
		if id, ok := x.Fun.(*ast.Ident); ok && id.Name == "len" && len(x.Args) == 1 {
			// len(ch) cannot be told from len(slice) syntactically; flag obvious names
			if t := rw.exprText(x.Args[0]); strings.HasSuffix(strings.ToLower(t), "chan") {
				rw.err = fmt.Errorf("len(%s) on a channel is not supported", t)
			}
		}
		return x
	}
	rw.walk(reflect.ValueOf(e).Elem())
	return e
}

func (rw *rewriter) block(b *ast.BlockStmt) {
	if b == nil {
		return
	}
	b.List = rw.stmtList(b.List)
}

func (rw *rewriter) stmtList(list []ast.Stmt) []ast.Stmt {
	for i, st := range list {
		list[i] = rw.stmt(st)
	}
	return list
}

func (rw *rewriter) stmt(st ast.Stmt) ast.Stmt {
	switch x := st.(type) {
	case nil:
		return nil
	case *ast.BlockStmt:
		rw.block(x)
		return x
	case *ast.SendStmt:
		x.Chan = rw.expr(x.Chan)
		x.Value = rw.expr(x.Value)
		if !rw.fc.Chans {
			return x
		}
		rw.usesSched = true
		return &ast.ExprStmt{X: call(&ast.SelectorExpr{X: call(sched("To"), x.Chan), Sel: ast.NewIdent("Send")}, x.Value)}
	case *ast.AssignStmt:
		if len(x.Lhs) == 2 && len(x.Rhs) == 1 {
			if u, ok := x.Rhs[0].(*ast.UnaryExpr); ok && u.Op == token.ARROW {
				rw.recv2[u] = true
			}
		}
		rw.walk(reflect.ValueOf(x).Elem())
		return x
	case *ast.GoStmt:
		if !rw.fc.Chans {
			rw.walk(reflect.ValueOf(x).Elem())
			return x
		}
		return rw.goStmt(x)
	case *ast.SelectStmt:
		if !rw.fc.Chans {
			rw.walk(reflect.ValueOf(x).Elem())
			return x
		}
		return rw.selectStmt(x, nil)
	case *ast.LabeledStmt:
		if sel, ok := x.Stmt.(*ast.SelectStmt); ok && rw.fc.Chans {
			return rw.selectStmt(sel, x.Label)
		}
		x.Stmt = rw.stmt(x.Stmt)
		return x
	case *ast.RangeStmt:
		x.X = rw.expr(x.X)
		t := rw.exprText(x.X)
		if _, ok := rw.rangeSet[t]; ok {
			rw.rangeSet[t] = false // matched
			rw.usesSched = true
			x.X = call(sched("Range"), x.X)
		} else if rw.mapSet[t] {
			rw.usesSched = true
			x.X = call(sched("SortedMap"), x.X)
		}
		rw.block(x.Body)
		return x
	case *ast.IfStmt:
		x.Init = rw.stmt(x.Init)
		x.Cond = rw.expr(x.Cond)
		rw.block(x.Body)
		x.Else = rw.stmt(x.Else)
		return x
	case *ast.ForStmt:
		x.Init = rw.stmt(x.Init)
		if x.Cond != nil {
			x.Cond = rw.expr(x.Cond)
		}
		x.Post = rw.stmt(x.Post)
		rw.block(x.Body)
		return x
	case *ast.SwitchStmt:
		x.Init = rw.stmt(x.Init)
		if x.Tag != nil {
			x.Tag = rw.expr(x.Tag)
		}
		rw.block(x.Body)
		return x
	case *ast.TypeSwitchStmt:
		x.Init = rw.stmt(x.Init)
		x.Assign = rw.stmt(x.Assign)
		rw.block(x.Body)
		return x
	case *ast.CaseClause:
		for i, e := range x.List {
			x.List[i] = rw.expr(e)
		}
		x.Body = rw.stmtList(x.Body)
		return x
	case *ast.CommClause:
		rw.err = fmt.Errorf("unexpected comm clause outside select")
		return x
	case *ast.DeferStmt:
		x.Call = rw.expr(x.Call).(*ast.CallExpr)
		return x
	}
	rw.walk(reflect.ValueOf(st).Elem())
	return st
}

// go f(a, b)  =>  { _vg1_0, _vg1_1 := a, b; vsched.Go(func() { f(_vg1_0, _vg1_1) }) }
func (rw *rewriter) goStmt(g *ast.GoStmt) ast.Stmt {
	rw.usesSched = true
	c := g.Call
	if fl, ok := c.Fun.(*ast.FuncLit); ok {
		rw.block(fl.Body)
	} else {
		c.Fun = rw.expr(c.Fun)
	}
	rw.ngo++
	var lhs, rhs []ast.Expr
	for i, a := range c.Args {
		a = rw.expr(a)
		switch a.(type) {
		case *ast.BasicLit:
			c.Args[i] = a
			continue
		}
		name := fmt.Sprintf("_vg%d_%d", rw.ngo, i)
		lhs = append(lhs, ast.NewIdent(name))
		rhs = append(rhs, a)
		c.Args[i] = ast.NewIdent(name)
	}
	body := &ast.BlockStmt{List: []ast.Stmt{&ast.ExprStmt{X: c}}}
	goCall := &ast.ExprStmt{X: call(sched("Go"), &ast.FuncLit{Type: &ast.FuncType{Params: &ast.FieldList{}}, Body: body})}
	if len(lhs) == 0 {
		return goCall
	}
	return &ast.BlockStmt{List: []ast.Stmt{
		&ast.AssignStmt{Lhs: lhs, Tok: token.DEFINE, Rhs: rhs},
		goCall,
	}}
}

func (rw *rewriter) selectStmt(sel *ast.SelectStmt, label *ast.Ident) ast.Stmt {
	rw.usesSched = true
	rw.nsel++
	n := rw.nsel
	var pre []ast.Stmt
	var caseVars []ast.Expr
	var clauses []ast.Stmt
	hasDefault := false
	idx := 0
	var defaultClause *ast.CaseClause
	for _, cs := range sel.Body.List {
		cc := cs.(*ast.CommClause)
		body := rw.stmtList(cc.Body)
		if cc.Comm == nil {
			hasDefault = true
			defaultClause = &ast.CaseClause{Body: body}
			continue
		}
		name := fmt.Sprintf("_vs%d_%d", n, idx)
		var head []ast.Stmt
		var mk ast.Expr
		switch c := cc.Comm.(type) {
		case *ast.SendStmt:
			mk = call(&ast.SelectorExpr{X: call(sched("To"), rw.expr(c.Chan)), Sel: ast.NewIdent("Case")}, rw.expr(c.Value))
		case *ast.ExprStmt: // case <-ch:
			u, ok := c.X.(*ast.UnaryExpr)
			if !ok || u.Op != token.ARROW {
				rw.err = fmt.Errorf("unsupported select case")
				return sel
			}
			mk = call(sched("RecvCase"), rw.expr(u.X))
		case *ast.AssignStmt: // case v := <-ch / v, ok := <-ch / v = <-ch
			u, ok := c.Rhs[0].(*ast.UnaryExpr)
			if !ok || u.Op != token.ARROW || len(c.Rhs) != 1 {
				rw.err = fmt.Errorf("unsupported select case")
				return sel
			}
			mk = call(sched("RecvCase"), rw.expr(u.X))
			get := "Val"
			if len(c.Lhs) == 2 {
				get = "Get"
			}
			head = append(head, &ast.AssignStmt{Lhs: c.Lhs, Tok: c.Tok,
				Rhs: []ast.Expr{call(&ast.SelectorExpr{X: ast.NewIdent(name), Sel: ast.NewIdent(get)})}})
		default:
			rw.err = fmt.Errorf("unsupported select case %T", cc.Comm)
			return sel
		}
		pre = append(pre, &ast.AssignStmt{Lhs: []ast.Expr{ast.NewIdent(name)}, Tok: token.DEFINE, Rhs: []ast.Expr{mk}})
		caseVars = append(caseVars, ast.NewIdent(name))
		clauses = append(clauses, &ast.CaseClause{
			List: []ast.Expr{&ast.BasicLit{Kind: token.INT, Value: strconv.Itoa(idx)}},
			Body: append(head, body...)})
		idx++
	}
	if defaultClause != nil {
		clauses = append(clauses, defaultClause)
	}
	hd := "false"
	if hasDefault {
		hd = "true"
	}
	args := append([]ast.Expr{ast.NewIdent(hd)}, caseVars...)
	var sw ast.Stmt = &ast.SwitchStmt{Tag: call(sched("Select"), args...), Body: &ast.BlockStmt{List: clauses}}
	if label != nil {
		sw = &ast.LabeledStmt{Label: label, Stmt: sw}
	}
	return &ast.BlockStmt{List: append(pre, sw)}
}

// yieldBlock inserts vsched.StmtYield() before every statement (recursively).
func (rw *rewriter) yieldBlock(b *ast.BlockStmt) {
	if b == nil {
		return
	}
	rw.usesSched = true
	var out []ast.Stmt
	for _, st := range b.List {
		switch x := st.(type) {
		case *ast.DeclStmt, *ast.LabeledStmt:
		default:
			out = append(out, &ast.ExprStmt{X: call(sched("StmtYield"))})
			_ = x
		}
		rw.yieldInner(st)
		out = append(out, st)
	}
	b.List = out
}

func (rw *rewriter) yieldInner(st ast.Stmt) {
	switch x := st.(type) {
	case *ast.BlockStmt:
		rw.yieldBlock(x)
	case *ast.IfStmt:
		rw.yieldBlock(x.Body)
		if x.Else != nil {
			rw.yieldInner(x.Else)
		}
	case *ast.ForStmt:
		rw.yieldBlock(x.Body)
	case *ast.RangeStmt:
		rw.yieldBlock(x.Body)
	case *ast.SwitchStmt:
		for _, c := range x.Body.List {
			cc := c.(*ast.CaseClause)
			b := &ast.BlockStmt{List: cc.Body}
			rw.yieldBlock(b)
			cc.Body = b.List
		}
	case *ast.TypeSwitchStmt:
		for _, c := range x.Body.List {
			cc := c.(*ast.CaseClause)
			b := &ast.BlockStmt{List: cc.Body}
			rw.yieldBlock(b)
			cc.Body = b.List
		}
	case *ast.LabeledStmt:
		rw.yieldInner(x.Stmt)
	}
}
