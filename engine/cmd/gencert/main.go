// gencert writes a throw-away self-signed certificate pair used only to
// satisfy the //go:embed directives in /repo/dbms (files are git-ignored
// there) and by the TLS pipe harnesses. Usage: gencert <dir>
package main

import (
	"crypto/ecdsa"
	"crypto/elliptic"
	"crypto/rand"
	"crypto/x509"
	"crypto/x509/pkix"
	"encoding/pem"
	"math/big"
	"net"
	"os"
	"path/filepath"
	"time"
)

func main() {
	dir := os.Args[1]
	key, err := ecdsa.GenerateKey(elliptic.P256(), rand.Reader)
	ck(err)
	tmpl := x509.Certificate{
		SerialNumber:          big.NewInt(1),
		Subject:               pkix.Name{CommonName: "localhost"},
		NotBefore:             time.Now().Add(-time.Hour),
		NotAfter:              time.Now().AddDate(20, 0, 0),
		KeyUsage:              x509.KeyUsageDigitalSignature | x509.KeyUsageCertSign,
		ExtKeyUsage:           []x509.ExtKeyUsage{x509.ExtKeyUsageServerAuth},
		BasicConstraintsValid: true,
		IsCA:                  true,
		DNSNames:              []string{"localhost", "suneido"},
		IPAddresses:           []net.IP{net.ParseIP("127.0.0.1")},
	}
	der, err := x509.CreateCertificate(rand.Reader, &tmpl, &tmpl, &key.PublicKey, key)
	ck(err)
	kb, err := x509.MarshalPKCS8PrivateKey(key)
	ck(err)
	ck(os.WriteFile(filepath.Join(dir, "server.crt"),
		pem.EncodeToMemory(&pem.Block{Type: "CERTIFICATE", Bytes: der}), 0o644))
	ck(os.WriteFile(filepath.Join(dir, "server.key"),
		pem.EncodeToMemory(&pem.Block{Type: "PRIVATE KEY", Bytes: kb}), 0o600))
}

func ck(err error) {
	if err != nil {
		panic(err)
	}
}
