// C26 Numeric operations follow decimal number semantics.
//
// What is enumerated: a boundary alphabet of numbers (integers around every
// threshold that the integer fast paths in core/ops.go, IntVal/Int64Val,
// dnum.FromInt/ToInt64 and the smi range care about: 0, +-1, smi limits +-1,
// 2^31, 2^32, sqrt(2^63), 10^15..10^18 +-1, the int64 limits, quotients of
// the int64 limits; plus decimals, out-of-int64 integers and +-infinity).
// Every number is materialised in EVERY representation that holds it exactly
// and that the public constructors can produce (smi, SuInt64, SuDnum). All
// ordered pairs of (number, representation) are run through
// OpAdd OpSub OpMul OpDiv OpMod, OpUnaryMinus/OpAdd1 (single operand) and
// Compare/Equal/OpIs/OpIsnt/OpLt/OpLte/OpGt/OpGte on the real implementation.
//
// Oracle (math/big, independent of core):
//   - both operands in an integer representation, op in + - * unary- add1 and
//     exact /: the exact result R; when R is an integer that fits int64 the
//     result must be exactly R; otherwise (overflow, or inexact division) it
//     must be the decimal result: within one unit in the 16th digit of
//     D(x) op D(y), D = conversion of the operand to a 16 digit decimal
//     (checked itself to be within one unit of the operand and exact when the
//     operand has <= 16 digits). A wrapped two's complement value is the
//     known-finding class "int-fastpath-wrap".
//   - any operand a decimal: the decimal result as above.
//   - results of the same (x,y,op) over all representation choices must be
//     the same value (or, when one of them is an exact integer of more than
//     16 digits that a decimal cannot hold, agree to one unit in the 16th
//     digit).
//   - comparisons: sign(Compare) and Equal (both directions) and the Op*
//     wrappers equal the exact comparison of the operand values.
package main

import (
	"encoding/json"
	"fmt"
	"math"
	"math/big"
	"os"
	"sort"
	"strings"

	"github.com/apmckinlay/gsuneido/core"
	"github.com/apmckinlay/gsuneido/util/dnum"

	"verif/lib"
)

// ---------------------------------------------------------------- exact helpers

var pow10cache = map[int]*big.Rat{}

func pow10(k int) *big.Rat {
	if r, ok := pow10cache[k]; ok {
		return r
	}
	a := k
	if a < 0 {
		a = -a
	}
	p := new(big.Int).Exp(big.NewInt(10), big.NewInt(int64(a)), nil)
	r := new(big.Rat)
	if k >= 0 {
		r.SetInt(p)
	} else {
		r.SetFrac(big.NewInt(1), p)
	}
	return r
}

func init() {
	for k := -450; k <= 450; k++ {
		pow10cache[k] = pow10(k)
	}
}

func sgn(i int) int {
	switch {
	case i < 0:
		return -1
	case i > 0:
		return 1
	}
	return 0
}

// dexp returns e with 10^(e-1) <= |r| < 10^e (r != 0)
func dexp(r *big.Rat) int {
	a := new(big.Rat).Abs(r)
	e := int(float64(a.Num().BitLen()-a.Denom().BitLen()) * 0.30103)
	for a.Cmp(pow10(e)) >= 0 {
		e++
	}
	for a.Cmp(pow10(e-1)) < 0 {
		e--
	}
	return e
}

var (
	maxInt64 = big.NewInt(math.MaxInt64)
	minInt64 = big.NewInt(math.MinInt64)
	two64    = new(big.Int).Lsh(big.NewInt(1), 64)
)

func fitsInt64(r *big.Rat) bool {
	return r.IsInt() && r.Num().Cmp(minInt64) >= 0 && r.Num().Cmp(maxInt64) <= 0
}

// wrap64 is the two's complement int64 value of the integer r (what Go int
// arithmetic produces on overflow)
func wrap64(r *big.Rat) *big.Int {
	m := new(big.Int).Mod(r.Num(), two64) // 0 <= m < 2^64
	if m.Cmp(maxInt64) > 0 {
		m.Sub(m, two64)
	}
	return m
}

// sigDigits = number of significant decimal digits of the integer n
func sigDigits(n *big.Int) int {
	s := strings.TrimLeft(new(big.Int).Abs(n).String(), "0")
	s = strings.TrimRight(s, "0")
	return len(s)
}

// ---------------------------------------------------------------- values

// xval is the exact meaning of a core number Value, read through accessors
type xval struct {
	r    *big.Rat // nil for +-inf
	inf  int
	kind string // smi | int64 | dnum | other
	exp  int    // dnum exponent (kind dnum, finite non-zero)
}

func exactDnum(d dnum.Dnum) xval {
	if d.IsInf() {
		return xval{inf: sgn(d.Sign()), kind: "dnum"}
	}
	if d.IsZero() {
		return xval{r: new(big.Rat), kind: "dnum", exp: -1000}
	}
	r := new(big.Rat).SetInt(new(big.Int).SetUint64(d.Coef()))
	r.Mul(r, pow10(d.Exp()-16))
	if d.Sign() < 0 {
		r.Neg(r)
	}
	return xval{r: r, kind: "dnum", exp: d.Exp()}
}

func exactOf(v core.Value) xval {
	switch x := v.(type) {
	case core.SuDnum:
		return exactDnum(x.Dnum)
	case core.SuInt64:
		n, _ := x.ToInt()
		return xval{r: new(big.Rat).SetInt64(int64(n)), kind: "int64"}
	}
	if v != nil && fmt.Sprintf("%T", v) == "*core.smi" {
		n, _ := v.ToInt()
		return xval{r: new(big.Rat).SetInt64(int64(n)), kind: "smi"}
	}
	return xval{kind: fmt.Sprintf("other:%T", v)}
}

func (x xval) String() string {
	switch {
	case x.inf > 0:
		return "inf(" + x.kind + ")"
	case x.inf < 0:
		return "-inf(" + x.kind + ")"
	case x.r == nil:
		return x.kind
	}
	if x.r.IsInt() {
		return x.r.Num().String() + "(" + x.kind + ")"
	}
	return x.r.FloatString(25) + "(" + x.kind + ")"
}

// rep is one representation of a number
type rep struct {
	ni   int    // index of the number in nums
	kind string // smi | int64 | dnum
	v    core.Value
	// dec = the operand converted to a decimal (what the decimal path of the
	// implementation works with); equals the number itself unless it is an
	// integer of more than 16 digits
	dec xval
}

type num struct {
	text string
	r    *big.Rat // exact value, nil for infinities
	inf  int
	sig  int // significant digits when integer, else 0
	reps []int
}

var (
	nums []num
	reps []rep
)

func addRep(c *lib.Ctx, ni int, kind string, v core.Value) {
	n := &nums[ni]
	x := exactOf(v)
	if x.kind != kind {
		lib.Infra("alphabet: %s built as %s is a %s", n.text, kind, x.kind)
	}
	// the representation must hold the number exactly (alphabet sanity: this
	// is what "represented as" means)
	if x.inf != n.inf || (n.inf == 0 && x.r.Cmp(n.r) != 0) {
		c.Fail("", opCase{Op: "construct", X: n.text, XK: kind}, "constructing %s as %s gives %s", n.text, kind, x)
		return
	}
	r := rep{ni: ni, kind: kind, v: v}
	d, ok := v.ToDnum()
	if !ok {
		c.Fail("", opCase{Op: "todnum", X: n.text, XK: kind}, "ToDnum(%s as %s) failed", n.text, kind)
		return
	}
	r.dec = exactDnum(d)
	// conversion accuracy: exact when <= 16 digits, else one unit in the 16th digit
	if n.inf == 0 {
		if n.sig <= 16 && kind != "dnum" && r.dec.r.Cmp(n.r) != 0 {
			c.Fail("", opCase{Op: "todnum", X: n.text, XK: kind}, "ToDnum(%s as %s) = %s, not exact", n.text, kind, r.dec)
		} else if n.r.Sign() != 0 {
			diff := new(big.Rat).Sub(r.dec.r, n.r)
			if diff.Abs(diff).Cmp(pow10(dexp(n.r)-16)) > 0 {
				c.Fail("", opCase{Op: "todnum", X: n.text, XK: kind}, "ToDnum(%s as %s) = %s, off by more than one unit in the 16th digit", n.text, kind, r.dec)
			}
		}
	}
	n.reps = append(n.reps, len(reps))
	reps = append(reps, r)
}

func intAlphabet(c *lib.Ctx) []*big.Int {
	set := map[string]*big.Int{}
	add := func(n *big.Int) {
		if n.Cmp(minInt64) >= 0 && n.Cmp(maxInt64) <= 0 {
			set[n.String()] = new(big.Int).Set(n)
		}
	}
	addpm := func(n *big.Int, spread int) { // +-n, each +-0..spread
		for d := -spread; d <= spread; d++ {
			m := new(big.Int).Add(n, big.NewInt(int64(d)))
			add(m)
			add(new(big.Int).Neg(m))
		}
	}
	bi := func(s string) *big.Int {
		n, ok := new(big.Int).SetString(s, 10)
		if !ok {
			panic(s)
		}
		return n
	}
	for _, k := range []int64{0, 1, 2, 3, 5, 7, 9, 10, 11, 100, 1000, 12345} {
		addpm(big.NewInt(k), 0)
	}
	addpm(big.NewInt(32767), 2)        // smi limits MinSuInt/MaxSuInt +-2
	addpm(big.NewInt(65536), 1)        //
	addpm(big.NewInt(1<<31), 1)        // MaxInt32 (core.MaxInt)
	addpm(big.NewInt(1<<32), 1)        //
	addpm(big.NewInt(3037000499), 1)   // floor(sqrt(2^63)) and +1: squares straddle MaxInt64
	addpm(big.NewInt(2147483648*3), 0) //
	addpm(bi("4294967296"), 0)
	for k := 15; k <= 18; k++ { // 16 digit coefficient limit and above
		p := new(big.Int).Exp(big.NewInt(10), big.NewInt(int64(k)), nil)
		addpm(p, 1)
	}
	addpm(bi("9999999999999999"), 0)    // coefMax
	addpm(bi("1234567890123456"), 0)    // 16 digits
	addpm(bi("12345678901234567"), 0)   // 17 digits
	addpm(bi("1000000000000000449"), 0) // 19 digits, digit-by-digit rounding differs from one-step rounding
	addpm(bi("9223372036854775000"), 0) // dnum.ToInt64 limit for exponent 19
	addpm(bi("9223372036854774999"), 0)
	addpm(maxInt64, 0)
	for d := int64(0); d <= 2; d++ {
		add(new(big.Int).Sub(maxInt64, big.NewInt(d)))
		add(new(big.Int).Add(minInt64, big.NewInt(d)))
	}
	add(new(big.Int).Neg(maxInt64))
	// halves, thirds, ... of the limits: products / sums that land exactly on
	// or just beyond the limits
	for _, f := range []int64{2, 3, 10, 1000, 65536, 1 << 31, 1 << 32} {
		q := new(big.Int).Quo(maxInt64, big.NewInt(f))
		addpm(q, 1)
	}
	addpm(new(big.Int).Lsh(big.NewInt(1), 62), 1)
	if !c.Quick() {
		for k := uint(1); k <= 62; k++ {
			addpm(new(big.Int).Lsh(big.NewInt(1), k), 1)
		}
		for k := 1; k <= 18; k++ {
			addpm(new(big.Int).Exp(big.NewInt(10), big.NewInt(int64(k)), nil), 1)
		}
		for _, f := range []int64{5, 7, 9, 11, 100, 10000, 32767, 32768, 1000000007, 3037000499, 3037000500} {
			addpm(new(big.Int).Quo(maxInt64, big.NewInt(f)), 1)
		}
		for _, s := range []string{"99999999999999999", "999999999999999999", "5000000000000000000",
			"4999999999999999999", "1111111111111111111", "123456789", "999999999", "1000000000000000500",
			"1000000000000000050", "1000000000000000005", "1999999999999999999", "9007199254740993"} {
			addpm(bi(s), 0)
		}
	}
	var out []*big.Int
	for _, n := range set {
		out = append(out, n)
	}
	sort.Slice(out, func(i, j int) bool { return out[i].Cmp(out[j]) < 0 })
	return out
}

func decAlphabet(c *lib.Ctx) []string {
	ds := []string{".5", "1.5", ".1", ".2", ".25", ".001", "1e-5", ".3333333333333333", ".6666666666666667",
		"99999999.99999999", "123456789.0123456", "32767.5", "2147483647.5", "999999999999999.9",
		"1e19", "1e20", "9223372036854776000", "9223372036854770000", "1.844674407370955e19",
		"1e126", "9.999999999999999e126", "1e-126", "3.5", "2.5", "100000.5"}
	if !c.Quick() {
		ds = append(ds, ".125", "1e-10", "7.000000000000001", "1e100", "1e-100",
			".9999999999999999", "1.000000000000001", "65536.25", "3037000499.5", "1e64", "9.5e18", "1e-127")
	}
	var out []string
	for _, d := range ds {
		out = append(out, d, "-"+d)
	}
	return out
}

func buildAlphabet(c *lib.Ctx) {
	nums, reps = nil, nil
	for _, n := range intAlphabet(c) {
		ni := len(nums)
		nums = append(nums, num{text: n.String(), r: new(big.Rat).SetInt(n), sig: sigDigits(n)})
		i64 := n.Int64()
		if core.MinSuInt <= i64 && i64 <= core.MaxSuInt {
			addRep(c, ni, "smi", core.SuInt(int(i64)))
			if i64 == core.MinSuInt || i64 == core.MaxSuInt {
				// Int64Val keeps the smi limits as SuInt64 (strict comparison)
				if v := core.Int64Val(i64); exactOf(v).kind == "int64" {
					addRep(c, ni, "int64", v)
				}
			}
		} else {
			addRep(c, ni, "int64", core.IntVal(int(i64)))
		}
		if sigDigits(n) <= 16 {
			addRep(c, ni, "dnum", core.SuDnum{Dnum: dnum.FromInt(i64)})
		}
	}
	for _, s := range decAlphabet(c) {
		r, ok := new(big.Rat).SetString(s)
		if !ok {
			lib.Infra("bad decimal %q", s)
		}
		if fitsInt64(r) && sigDigits(r.Num()) <= 16 {
			continue // would duplicate an integer
		}
		ni := len(nums)
		nums = append(nums, num{text: s, r: r})
		if r.IsInt() {
			nums[ni].sig = sigDigits(r.Num())
		}
		addRep(c, ni, "dnum", core.SuDnum{Dnum: dnum.FromStr(s)})
	}
	for _, s := range []int{1, -1} {
		ni := len(nums)
		nums = append(nums, num{text: map[int]string{1: "inf", -1: "-inf"}[s], inf: s})
		addRep(c, ni, "dnum", core.SuDnum{Dnum: dnum.Inf(int8(s))})
	}
}

// ---------------------------------------------------------------- judging

// assumeKnown is a triage aid: VERIF_ASSUME_KNOWN=class1,class2 makes the
// listed failure classes count-only (as if they were listed in
// KNOWN_FINDINGS) so that a run is not cut short by the violation limit and
// other classes stay visible. Never set by ./check.
var assumeKnown = map[string]bool{}

func init() {
	for _, k := range strings.Split(os.Getenv("VERIF_ASSUME_KNOWN"), ",") {
		if k != "" {
			assumeKnown[k] = true
		}
	}
}

func failc(c *lib.Ctx, class string, cs any, format string, a ...any) {
	if class != "" {
		c.Count("class:"+class, 1)
		if assumeKnown[class] {
			return
		}
	}
	c.Fail(class, cs, format, a...)
}

type opCase struct {
	Op     string `json:"op"`
	X, XK  string
	Y, YK  string
	Result string `json:"result,omitempty"`
}

// checkDecimal judges res against the exact value r with tolerance one unit
// in the 16th significant digit of a number with decimal exponent tolExp (or
// of r if larger). Same rule as C27. Returns "" if fine.
func checkDecimal(res xval, r *big.Rat, tolExp int) string {
	if res.r == nil && res.inf == 0 {
		return "result is not a number: " + res.kind
	}
	if r.Sign() == 0 {
		if res.inf != 0 || res.r.Sign() != 0 {
			return "exact result is 0"
		}
		return ""
	}
	er := dexp(r)
	if tolExp < er {
		tolExp = er
	}
	if res.inf != 0 {
		if er >= 128 && res.inf == r.Sign() {
			return ""
		}
		if er == 127 && res.inf == r.Sign() {
			a := new(big.Rat).Abs(r)
			a.Add(a, pow10(127-16))
			if a.Cmp(pow10(127)) >= 0 {
				return ""
			}
		}
		return fmt.Sprintf("infinite but the exact result has decimal exponent %d", er)
	}
	if er >= 129 {
		return "expected overflow to infinity"
	}
	if res.r.Sign() == 0 {
		if er <= -126 {
			return ""
		}
		if new(big.Rat).Abs(r).Cmp(pow10(tolExp-16)) <= 0 {
			return ""
		}
		return fmt.Sprintf("0 but the exact result has decimal exponent %d", er)
	}
	diff := new(big.Rat).Sub(res.r, r)
	if diff.Abs(diff).Cmp(pow10(tolExp-16)) > 0 {
		return fmt.Sprintf("differs from the decimal result %s by more than one unit in the 16th digit", r.FloatString(5))
	}
	return ""
}

func isIntKind(k string) bool { return k == "smi" || k == "int64" }

// exactOp returns the exact result of x op y on rationals; ok=false when not
// defined (division by zero)
func exactOp(op string, x, y *big.Rat) (*big.Rat, bool) {
	r := new(big.Rat)
	switch op {
	case "+":
		return r.Add(x, y), true
	case "-":
		return r.Sub(x, y), true
	case "*":
		return r.Mul(x, y), true
	case "/":
		if y.Sign() == 0 {
			return nil, false
		}
		return r.Quo(x, y), true
	}
	panic(op)
}

func apply(op string, x, y core.Value) (res core.Value, pan any) {
	pan = lib.Try(func() {
		switch op {
		case "+":
			res = core.OpAdd(x, y)
		case "-":
			res = core.OpSub(x, y)
		case "*":
			res = core.OpMul(x, y)
		case "/":
			res = core.OpDiv(x, y)
		case "%":
			res = core.OpMod(x, y)
		case "neg":
			res = core.OpUnaryMinus(x)
		case "add1":
			res = core.OpAdd1(x)
		case "uplus":
			res = core.OpUnaryPlus(x)
		}
	})
	return
}

// judgeArith judges one arithmetic result. Returns (class, message); message
// "" = ok.
func judgeArith(op string, x, y *rep, res xval) (string, string) {
	nx, ny := &nums[x.ni], &nums[y.ni]
	if res.r == nil && res.inf == 0 {
		return "", "result is not a number (" + res.kind + ")"
	}
	// infinities and division by zero: sign rules of the decimal type
	if nx.inf != 0 || ny.inf != 0 || (op == "/" && ny.r.Sign() == 0) {
		return "", judgeSpecial(op, nx, ny, res)
	}
	intPath := isIntKind(x.kind) && isIntKind(y.kind)
	if intPath {
		r, _ := exactOp(op, nx.r, ny.r)
		if fitsInt64(r) {
			if res.inf != 0 || res.r.Cmp(r) != 0 {
				return "", "integer operands, the exact result " + r.Num().String() + " fits int64 but got something else"
			}
			return "", ""
		}
		// does not fit (or not an integer): decimal arithmetic on the
		// converted operands; never a wrapped integer
		if r.IsInt() && isIntKind(res.kind) && res.r.Num().Cmp(wrap64(r)) == 0 {
			return "int-fastpath-wrap", "integer operands, exact result " + r.Num().String() +
				" does not fit int64: got the wrapped value instead of decimal arithmetic"
		}
	}
	rd, _ := exactOp(op, x.dec.r, y.dec.r)
	tol := -1000
	if op == "+" || op == "-" {
		tol = max(x.dec.exp, y.dec.exp)
	}
	return "", checkDecimal(res, rd, tol)
}

func judgeSpecial(op string, nx, ny *num, res xval) string {
	sx, sy := nx.inf, ny.inf
	if sx == 0 {
		sx = nx.r.Sign()
	}
	if sy == 0 {
		sy = ny.r.Sign()
	}
	zero := res.inf == 0 && res.r.Sign() == 0
	switch op {
	case "*":
		if sx == 0 || sy == 0 {
			if !zero {
				return "0 * inf must be 0"
			}
		} else if res.inf != sx*sy {
			return "inf * x must be infinite with the product sign"
		}
	case "/":
		switch {
		case ny.inf != 0 && nx.inf == 0:
			if !zero {
				return "finite / inf must be 0"
			}
		case ny.inf != 0: // inf / inf: a convention (+-1 here), not judged
		case sy == 0: // x / 0
			if sx == 0 && !zero || sx != 0 && res.inf != sx {
				return "x / 0 must be infinity of x's sign (0/0 = 0)"
			}
		default:
			if res.inf != sx*sy {
				return "inf / finite must be infinite with the quotient sign"
			}
		}
	case "+", "-":
		if op == "-" {
			sy = -sy
		}
		yinf := ny.inf
		if op == "-" {
			yinf = -yinf
		}
		switch {
		case nx.inf != 0 && yinf != 0 && nx.inf != yinf:
			// inf - inf: a convention (0 here), not judged
		case nx.inf != 0:
			if res.inf != nx.inf {
				return "inf + finite must be that infinity"
			}
		default:
			if res.inf != yinf {
				return "finite + inf must be that infinity"
			}
		}
	}
	return ""
}

var e16 = pow10(16)

func below1e16(r *big.Rat) bool { return new(big.Rat).Abs(r).Cmp(e16) < 0 }

// sameResult: two results of the same operation on equal operands in
// different representations. Inside the 16 digit domain that every
// representation holds exactly (|x|,|y| and both results below 10^16) the
// results must be the same value. Beyond it the integer representation is
// more precise than the decimal one (a 64 bit integer has up to 19 digits);
// there each result has been judged on its own (exact / within the decimal
// tolerance) and they may differ within that tolerance.
func sameResult(a, b xval, operandsSmall bool) bool {
	if a.inf != 0 || b.inf != 0 {
		return a.inf == b.inf
	}
	if a.r == nil || b.r == nil {
		return false
	}
	if a.r.Cmp(b.r) == 0 {
		return true
	}
	return !(operandsSmall && below1e16(a.r) && below1e16(b.r))
}

var binops = []string{"+", "-", "*", "/"}

func describe(r *rep) (string, string) { return nums[r.ni].text, r.kind }

// checkPairOfNumbers runs all operations for all representation choices of
// the numbers i and j.
func checkPairOfNumbers(c *lib.Ctx, i, j int) (evals, nontrivial int) {
	nx, ny := &nums[i], &nums[j]
	small := (nx.inf != 0 || below1e16(nx.r)) && (ny.inf != 0 || below1e16(ny.r))
	for _, op := range binops {
		var first *xval
		var firstX, firstY *rep
		for _, xi := range nx.reps {
			for _, yi := range ny.reps {
				x, y := &reps[xi], &reps[yi]
				evals++
				resv, pan := apply(op, x.v, y.v)
				xt, xk := describe(x)
				yt, yk := describe(y)
				cs := opCase{Op: op, X: xt, XK: xk, Y: yt, YK: yk}
				if pan != nil {
					c.Fail("", cs, "%s(%s) %s %s(%s) panicked: %s", xt, xk, op, yt, yk, lib.PanicText(pan))
					continue
				}
				res := exactOf(resv)
				cs.Result = res.String()
				class, msg := judgeArith(op, x, y, res)
				if msg != "" {
					failc(c, class, cs, "%s(%s) %s %s(%s) = %s: %s", xt, xk, op, yt, yk, res, msg)
					continue // a wrong result is not compared with the others
				}
				// representation independence; operands of more than 16
				// digits exist only as integers, for them the decimal path
				// legitimately works on the rounded operand
				if x.dec.r != nil && nx.inf == 0 && x.dec.r.Cmp(nx.r) != 0 && !isIntKind(y.kind) ||
					y.dec.r != nil && ny.inf == 0 && y.dec.r.Cmp(ny.r) != 0 && !isIntKind(x.kind) {
					continue
				}
				if first == nil {
					first, firstX, firstY = &res, x, y
				} else if !sameResult(*first, res, small) {
					c.Fail("", cs, "%s %s %s depends on the representation: %s for (%s,%s) but %s for (%s,%s)",
						xt, op, yt, *first, firstX.kind, firstY.kind, res, xk, yk)
				}
			}
		}
	}
	// modulus: defined on integers (operands are converted with ToInt)
	for _, xi := range nx.reps {
		for _, yi := range ny.reps {
			x, y := &reps[xi], &reps[yi]
			evals++
			resv, pan := apply("%", x.v, y.v)
			xt, xk := describe(x)
			yt, yk := describe(y)
			cs := opCase{Op: "%", X: xt, XK: xk, Y: yt, YK: yk}
			if nx.inf != 0 || ny.inf != 0 || !fitsInt64(nx.r) || !fitsInt64(ny.r) || ny.r.Sign() == 0 {
				// not an int64 integer / zero divisor: must be refused, not answered
				if pan == nil {
					// ToInt of an integer valued decimal is fine; only flag
					// answers for operands that are not int64 integers
					c.Fail("", cs, "%s(%s) %% %s(%s) returned %s instead of an error", xt, xk, yt, yk, exactOf(resv))
				}
				continue
			}
			if pan != nil {
				class := ""
				if atToInt64Limit(x) || atToInt64Limit(y) {
					class = "dnum-toint64-limit"
				}
				failc(c, class, cs, "%s(%s) %% %s(%s) panicked: %s", xt, xk, yt, yk, lib.PanicText(pan))
				continue
			}
			want := new(big.Int).Rem(nx.r.Num(), ny.r.Num()) // truncated, sign of the dividend
			res := exactOf(resv)
			if res.r == nil || res.r.Cmp(new(big.Rat).SetInt(want)) != 0 {
				cs.Result = res.String()
				c.Fail("", cs, "%s(%s) %% %s(%s) = %s want %s", xt, xk, yt, yk, res, want)
			}
		}
	}
	// comparisons
	want := 0
	switch {
	case nx.inf != 0 || ny.inf != 0:
		a, b := nx.inf*2, ny.inf*2
		if nx.inf == 0 {
			a = nx.r.Sign()
		}
		if ny.inf == 0 {
			b = ny.r.Sign()
		}
		want = sgn(a - b)
	default:
		want = nx.r.Cmp(ny.r)
	}
	for _, xi := range nx.reps {
		for _, yi := range ny.reps {
			x, y := &reps[xi], &reps[yi]
			evals += 8
			checkCompare(c, x, y, want)
		}
	}
	if nx.inf == 0 && ny.inf == 0 && nx.r.Sign() != 0 && ny.r.Sign() != 0 {
		nontrivial = len(nx.reps) * len(ny.reps)
	}
	return
}

// atToInt64Limit: the decimal +-9223372036854775000, the one int64-range
// integer that dnum.ToInt64 refuses (exponent 19 needs coef < MaxInt64/1000,
// strict, although coef == MaxInt64/1000 still fits)
func atToInt64Limit(a *rep) bool {
	return a.kind == "dnum" && strings.TrimPrefix(nums[a.ni].text, "-") == "9223372036854775000"
}

// compareClass computes the known-finding class of a comparison mismatch
func compareClass(x, y *rep) string {
	over := func(a, b *rep) bool {
		return a.kind == "int64" && nums[a.ni].sig > 16 && b.kind == "dnum"
	}
	if over(x, y) || over(y, x) {
		return "int64-over-16-digits-vs-dnum"
	}
	// the same number as decimal and as integer
	if x.ni == y.ni && (atToInt64Limit(x) && isIntKind(y.kind) || atToInt64Limit(y) && isIntKind(x.kind)) {
		return "dnum-toint64-limit"
	}
	return ""
}

func checkCompare(c *lib.Ctx, x, y *rep, want int) {
	xt, xk := describe(x)
	yt, yk := describe(y)
	fail := func(what string, got any, wantv any) {
		class := compareClass(x, y)
		failc(c, class, opCase{Op: what, X: xt, XK: xk, Y: yt, YK: yk},
			"%s(%s) %s %s(%s) = %v want %v", xt, xk, what, yt, yk, got, wantv)
	}
	if e := lib.Try(func() {
		if got := sgn(x.v.Compare(y.v)); got != want {
			fail("compare", got, want)
		}
		if got := x.v.Equal(y.v); got != (want == 0) {
			fail("equal", got, want == 0)
		}
		b := func(v core.Value) bool { return v == core.True }
		if got := b(core.OpIs(x.v, y.v)); got != (want == 0) {
			fail("is", got, want == 0)
		}
		if got := b(core.OpIsnt(x.v, y.v)); got != (want != 0) {
			fail("isnt", got, want != 0)
		}
		if got := b(core.OpLt(x.v, y.v)); got != (want < 0) {
			fail("<", got, want < 0)
		}
		if got := b(core.OpLte(x.v, y.v)); got != (want <= 0) {
			fail("<=", got, want <= 0)
		}
		if got := b(core.OpGt(x.v, y.v)); got != (want > 0) {
			fail(">", got, want > 0)
		}
		if got := b(core.OpGte(x.v, y.v)); got != (want >= 0) {
			fail(">=", got, want >= 0)
		}
	}); e != nil {
		c.Fail("", opCase{Op: "compare", X: xt, XK: xk, Y: yt, YK: yk}, "comparing %s(%s) with %s(%s) panicked: %s",
			xt, xk, yt, yk, lib.PanicText(e))
	}
}

// checkUnary: unary minus, add1, unary plus and literal conversion for every
// representation of number i
func checkUnary(c *lib.Ctx, i int) (evals int) {
	n := &nums[i]
	var one = big.NewRat(1, 1)
	for _, op := range []string{"neg", "add1", "uplus"} {
		var first *xval
		for _, xi := range n.reps {
			x := &reps[xi]
			evals++
			resv, pan := apply(op, x.v, nil)
			xt, xk := describe(x)
			cs := opCase{Op: op, X: xt, XK: xk}
			if pan != nil {
				c.Fail("", cs, "%s %s(%s) panicked: %s", op, xt, xk, lib.PanicText(pan))
				continue
			}
			res := exactOf(resv)
			cs.Result = res.String()
			class, msg := "", ""
			switch {
			case n.inf != 0:
				w := n.inf
				if op == "neg" {
					w = -w
				}
				if res.inf != w {
					msg = "wrong infinity"
				}
			case op == "uplus":
				if res.inf != 0 || res.r == nil || res.r.Cmp(n.r) != 0 {
					msg = "unary plus changed the value"
				}
			default:
				var r, rd *big.Rat
				if op == "neg" {
					r, rd = new(big.Rat).Neg(n.r), new(big.Rat).Neg(x.dec.r)
				} else {
					r, rd = new(big.Rat).Add(n.r, one), new(big.Rat).Add(x.dec.r, one)
				}
				if isIntKind(x.kind) && fitsInt64(r) {
					if res.inf != 0 || res.r == nil || res.r.Cmp(r) != 0 {
						msg = "integer operand, the exact result " + r.Num().String() + " fits int64 but got something else"
					}
				} else if isIntKind(x.kind) && isIntKind(res.kind) && res.r.Num().Cmp(wrap64(r)) == 0 {
					class, msg = "int-fastpath-wrap", "integer operand, exact result "+r.Num().String()+
						" does not fit int64: got the wrapped value instead of decimal arithmetic"
				} else {
					tol := -1000
					if op == "add1" {
						tol = max(x.dec.exp, 1)
					}
					msg = checkDecimal(res, rd, tol)
				}
			}
			if msg != "" {
				failc(c, class, cs, "%s %s(%s) = %s: %s", op, xt, xk, res, msg)
				continue
			}
			if first == nil {
				first = &res
			} else if !sameResult(*first, res, n.inf != 0 || below1e16(n.r)) {
				c.Fail("", cs, "%s %s depends on the representation: %s vs %s (%s)", op, xt, *first, res, xk)
			}
		}
	}
	// literal -> value (representation selection of NumFromString)
	if n.inf == 0 {
		evals++
		var v core.Value
		if e := lib.Try(func() { v = core.NumFromString(n.text) }); e != nil {
			c.Fail("", opCase{Op: "literal", X: n.text}, "NumFromString(%q) panicked: %s", n.text, lib.PanicText(e))
		} else if x := exactOf(v); x.r == nil || x.r.Cmp(n.r) != 0 {
			c.Fail("", opCase{Op: "literal", X: n.text}, "NumFromString(%q) = %s", n.text, x)
		} else if fitsInt64(n.r) && !isIntKind(x.kind) && !strings.ContainsAny(n.text, ".e") {
			c.Fail("", opCase{Op: "literal", X: n.text}, "NumFromString(%q) is a %s, expected an integer representation", n.text, x.kind)
		}
	}
	return
}

func run(c *lib.Ctx) {
	buildAlphabet(c)
	kinds := map[string]int{}
	for _, r := range reps {
		kinds[r.kind]++
	}
	c.Set("numbers", len(nums))
	c.Set("representations", kinds)
	n := len(nums)
	c.Par(n, func(i int) {
		ev := checkUnary(c, i)
		nt := 0
		for j := 0; j < n; j++ {
			e, t := checkPairOfNumbers(c, i, j)
			ev += e
			nt += t
		}
		c.Eval(ev)
		c.Nontrivial(nt)
		if i%41 == 7 && c.NSamples() < 6 {
			j := (i*31 + 11) % n
			x, y := &reps[nums[i].reps[0]], &reps[nums[j].reps[len(nums[j].reps)-1]]
			s := map[string]string{"x": nums[i].text + "(" + x.kind + ")", "y": nums[j].text + "(" + y.kind + ")"}
			for _, op := range binops {
				if v, p := apply(op, x.v, y.v); p == nil {
					s["x"+op+"y"] = exactOf(v).String()
				}
			}
			s["compare"] = fmt.Sprint(x.v.Compare(y.v))
			c.Sample(s)
		}
	})
}

// ---------------------------------------------------------------- replay

func findRep(text, kind string) *rep {
	for i := range reps {
		if nums[reps[i].ni].text == text && reps[i].kind == kind {
			return &reps[i]
		}
	}
	return nil
}

func replay(c *lib.Ctx, raw json.RawMessage) {
	var oc opCase
	if err := json.Unmarshal(raw, &oc); err != nil {
		lib.Infra("bad case: %v", err)
	}
	c.Tier = "thorough" // the larger alphabet contains the quick one
	buildAlphabet(c)
	x := findRep(oc.X, oc.XK)
	if x == nil {
		lib.Infra("replay: operand %s(%s) is not in the alphabet", oc.X, oc.XK)
	}
	if oc.Y == "" {
		checkUnary(c, x.ni)
		return
	}
	y := findRep(oc.Y, oc.YK)
	if y == nil {
		lib.Infra("replay: operand %s(%s) is not in the alphabet", oc.Y, oc.YK)
	}
	checkPairOfNumbers(c, x.ni, y.ni)
}

func main() {
	lib.Main(lib.Spec{
		ID:    "C26",
		Level: "exploration",
		Rule: "all ordered pairs of a boundary alphabet of numbers, each in every exact representation (smi, SuInt64, SuDnum) " +
			"reachable through the public constructors, through OpAdd/OpSub/OpMul/OpDiv/OpMod, OpUnaryMinus/OpAdd1/OpUnaryPlus, " +
			"NumFromString and Compare/Equal/OpIs/OpIsnt/OpLt/OpLte/OpGt/OpGte, judged against math/big; evaluations = operations judged; " +
			"a (representation pair) is non-trivial and distinct by construction when both numbers are finite and non-zero",
		Assumptions: []string{
			"math/big is the trusted oracle",
			"decimal results are judged with the C27 tolerance (one unit in the 16th significant digit) against the exact operation on the operands converted to 16 digit decimals",
			"integers of more than 16 digits exist only in the integer representation; representation independence is required for operands that every representation holds exactly, and an exact integer result of more than 16 digits is accepted next to its decimal rounding",
			"SuInt64 values inside the smi range (other than the two limits Int64Val produces) cannot be constructed through the public API and are not enumerated",
			"% is judged for int64-range integer operands with a non-zero divisor (truncated remainder); otherwise it must raise an error",
			"verdict is for the enumerated alphabet only",
		},
		QuickBudget:    60,
		ThoroughBudget: 600,
		Run:            run,
		Replay:         replay,
	})
}
