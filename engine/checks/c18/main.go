// C18 Concurrent storage allocations never overlap.
//
// The real db19/stor.Stor (its sync, sync/atomic, time imports and channel
// operations rewritten to the controlled scheduler) on a HeapStor with 64-byte
// chunks is driven by 2–3 allocator threads. Every interleaving of their
// atomic operations / lock acquisitions within the preemption bound is
// executed, for every combination of allocation sizes from a boundary alphabet
// and three cursor positions relative to the chunk end.
//
// Oracle (interval model): the returned ranges are pairwise disjoint, each lies
// inside one chunk and below Size(), the slice has len==cap==n and is the
// storage at that offset (a distinct fill pattern written through the slice is
// read back through Data(offset) at the end). "Stor.Alloc too many retries" is
// a loud failure and is allowed by the property (counted).
package main

import (
	"encoding/json"
	"fmt"
	"sort"
	"strings"

	"github.com/apmckinlay/gsuneido/db19/stor"
	"github.com/apmckinlay/gsuneido/verifshim/vsched"

	"verif/lib"
	"verif/sched"
)

const chunk = 64

type scen struct {
	name    string
	prefill []int   // sequential allocations made before the threads start
	threads [][]int // allocation sizes per thread
	bound   int
}

type alloc struct {
	thread, idx, n int
	off            uint64
	data           []byte
	loud           string // non-empty: Alloc panicked with this message
}

type exec struct {
	sc     *scen
	st     *stor.Stor
	allocs []*alloc
	other  string
}

func (x *exec) Main() {
	vsched.NoPreempt(true)
	x.st = stor.HeapStor(chunk)
	for _, n := range x.sc.prefill {
		x.st.Alloc(n)
	}
	vsched.NoPreempt(false)
	for t, sizes := range x.sc.threads {
		t, sizes := t, sizes
		vsched.GoNamed(fmt.Sprintf("alloc%d", t), false, func() {
			for i, n := range sizes {
				a := &alloc{thread: t, idx: i, n: n}
				e := lib.Try(func() { a.off, a.data = x.st.Alloc(n) })
				if e != nil {
					a.loud = lib.PanicText(e)
					if !strings.Contains(a.loud, "too many retries") {
						x.other = fmt.Sprintf("thread %d Alloc(%d) panicked: %s", t, n, a.loud)
					}
				} else {
					for j := range a.data {
						a.data[j] = byte(1 + t*16 + i)
					}
				}
				x.allocs = append(x.allocs, a)
			}
		})
	}
}

func (x *exec) Monitor() {}

func (x *exec) Finish(out vsched.Outcome) (string, *sched.Failure) {
	var obs []string
	for _, a := range x.allocs {
		if a.loud != "" {
			obs = append(obs, fmt.Sprintf("t%d.%d:loud", a.thread, a.idx))
		} else {
			obs = append(obs, fmt.Sprintf("t%d.%d:%d+%d", a.thread, a.idx, a.off, a.n))
		}
	}
	sort.Strings(obs)
	o := strings.Join(obs, " ")
	fail := func(format string, a ...any) (string, *sched.Failure) {
		return o, &sched.Failure{Msg: fmt.Sprintf(format, a...) + " [" + o + "]"}
	}
	if x.other != "" {
		return fail("%s", x.other)
	}
	if out.Status != "ok" {
		return fail("execution ended with %s: %s", out.Status, out.Detail)
	}
	size := x.st.Size()
	var ok []*alloc
	for _, a := range x.allocs {
		if a.loud == "" {
			ok = append(ok, a)
		}
	}
	for _, a := range ok {
		if len(a.data) != a.n || cap(a.data) != a.n {
			return fail("Alloc(%d) returned slice len %d cap %d", a.n, len(a.data), cap(a.data))
		}
		if a.off/chunk != (a.off+uint64(a.n)-1)/chunk {
			return fail("allocation [%d,%d) straddles a chunk boundary", a.off, a.off+uint64(a.n))
		}
		if a.off+uint64(a.n) > size {
			return fail("allocation [%d,%d) lies beyond storage size %d", a.off, a.off+uint64(a.n), size)
		}
	}
	sort.Slice(ok, func(i, j int) bool { return ok[i].off < ok[j].off })
	pre := 0
	for _, n := range x.sc.prefill {
		pre += n // prefill ranges end at most here (single chunk by construction)
	}
	for i, a := range ok {
		if i > 0 && ok[i-1].off+uint64(ok[i-1].n) > a.off {
			return fail("allocations overlap: [%d,%d) and [%d,%d)", ok[i-1].off, ok[i-1].off+uint64(ok[i-1].n), a.off, a.off+uint64(a.n))
		}
		if a.off < uint64(pre) {
			return fail("allocation [%d,%d) overlaps the %d bytes allocated before", a.off, a.off+uint64(a.n), pre)
		}
	}
	for _, a := range ok {
		want := byte(1 + a.thread*16 + a.idx)
		d := x.st.Data(a.off)
		for j := 0; j < a.n; j++ {
			if d[j] != want || a.data[j] != want {
				return fail("fill pattern of allocation [%d,%d) damaged or slice is not the storage at its offset", a.off, a.off+uint64(a.n))
			}
		}
	}
	return o, nil
}

func scenarios(c *lib.Ctx) []*scen {
	starts := map[string][]int{"fresh": nil, "8-before-end": {56}, "40-before-end": {24}, "second-chunk-8-before-end": {64, 56}}
	var names []string
	for k := range starts {
		names = append(names, k)
	}
	sort.Strings(names)
	var out []*scen
	gen := func(shape string, nthreads, per int, sizes []int, bound int) {
		total := nthreads * per
		combos := 1
		for i := 0; i < total; i++ {
			combos *= len(sizes)
		}
		for _, sn := range names {
			for k := 0; k < combos; k++ {
				th := make([][]int, nthreads)
				kk := k
				var label []string
				for t := 0; t < nthreads; t++ {
					for i := 0; i < per; i++ {
						th[t] = append(th[t], sizes[kk%len(sizes)])
						kk /= len(sizes)
					}
					label = append(label, fmt.Sprint(th[t]))
				}
				out = append(out, &scen{name: fmt.Sprintf("%s/%s/%s", shape, sn, strings.Join(label, "")),
					prefill: starts[sn], threads: th, bound: bound})
			}
		}
	}
	if c.Quick() {
		gen("2x2", 2, 2, []int{1, 24, 40, 64}, 2)
		gen("3x1", 3, 1, []int{1, 24, 40, 64}, 2)
		gen("2x3", 2, 3, []int{24, 64}, 2)
	} else {
		gen("2x2", 2, 2, []int{1, 24, 40, 64}, 4)
		gen("3x1", 3, 1, []int{1, 24, 40, 64}, 3)
		gen("2x3", 2, 3, []int{24, 40, 64}, 3)
		gen("3x2", 3, 2, []int{24, 64}, 2)
	}
	return out
}

func build(c *lib.Ctx) []*sched.Scenario {
	var out []*sched.Scenario
	for _, s := range scenarios(c) {
		s := s
		out = append(out, &sched.Scenario{Name: s.name, MaxBound: s.bound, MaxSteps: 5000,
			New: func() sched.Execution { return &exec{sc: s} }})
	}
	return out
}

func run(c *lib.Ctx) {
	scs := build(c)
	c.Set("scenarios", len(scs))
	// scenarios are distributed over the worker processes (each explores its
	// scenarios completely), not the schedule tree
	shard, n := c.Shard, c.NShards
	c.Shard, c.NShards = 0, 1
	for i, sc := range scs {
		if i%n != shard {
			continue
		}
		if c.Expired() {
			c.Cap("scenario %s not started", sc.Name)
			continue
		}
		sched.Explore(c, sc)
	}
}

func replay(c *lib.Ctx, raw json.RawMessage) { sched.Replay(c, build(c), raw) }

func main() {
	lib.Main(lib.Spec{
		ID:    "C18",
		Level: "exploration",
		Rule: "every interleaving (at atomic-operation / lock granularity) within the preemption bound of 2-3 allocator threads on the real Stor with 64-byte chunks, " +
			"for every combination of sizes from {1,24,40,64} (subset for the larger shapes) and 4 cursor start positions; evaluations = complete executions; " +
			"distinct = distinct (scenario, set of returned ranges) outcomes",
		Assumptions: []string{
			"sync/atomic operations are sequentially consistent single steps; the mutex is modelled by the scheduler",
			"chunk size 64 instead of 64 MiB (HeapStor parameter, not a source change); sizes relative to the chunk are what the code's logic depends on",
			"'Stor.Alloc too many retries' is a loud failure allowed by the property; occurrences are counted in the outcome strings",
		},
		QuickBudget: 90, ThoroughBudget: 1200,
		Procs: 16,
		Run:   run, Replay: replay,
	})
}
