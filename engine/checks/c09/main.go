// C09 Index iteration returns exactly the live keys in order.
//
// Bounded-exhaustive enumeration on the REAL index.OverIter / SimpleIter (and
// through them btree.Iterator and ixbuf.Iterator, range and skip-scan mode)
// against a sorted-map + cursor model:
//
//   - LAYER STACKS: an index is a stored btree (built with split factor 2, so a
//     handful of keys already spans several leaves and tree levels) + a base
//     ixbuf + transaction ixbufs + the transaction's own mutable ixbuf. Every
//     key has a "life line": present/absent in the btree, then in every ixbuf
//     layer one of none / add / update / delete, valid with respect to presence
//     (the overlay invariant). Group "layering" enumerates EVERY life line for
//     every key (34 per key for 3 ixbuf layers), the other groups a reduced set
//     of representative life lines.
//   - RANGES from the boundary keys around the universe; SKIP-SCAN prefix and
//     suffix ranges over 2 prefixes x 3 suffixes including the empty field.
//   - OPERATION STRINGS: all strings of a fixed length over Next / Prev / Rewind
//     / Range(r) / modifications of the own mutable layer (insert, delete,
//     update a key) / "new overlay object" / commit-merge-save re-layering that
//     keeps the content / switching to a different layer stack altogether (a
//     cursor continuing in a later transaction). Every prefix is checked.
//
// Oracle: content = fold of the life lines (key -> offset); cursor model:
// rewound | within(key) | eof; Next = least visible key > current key (first
// visible key when rewound) in the CURRENT content, Prev symmetric, eof sticks
// until Rewind or Range; visible = in [org,end), or in skip-scan mode prefix in
// prefix range and suffix in suffix range (fields known by construction). After
// every Next/Prev: Eof(), HasCur() and Cur() (key and live offset) must agree.
package main

import (
	"encoding/json"
	"fmt"
	"os"
	"sort"
	"strings"
	"time"

	"github.com/apmckinlay/gsuneido/db19/index"
	"github.com/apmckinlay/gsuneido/db19/index/btree"
	"github.com/apmckinlay/gsuneido/db19/index/iface"
	"github.com/apmckinlay/gsuneido/db19/index/ixbuf"
	"github.com/apmckinlay/gsuneido/db19/index/ixkey"
	"github.com/apmckinlay/gsuneido/db19/stor"

	"verif/lib"
)

// ------------------------------------------------------------------ universes

type universe struct {
	Name     string
	keys     []string // sorted
	pre, suf []string // skip-scan fields per key (nil for plain universes)
}

const sep = "\x00\x00"

func compKey(pre, suf string) string {
	// two fields joined by the composite key separator, trailing empty field
	// trimmed (the documented ixkey encoding; fields contain no zero bytes)
	if suf == "" {
		return pre
	}
	return pre + sep + suf
}

var universes = map[string]*universe{}

func plain(name string, keys ...string) *universe {
	u := &universe{Name: name, keys: keys}
	universes[name] = u
	return u
}

func composite(name string, pres, sufs []string) *universe {
	u := &universe{Name: name}
	type kf struct{ k, p, s string }
	var all []kf
	for _, p := range pres {
		for _, s := range sufs {
			all = append(all, kf{compKey(p, s), p, s})
		}
	}
	sort.Slice(all, func(i, j int) bool { return all[i].k < all[j].k })
	for _, x := range all {
		u.keys = append(u.keys, x.k)
		u.pre = append(u.pre, x.p)
		u.suf = append(u.suf, x.s)
	}
	universes[name] = u
	return u
}

var (
	u3  = plain("bdf", "b", "d", "f")
	u3e = plain("_df", "", "d", "f")
	u4  = plain("bdfh", "b", "d", "f", "h")
	u2  = plain("bd", "b", "d")
	us  = composite("skip", []string{"", "q"}, []string{"", "s", "u"})
	us3 = composite("skip3", []string{"", "p", "q"}, []string{"", "s", "u"})
	ul  = func() *universe {
		var ks []string
		for i := 0; i < 72; i++ {
			ks = append(ks, fmt.Sprintf("k%02d", i))
		}
		return plain("k72", ks...)
	}()
)

// boundaries of a plain universe: Min, before/at/after every key, Max
func (u *universe) bounds() []string {
	set := map[string]bool{ixkey.Min: true, ixkey.Max: true}
	for _, k := range u.keys {
		set[k] = true
		set[k+"\x01"] = true // between k and the next key
	}
	var bs []string
	for b := range set {
		bs = append(bs, b)
	}
	sort.Strings(bs)
	return bs
}

// ------------------------------------------------------------------ life lines

// A life line is a string: [0] 'P' / '.' = in the btree or not, then one char
// per ixbuf slot (oldest first): '.' none, 'a' add, 'u' update, 'd' delete.
func lifeLines(nslots int) []string {
	var out []string
	var rec func(s string, present bool)
	rec = func(s string, present bool) {
		if len(s) == 1+nslots {
			out = append(out, s)
			return
		}
		rec(s+".", present)
		if present {
			rec(s+"u", true)
			rec(s+"d", false)
		} else {
			rec(s+"a", true)
		}
	}
	rec(".", false)
	rec("P", true)
	return out
}

func offFor(k, ver int) uint64 { return uint64((k+1)*1000 + ver) }

// stack is a built overlay plus its model content.
type stack struct {
	ov      *index.Overlay
	content []uint64 // live offset per key index, 0 = absent
	ver     []int    // offset version counter per key
}

func newStor() *stor.Stor {
	st := stor.HeapStor(1024)
	st.Alloc(1)
	return st
}

// proto is the immutable part of a layer stack (the stored btree), built
// once per configuration; instantiate adds fresh ixbuf layers (the mutable
// layer is modified by some op strings).
type proto struct {
	u       *universe
	lines   []string
	withMut bool
	bt      *btree.T
}

func newProto(u *universe, lines []string, withMut bool) *proto {
	p := &proto{u: u, lines: lines, withMut: withMut}
	b := btree.NewBuilder(newStor())
	for k, ln := range lines {
		if ln[0] == 'P' {
			if !b.Add(u.keys[k], offFor(k, 1)) {
				panic("harness: builder refused key")
			}
		}
	}
	p.bt = b.Finish()
	return p
}

// instantiate creates the real overlay for the life lines. The last ixbuf
// slot is the mutable layer when withMut.
func (p *proto) instantiate() *stack {
	u, lines := p.u, p.lines
	n := len(u.keys)
	nslots := len(lines[0]) - 1
	s := &stack{content: make([]uint64, n), ver: make([]int, n)}
	for k, ln := range lines {
		if ln[0] == 'P' {
			s.ver[k] = 1
			s.content[k] = offFor(k, 1)
		}
	}
	ibs := make([]*ixbuf.T, nslots)
	for sl := range ibs {
		ibs[sl] = &ixbuf.T{}
		for k, ln := range lines {
			switch ln[1+sl] {
			case 'a':
				s.ver[k]++
				s.content[k] = offFor(k, s.ver[k])
				ibs[sl].Insert(u.keys[k], s.content[k])
			case 'u':
				s.ver[k]++
				s.content[k] = offFor(k, s.ver[k])
				ibs[sl].Update(u.keys[k], s.content[k])
			case 'd':
				ibs[sl].Delete(u.keys[k], s.content[k])
				s.content[k] = 0
			}
		}
	}
	var mut *ixbuf.T
	if p.withMut {
		mut = ibs[nslots-1]
		ibs = ibs[:nslots-1]
	}
	s.ov = index.VerifNewOverlay(p.bt, ibs, mut)
	return s
}

// ------------------------------------------------------------------ execution

type tran struct {
	ov    *index.Overlay
	reads int
}

func (t *tran) GetIndexI(string, int) *index.Overlay { return t.ov }
func (t *tran) Read(string, int, string, string)     { t.reads++ }
func (t *tran) Num() int                             { return 7 }

type rangeSpec struct {
	Org, End   string
	Skip       bool // skip-scan: Org/End is the PREFIX range, SOrg/SEnd the suffix range
	SOrg, SEnd string
}

func (r rangeSpec) String() string {
	q := func(s string) string {
		switch s {
		case ixkey.Min:
			return "min"
		case ixkey.Max:
			return "max"
		}
		return fmt.Sprintf("%q", s)
	}
	if r.Skip {
		return fmt.Sprintf("skip-scan prefix[%s,%s) suffix[%s,%s)", q(r.Org), q(r.End), q(r.SOrg), q(r.SEnd))
	}
	return fmt.Sprintf("[%s,%s)", q(r.Org), q(r.End))
}

const (
	stRewound = iota
	stWithin
	stEof
)

type exec struct {
	u      *universe
	cur    *stack // current stack (model content lives here)
	alt    *stack // for the switch op
	tr     *tran
	it     index.IndexIter
	rng    rangeSpec
	rngs   []rangeSpec // for the "rN" op
	st     int
	pos    int
	simple bool
	nsteps int
}

func (e *exec) visible(k int) bool {
	if e.cur.content[k] == 0 {
		return false
	}
	if e.rng.Skip {
		p, s := e.u.pre[k], e.u.suf[k]
		return e.rng.Org <= p && p < e.rng.End && e.rng.SOrg <= s && s < e.rng.SEnd
	}
	key := e.u.keys[k]
	return e.rng.Org <= key && key < e.rng.End
}

func (e *exec) modelNext() {
	if e.st == stEof {
		return
	}
	from := 0
	if e.st == stWithin {
		from = e.pos + 1
	}
	for k := from; k < len(e.u.keys); k++ {
		if e.visible(k) {
			e.st, e.pos = stWithin, k
			return
		}
	}
	e.st = stEof
}

func (e *exec) modelPrev() {
	if e.st == stEof {
		return
	}
	from := len(e.u.keys) - 1
	if e.st == stWithin {
		from = e.pos - 1
	}
	for k := from; k >= 0; k-- {
		if e.visible(k) {
			e.st, e.pos = stWithin, k
			return
		}
	}
	e.st = stEof
}

func (e *exec) applyRange() {
	if e.rng.Skip {
		e.it.SkipScan(iface.Range{Org: e.rng.Org, End: e.rng.End}, iface.Range{Org: e.rng.SOrg, End: e.rng.SEnd}, 1)
	} else {
		e.it.Range(iface.Range{Org: e.rng.Org, End: e.rng.End})
	}
	e.st = stRewound
}

func newExec(u *universe, s, alt *stack, rng rangeSpec, simple bool) *exec {
	e := &exec{u: u, cur: s, alt: alt, rng: rng, simple: simple}
	e.tr = &tran{ov: s.ov}
	if simple {
		e.it = index.NewSimpleIter(e.tr, s.ov)
		if e.it == nil {
			panic("harness: NewSimpleIter returned nil for a btree-only overlay")
		}
	} else {
		e.it = index.NewOverIter("t", 0)
	}
	e.applyRange()
	return e
}

// compare checks the iterator against the model cursor.
func (e *exec) compare() string {
	eof, has := e.it.Eof(), e.it.HasCur()
	switch e.st {
	case stEof:
		if !eof || has {
			s := ""
			if has {
				k, o := e.it.Cur()
				s = fmt.Sprintf(" at (%q,%d)", k, o)
			}
			return fmt.Sprintf("iterator is not at eof%s but no further visible key exists", s)
		}
	case stRewound:
		if eof || has {
			return fmt.Sprintf("after rewind Eof()=%v HasCur()=%v", eof, has)
		}
	case stWithin:
		wk, wo := e.u.keys[e.pos], e.cur.content[e.pos]
		if eof || !has {
			return fmt.Sprintf("iterator is at eof (Eof=%v HasCur=%v), expected (%q,%d)", eof, has, wk, wo)
		}
		k, o := e.it.Cur()
		if k != wk || o != wo {
			return fmt.Sprintf("iterator is at (%q,%d), expected (%q,%d)", k, o, wk, wo)
		}
		if co := e.it.CurOff(); co != wo {
			return fmt.Sprintf("CurOff() = %d, expected %d", co, wo)
		}
	}
	return ""
}

const pruned = "\x00pruned"

// step executes one op token on the implementation and the model.
// Returns "" ok, pruned when the op is not enabled, else a failure text.
func (e *exec) step(tok string) string {
	e.nsteps++
	mutable := func() *ixbuf.T {
		_, _, mut := e.cur.ov.VerifParts()
		return mut
	}
	relayer := func(f func(bt *btree.T, layers []*ixbuf.T) *index.Overlay) string {
		bt, layers, mut := e.cur.ov.VerifParts()
		if mut != nil && mut.Len() != 0 {
			return pruned // only content preserving when nothing is uncommitted
		}
		base := f(bt, layers)
		ns := *e.cur
		ns.ov = base.Mutable()
		e.cur = &ns
		e.tr.ov = ns.ov
		return ""
	}
	switch tok[0] {
	case 'N':
		e.it.Next(e.tr)
		e.modelNext()
		return e.compare()
	case 'P':
		e.it.Prev(e.tr)
		e.modelPrev()
		return e.compare()
	case 'R':
		e.it.Rewind()
		e.st = stRewound
		return e.compare()
	case 'r': // Range(r): sets the range and rewinds
		e.rng = e.rngs[int(tok[1]-'0')]
		e.applyRange()
		return e.compare()
	case 't', 'u': // modify the transaction's own layer
		if e.simple || mutable() == nil {
			return pruned
		}
		k := int(tok[1] - '0')
		s := e.cur
		switch {
		case tok[0] == 'u' && s.content[k] == 0:
			return pruned
		case tok[0] == 'u':
			s.ver[k]++
			s.content[k] = offFor(k, s.ver[k])
			s.ov.Update(e.u.keys[k], s.content[k])
		case s.content[k] == 0:
			s.ver[k]++
			s.content[k] = offFor(k, s.ver[k])
			s.ov.Insert(e.u.keys[k], s.content[k])
		default:
			s.ov.Delete(e.u.keys[k], s.content[k])
			s.content[k] = 0
		}
	case 'I': // same content in a new Overlay object (what a new transaction sees)
		bt, layers, mut := e.cur.ov.VerifParts()
		ns := *e.cur
		ns.ov = index.VerifNewOverlay(bt, layers, mut)
		e.cur = &ns
		e.tr.ov = ns.ov
	case 'F': // commit: the mutable layer becomes a transaction layer; new transaction
		bt, layers, mut := e.cur.ov.VerifParts()
		if mut == nil {
			return pruned
		}
		latest := index.VerifNewOverlay(bt, layers, nil)
		e.cur.ov.UpdateWith(latest) // as Meta.LayeredOnto does
		ns := *e.cur
		ns.ov = e.cur.ov.Mutable()
		e.cur = &ns
		e.tr.ov = ns.ov
	case 'G': // background merge of all transaction layers into the base layer
		return relayer(func(bt *btree.T, layers []*ixbuf.T) *index.Overlay {
			base := index.VerifNewOverlay(bt, layers, nil)
			if len(layers) < 2 {
				return base
			}
			mr := base.Merge(len(layers) - 1)
			return base.WithMerged(mr, len(layers)-1)
		})
	case 'S': // persist: the base layer is saved into the btree
		return relayer(func(bt *btree.T, layers []*ixbuf.T) *index.Overlay {
			base := index.VerifNewOverlay(bt, layers, nil)
			return base.WithSaved(base.Save())
		})
	case 'X': // the cursor continues on a different index state
		e.cur, e.alt = e.alt, e.cur
		e.tr.ov = e.cur.ov
	default:
		panic("harness: unknown op " + tok)
	}
	return ""
}

// ------------------------------------------------------------------ cases

type caseSpec struct {
	Group    string      `json:"group"`
	Universe string      `json:"universe"`
	Lines    []string    `json:"lines"`
	AltLines []string    `json:"alt_lines,omitempty"`
	WithMut  bool        `json:"with_mut"`
	Simple   bool        `json:"simple,omitempty"`
	Rng      rangeSpec   `json:"range"`
	Rngs     []rangeSpec `json:"ranges,omitempty"`
	Ops      []string    `json:"ops"`
}

func (cs caseSpec) String() string {
	s := fmt.Sprintf("group=%s keys=%q life-lines(btree,layers..%s)=%v range=%v ops=%v", cs.Group,
		universes[cs.Universe].keys, map[bool]string{true: ",mutable", false: ""}[cs.WithMut], cs.Lines, cs.Rng, cs.Ops)
	if cs.AltLines != nil {
		s += fmt.Sprintf(" other-stack=%v", cs.AltLines)
	}
	return s
}

// runCase executes one op string from scratch; returns steps executed, a
// failure text ("" if none) and the index of the failing op.
func runCase(cs caseSpec, p, palt *proto) (steps int, msg string, at int) {
	u := universes[cs.Universe]
	if e := lib.Try(func() {
		if p == nil {
			p = newProto(u, cs.Lines, cs.WithMut)
			if cs.AltLines != nil {
				palt = newProto(u, cs.AltLines, cs.WithMut)
			}
		}
		s := p.instantiate()
		var alt *stack
		if palt != nil {
			alt = palt.instantiate()
		}
		ex := newExec(u, s, alt, cs.Rng, cs.Simple)
		ex.rngs = cs.Rngs
		for i, tok := range cs.Ops {
			m := ex.step(tok)
			if m == pruned {
				break
			}
			steps++
			if m != "" {
				msg, at = m, i
				return
			}
		}
	}); e != nil {
		return steps, "panic: " + lib.PanicText(e), steps
	}
	return
}

// strings of exactly length n over the alphabet (every prefix is checked
// while the string runs, so only full-length strings are enumerated)
func opStrings(alpha []string, n int, must func([]string) bool) [][]string {
	var out [][]string
	cur := make([]string, n)
	var rec func(i int)
	rec = func(i int) {
		if i == n {
			if must == nil || must(cur) {
				out = append(out, append([]string(nil), cur...))
			}
			return
		}
		for _, a := range alpha {
			cur[i] = a
			rec(i + 1)
		}
	}
	rec(0)
	return out
}

func contains(ss []string, pred func(string) bool) bool {
	for _, s := range ss {
		if pred(s) {
			return true
		}
	}
	return false
}

var groupStart []func()

type runner struct {
	c *lib.Ctx
}

// sweep runs every op string for one (stack, range) configuration.
func (r *runner) sweep(cs caseSpec, strs [][]string) {
	c := r.c
	steps := 0
	u := universes[cs.Universe]
	var p, palt *proto
	if e := lib.Try(func() {
		p = newProto(u, cs.Lines, cs.WithMut)
		if cs.AltLines != nil {
			palt = newProto(u, cs.AltLines, cs.WithMut)
		}
	}); e != nil {
		c.Fail("", cs, "%s: building the stored btree panicked: %s", cs, lib.PanicText(e))
		return
	}
	fl := newFlight()
	defer fl.done()
	for _, ops := range strs {
		cs.Ops = ops
		hung := cs
		fl.begin(func() (any, string) { return hung, hung.String() })
		n, msg, at := runCase(cs, p, palt)
		fl.end()
		steps += n
		if msg != "" {
			cs.Ops = ops[:min(at+1, len(ops))]
			c.Fail("", cs, "%s: after the last op: %s", cs, msg)
			if c.Stopped() {
				break
			}
		}
	}
	c.Eval(len(strs))
	c.Count("iterator_steps_"+cs.Group, steps)
	c.Nontrivial(1) // one (layer stack, range) configuration, distinct by construction
}

func rangesFor(u *universe, all bool) []rangeSpec {
	bs := u.bounds()
	var rs []rangeSpec
	if all {
		for i, o := range bs {
			for _, e := range bs[i:] {
				rs = append(rs, rangeSpec{Org: o, End: e})
			}
		}
		return rs
	}
	k := u.keys
	last := len(k) - 1
	return []rangeSpec{{Org: ixkey.Min, End: ixkey.Max}, {Org: k[0] + "\x01", End: ixkey.Max},
		{Org: ixkey.Min, End: k[last]}, {Org: k[0], End: k[last]}, {Org: k[1], End: k[1] + "\x01"}}
}

// reduced, representative life lines for nslots ixbuf slots (last = mutable)
func reducedLines(nslots int) []string {
	pad := func(s string) string { return s + strings.Repeat(".", 1+nslots-len(s)) }
	last := func(pre string, op byte) string {
		b := []byte(pad(pre))
		b[nslots] = op
		return string(b)
	}
	ls := []string{
		pad("."),       // never existed
		pad("P"),       // stored only
		pad(".a"),      // added in the base layer
		pad("Pd"),      // stored, deleted in the base layer
		pad("Pu"),      // stored, updated in the base layer
		last(".", 'a'), // added by the newest layer
		last("P", 'd'), // stored, deleted by the newest layer
	}
	if nslots >= 2 {
		ls = append(ls, pad("Pda"), pad(".ad"), pad("P.u"))
	}
	return ls
}

func cross(lines []string, n int, fn func(sel []string)) {
	sel := make([]string, n)
	var rec func(i int)
	rec = func(i int) {
		if i == n {
			fn(append([]string(nil), sel...))
			return
		}
		for _, l := range lines {
			sel[i] = l
			rec(i + 1)
		}
	}
	rec(0)
}

func run(c *lib.Ctx) {
	startWatchdog(c, "C09")
	defer btree.SetSplit(btree.SetSplit(2))
	r := &runner{c}
	quick := c.Quick()
	np := []string{"N", "P"}
	hasR := func(s []string) bool { return contains(s, func(t string) bool { return t == "R" }) }
	// VERIF_C09_GROUPS=G5,G6 restricts a (development) run to some groups
	want := func(g string) bool {
		sel := os.Getenv("VERIF_C09_GROUPS")
		if sel != "" && !strings.Contains(","+sel+",", ","+g+",") {
			return false
		}
		if c.Expired() {
			c.Cap("group %s not started", g)
			return false
		}
		t0 := time.Now()
		groupStart = append(groupStart, func() { c.Note("group %s took %.1fs", g, time.Since(t0).Seconds()) })
		if len(groupStart) > 1 {
			groupStart[len(groupStart)-2]()
		}
		return true
	}
	defer func() {
		if len(groupStart) > 0 {
			groupStart[len(groupStart)-1]()
		}
	}()

	// (the cheap groups G7 and G8 run first so that a loaded machine still covers them)
	// ---- G7 SimpleIter over a stored btree only: every key subset, every range, skip-scan
	if want("G7") {
		strs := append(opStrings(np, 5, nil), opStrings([]string{"N", "P", "R"}, 4, hasR)...)
		for _, u := range []*universe{u4, us, us3} {
			n := len(u.keys)
			var rs []rangeSpec
			if u.pre == nil {
				rs = rangesFor(u, true)
			} else {
				for _, p := range [][2]string{{ixkey.Min, ixkey.Max}, {ixkey.Min, "q"}, {"q", "q\x01"}, {"p", "p\x01"}} {
					for _, s := range [][2]string{{ixkey.Min, ixkey.Max}, {ixkey.Min, "\x01"}, {"s", "s\x01"}, {"s", ixkey.Max}, {"\x01", "u"}} {
						rs = append(rs, rangeSpec{Org: p[0], End: p[1], Skip: true, SOrg: s[0], SEnd: s[1]})
					}
				}
			}
			c.Par(1<<n, func(m int) {
				sel := make([]string, n)
				for k := range sel {
					sel[k] = map[bool]string{true: "P.", false: ".."}[m>>k&1 == 1]
				}
				for _, rg := range rs {
					r.sweep(caseSpec{Group: "simpleiter", Universe: u.Name, Lines: sel, Simple: true, Rng: rg}, strs)
				}
			})
		}
	}
	// ---- G8 long index (72 keys: several btree levels, ixbuf chunks of 24 split): structured stacks, walks
	if want("G8") {
		u := ul
		n := len(u.keys)
		mk := func(f func(k int) string) []string {
			sel := make([]string, n)
			for k := range sel {
				sel[k] = f(k)
			}
			return sel
		}
		stacks := [][]string{
			mk(func(k int) string { return []string{"P...", ".a..", "Pd..", "..a.", "Pu.d", "...a"}[k%6] }),
			mk(func(k int) string { return []string{".a..", ".a.d", ".au.", "...a"}[k%4] }),
			mk(func(k int) string {
				if k%9 == 4 {
					return "P..."
				}
				return "Pd.."
			}),
			mk(func(k int) string { return []string{"P...", "P..d", "P.d.", "Pd.a"}[(k/8)%4] }),
		}
		var walks [][]string
		rep := func(tok string, n int) []string {
			w := make([]string, n)
			for i := range w {
				w[i] = tok
			}
			return w
		}
		walks = append(walks, rep("N", n+2), rep("P", n+2))
		for _, a := range []int{3, 7, 25} {
			for _, b := range []int{1, 2, 5} {
				var w, w2 []string
				for len(w) < 3*n {
					w = append(append(w, rep("N", a)...), rep("P", b)...)
					w2 = append(append(w2, rep("P", a)...), rep("N", b)...)
				}
				walks = append(walks, w, w2)
			}
		}
		// with modifications every few steps
		var wm []string
		for i := 0; len(wm) < 4*n; i++ {
			wm = append(wm, "N", "N", "N", fmt.Sprintf("t%c", '0'+byte((i*7)%n)), "P")
		}
		walks = append(walks, wm)
		var rs []rangeSpec
		for _, o := range []string{ixkey.Min, "k05", "k23\x01", "k24"} {
			for _, e := range []string{ixkey.Max, "k71", "k48", "k25"} {
				rs = append(rs, rangeSpec{Org: o, End: e})
			}
		}
		c.Par(len(stacks)*len(rs), func(i int) {
			r.sweep(caseSpec{Group: "long", Universe: u.Name, Lines: stacks[i/len(rs)], WithMut: true, Rng: rs[i%len(rs)]}, walks)
		})
	}
	// ---- G1 layering: every life line of every key, N/P/R strings
	layering := func(u *universe, strs [][]string, rs []rangeSpec) {
		lines := lifeLines(3)
		c.Set("G1_life_lines_per_key", len(lines))
		nk := len(u.keys)
		var firsts [][]string
		cross(lines, 2, func(sel []string) { firsts = append(firsts, sel) })
		c.Par(len(firsts), func(i int) {
			cross(lines, nk-2, func(rest []string) {
				if c.Expired() {
					return
				}
				sel := append(append([]string(nil), firsts[i]...), rest...)
				for _, rg := range rs {
					r.sweep(caseSpec{Group: "layering", Universe: u.Name, Lines: sel, WithMut: true, Rng: rg}, strs)
				}
			})
		})
	}
	if want("G1") {
		strs := append(opStrings(np, lib.Pick(c, 4, 5), nil), opStrings([]string{"N", "P", "R"}, lib.Pick(c, 3, 4), hasR)...)
		c.Set("G1_op_strings", len(strs))
		layering(u3, strs, rangesFor(u3, false)[:lib.Pick(c, 2, 4)])
	}
	// ---- G2 modifications of the own layer between steps (+ new overlay object)
	if want("G2") {
		u := u3e
		isMod := func(t string) bool { return t[0] == 't' || t[0] == 'u' || t[0] == 'I' }
		must := func(s []string) bool {
			return contains(s, isMod) && contains(s, func(t string) bool { return t == "N" || t == "P" })
		}
		type part struct {
			alpha []string
			n     int
			lines []string
			rs    []rangeSpec
		}
		full := []string{"N", "P", "t0", "t1", "t2", "u0", "u1", "u2", "I", "R"}
		parts := []part{{full, 4, reducedLines(3)[:5], rangesFor(u, false)[:2]}}
		if !quick {
			parts = []part{{full, 4, reducedLines(3), rangesFor(u, false)[:3]},
				{[]string{"N", "P", "t0", "t1", "t2", "u2", "I"}, 5, reducedLines(3)[:7], rangesFor(u, false)[:3]}}
		}
		for pi, pt := range parts {
			strs := opStrings(pt.alpha, pt.n, must)
			c.Set(fmt.Sprintf("G2_part%d_op_strings", pi), len(strs))
			var stacks [][]string
			cross(pt.lines, 3, func(sel []string) { stacks = append(stacks, sel) })
			c.Par(len(stacks), func(i int) {
				for _, rg := range pt.rs {
					r.sweep(caseSpec{Group: "modify", Universe: u.Name, Lines: stacks[i], WithMut: true, Rng: rg}, strs)
				}
			})
		}
	}
	// ---- G3 re-layering that keeps the content: commit / merge / save between steps
	if want("G3") {
		u := u3
		lines := reducedLines(3)
		alpha := []string{"N", "P", "F", "G", "S", "t1", "u2"}
		isRe := func(t string) bool { return t == "F" || t == "G" || t == "S" }
		strs := opStrings(alpha, lib.Pick(c, 4, 5), func(s []string) bool {
			return contains(s, isRe) && contains(s, func(t string) bool { return t == "N" || t == "P" })
		})
		c.Set("G3_op_strings", len(strs))
		rs := rangesFor(u, false)[:2]
		lines = lines[:7]
		var stacks [][]string
		cross(lines, 3, func(sel []string) { stacks = append(stacks, sel) })
		c.Par(len(stacks), func(i int) {
			for _, rg := range rs {
				r.sweep(caseSpec{Group: "relayer", Universe: u.Name, Lines: stacks[i], WithMut: true, Rng: rg}, strs)
			}
		})
	}
	// ---- G4 the cursor continues on a different index state (any other stack)
	if want("G4") {
		u := u3
		lines := reducedLines(2)[:lib.Pick(c, 5, 7)]
		strs := opStrings([]string{"N", "P", "X"}, lib.Pick(c, 4, 5), func(s []string) bool {
			return contains(s, func(t string) bool { return t == "X" })
		})
		c.Set("G4_op_strings", len(strs))
		var stacks [][]string
		cross(lines, 3, func(sel []string) { stacks = append(stacks, sel) })
		rs := rangesFor(u, false)[:1]
		c.Par(len(stacks), func(i int) {
			for j := range stacks {
				if c.Expired() {
					return
				}
				for _, rg := range rs {
					r.sweep(caseSpec{Group: "switch", Universe: u.Name, Lines: stacks[i], AltLines: stacks[j], WithMut: false, Rng: rg}, strs)
				}
			}
		})
	}
	// ---- G5 every range; Range(r) in the middle of an iteration
	if want("G5") {
		u := u3
		lines := reducedLines(2)
		if quick {
			lines = lines[:6]
		}
		all := rangesFor(u, true)
		strs := opStrings(np, lib.Pick(c, 4, 5), nil)
		var stacks [][]string
		cross(lines, 3, func(sel []string) { stacks = append(stacks, sel) })
		c.Set("G5_ranges", len(all))
		// Range(r) mid-way: r0..r9 = ten spread ranges
		var ten []rangeSpec
		for i := 0; i < 10; i++ {
			ten = append(ten, all[(i*len(all))/10+i%3])
		}
		rtoks := []string{"r0", "r1", "r2", "r3", "r4", "r5", "r6", "r7", "r8", "r9"}
		mid := opStrings(append([]string{"N", "P"}, rtoks...), 4, func(s []string) bool {
			return s[0][0] != 'r' && s[3][0] != 'r' && (s[1][0] == 'r') != (s[2][0] == 'r')
		})
		c.Set("G5_range_change_strings", len(mid))
		c.Par(len(stacks), func(i int) {
			for _, rg := range all {
				r.sweep(caseSpec{Group: "ranges", Universe: u.Name, Lines: stacks[i], WithMut: true, Rng: rg}, strs)
			}
			r.sweep(caseSpec{Group: "range-change", Universe: u.Name, Lines: stacks[i], WithMut: true,
				Rng: all[len(all)/2], Rngs: ten}, mid)
		})
	}
	// ---- G6 skip-scan: 2 prefixes x 3 suffixes, prefix and suffix ranges
	if want("G6") {
		u := us
		lines := []string{"...", "P..", ".a.", "Pd.", "..a"}
		if quick {
			lines = lines[:4]
		}
		pr := [][2]string{{ixkey.Min, ixkey.Max}, {ixkey.Min, "q"}, {"q", "q\x01"}, {"a", ixkey.Max}, {ixkey.Min, "\x01"}}
		sr := [][2]string{{ixkey.Min, ixkey.Max}, {ixkey.Min, "\x01"}, {"s", "s\x01"}, {"s", ixkey.Max}, {ixkey.Min, "u"},
			{"t", "u\x01"}, {"s\x01", "u"}, {"\x01", "t"}}
		var rs []rangeSpec
		for _, p := range pr {
			for _, s := range sr {
				rs = append(rs, rangeSpec{Org: p[0], End: p[1], Skip: true, SOrg: s[0], SEnd: s[1]})
			}
		}
		c.Set("G6_skip_ranges", len(rs))
		strs := append(opStrings(np, 4, nil), opStrings([]string{"N", "P", "R"}, 3, hasR)...)
		mods := opStrings([]string{"N", "P", "t1", "t2", "t4", "I"}, 3, func(s []string) bool {
			return contains(s, func(t string) bool { return t[0] == 't' || t == "I" }) && s[2][0] != 't' && s[2] != "I"
		})
		// thorough: every combination of the life lines over the 6 keys;
		// quick: every combination of {absent, stored, added} plus every
		// combination of {stored, stored+tombstone} and {added, stored+tombstone}
		var firsts [][]string
		var restLines [][]string
		if quick {
			for _, ls := range [][]string{{"...", "P..", ".a."}, {"P..", "Pd."}, {".a.", "Pd."}} {
				cross(ls, 3, func(sel []string) {
					firsts = append(firsts, sel)
					restLines = append(restLines, ls)
				})
			}
		} else {
			cross(lines, 3, func(sel []string) {
				firsts = append(firsts, sel)
				restLines = append(restLines, lines)
			})
		}
		c.Par(len(firsts), func(i int) {
			cross(restLines[i], 3, func(rest []string) {
				if c.Expired() {
					return
				}
				sel := append(append([]string(nil), firsts[i]...), rest...)
				for ri, rg := range rs {
					r.sweep(caseSpec{Group: "skip-scan", Universe: u.Name, Lines: sel, WithMut: true, Rng: rg}, strs)
					if ri%5 == i%5 {
						r.sweep(caseSpec{Group: "skip-scan-modify", Universe: u.Name, Lines: sel, WithMut: true, Rng: rg}, mods)
					}
				}
			})
		})
	}
	// ---- G6c the same iterator goes from skip-scan mode to a plain range and
	// back (Range / SkipScan mid-way), then continues over a new overlay object
	// or its own modified layer: the mode must not leak from one into the other
	if want("G6c") {
		u := us
		lines := []string{"...", "P..", ".a."}
		skip := []rangeSpec{
			{Org: ixkey.Min, End: ixkey.Max, Skip: true, SOrg: "s", SEnd: "s\x01"},
			{Org: "q", End: "q\x01", Skip: true, SOrg: ixkey.Min, SEnd: "u"},
		}
		plain := []rangeSpec{{Org: ixkey.Min, End: ixkey.Max}, {Org: "\x01", End: "q"}, {Org: "q", End: ixkey.Max}}
		rngs := append(append([]rangeSpec{}, plain...), skip...) // r0..r2 plain, r3 r4 skip-scan
		toks := []string{"N", "P", "r0", "r1", "r2", "r3", "r4", "I", "t1", "t4"}
		strs := opStrings(toks, 5, func(s []string) bool {
			nr, change := 0, false
			for i, t := range s {
				if t[0] == 'r' {
					nr++
					if i == 0 || i == len(s)-1 {
						return false
					}
				}
				if t == "I" || t[0] == 't' {
					change = true
				}
			}
			return nr >= 1 && nr <= 2 && change && s[len(s)-1] != "I" && s[len(s)-1][0] != 't'
		})
		c.Set("G6c_mode_change_strings", len(strs))
		var stacks [][]string
		cross(lines, 6, func(sel []string) { stacks = append(stacks, sel) })
		c.Par(len(stacks), func(i int) {
			if quick && i%3 != 0 {
				return
			}
			for _, rg := range append(append([]rangeSpec{}, skip...), plain[0]) {
				if c.Expired() {
					return
				}
				r.sweep(caseSpec{Group: "skip-scan-range-change", Universe: u.Name, Lines: stacks[i], WithMut: true, Rng: rg, Rngs: rngs}, strs)
			}
		})
	}
	// ---- G6b skip-scan over 3 prefix groups x 3 suffixes (a whole group between two others can be skipped)
	if want("G6b") {
		u := us3
		lines := lib.Pick(c, []string{"...", "P.."}, []string{"...", "P..", ".a."})
		pr := [][2]string{{ixkey.Min, ixkey.Max}, {ixkey.Min, "q"}, {"p", "p\x01"}, {"p", ixkey.Max}, {"\x01", "q"}}
		sr := [][2]string{{ixkey.Min, ixkey.Max}, {ixkey.Min, "\x01"}, {"s", "s\x01"}, {"s", ixkey.Max}, {ixkey.Min, "u"},
			{"t", "u\x01"}, {"s\x01", "u"}, {"\x01", "t"}}
		var rs []rangeSpec
		for _, p := range pr {
			for _, s := range sr {
				rs = append(rs, rangeSpec{Org: p[0], End: p[1], Skip: true, SOrg: s[0], SEnd: s[1]})
			}
		}
		strs := append(opStrings(np, 4, nil), opStrings([]string{"N", "P", "R"}, 3, hasR)...)
		var firsts [][]string
		cross(lines, 4, func(sel []string) { firsts = append(firsts, sel) })
		c.Par(len(firsts), func(i int) {
			cross(lines, 5, func(rest []string) {
				if c.Expired() {
					return
				}
				sel := append(append([]string(nil), firsts[i]...), rest...)
				for _, rg := range rs {
					r.sweep(caseSpec{Group: "skip-scan-3-groups", Universe: u.Name, Lines: sel, WithMut: true, Rng: rg}, strs)
				}
			})
		})
	}
	// ---- G9 (thorough) layering with 4 keys: every life line of every key
	if !quick && want("G9") {
		strs := append(opStrings(np, 4, nil), opStrings([]string{"N", "P", "R"}, 3, hasR)...)
		layering(u4, strs, rangesFor(u4, false)[:2])
	}
	c.Sample(caseSpec{Group: "layering", Universe: "bdf", Lines: []string{"Pd.a", ".au.", "P..d"}, WithMut: true,
		Rng: rangeSpec{Org: ixkey.Min, End: ixkey.Max}, Ops: []string{"N", "N", "P", "N", "N"}}.String())
	c.Sample(caseSpec{Group: "modify", Universe: "_df", Lines: []string{"P...", "Pd..", "...a"}, WithMut: true,
		Rng: rangeSpec{Org: ixkey.Min, End: ixkey.Max}, Ops: []string{"N", "t1", "N", "t0"}}.String())
}

func replay(c *lib.Ctx, raw json.RawMessage) {
	var cs caseSpec
	if err := json.Unmarshal(raw, &cs); err != nil {
		lib.Infra("bad case: %v", err)
	}
	if universes[cs.Universe] == nil {
		lib.Infra("unknown universe %q", cs.Universe)
	}
	defer btree.SetSplit(btree.SetSplit(2))
	var msg string
	var at int
	if !withTimeout(func() { _, msg, at = runCase(cs, nil, nil) }) {
		c.Fail("", cs, "%s: DOES NOT TERMINATE (no progress for %v)", cs, hangLimit)
		return
	}
	if msg != "" {
		cs.Ops = cs.Ops[:min(at+1, len(cs.Ops))]
		c.Fail("", cs, "%s: after the last op: %s", cs, msg)
	}
}

func main() {
	lib.Main(lib.Spec{
		ID:    "C09",
		Level: "exploration",
		Rule: "every (layer stack, range) configuration of 8 groups x every operation string of the group's fixed length (each prefix checked): " +
			"layering = all 34 life lines per key x N/P/R strings; modify / relayer / switch / ranges / range-change / skip-scan / simpleiter / long. " +
			"evaluations = operation strings executed from scratch; a configuration (stack x range) is distinct by construction and counted as non-trivial",
		Assumptions: []string{
			"model: sorted map of live keys + cursor (rewound | within key | eof, eof sticky until Rewind/Range)",
			"btree split factor 2 (btree.SetSplit) so that 3-6 keys span several leaves and tree levels",
			"layer contents obey the overlay invariant (add only when absent, update/delete only when present); only the newest (mutable) layer is modified during iteration",
			"read-range tracking (the Read callback) is not judged",
			"skip-scan with one prefix field; field values contain no zero bytes",
		},
		QuickBudget:    75,
		ThoroughBudget: 840,
		Run:            run,
		Replay:         replay,
	})
}
