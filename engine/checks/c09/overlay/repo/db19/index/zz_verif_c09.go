//go:build verif

package index

import (
	btree "github.com/apmckinlay/gsuneido/db19/index/btree"
	"github.com/apmckinlay/gsuneido/db19/index/ixbuf"
)

// Constructors / accessors for the /verif C09 check (the Overlay fields are
// unexported; the package's own tests build overlays the same way).

// VerifNewOverlay assembles an Overlay from its parts (mut may be nil).
func VerifNewOverlay(bt *btree.T, layers []*ixbuf.T, mut *ixbuf.T) *Overlay {
	return &Overlay{bt: bt, layers: layers, mut: mut}
}

// VerifParts returns the parts of an Overlay.
func (ov *Overlay) VerifParts() (bt *btree.T, layers []*ixbuf.T, mut *ixbuf.T) {
	return ov.bt, ov.layers, ov.mut
}
