package main

import (
	"fmt"
	"os"
	"sync"
	"sync/atomic"
	"time"

	"verif/lib"
)

// Non-termination guard. A worker registers the case it is executing; if one
// case (normally microseconds to milliseconds) makes no progress for
// hangLimit, the implementation is looping: the case is reported as a
// violation and the process ends with exit code 1 (the stuck goroutine cannot
// be cancelled, so lib's normal epilogue cannot run).
const hangLimit = 90 * time.Second

type flight struct {
	start atomic.Int64 // unix nanos when the current case started, 0 = idle
	desc  atomic.Pointer[func() (any, string)]
}

var flights sync.Map // *flight -> struct{}

func newFlight() *flight {
	f := &flight{}
	flights.Store(f, struct{}{})
	return f
}

func (f *flight) begin(desc func() (any, string)) {
	f.desc.Store(&desc)
	f.start.Store(time.Now().UnixNano())
}

func (f *flight) end() { f.start.Store(0) }

func (f *flight) done() { flights.Delete(f) }

func startWatchdog(c *lib.Ctx, id string) {
	go func() {
		for {
			time.Sleep(2 * time.Second)
			now := time.Now().UnixNano()
			flights.Range(func(k, _ any) bool {
				f := k.(*flight)
				st := f.start.Load()
				if st == 0 || time.Duration(now-st) < hangLimit {
					return true
				}
				cs, text := (*f.desc.Load())()
				c.Fail("", cs, "%s: DOES NOT TERMINATE (no progress for %v; such a case normally takes far below a second)", text, hangLimit)
				fmt.Printf("  violation class=\"\": %s: DOES NOT TERMINATE\n", text)
				fmt.Printf("VIOLATION property=%s replay=(newest %s-*.json in the replays directory; non-termination)\n", id, id)
				os.Exit(1)
				return false
			})
		}
	}()
}

// withTimeout runs f and reports whether it finished within hangLimit (used
// by replay, where the process may simply exit afterwards).
func withTimeout(f func()) bool {
	ch := make(chan struct{})
	go func() { f(); close(ch) }()
	select {
	case <-ch:
		return true
	case <-time.After(hangLimit):
		return false
	}
}
