// C02 Transactions read a stable snapshot. See verif/txpipe.
package main

import "verif/txpipe"

func main() {
	txpipe.Main(txpipe.CheckDef{
		ID:         "C02",
		Groups:     []string{"snap", "ser"},
		Oracles:    txpipe.Oracles{Snapshot: true},
		QuickBound: 1, ThoroughBound: 2,
		Rule: "Oracle: the monitor records the logical content of every published database state (commit, merge, persist); each transaction (read-only or update, committed or not) must have all its reads - repeated lookups and scans in both directions, overlaid with its own writes - explained by ONE state that was current between the call that started it and its return.",
	})
}
