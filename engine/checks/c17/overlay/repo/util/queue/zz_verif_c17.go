//go:build verif

package queue

// VerifElem mirrors one queued element for the /verif monitor.
type VerifElem struct {
	Priority, Tran int
	Value          any
}

// VerifItems returns a copy of the queue contents in queue (age) order.
// Called only from the scheduler's monitor (no other thread is running).
func (pq *PriorityQueue) VerifItems() []VerifElem {
	out := make([]VerifElem, len(pq.items))
	for i, e := range pq.items {
		out[i] = VerifElem{e.priority, e.tran, e.value}
	}
	return out
}

// VerifBufSize is the queue's capacity.
const VerifBufSize = bufSize
