// C17 Checker message queue preserves per-transaction order.
//
// The real util/queue.PriorityQueue (only its `sync` import rewritten to the
// controlled scheduler) is driven by 2–3 producer threads and one consumer.
// Every schedule within a preemption bound is executed. The scheduler's
// monitor observes the queue contents between all visible operations; since
// every Put/Get body is one critical section, consecutive snapshots differ by
// exactly one append or one removal, and each such transition is judged
// against a list model:
//   - an append is the next unsent message of its producer (program order),
//     at the tail, and never grows the queue beyond its capacity;
//   - a removal takes a message that is the oldest pending one of its
//     transaction and whose priority is the maximum among the oldest pending
//     message of each transaction;
//   - the consumer receives exactly the removed messages in removal order,
//     every message exactly once, per-transaction FIFO; no deadlock.
package main

import (
	"encoding/json"
	"fmt"
	"strings"

	"github.com/apmckinlay/gsuneido/util/queue"
	"github.com/apmckinlay/gsuneido/verifshim/vsched"

	"verif/lib"
	"verif/sched"
)

type msg struct{ prio, tran int }

type scen struct {
	name      string
	bufSize   int
	producers [][]msg
	maxBound  int
}

type exec struct {
	sc       *scen
	pq       *queue.PriorityQueue
	prev     []queue.VerifElem
	sent     []int // per producer: how many appended so far
	removed  []string
	received []string
	fail     *sched.Failure
	total    int
}

func val(p, i int) string { return fmt.Sprintf("p%d.%d", p, i) }

func (x *exec) Main() {
	vsched.NoPreempt(true)
	if x.sc.bufSize != queue.VerifBufSize {
		lib.Infra("the scenarios are written for a queue capacity of %d, the code has %d", x.sc.bufSize, queue.VerifBufSize)
	}
	x.pq = queue.NewPriorityQueue()
	vsched.NoPreempt(false)
	for p, msgs := range x.sc.producers {
		p, msgs := p, msgs
		vsched.GoNamed(fmt.Sprintf("producer%d", p), false, func() {
			for i, m := range msgs {
				x.pq.Put(m.prio, m.tran, val(p, i))
			}
		})
	}
	vsched.GoNamed("consumer", false, func() {
		for i := 0; i < x.total; i++ {
			v := x.pq.Get()
			x.received = append(x.received, v.(string))
		}
	})
}

func (x *exec) failf(format string, a ...any) {
	if x.fail == nil {
		x.fail = &sched.Failure{Msg: fmt.Sprintf(format, a...)}
	}
}

func show(items []queue.VerifElem) string {
	var sb strings.Builder
	for _, e := range items {
		fmt.Fprintf(&sb, "%v(t%d,p%d) ", e.Value, e.Tran, e.Priority)
	}
	return sb.String()
}

func (x *exec) Monitor() {
	if x.pq == nil || x.fail != nil {
		return
	}
	cur := x.pq.VerifItems()
	prev := x.prev
	x.prev = cur
	if len(cur) > x.sc.bufSize {
		x.failf("queue holds %d items, capacity is %d: %s", len(cur), x.sc.bufSize, show(cur))
		return
	}
	switch {
	case len(cur) == len(prev):
		for i := range cur {
			if cur[i] != prev[i] {
				x.failf("queue contents changed without a put/get: %s -> %s", show(prev), show(cur))
				return
			}
		}
	case len(cur) == len(prev)+1: // a Put
		for i := range prev {
			if cur[i] != prev[i] {
				x.failf("put did not append at the tail: %s -> %s", show(prev), show(cur))
				return
			}
		}
		e := cur[len(cur)-1]
		var p, i int
		fmt.Sscanf(e.Value.(string), "p%d.%d", &p, &i)
		if p < 0 || p >= len(x.sent) || i != x.sent[p] {
			x.failf("append of %v is not the next message of its producer (sent so far %v)", e.Value, x.sent)
			return
		}
		m := x.sc.producers[p][i]
		if m.prio != e.Priority || m.tran != e.Tran {
			x.failf("appended %v with wrong priority/transaction", e)
		}
		x.sent[p]++
	case len(cur) == len(prev)-1: // a Get
		k := 0
		for k < len(cur) && cur[k] == prev[k] {
			k++
		}
		for j := k; j < len(cur); j++ {
			if cur[j] != prev[j+1] {
				x.failf("get did not remove exactly one item: %s -> %s", show(prev), show(cur))
				return
			}
		}
		rem := prev[k]
		// model: oldest pending message per transaction = first occurrence
		best := -1 << 30
		oldest := map[int]int{}
		for j, e := range prev {
			if _, ok := oldest[e.Tran]; !ok {
				oldest[e.Tran] = j
				if e.Priority > best {
					best = e.Priority
				}
			}
		}
		if oldest[rem.Tran] != k {
			x.failf("get delivered %v before the older message %v of the same transaction; queue was %s",
				rem.Value, prev[oldest[rem.Tran]].Value, show(prev))
			return
		}
		if rem.Priority != best {
			x.failf("get delivered %v (priority %d) although a transaction's oldest message has priority %d; queue was %s",
				rem.Value, rem.Priority, best, show(prev))
			return
		}
		x.removed = append(x.removed, rem.Value.(string))
	default:
		x.failf("queue changed by more than one item in one step: %s -> %s", show(prev), show(cur))
	}
}

func (x *exec) Finish(out vsched.Outcome) (string, *sched.Failure) {
	x.Monitor() // the final state (the last step has no successor step)
	obs := strings.Join(x.received, " ")
	if x.fail != nil {
		return obs, x.fail
	}
	if out.Status != "ok" {
		return obs, &sched.Failure{Msg: fmt.Sprintf("execution ended with %s: %s (received %d of %d)", out.Status, out.Detail, len(x.received), x.total)}
	}
	if len(x.received) != x.total {
		return obs, &sched.Failure{Msg: fmt.Sprintf("consumer received %d of %d messages", len(x.received), x.total)}
	}
	if strings.Join(x.removed, " ") != obs {
		return obs, &sched.Failure{Msg: fmt.Sprintf("consumer received %q but the queue released %q", obs, strings.Join(x.removed, " "))}
	}
	seen := map[string]bool{}
	lastIdx := map[string]int{} // (producer,tran) -> last delivered index
	for _, v := range x.received {
		if seen[v] {
			return obs, &sched.Failure{Msg: "message delivered twice: " + v}
		}
		seen[v] = true
		var p, i int
		fmt.Sscanf(v, "p%d.%d", &p, &i)
		key := fmt.Sprintf("%d/%d", p, x.sc.producers[p][i].tran)
		if last, ok := lastIdx[key]; ok && last > i {
			return obs, &sched.Failure{Msg: fmt.Sprintf("transaction order violated: %s delivered after %s", v, val(p, last))}
		}
		lastIdx[key] = i
	}
	return obs, nil
}

func scenarios(c *lib.Ctx) []*scen {
	// priorities as used by CheckCo: 1 start/admin, 2 read/write, 3 commit/abort
	real := []*scen{
		{name: "A-tran-traffic-buf8", bufSize: 8, producers: [][]msg{
			{{2, 1}, {2, 1}, {2, 1}, {3, 1}},
			{{2, 2}, {3, 2}, {1, 0}, {2, 3}},
			{{1, 0}, {1, 0}, {2, 4}, {3, 4}}}},
		{name: "A-full-queue-buf8", bufSize: 8, producers: [][]msg{
			{{1, 0}, {2, 1}, {2, 1}, {2, 1}, {3, 1}},
			{{2, 2}, {2, 2}, {2, 2}, {2, 2}, {3, 2}}}},
		{name: "A-same-tran-two-producers-buf8", bufSize: 8, producers: [][]msg{
			{{1, 0}, {3, 0}, {1, 0}},
			{{2, 0}, {1, 0}, {3, 0}},
			{{2, 5}, {3, 5}}}},
	}
	// every priority assignment over {1,3} for four of the messages of three
	// producers that together send one message more than the queue holds (so
	// that a producer can block on the full queue while the consumer chooses)
	var scaled []*scen
	prios := []int{1, 3}
	for a := 0; a < 16; a++ {
		p := func(bit int) int { return prios[(a>>bit)&1] }
		scaled = append(scaled, &scen{name: fmt.Sprintf("B-buf8-prio%04b", a), bufSize: 8, producers: [][]msg{
			{{p(0), 1}, {p(1), 1}, {2, 1}},
			{{p(2), 2}, {p(3), 0}, {3, 2}},
			{{2, 0}, {2, 3}, {1, 3}}}})
	}
	qb, tb := 2, 3
	for _, s := range real {
		s.maxBound = lib.Pick(c, qb, tb)
	}
	for _, s := range scaled {
		s.maxBound = lib.Pick(c, 2, 3)
	}
	if c.Quick() {
		scaled = []*scen{scaled[0b0110], scaled[0b1001], scaled[0b1111], scaled[0b0011]}
	}
	return append(real, scaled...)
}

func build(c *lib.Ctx) []*sched.Scenario {
	var out []*sched.Scenario
	for _, s := range scenarios(c) {
		s := s
		total := 0
		for _, p := range s.producers {
			total += len(p)
		}
		out = append(out, &sched.Scenario{Name: s.name, MaxBound: s.maxBound, MaxSteps: 20000, NoStmtYield: true,
			New: func() sched.Execution {
				return &exec{sc: s, sent: make([]int, len(s.producers)), total: total}
			}})
	}
	// statement granularity: the same scenarios with a scheduling point before
	// every statement of priority_queue.go (not only at its lock and condition
	// operations), so that a critical section that is too short - an unlock moved
	// up, a field read before the lock is taken - is an explorable interleaving
	// too; smaller bound
	for _, s := range scenarios(c) {
		s := s
		if c.Quick() && strings.HasPrefix(s.name, "B-") && s.name != "B-buf8-prio0110" {
			continue
		}
		total := 0
		for _, p := range s.producers {
			total += len(p)
		}
		out = append(out, &sched.Scenario{Name: s.name + "/stmt", MaxBound: lib.Pick(c, 1, 2), MaxSteps: 60000,
			New: func() sched.Execution {
				return &exec{sc: s, sent: make([]int, len(s.producers)), total: total}
			}})
	}
	return out
}

func run(c *lib.Ctx) {
	sched.ExploreAll(c, build(c))
}

func replay(c *lib.Ctx, raw json.RawMessage) { sched.Replay(c, build(c), raw) }

func main() {
	lib.Main(lib.Spec{
		ID:    "C17",
		Level: "exploration",
		Rule: "every schedule (thread interleaving at lock/condition-wait granularity) within the preemption bound of each producer/consumer scenario on the real PriorityQueue; " +
			"evaluations = complete executions; distinct = distinct delivery orders observed per scenario",
		Assumptions: []string{
			"sync.Mutex/sync.Cond are replaced by the scheduler's models (FIFO condition wake-up, no spurious wake-ups); sequentially consistent memory",
			"scaled scenarios B change the queue capacity from 8 to 2 (constant turned into a variable by the instrumenter); scenarios A use the real capacity",
			"ties between equal priorities are not constrained (the property does not state an order for them)",
		},
		QuickBudget: 90, ThoroughBudget: 900,
		Procs: 16,
		Run:   run, Replay: replay,
	})
}
