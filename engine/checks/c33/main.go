// C33 Date arithmetic follows the Gregorian calendar.
//
// What is enumerated
//   - EVERY day from 1700-01-01 to 3000-01-01 (474 822 days) and for each
//     month also the day numbers after its last day (validity of NewDate);
//   - for every day: Plus with every offset of a boundary list in years,
//     months, days (+-1, +-28..31, +-365, +-366, +-146097, 400 years, month
//     carries, combined fields), results kept inside 1700..3000;
//   - for every day (quick: every 5th day plus every first/last day of a
//     month) x boundary times of day x offsets in hours/minutes/seconds/ms
//     that cross every field boundary (+-1, +-59/60/61, +-999/1000/1001,
//     +-24h, +-86400s, +-86400000ms +-1);
//   - MinusDays / MinusMs between the operand and every such result, and
//     between consecutive days; Compare for the same pairs;
//   - String -> DateFromLiteral round trip for every day at boundary times,
//     and timestamps with extra 1/255.
//
// Oracle: an independent proleptic Gregorian calendar on integers
// (days-from-civil / civil-from-days, no time package): fields are added,
// the month is carried into the year, then day and time-of-day overflow are
// carried through the day number. Differences are differences of day numbers
// / milliseconds since 1700-01-01; order is the order of those numbers.
//
// time.Local is pinned to UTC for the main enumeration (the machine's zone is
// not an input of the property). A second, small pass repeats the
// millisecond differences across the daylight-saving changes of
// America/New_York with time.Local set to that zone: failures there have the
// class "minusms-local-dst" (MinusMs goes through time.Local).
package main

import (
	"encoding/json"
	"fmt"
	"os"
	"strings"
	"time"
	_ "time/tzdata"

	"github.com/apmckinlay/gsuneido/core"

	"verif/lib"
)

// ---------------------------------------------------------------- civil calendar (oracle)

func floorDiv(a, b int64) int64 {
	q := a / b
	if (a%b != 0) && ((a < 0) != (b < 0)) {
		q--
	}
	return q
}

func floorMod(a, b int64) int64 { return a - floorDiv(a, b)*b }

func isLeap(y int64) bool { return y%4 == 0 && (y%100 != 0 || y%400 == 0) }

func daysInMonth(y, m int64) int64 {
	switch m {
	case 4, 6, 9, 11:
		return 30
	case 2:
		if isLeap(y) {
			return 29
		}
		return 28
	}
	return 31
}

// daysFromCivil: days since 1970-01-01 of the proleptic Gregorian date
// (era based algorithm; month is 1..12, day may be any integer offset)
func daysFromCivil(y, m, d int64) int64 {
	if m <= 2 {
		y--
	}
	era := floorDiv(y, 400)
	yoe := y - era*400 // [0, 399]
	mp := (m + 9) % 12 // March = 0
	doy := (153*mp+2)/5 + d - 1
	doe := yoe*365 + yoe/4 - yoe/100 + doy
	return era*146097 + doe - 719468
}

func civilFromDays(z int64) (y, m, d int64) {
	z += 719468
	era := floorDiv(z, 146097)
	doe := z - era*146097
	yoe := (doe - doe/1460 + doe/36524 - doe/146096) / 365
	y = yoe + era*400
	doy := doe - (365*yoe + yoe/4 - yoe/100)
	mp := (5*doy + 2) / 153
	d = doy - (153*mp+2)/5 + 1
	if mp < 10 {
		m = mp + 3
	} else {
		m = mp - 9
	}
	if m <= 2 {
		y++
	}
	return
}

// cdate is the oracle's date: day number and millisecond of the day
type cdate struct {
	day int64 // days since 1970-01-01
	ms  int64 // 0 .. 86399999
}

type fields struct{ Y, Mo, D, H, Mi, S, Ms int }

func (f fields) String() string {
	return fmt.Sprintf("%04d-%02d-%02d %02d:%02d:%02d.%03d", f.Y, f.Mo, f.D, f.H, f.Mi, f.S, f.Ms)
}

func (c cdate) fields() fields {
	y, m, d := civilFromDays(c.day)
	return fields{int(y), int(m), int(d), int(c.ms / 3600000), int(c.ms / 60000 % 60), int(c.ms / 1000 % 60), int(c.ms % 1000)}
}

func fromFields(f fields) cdate {
	return cdate{daysFromCivil(int64(f.Y), int64(f.Mo), int64(f.D)),
		((int64(f.H)*60+int64(f.Mi))*60+int64(f.S))*1000 + int64(f.Ms)}
}

// total milliseconds since 1970-01-01
func (c cdate) total() int64 { return c.day*86400000 + c.ms }

type offset struct{ Y, Mo, D, H, Mi, S, Ms int }

func (o offset) String() string {
	var parts []string
	for _, p := range []struct {
		n string
		v int
	}{{"years", o.Y}, {"months", o.Mo}, {"days", o.D}, {"hours", o.H}, {"minutes", o.Mi}, {"seconds", o.S}, {"milliseconds", o.Ms}} {
		if p.v != 0 {
			parts = append(parts, fmt.Sprintf("%s:%d", p.n, p.v))
		}
	}
	return strings.Join(parts, ",")
}

// plus: the reference for Plus: add field-wise, carry the month into the
// year, then carry days and time of day through the day number.
func plus(f fields, o offset) cdate {
	y := int64(f.Y + o.Y)
	m0 := int64(f.Mo+o.Mo) - 1
	y += floorDiv(m0, 12)
	m := floorMod(m0, 12) + 1
	ms := ((int64(f.H+o.H)*60+int64(f.Mi+o.Mi))*60+int64(f.S+o.S))*1000 + int64(f.Ms+o.Ms)
	day := daysFromCivil(y, m, 1) + int64(f.D+o.D) - 1 + floorDiv(ms, 86400000)
	return cdate{day, floorMod(ms, 86400000)}
}

var (
	firstDay = daysFromCivil(1700, 1, 1)
	lastDay  = daysFromCivil(3000, 1, 1) // only 00:00:00.000 of this day is a valid date
)

func inRange(c cdate) bool {
	return c.day >= firstDay && (c.day < lastDay || c.day == lastDay && c.ms == 0)
}

// ---------------------------------------------------------------- implementation side

func fieldsOf(d core.SuDate) fields {
	return fields{d.Year(), d.Month(), d.Day(), d.Hour(), d.Minute(), d.Second(), d.Millisecond()}
}

func mk(f fields) core.SuDate { return core.NewDate(f.Y, f.Mo, f.D, f.H, f.Mi, f.S, f.Ms) }

type dcase struct {
	Kind string `json:"kind"` // plus | valid | literal | dst | addms
	F    fields
	O    offset
	Zone string `json:"zone,omitempty"`
}

// curZone is the zone time.Local is set to during the zone pass ("" = UTC)
var curZone string

var assumeKnown = map[string]bool{}

func init() {
	for _, k := range strings.Split(os.Getenv("VERIF_ASSUME_KNOWN"), ",") {
		if k != "" {
			assumeKnown[k] = true
		}
	}
}

// failc: as c.Fail; VERIF_ASSUME_KNOWN=class,... (never set by ./check)
// makes the listed classes count-only so that other classes stay visible.
func failc(c *lib.Ctx, class string, cs any, format string, a ...any) {
	if class != "" {
		c.Count("class:"+class, 1)
		if assumeKnown[class] {
			return
		}
	}
	c.Fail(class, cs, format, a...)
}

// checkPlus: d.Plus(o) against the reference, and the differences and order
// between d and the result. Returns the number of assertions.
func checkPlus(c *lib.Ctx, f fields, d core.SuDate, o offset, msClass string) int {
	class := "" // msClass applies to the MinusMs assertions only
	want := plus(f, o)
	if !inRange(want) {
		return 0 // the property quantifies over offsets keeping the result in range
	}
	cs := dcase{Kind: "plus", F: f, O: o, Zone: curZone}
	var got core.SuDate
	if e := lib.Try(func() { got = d.Plus(o.Y, o.Mo, o.D, o.H, o.Mi, o.S, o.Ms) }); e != nil {
		failc(c, class, cs, "(%s).Plus(%s) panicked: %s; expected %s", f, o, lib.PanicText(e), want.fields())
		return 1
	}
	wf := want.fields()
	if fieldsOf(got) != wf {
		failc(c, class, cs, "(%s).Plus(%s) = %s, expected %s", f, o, fieldsOf(got), wf)
		return 1
	}
	n := 1
	from := fromFields(f)
	if e := lib.Try(func() {
		// day difference is consistent with the addition
		if dd := got.MinusDays(d); int64(dd) != want.day-from.day {
			failc(c, class, cs, "(%s).MinusDays(%s) = %d, expected %d", wf, f, dd, want.day-from.day)
		}
		if dd := d.MinusDays(got); int64(dd) != from.day-want.day {
			failc(c, class, cs, "(%s).MinusDays(%s) = %d, expected %d", f, wf, dd, from.day-want.day)
		}
		// millisecond difference
		if dm := got.MinusMs(d); dm != want.total()-from.total() {
			failc(c, msClass, cs, "(%s).MinusMs(%s) = %d, expected %d", wf, f, dm, want.total()-from.total())
		}
		if dm := d.MinusMs(got); dm != from.total()-want.total() {
			failc(c, msClass, cs, "(%s).MinusMs(%s) = %d, expected %d", f, wf, dm, from.total()-want.total())
		}
		// order is chronological
		wc := sgn64(want.total() - from.total())
		if cmp := sgn64(int64(got.Compare(d))); cmp != wc {
			failc(c, class, cs, "Compare(%s, %s) = %d, expected %d", wf, f, cmp, wc)
		}
		if cmp := sgn64(int64(d.Compare(got))); cmp != -wc {
			failc(c, class, cs, "Compare(%s, %s) = %d, expected %d", f, wf, cmp, -wc)
		}
		if (got == d) != (wc == 0) || got.Equal(d) != (wc == 0) {
			failc(c, class, cs, "Equal(%s, %s) disagrees with the expected difference %d", wf, f, want.total()-from.total())
		}
	}); e != nil {
		failc(c, class, cs, "differences of %s and %s panicked: %s", wf, f, lib.PanicText(e))
	}
	return n + 7
}

func sgn64(i int64) int64 {
	switch {
	case i < 0:
		return -1
	case i > 0:
		return 1
	}
	return 0
}

// checkLiteral: String -> DateFromLiteral round trip
func checkLiteral(c *lib.Ctx, f fields, d core.SuDate) int {
	cs := dcase{Kind: "literal", F: f}
	if e := lib.Try(func() {
		s := d.String()
		back := core.DateFromLiteral(s)
		if bd, ok := back.(core.SuDate); !ok || bd != d {
			c.Fail("", cs, "DateFromLiteral(%q) = %v for the date %s", s, back, f)
		}
		// without the leading '#' too (both are accepted literal forms)
		if back2 := core.DateFromLiteral(strings.TrimPrefix(s, "#")); back2 != back {
			c.Fail("", cs, "DateFromLiteral(%q) differs with and without '#'", s)
		}
	}); e != nil {
		c.Fail("", cs, "literal round trip of %s panicked: %s", f, lib.PanicText(e))
	}
	return 2
}

func checkTimestampLiteral(c *lib.Ctx, f fields, extra int) int {
	cs := dcase{Kind: "literal", F: f, O: offset{Ms: extra}}
	if e := lib.Try(func() {
		lit := fmt.Sprintf("#%04d%02d%02d.%02d%02d%02d%03d%03d", f.Y, f.Mo, f.D, f.H, f.Mi, f.S, f.Ms, extra)
		ts, ok := core.DateFromLiteral(lit).(core.SuTimestamp)
		if !ok {
			c.Fail("", cs, "DateFromLiteral(%q) is not a timestamp", lit)
			return
		}
		if fieldsOf(ts.SuDate) != f {
			c.Fail("", cs, "DateFromLiteral(%q) has fields %s", lit, fieldsOf(ts.SuDate))
		}
		if s := ts.String(); s != lit {
			c.Fail("", cs, "timestamp %q prints as %q", lit, s)
		} else if back := core.DateFromLiteral(s); back != core.Value(ts) {
			c.Fail("", cs, "timestamp %q does not parse back to itself", lit)
		}
		// a timestamp sorts after its date and before the next millisecond
		if ts.Compare(ts.SuDate) <= 0 || ts.SuDate.Compare(ts) >= 0 {
			c.Fail("", cs, "timestamp %q does not sort after its date", lit)
		}
	}); e != nil {
		c.Fail("", cs, "timestamp literal of %s/%d panicked: %s", f, extra, lib.PanicText(e))
	}
	return 4
}

// ---------------------------------------------------------------- offsets

var dateOffsets = []offset{
	{D: 1}, {D: -1}, {D: 28}, {D: -28}, {D: 29}, {D: -29}, {D: 30}, {D: -30}, {D: 31}, {D: -31},
	{D: 365}, {D: -365}, {D: 366}, {D: -366}, {D: 146097}, {D: -146097}, {D: 36524}, {D: -36525}, {D: 1461},
	{Mo: 1}, {Mo: -1}, {Mo: 11}, {Mo: 12}, {Mo: -12}, {Mo: 13}, {Mo: -13}, {Mo: 24}, {Mo: 4800}, {Mo: -4800},
	{Y: 1}, {Y: -1}, {Y: 4}, {Y: -4}, {Y: 100}, {Y: -100}, {Y: 400}, {Y: -400},
	{Y: 1, Mo: -12}, {Mo: 1, D: -1}, {Mo: -1, D: 31}, {Y: 1, Mo: 1, D: 1}, {Y: -1, Mo: 14, D: -60},
	{D: 1, H: -24}, {D: -1, Ms: 86400000},
}

var timeOffsets = []offset{
	{H: 1}, {H: -1}, {H: 23}, {H: 24}, {H: -24}, {H: 25}, {H: -25}, {H: 48}, {H: 8760},
	{Mi: 1}, {Mi: -1}, {Mi: 59}, {Mi: 60}, {Mi: -60}, {Mi: 61}, {Mi: 1440}, {Mi: -1440}, {Mi: 1441},
	{S: 1}, {S: -1}, {S: 59}, {S: 60}, {S: -60}, {S: 61}, {S: 3600}, {S: 86399}, {S: 86400}, {S: -86400}, {S: 86401},
	{Ms: 1}, {Ms: -1}, {Ms: 999}, {Ms: 1000}, {Ms: -1000}, {Ms: 1001}, {Ms: 60000}, {Ms: 86399999}, {Ms: 86400000},
	{Ms: -86400000}, {Ms: 86400001}, {Ms: -86400001},
	{H: 23, Mi: 59, S: 59, Ms: 1000}, {H: -1, Mi: 60}, {D: 1, H: -23, Mi: -59, S: -59, Ms: -999}, {Mo: 1, Ms: -1}, {Y: 1, S: -1},
}

var times = [][4]int{{0, 0, 0, 0}, {23, 59, 59, 999}, {12, 30, 15, 500}, {0, 0, 0, 1}, {23, 59, 59, 0}, {0, 59, 59, 999}, {1, 0, 0, 0}}

// literal times: every combination crossing the three String() cut-offs
func literalTimes() [][4]int {
	var out [][4]int
	for _, h := range []int{0, 1, 10, 23} {
		for _, m := range []int{0, 1, 10, 59} {
			for _, s := range []int{0, 1, 10, 59} {
				for _, ms := range []int{0, 1, 10, 100, 999} {
					out = append(out, [4]int{h, m, s, ms})
				}
			}
		}
	}
	return out
}

// ---------------------------------------------------------------- run

func checkDay(c *lib.Ctx, day int64, withTimes bool, lits [][4]int) {
	y, m, dd := civilFromDays(day)
	f := fields{Y: int(y), Mo: int(m), D: int(dd)}
	ev := 0
	d := mk(f)
	if d == core.NilDate {
		c.Fail("", dcase{Kind: "valid", F: f}, "NewDate rejects the calendar date %s", f)
		c.Eval(1)
		return
	}
	if fieldsOf(d) != f {
		c.Fail("", dcase{Kind: "valid", F: f}, "NewDate(%s) has fields %s", f, fieldsOf(d))
	}
	ev++
	// day numbers after the end of the month are not dates
	if dd == daysInMonth(y, m) {
		for x := dd + 1; x <= 32; x++ {
			g := f
			g.D = int(x)
			ev++
			if mk(g) != core.NilDate {
				c.Fail("", dcase{Kind: "valid", F: g}, "NewDate accepts %s", g)
			}
		}
		if mk(fields{Y: f.Y, Mo: f.Mo, D: 0}) != core.NilDate {
			c.Fail("", dcase{Kind: "valid", F: fields{Y: f.Y, Mo: f.Mo}}, "NewDate accepts day 0")
		}
	}
	if day == lastDay {
		// 3000-01-01 is the end of the range: only midnight
		ev += checkLiteral(c, f, d)
		for _, o := range []offset{{D: -1}, {Ms: -1}, {Y: -1}, {Mo: -1}, {Y: -1300}, {D: int(firstDay - lastDay)}} {
			ev += checkPlus(c, f, d, o, "")
		}
		c.Eval(ev)
		return
	}
	for _, o := range dateOffsets {
		ev += checkPlus(c, f, d, o, "")
	}
	ev += checkLiteral(c, f, d)
	if withTimes {
		for _, t := range times {
			g := f
			g.H, g.Mi, g.S, g.Ms = t[0], t[1], t[2], t[3]
			dt := mk(g)
			if dt == core.NilDate || fieldsOf(dt) != g {
				c.Fail("", dcase{Kind: "valid", F: g}, "NewDate(%s) = %v", g, dt)
				continue
			}
			for _, o := range timeOffsets {
				ev += checkPlus(c, g, dt, o, "")
			}
			for _, o := range dateOffsets[:20] {
				ev += checkPlus(c, g, dt, o, "")
			}
			ev += checkLiteral(c, g, dt)
		}
	}
	for _, t := range lits {
		g := f
		g.H, g.Mi, g.S, g.Ms = t[0], t[1], t[2], t[3]
		ev += checkLiteral(c, g, mk(g))
	}
	c.Eval(ev)
}

func checkAddMs(c *lib.Ctx) {
	// AddMs (0 < ms < 100) is Plus(milliseconds: ms) with a fast path
	for _, base := range []fields{{2024, 2, 29, 23, 59, 59, 0}, {1999, 12, 31, 23, 59, 59, 0}, {2023, 6, 15, 0, 0, 0, 0}} {
		for _, ms := range []int{0, 1, 498, 499, 500, 899, 900, 901, 950, 990, 998, 999} {
			for _, add := range []int{1, 2, 5, 50, 99} {
				f := base
				f.Ms = ms
				want := plus(f, offset{Ms: add})
				class := ""
				if ms+add >= 1000 && add != 1 {
					// the fallback of AddMs adds 1 ms instead of ms when the second overflows
					class = "addms-fallback-adds-1"
				}
				var got core.SuDate
				cs := dcase{Kind: "addms", F: f, O: offset{Ms: add}}
				if e := lib.Try(func() { got = mk(f).AddMs(add) }); e != nil {
					failc(c, class, cs, "(%s).AddMs(%d) panicked: %s", f, add, lib.PanicText(e))
				} else if fieldsOf(got) != want.fields() {
					failc(c, class, cs, "(%s).AddMs(%d) = %s, expected %s", f, add, fieldsOf(got), want.fields())
				}
				c.Eval(1)
			}
		}
	}
}

// checkZone repeats difference checks around the daylight saving changes of
// a zone with time.Local set to it. SuDate is documented as a zone-less
// local date/time, so the expected values are the same as in UTC.
func checkZone(c *lib.Ctx, zone string) {
	loc, err := time.LoadLocation(zone)
	if err != nil {
		c.Note("zone %s not available: %v", zone, err)
		return
	}
	old := time.Local
	time.Local, curZone = loc, zone
	defer func() { time.Local, curZone = old, "" }()
	n := 0
	for _, ymd := range [][3]int{{2024, 3, 9}, {2024, 3, 10}, {2024, 3, 11}, {2024, 11, 2}, {2024, 11, 3}, {2024, 11, 4},
		{1990, 4, 1}, {1990, 10, 28}, {2024, 7, 1}, {2024, 1, 1}} {
		for _, t := range [][4]int{{0, 0, 0, 0}, {1, 59, 59, 999}, {2, 30, 0, 0}, {3, 0, 0, 0}, {23, 59, 59, 999}} {
			f := fields{ymd[0], ymd[1], ymd[2], t[0], t[1], t[2], t[3]}
			d := mk(f)
			if d == core.NilDate {
				c.Fail("", dcase{Kind: "dst", F: f, Zone: zone}, "NewDate rejects %s when the local zone is %s", f, zone)
				continue
			}
			for _, o := range []offset{{H: 1}, {H: 2}, {H: 24}, {H: -24}, {D: 1}, {D: -1}, {Mi: 90}, {S: 86400}, {Ms: 3600000}, {D: 7}} {
				n += checkPlus(c, f, d, o, "minusms-local-dst")
			}
			n += checkLiteral(c, f, d)
		}
	}
	c.Eval(n)
	c.Count("zone_checks:"+zone, n)
}

func run(c *lib.Ctx) {
	time.Local = time.UTC
	ndays := int(lastDay-firstDay) + 1
	c.Set("days", ndays)
	c.Set("date_offsets", len(dateOffsets))
	c.Set("time_offsets_x_times", []int{len(timeOffsets), len(times)})
	lits := literalTimes()
	c.Set("literal_times", len(lits))
	step := lib.Pick(c, 5, 1)
	// oracle self check: the two conversions are inverse on the whole range
	// and the day after the last day of every month is the 1st
	for z := firstDay; z <= lastDay; z++ {
		y, m, d := civilFromDays(z)
		if daysFromCivil(y, m, d) != z || d < 1 || d > daysInMonth(y, m) {
			lib.Infra("calendar oracle is inconsistent at day %d", z)
		}
	}
	const chunk = 512
	nchunks := (ndays + chunk - 1) / chunk
	c.Par(nchunks, func(ci int) {
		for k := 0; k < chunk; k++ {
			i := ci*chunk + k
			if i >= ndays {
				break
			}
			day := firstDay + int64(i)
			_, _, dd := civilFromDays(day)
			y, m, _ := civilFromDays(day)
			edge := dd == 1 || dd == daysInMonth(y, m) || dd == 28
			withTimes := i%step == 0 || edge
			var l [][4]int
			if i%97 == 0 || (!c.Quick() && edge) {
				l = lits
			}
			checkDay(c, day, withTimes, l)
			c.Nontrivial(1)
		}
		if ci%200 == 7 && c.NSamples() < 5 {
			y, m, d := civilFromDays(firstDay + int64(ci*chunk))
			f := fields{int(y), int(m), int(d), 23, 59, 59, 999}
			o := timeOffsets[ci%len(timeOffsets)]
			got := mk(f).Plus(o.Y, o.Mo, o.D, o.H, o.Mi, o.S, o.Ms)
			c.Sample(map[string]string{"date": f.String(), "plus": o.String(), "result": fieldsOf(got).String(), "text": got.String()})
		}
	})
	// timestamps
	n := 0
	for _, f := range []fields{{1700, 1, 1, 0, 0, 0, 0}, {2024, 2, 29, 23, 59, 59, 999}, {2999, 12, 31, 12, 0, 0, 1}, {2000, 1, 1, 0, 0, 1, 0}} {
		for _, x := range []int{1, 2, 99, 100, 255} {
			n += checkTimestampLiteral(c, f, x)
		}
		// extra 0 and 256 are not timestamps
		for _, x := range []int{0, 256, 999} {
			lit := fmt.Sprintf("#%04d%02d%02d.%02d%02d%02d%03d%03d", f.Y, f.Mo, f.D, f.H, f.Mi, f.S, f.Ms, x)
			if v := core.DateFromLiteral(lit); v != core.Value(core.NilDate) {
				c.Fail("", dcase{Kind: "literal", F: f, O: offset{Ms: x}}, "DateFromLiteral(%q) = %v, expected it to be rejected", lit, v)
			}
			n++
		}
	}
	c.Eval(n)
	checkAddMs(c)
	checkZone(c, "America/New_York")
}

func replay(c *lib.Ctx, raw json.RawMessage) {
	var dc dcase
	if err := json.Unmarshal(raw, &dc); err != nil {
		lib.Infra("bad case: %v", err)
	}
	time.Local = time.UTC
	switch dc.Kind {
	case "dst":
		checkZone(c, dc.Zone)
	case "addms":
		checkAddMs(c)
	case "plus":
		if dc.Zone != "" {
			checkZone(c, dc.Zone)
			return
		}
		d := mk(dc.F)
		if d == core.NilDate {
			c.Fail("", dc, "NewDate rejects %s", dc.F)
			return
		}
		checkPlus(c, dc.F, d, dc.O, "")
	default:
		checkDay(c, daysFromCivil(int64(dc.F.Y), int64(dc.F.Mo), 1)+int64(dc.F.D)-1, true, literalTimes())
		d := mk(dc.F)
		if d != core.NilDate {
			checkLiteral(c, dc.F, d)
		}
	}
}

func main() {
	lib.Main(lib.Spec{
		ID:    "C33",
		Level: "exploration",
		Rule: "every day 1700-01-01..3000-01-01 x boundary offsets in years/months/days, boundary times of day x offsets in h/m/s/ms crossing every field " +
			"boundary, through Plus/MinusDays/MinusMs/Compare/NewDate/String/DateFromLiteral, judged by an independent integer civil calendar; " +
			"evaluations = assertions judged; non-trivial = days enumerated (distinct by construction)",
		Assumptions: []string{
			"the oracle is the proleptic Gregorian calendar on integers (era based days-from-civil), self checked for invertibility over the whole range",
			"Plus normalises like the documentation says: fields are added, months carry into years, then days and time of day carry through the day number",
			"only results inside 1700-01-01 .. 3000-01-01 00:00:00.000 are judged (the property's range)",
			"time.Local is pinned to UTC for the main enumeration; one extra pass sets it to America/New_York (class minusms-local-dst)",
		},
		QuickBudget:    60,
		ThoroughBudget: 600,
		Run:            run,
		Replay:         replay,
	})
}
