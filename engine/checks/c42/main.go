// C42 Transaction blocks commit exactly when the block completes.
//
// Exhaustive enumeration of small Suneido programs of the shape
//
//	f = function (tt) {
//	    <wrapper> x = Transaction(update:) { |t| tt.t = t; WORK; END } ...
//	    return Object("after", x)
//	}
//
// (mode x wrapper x WORK x END), each compiled by the real compiler and run by
// the real interpreter on a thread whose Dbms() is a real DbmsLocal over a fresh
// heap database (db19.CreateDb + StartConcur) holding tbl(k, v) key(k) with
// one committed row {k: 0, v: "init"}. A driver function calls f inside
// try/catch, records the returned value or the caught exception and
// t.Ended?(); afterwards the table is read back from Go through a new read
// transaction.
//
// Oracle: a twelve-line abstract interpreter of the property statement. It walks
// the abstract program (WORK effect, list of END actions) keeping {pending
// writes, transaction status, control outcome}: an explicit Complete commits
// the pending writes, an explicit Rollback discards them, and when the block
// is left with the transaction still active it is completed if the block
// finished normally or by `return` (which returns from the enclosing function)
// and rolled back if it was left by an exception (throw, run-time error,
// break/continue = "block:break"/"block:continue" exceptions by definition);
// a failing Complete commits nothing and raises. The exception must reach the
// caller; the value must reach the caller; the transaction must be ended.
package main

import (
	"encoding/json"
	"fmt"
	"sort"
	"strings"
	"time"

	_ "github.com/apmckinlay/gsuneido/builtin"
	"github.com/apmckinlay/gsuneido/compile"
	"github.com/apmckinlay/gsuneido/core"
	"github.com/apmckinlay/gsuneido/db19"
	"github.com/apmckinlay/gsuneido/db19/stor"
	"github.com/apmckinlay/gsuneido/dbms"
	qry "github.com/apmckinlay/gsuneido/dbms/query"

	"verif/lib"
)

// ---------------------------------------------------------------- abstract programs

// table contents: k -> v
type table map[string]string

func (t table) clone() table {
	c := table{}
	for k, v := range t {
		c[k] = v
	}
	return c
}

func (t table) String() string {
	var ks []string
	for k := range t {
		ks = append(ks, k)
	}
	sort.Strings(ks)
	var sb strings.Builder
	for _, k := range ks {
		fmt.Fprintf(&sb, "{k: %s, v: %s} ", k, t[k])
	}
	return strings.TrimSpace(sb.String())
}

type work struct {
	name   string
	src    string        // statements using t
	effect func(t table) // effect on the table if committed
	read   bool          // allowed in a read-only transaction
}

var works = []work{
	{"nothing", ``, func(t table) {}, true},
	{"QueryDo insert", `t.QueryDo("insert { k: 1, v: 'new' } into tbl")`, func(t table) { t["1"] = "new" }, false},
	{"QueryDo update", `t.QueryDo("update tbl where k is 0 set v = 'changed'")`, func(t table) { t["0"] = "changed" }, false},
	{"QueryDo delete", `t.QueryDo("delete tbl where k is 0")`, func(t table) { delete(t, "0") }, false},
	{"query.Output", `t.Query("tbl").Output([k: 1, v: 'new'])`, func(t table) { t["1"] = "new" }, false},
	{"record.Update", "x = t.Query1('tbl', k: 0)\n x.v = 'changed'\n x.Update()", func(t table) { t["0"] = "changed" }, false},
	{"read only", `tt.seen = t.Query1('tbl', k: 0).v`, func(t table) {}, true},
}

// END actions
const (
	aNormal     = "normal"     // fall off the end of the block
	aValue      = "value"      // last statement is the expression 123
	aReturn     = "return"     // return 7 (from the enclosing function)
	aThrow      = "throw"      // throw "x"
	aBreak      = "break"      // = throw "block:break"
	aContinue   = "continue"   // = throw "block:continue"
	aRuntime    = "runtime"    // a run-time error ("abc".NoSuchMethod())
	aCaught     = "caught"     // try throw "x" catch (e) { } then fall off the end
	aLoopReturn = "loopreturn" // return 7 from inside a loop in the block
	aNestReturn = "nestreturn" // return 7 from a nested block called in the block
	aCallThrow  = "callthrow"  // call a function value that throws
	aComplete   = "complete"   // t.Complete() explicitly
	aRollback   = "rollback"   // t.Rollback() explicitly
	aConflict   = "conflict"   // make the transaction fail: a conflicting transaction commits first
	aTryReturn  = "tryreturn"  // return 7 inside try ... catch inside the block
	aQryReturn  = "qryreturn"  // return 7 from inside the block form of t.Query in the block
	aQryLoopRet = "qryloopret" // return 7 from a loop over the rows inside a t.Query block
	aQryThrow   = "qrythrow"   // throw "x" from inside the block form of t.Query in the block
)

type end struct {
	name    string
	actions []string
	read    bool // offered for read-only transactions too
}

var ends = []end{
	{"fall off the end", []string{aNormal}, true},
	{"value 123", []string{aValue}, true},
	{"return 7", []string{aReturn}, true},
	{"throw", []string{aThrow}, true},
	{"break", []string{aBreak}, true},
	{"continue", []string{aContinue}, true},
	{"run-time error", []string{aRuntime}, true},
	{"throw caught inside", []string{aCaught, aNormal}, true},
	{"return 7 inside a loop", []string{aLoopReturn}, true},
	{"return 7 from a nested block", []string{aNestReturn}, true},
	{"called function throws", []string{aCallThrow}, true},
	{"Complete, fall off", []string{aComplete, aNormal}, true},
	{"Rollback, fall off", []string{aRollback, aNormal}, true},
	{"Complete, throw", []string{aComplete, aThrow}, true},
	{"Rollback, throw", []string{aRollback, aThrow}, true},
	{"Complete, return 7", []string{aComplete, aReturn}, true},
	{"Rollback, return 7", []string{aRollback, aReturn}, true},
	{"Complete, Complete", []string{aComplete, aComplete, aNormal}, true},
	{"Rollback, Rollback", []string{aRollback, aRollback, aNormal}, true},
	{"Complete, Rollback", []string{aComplete, aRollback, aNormal}, true},
	{"Rollback, Complete", []string{aRollback, aComplete, aNormal}, true},
	{"return 7 inside try-catch", []string{aTryReturn}, true},
	{"return 7 inside a t.Query block", []string{aQryReturn, aNormal}, true},
	{"return 7 inside a loop in a t.Query block", []string{aQryLoopRet, aNormal}, true},
	{"throw inside a t.Query block", []string{aQryThrow, aNormal}, true},
	{"Complete, return 7 inside a t.Query block", []string{aComplete, aQryReturn, aNormal}, true},
	{"conflict, fall off", []string{aConflict, aNormal}, false},
	{"conflict, return 7", []string{aConflict, aReturn}, false},
	{"conflict, throw", []string{aConflict, aThrow}, false},
}

var actionSrc = map[string]string{
	aNormal:     `tt.fin = true`, // (a block ending in a call without a return value has no value to assign)
	aValue:      `123`,
	aReturn:     `return 7`,
	aThrow:      `throw "x"`,
	aBreak:      `break`,
	aContinue:   `continue`,
	aRuntime:    `"abc".NoSuchMethod()`,
	aCaught:     `try throw "x" catch (e) { tt.inner = e }`,
	aLoopReturn: "for (i = 0; i < 3; ++i)\n if i is 1\n return 7",
	aNestReturn: "b = { return 7 }\n b()",
	aCallThrow:  `(function () { throw "x" })()`,
	aTryReturn:  "try\n return 7\n catch (e)\n tt.swallowed = e",
	// the block form of t.Query closes the query when its block is left; leaving
	// it by return / throw leaves the transaction block the same way
	aQryReturn:  "t.Query('tbl')\n { |q|\n return 7\n }",
	aQryLoopRet: "t.Query('tbl')\n { |q|\n for (i = 0; i < 3; ++i)\n if i is 1\n return 7\n }",
	aQryThrow:   "t.Query('tbl')\n { |q|\n throw \"x\"\n }",
	aComplete:   `t.Complete()`,
	aRollback:   `t.Rollback()`,
	// A second, overlapping transaction changes row 0 and commits; reading row 0
	// afterwards aborts this transaction (conflict with a committed
	// overlapping write). The failed read is caught so that the block itself
	// goes on; what fails later is the completion.
	aConflict: "Transaction(update:) { |t2| t2.QueryDo(\"update tbl where k is 0 set v = 'other'\") }\n" +
		" try t.Query1('tbl', k: 0) catch (e) { tt.conflict = e }",
}

// wrappers: where the Transaction call sits inside f
type wrapper struct {
	name     string
	pre      string // before "x = Transaction(MODE) { |t| ... }"
	post     string
	callable bool // the callable is a function instead of a block
	// first: another transaction block ran (and inserted row 2) before
	first bool
	// outer: the call is inside the block of another transaction that inserted
	// row 2: that one too commits exactly when its block is not left by an exception
	outer bool
}

var wrappers = []wrapper{
	{name: "block directly in the function"},
	{name: "inside a block that is called", pre: "b0 = {\n", post: "\n}\n b0()"},
	{name: "inside a loop", pre: "for (j = 0; j < 1; ++j)\n {\n", post: "\n}"},
	{name: "after another transaction block", first: true,
		pre: "Transaction(update:) { |t0| t0.QueryDo(\"insert { k: 2, v: 'first' } into tbl\") }\n"},
	{name: "callable is a function", callable: true},
	{name: "nested inside another transaction block", outer: true,
		pre:  "Transaction(update:)\n { |t0|\n t0.QueryDo(\"insert { k: 2, v: 'first' } into tbl\")\n",
		post: "\n tt.outerfin = true\n }"},
}

type prog struct {
	Update  bool   `json:"update"`
	Wrapper int    `json:"wrapper"`
	Work    int    `json:"work"`
	End     int    `json:"end"`
	Source  string `json:"source,omitempty"`
}

func (p prog) String() string {
	mode := "read"
	if p.Update {
		mode = "update"
	}
	return fmt.Sprintf("Transaction(%s:) %s; work: %s; end: %s", mode, wrappers[p.Wrapper].name, works[p.Work].name, ends[p.End].name)
}

func (p prog) source() string {
	w, wk, e := wrappers[p.Wrapper], works[p.Work], ends[p.End]
	mode := "read:"
	if p.Update {
		mode = "update:"
	}
	var body strings.Builder
	body.WriteString(" tt.t = t\n")
	if wk.src != "" {
		body.WriteString(" " + wk.src + "\n")
	}
	for _, a := range e.actions {
		if s := actionSrc[a]; s != "" {
			body.WriteString(" " + s + "\n")
		}
	}
	var sb strings.Builder
	sb.WriteString("function (tt) {\n x = 'unset'\n Suneido.c42tt = tt\n")
	sb.WriteString(w.pre)
	if w.callable {
		// a function cannot see f's locals: it gets the holder through Suneido
		sb.WriteString("x = Transaction(" + mode + " block: function (t) {\n tt = Suneido.c42tt\n" + body.String() + "})")
	} else {
		sb.WriteString("x = Transaction(" + mode + ")\n {|t|\n" + body.String() + " }")
	}
	sb.WriteString(w.post)
	sb.WriteString("\n return Object('after', x)\n}")
	return sb.String()
}

// ---------------------------------------------------------------- the oracle

type expect struct {
	table     table
	exception string // "" = none, else a substring that must occur; "*" = any
	result    string // canonical text of f's result when no exception
	ended     bool
}

// interpret walks the abstract program according to the property statement.
func interpret(p prog) expect {
	w, wk, e := wrappers[p.Wrapper], works[p.Work], ends[p.End]
	committed := table{"0": "init"}
	if w.first {
		committed["2"] = "first"
	}
	pending := committed.clone() // this transaction's view
	if p.Update {
		wk.effect(pending)
	}
	status := "active"
	outcome := "normal" // normal | return | throw
	exception := ""
	value := `""`    // value of the block: last expression; statements give nothing
	aborted := false // aborted by the conflict
	for _, a := range e.actions {
		if outcome != "normal" {
			break
		}
		switch a {
		case aNormal:
		case aValue:
			value = "123"
		case aReturn, aLoopReturn, aNestReturn, aTryReturn:
			outcome, value = "return", "7"
		case aQryReturn, aQryLoopRet:
			if status == "active" {
				outcome, value = "return", "7"
			} else {
				outcome, exception = "throw", "*" // a query on an ended transaction
			}
		case aQryThrow:
			outcome, exception = "throw", "x"
		case aThrow, aCallThrow:
			outcome, exception = "throw", "x"
		case aBreak:
			outcome, exception = "throw", "block:break"
		case aContinue:
			outcome, exception = "throw", "block:continue"
		case aRuntime:
			outcome, exception = "throw", "method not found"
		case aCaught:
		case aComplete:
			switch status {
			case "active":
				committed, status = pending, "completed"
			case "aborted":
				outcome, exception = "throw", "*"
			}
		case aRollback:
			switch status {
			case "active":
				status = "aborted"
			case "completed":
				outcome, exception = "throw", "*"
			}
		case aConflict:
			// the other transaction's change is committed; this transaction is doomed
			committed = committed.clone()
			committed["0"] = "other"
			aborted = true
		}
	}
	if status == "active" {
		if outcome == "throw" {
			status = "aborted" // rolled back, the exception still propagates
		} else if aborted {
			// completion fails: nothing of this transaction is committed and
			// the failure is reported by an exception
			status, outcome, exception = "aborted", "throw", "*"
		} else {
			committed, status = pending, "completed"
		}
	}
	if w.outer && outcome != "throw" {
		committed = committed.clone()
		committed["2"] = "first"
	}
	ex := expect{table: committed, ended: true}
	switch outcome {
	case "throw":
		ex.exception = exception
	case "return":
		if w.callable {
			// return inside a function returns from that function: its value
			// is the value of the Transaction call
			ex.result = "#(after, 7)"
		} else {
			ex.result = "7"
		}
	default:
		if value == `""` {
			ex.result = "#(after)" // nothing assigned: see resultText
		} else {
			ex.result = "#(after, " + value + ")"
		}
	}
	return ex
}

// ---------------------------------------------------------------- execution

var driver core.Value

func setup() {
	if driver != nil {
		return
	}
	driver = compile.Constant(`function (f) {
		tt = Object(t: false)
		r = Object()
		try
			r.result = f(tt)
		catch (e)
			r.exception = e
		r.ended = tt.t is false ? 'no transaction' : tt.t.Ended?()
		r.tt = tt
		return r
	}`)
}

func newDb() (*db19.Database, *core.Thread) {
	db := db19.CreateDb(stor.HeapStor(8192))
	db19.StartConcur(db, time.Hour)
	qry.DoAdmin(db, "create tbl (k, v) key(k)", nil)
	ut := db.NewUpdateTran()
	qry.DoAction(&core.Thread{}, ut, "insert { k: 0, v: 'init' } into tbl")
	ut.Commit()
	th := &core.Thread{}
	th.SetDbms(dbms.NewDbmsLocal(db))
	return db, th
}

func readTable(db *db19.Database) table {
	rt := db.NewReadTran()
	q := qry.ParseQuery("tbl", rt, nil)
	q, _, _ = qry.Setup(q, qry.ReadMode, rt)
	hdr := q.Header()
	th := &core.Thread{}
	t := table{}
	for row := q.Get(th, core.Next); row != nil; row = q.Get(th, core.Next) {
		t[text(row.GetVal(hdr, "k", nil, nil))] = text(row.GetVal(hdr, "v", nil, nil))
	}
	return t
}

func text(v core.Value) string {
	if v == nil {
		return "<nil>"
	}
	if s, ok := v.ToStr(); ok {
		return s
	}
	return v.String()
}

// resultText renders f's result: 7 or #(after, <x>); an x of "" (a block that
// ends in a statement has no value) or 'unset' is left out.
func resultText(v core.Value) string {
	if v == nil {
		return "<nothing>"
	}
	c, ok := v.ToContainer()
	if !ok {
		return text(v)
	}
	parts := []string{}
	for i := 0; i < c.ListSize(); i++ {
		s := text(c.ListGet(i))
		if i == 1 && (s == "" || s == "unset") {
			continue
		}
		parts = append(parts, s)
	}
	return "#(" + strings.Join(parts, ", ") + ")"
}

type observed struct {
	table     table
	exception string
	hasExc    bool
	result    string
	ended     string
	extra     string
}

func execute(p prog) (obs observed, infra string) {
	db, th := newDb()
	defer db.Close()
	var f core.Value
	if e := lib.Try(func() { f = compile.Constant(p.source()) }); e != nil {
		return obs, fmt.Sprintf("program does not compile: %s\n%s", lib.PanicText(e), p.source())
	}
	var r core.Value
	if e := lib.Try(func() { r = th.Call(driver, f) }); e != nil {
		return obs, fmt.Sprintf("driver panicked: %s", lib.PanicText(e))
	}
	rc := core.ToContainer(r)
	if x := rc.GetIfPresent(th, core.SuStr("exception")); x != nil {
		obs.hasExc, obs.exception = true, text(x)
	}
	if x := rc.GetIfPresent(th, core.SuStr("result")); x != nil {
		obs.result = resultText(x)
	}
	obs.ended = text(rc.GetIfPresent(th, core.SuStr("ended")))
	obs.extra = text(rc.GetIfPresent(th, core.SuStr("tt")))
	obs.table = readTable(db)
	return obs, ""
}

// judge compares one execution with the oracle; returns "" if it conforms.
func judge(p prog, ex expect, obs observed) string {
	var bad []string
	if got, want := obs.table.String(), ex.table.String(); got != want {
		bad = append(bad, fmt.Sprintf("table afterwards is [%s], expected [%s]", got, want))
	}
	switch {
	case ex.exception == "" && obs.hasExc:
		bad = append(bad, fmt.Sprintf("unexpected exception %q", obs.exception))
	case ex.exception != "" && !obs.hasExc:
		bad = append(bad, fmt.Sprintf("no exception reached the caller (result %s), expected %q", obs.result, ex.exception))
	case ex.exception != "" && ex.exception != "*" && !strings.Contains(obs.exception, ex.exception):
		bad = append(bad, fmt.Sprintf("exception %q, expected one containing %q", obs.exception, ex.exception))
	}
	// "#(after)": the value of the block is not specified by the program (it
	// is whatever the last statement yields), only that f went on after it
	if ex.exception == "" && !obs.hasExc && obs.result != ex.result &&
		!(ex.result == "#(after)" && strings.HasPrefix(obs.result, "#(after")) {
		bad = append(bad, fmt.Sprintf("function returned %s, expected %s", obs.result, ex.result))
	}
	if obs.ended != "true" {
		bad = append(bad, fmt.Sprintf("transaction.Ended?() afterwards is %s", obs.ended))
	}
	if len(bad) == 0 {
		return ""
	}
	return strings.Join(bad, "; ")
}

func programs() []prog {
	var ps []prog
	for _, update := range []bool{true, false} {
		for w := range wrappers {
			for wk := range works {
				for e := range ends {
					if !update && (!works[wk].read || !ends[e].read || wrappers[w].first || wrappers[w].outer) {
						continue
					}
					// the provoked conflict needs a transaction that has written
					// but has not touched row 0 before
					if ends[e].actions[0] == aConflict && (!strings.Contains(works[wk].src, "k: 1") || wrappers[w].outer) {
						continue
					}
					if wrappers[w].callable {
						// a function has no break/continue/block-return forms
						skip := false
						for _, a := range ends[e].actions {
							switch a {
							case aBreak, aContinue, aNestReturn:
								skip = true
							}
						}
						if skip {
							continue
						}
					}
					ps = append(ps, prog{Update: update, Wrapper: w, Work: wk, End: e})
				}
			}
		}
	}
	return ps
}

func runOne(c *lib.Ctx, p prog) {
	ex := interpret(p)
	obs, infra := execute(p)
	if infra != "" {
		lib.Infra("%s: %s", p, infra)
	}
	c.Eval(1)
	c.Distinct(fmt.Sprintf("%v|%s|%s|%s", obs.hasExc, obs.exception, obs.result, obs.table))
	if obs.hasExc {
		c.Count("observed exception: "+obs.exception, 1)
	} else {
		c.Count("observed result: "+obs.result, 1)
	}
	c.Count("observed table: "+obs.table.String(), 1)
	if msg := judge(p, ex, obs); msg != "" {
		p.Source = p.source()
		c.Fail("", p, "%s: %s\n%s", p, msg, p.Source)
	}
}

func run(c *lib.Ctx) {
	setup()
	ps := programs()
	c.Set("programs", len(ps))
	c.Set("wrappers", len(wrappers))
	c.Set("works", len(works))
	c.Set("ends", len(ends))
	outcomes := map[string]int{}
	for i, p := range ps {
		if c.Expired() {
			c.Cap("stopped after %d of %d programs", i, len(ps))
			break
		}
		runOne(c, p)
		ex := interpret(p)
		k := "completed"
		if ex.exception != "" {
			k = "exception:" + ex.exception
		}
		outcomes[k]++
		if i%97 == 13 {
			c.Sample(map[string]any{"program": p.String(), "source": p.source(), "expected_table": ex.table.String(),
				"expected_exception": ex.exception, "expected_result": ex.result})
		}
	}
	c.Nontrivial(len(ps)) // programs are distinct by construction
	c.Set("expected_outcome_classes", outcomes)
}

func replay(c *lib.Ctx, raw json.RawMessage) {
	setup()
	var p prog
	if err := json.Unmarshal(raw, &p); err != nil {
		lib.Infra("bad case: %v", err)
	}
	runOne(c, p)
}

func main() {
	lib.Main(lib.Spec{
		ID:    "C42",
		Level: "exploration",
		Rule: "every program mode(update|read) x wrapper(5 placements of the Transaction call) x WORK(7 ways of changing or reading a row) x END(22 ways of leaving the block: " +
			"fall off, value, return, throw, break, continue, run-time error, caught throw, return from loop / nested block, called function throws, explicit Complete/Rollback combinations, completion failing on a conflict); " +
			"each compiled and run by the real compiler/interpreter against a fresh heap database; programs are distinct by construction; distinct observed outcomes are also recorded",
		Assumptions: []string{
			"oracle: abstract interpreter of the property statement over the abstract program (pending writes, status, control outcome)",
			"break/continue in a block are \"block:break\"/\"block:continue\" exceptions (Blocks.md), so they roll back and propagate",
			"an explicit t.Complete() commits and an explicit t.Rollback() discards; the block form then leaves the ended transaction alone; repeating the same call is harmless, the opposite call raises",
			"completion failure is provoked deterministically: an overlapping transaction commits a change to a row that this (writing) transaction reads afterwards",
			"one process, one thread per program, fresh database per program",
		},
		QuickBudget: 60, ThoroughBudget: 300,
		Run: run, Replay: replay})
}
