// C29 Closures and blocks follow the documented scoping model.
//
// Enumerated (bounded-exhaustive): ALL programs of a small grammar
//
//	outer function F with 0..2 parameters and up to 3 blocks in every nesting
//	shape (A | A>B | A,B | A>B>C | A>(B,C) | (A>B),C | A,(B>C) | A,B,C),
//	variables x and y; per scope and variable one ROLE out of
//	    U  unused            R  read at the end          W  assigned first, read at the end
//	    RW read, assign, …read    A  assigned AFTER the nested blocks, read
//	    RA read first, assigned after the blocks, read   P  block/function parameter (read)
//	    PW parameter that is also assigned
//	per block a CALL PATTERN out of
//	    once | twice | late (defined, then the scope's "after" assignments, then called)
//	    | escape (stored in Suneido.B<n>, called twice by the harness after F returned)
//	    | loop (created and called in a 2-iteration loop) | recur (calls itself once)
//	and an ENDING: value | `return k` from inside the block | `throw` caught at the call site.
//	Every assignment stores a literal unique to its site, every read is logged
//	(Suneido.L.Add(site, value), "U" when uninitialized), every call result is logged.
//
// Each program text is compiled by the real compile package and run on the
// real interpreter (own Thread and own per-thread Suneido object per worker).
//
// Oracle: an independent environment-passing reference interpreter for the
// same abstract program implementing exactly the statement (with the
// interpretation fixed in DESIGN.md):
//   - a name in a scope denotes the binding of the nearest enclosing scope that
//     uses that name (walking outwards; a parameter is a binding of its scope and
//     hides outer variables);
//   - a binding used by exactly one scope is private to each call of that scope;
//   - a binding used by more than one scope has ONE cell per call of the
//     outermost function (a shared parameter's cell is set on every call of its
//     scope);
//   - `return` in a block returns from the outermost function's call; throw
//     unwinds to the nearest try.
//
// The observation (log, result or exception of F, results of the escaped
// blocks) of the real run must equal the model's. The model has no
// closure/plain-function distinction and no slots, so agreement also decides
// "compiling a block as closure or function never changes the result"; slot
// numbering is unobservable and not compared.
//
// Programs the compiler rejects with its static "possibly uninitialized
// variable" diagnostic (constant propagation of single-assignment locals) are
// outside the domain and are counted, not judged.
package main

import (
	"encoding/json"
	"fmt"
	"os"
	"strings"
	"sync"

	_ "github.com/apmckinlay/gsuneido/builtin"
	"github.com/apmckinlay/gsuneido/compile"
	. "github.com/apmckinlay/gsuneido/core"

	"verif/lib"
)

// ---------------------------------------------------------------- abstract programs

type kind int

const (
	sAssign kind = iota // v = K
	sRead               // try Suneido.L.Add(site, v) catch Suneido.L.Add(site, "U")
	sDef                // v = {|params| body}
	sCall               // Suneido.L.Add("(", v(args), ")")   [try … catch (e) Suneido.L.Add("[", e, "]")]
	sEscape             // Suneido.B<slot> = v
	sLoop               // for (i = 0; i < 2; ++i) { body }
	sRecur              // if n < 1 { Suneido.L.Add("(", v(args, n + 1), ")") }
	sValue              // K            (value of the block)
	sReturn             // return K
	sThrow              // throw "tK"
)

type stmt struct {
	k    kind
	v    string // variable
	n    int    // literal / site / slot
	args []int
	try  bool
	e    string // catch variable
	blk  *scope // sDef
	body []stmt // sLoop
	p    string // sRecur: counter parameter
}

type scope struct {
	id       int
	parent   *scope
	params   []string
	body     []stmt
	uses     map[string]bool
	children []*scope
}

func (s *scope) use(names ...string) {
	for _, n := range names {
		s.uses[n] = true
	}
}

// collectUses fills uses from params and the scope's own statements (not nested blocks)
func (s *scope) collectUses() {
	s.uses = map[string]bool{}
	s.use(s.params...)
	var walk func(b []stmt)
	walk = func(b []stmt) {
		for i := range b {
			st := &b[i]
			switch st.k {
			case sAssign, sRead, sEscape:
				s.use(st.v)
			case sDef:
				s.use(st.v)
				st.blk.collectUses()
			case sCall:
				s.use(st.v)
				if st.try {
					s.use(st.e)
				}
			case sLoop:
				s.use(st.v)
				walk(st.body)
			case sRecur:
				s.use(st.v, st.p)
			}
		}
	}
	walk(s.body)
}

// ---------------------------------------------------------------- printer

func lit(n int) string { return fmt.Sprint(n) }

func printBody(sb *strings.Builder, b []stmt, ind string) {
	for _, st := range b {
		sb.WriteString(ind)
		switch st.k {
		case sAssign:
			fmt.Fprintf(sb, "%s = %d\n", st.v, st.n)
		case sRead:
			fmt.Fprintf(sb, "try Suneido.L.Add('s%d', %s) catch Suneido.L.Add('s%d', 'U')\n", st.n, st.v, st.n)
		case sDef:
			fmt.Fprintf(sb, "%s = {", st.v)
			if len(st.blk.params) > 0 {
				sb.WriteString("|" + strings.Join(st.blk.params, ", ") + "|")
			}
			sb.WriteString("\n")
			printBody(sb, st.blk.body, ind+"    ")
			sb.WriteString(ind + "    }\n")
		case sCall:
			call := fmt.Sprintf("Suneido.L.Add('(', %s(%s), ')')", st.v, joinInts(st.args))
			if st.try {
				fmt.Fprintf(sb, "try %s catch (%s) Suneido.L.Add('[', %s, ']')\n", call, st.e, st.e)
			} else {
				sb.WriteString(call + "\n")
			}
		case sEscape:
			fmt.Fprintf(sb, "Suneido.B%d = %s\n", st.n, st.v)
		case sLoop:
			fmt.Fprintf(sb, "for (%s = 0; %s < 2; ++%s)\n%s    {\n", st.v, st.v, st.v, ind)
			printBody(sb, st.body, ind+"    ")
			sb.WriteString(ind + "    }\n")
		case sRecur:
			args := joinInts(st.args)
			if args != "" {
				args += ", "
			}
			fmt.Fprintf(sb, "if %s < 1 { Suneido.L.Add('(', %s(%s%s + 1), ')') }\n", st.p, st.v, args, st.p)
		case sValue:
			fmt.Fprintf(sb, "%d\n", st.n)
		case sReturn:
			fmt.Fprintf(sb, "return %d\n", st.n)
		case sThrow:
			fmt.Fprintf(sb, "throw 't%d'\n", st.n)
		}
	}
}

func joinInts(a []int) string {
	var ss []string
	for _, x := range a {
		ss = append(ss, lit(x))
	}
	return strings.Join(ss, ", ")
}

func source(f *scope) string {
	var sb strings.Builder
	sb.WriteString("function (" + strings.Join(f.params, ", ") + ")\n    {\n")
	printBody(&sb, f.body, "    ")
	sb.WriteString("    }")
	return sb.String()
}

// ---------------------------------------------------------------- reference interpreter (the model)

type cell struct {
	set bool
	val any // int | string | *closure
}

type closure struct{ blk *scope }

type binding struct {
	owner *scope
	name  string
}

type model struct {
	sharedCells map[binding]*cell // one per call of the outermost function
	shared      map[binding]bool  // bindings used by more than one scope
	log         []string
	escaped     map[int]*closure
	steps       int
}

type returnSignal struct{ val any }
type throwSignal struct{ text string }

// owner resolves name in scope s to its binding: the nearest enclosing scope
// (starting with s itself for parameters) that uses the name; parameters bind.
func owner(s *scope, name string) *scope {
	for _, p := range s.params {
		if p == name {
			return s
		}
	}
	for a := s.parent; a != nil; a = a.parent {
		if a.uses[name] {
			return owner(a, name)
		}
	}
	return s
}

func (m *model) analyse(s *scope) {
	for name := range s.uses {
		if o := owner(s, name); o != s {
			m.shared[binding{o, name}] = true
		}
	}
	for _, c := range s.children {
		m.analyse(c)
	}
}

type frame struct {
	s      *scope
	locals map[string]*cell
}

func (m *model) lookup(fr *frame, name string) *cell {
	b := binding{owner(fr.s, name), name}
	if m.shared[b] {
		c := m.sharedCells[b]
		if c == nil {
			c = &cell{}
			m.sharedCells[b] = c
		}
		return c
	}
	c := fr.locals[name]
	if c == nil {
		c = &cell{}
		fr.locals[name] = c
	}
	return c
}

func (m *model) get(fr *frame, name string) any {
	c := m.lookup(fr, name)
	if !c.set {
		panic(throwSignal{"uninitialized variable: " + name})
	}
	return c.val
}

func (m *model) set(fr *frame, name string, v any) {
	c := m.lookup(fr, name)
	c.set, c.val = true, v
}

func show(v any) string {
	switch x := v.(type) {
	case int:
		return fmt.Sprint(x)
	case string:
		return x
	case *closure:
		return "<block>"
	}
	return fmt.Sprint(v)
}

// call invokes scope s with args; returns the value of its last statement
func (m *model) call(s *scope, args []any) (result any) {
	if len(args) != len(s.params) {
		panic(throwSignal{"wrong number of arguments"})
	}
	fr := &frame{s: s, locals: map[string]*cell{}}
	for i, p := range s.params {
		m.set(fr, p, args[i])
	}
	return m.exec(fr, s.body)
}

func (m *model) exec(fr *frame, body []stmt) (last any) {
	for i := range body {
		st := &body[i]
		m.steps++
		if m.steps > 100000 {
			panic("model: step budget exceeded")
		}
		switch st.k {
		case sAssign:
			m.set(fr, st.v, st.n)
			last = st.n
		case sRead:
			site := fmt.Sprintf("s%d", st.n)
			func() {
				defer func() {
					if e := recover(); e != nil {
						if _, ok := e.(throwSignal); ok {
							m.log = append(m.log, site, "U")
							return
						}
						panic(e)
					}
				}()
				v := m.get(fr, st.v)
				m.log = append(m.log, site, show(v))
			}()
			last = nil
		case sDef:
			m.set(fr, st.v, &closure{st.blk})
		case sCall:
			docall := func() {
				v := m.get(fr, st.v)
				c, ok := v.(*closure)
				if !ok {
					panic(throwSignal{"can't call " + show(v)})
				}
				var args []any
				for _, a := range st.args {
					args = append(args, a)
				}
				r := m.call(c.blk, args)
				m.log = append(m.log, "(", show(r), ")")
			}
			if st.try {
				func() {
					defer func() {
						if e := recover(); e != nil {
							if t, ok := e.(throwSignal); ok {
								m.set(fr, st.e, t.text)
								m.log = append(m.log, "[", t.text, "]")
								return
							}
							panic(e)
						}
					}()
					docall()
				}()
			} else {
				docall()
			}
			last = nil
		case sEscape:
			m.escaped[st.n] = m.get(fr, st.v).(*closure)
		case sLoop:
			for i := 0; i < 2; i++ {
				m.set(fr, st.v, i)
				m.exec(fr, st.body)
			}
			m.set(fr, st.v, 2)
		case sRecur:
			if m.get(fr, st.p).(int) < 1 {
				c := m.get(fr, st.v).(*closure)
				var args []any
				for _, a := range st.args {
					args = append(args, a)
				}
				args = append(args, m.get(fr, st.p).(int)+1)
				r := m.call(c.blk, args)
				m.log = append(m.log, "(", show(r), ")")
			}
		case sValue:
			last = st.n
		case sReturn:
			panic(returnSignal{st.n})
		case sThrow:
			panic(throwSignal{fmt.Sprintf("t%d", st.n)})
		}
	}
	return last
}

// protect runs f and renders its outcome
func protect(f func() any) (out string) {
	defer func() {
		if e := recover(); e != nil {
			switch x := e.(type) {
			case throwSignal:
				out = "exception: " + x.text
			case returnSignal:
				out = "returns " + show(x.val)
			default:
				panic(e)
			}
		}
	}()
	return "returns " + show(f())
}

// runModel gives the expected observation of program f called with args
func runModel(f *scope, args []int, slots []int) []string {
	m := &model{sharedCells: map[binding]*cell{}, shared: map[binding]bool{}, escaped: map[int]*closure{}}
	m.analyse(f)
	var a []any
	for _, x := range args {
		a = append(a, x)
	}
	res := protect(func() any { return m.call(f, a) })
	obs := append([]string{}, m.log...)
	obs = append(obs, "F "+res)
	for _, slot := range slots {
		for rep := 0; rep < 2; rep++ {
			m.log = nil
			c := m.escaped[slot]
			var r string
			if c == nil {
				r = "not set"
			} else {
				var eargs []any
				for i := range c.blk.params {
					eargs = append(eargs, 900+10*slot+i)
				}
				r = protect(func() any { return m.call(c.blk, eargs) })
			}
			obs = append(obs, m.log...)
			obs = append(obs, fmt.Sprintf("B%d %s", slot, r))
		}
	}
	return obs
}

// ---------------------------------------------------------------- the real thing

type real struct {
	th *Thread
	so *SuneidoObject
}

func newReal() *real {
	r := &real{th: &Thread{}, so: &SuneidoObject{}}
	r.th.Suneido.Store(r.so)
	return r
}

func render(v Value) string {
	if v == nil {
		return "<nil>"
	}
	if s, ok := v.ToStr(); ok {
		return s
	}
	if _, ok := v.(*SuClosure); ok {
		return "<block>"
	}
	if f, ok := v.(*SuFunc); ok && f.IsBlock {
		return "<block>"
	}
	return v.String()
}

func (r *real) drainLog() []string {
	var out []string
	if l, ok := r.so.Get(nil, SuStr("L")).(*SuObject); ok && l != nil {
		for i := 0; i < l.ListSize(); i++ {
			out = append(out, render(l.ListGet(i)))
		}
	}
	r.so.Set(SuStr("L"), &SuObject{})
	return out
}

func (r *real) protect(f func() Value) (out string) {
	e := lib.Try(func() { out = "returns " + render(f()) })
	if e != nil {
		r.th.Reset()
		r.th.Suneido.Store(r.so)
		return "exception: " + excText(e)
	}
	return out
}

// excText renders a recovered panic value as the Suneido exception string
func excText(e any) string {
	switch x := e.(type) {
	case *SuExcept:
		return string(x.SuStr)
	case SuStr:
		return string(x)
	case Value:
		if s, ok := x.ToStr(); ok {
			return s
		}
	}
	return lib.PanicText(e)
}

// runReal compiles and runs src; compileErr != "" if the compiler rejected it
func (r *real) runReal(src string, f *scope, args []int, slots []int) (obs []string, compileErr string) {
	var fn Value
	if e := lib.Try(func() { fn = compile.Constant(src) }); e != nil {
		return nil, lib.PanicText(e)
	}
	r.so = &SuneidoObject{}
	r.th.Suneido.Store(r.so)
	r.so.Set(SuStr("L"), &SuObject{})
	var a []Value
	for _, x := range args {
		a = append(a, IntVal(x))
	}
	res := r.protect(func() Value { return r.th.Call(fn, a...) })
	obs = append(obs, r.drainLog()...)
	obs = append(obs, "F "+res)
	for _, slot := range slots {
		for rep := 0; rep < 2; rep++ {
			b := r.so.Get(nil, SuStr(fmt.Sprintf("B%d", slot)))
			var out string
			if b == nil {
				out = "not set"
			} else {
				var eargs []Value
				for i := 0; i < nparams(f, slot); i++ {
					eargs = append(eargs, IntVal(900+10*slot+i))
				}
				out = r.protect(func() Value { return r.th.Call(b, eargs...) })
			}
			obs = append(obs, r.drainLog()...)
			obs = append(obs, fmt.Sprintf("B%d %s", slot, out))
		}
	}
	return obs, ""
}

// nparams finds the parameter count of the block escaping through slot (slot = block id)
func nparams(s *scope, slot int) int {
	if s.id == slot {
		return len(s.params)
	}
	for _, c := range s.children {
		if n := nparams(c, slot); n >= 0 {
			return n
		}
	}
	return -1
}

// ---------------------------------------------------------------- generator

// roles are bit sets
const (
	rParam = 1 << iota
	rReadStart
	rAssignStart
	rAssignAfter
	rReadEnd
)

var roleNames = map[int]string{0: "U", rReadEnd: "R", rAssignStart | rReadEnd: "W", rReadStart | rAssignStart | rReadEnd: "RW",
	rAssignAfter | rReadEnd: "A", rReadStart | rAssignAfter | rReadEnd: "RA", rParam | rReadStart | rReadEnd: "P",
	rParam | rReadStart | rAssignStart | rReadEnd: "PW"}

var allRoles = []int{0, rReadEnd, rAssignStart | rReadEnd, rReadStart | rAssignStart | rReadEnd, rAssignAfter | rReadEnd,
	rReadStart | rAssignAfter | rReadEnd, rParam | rReadStart | rReadEnd, rParam | rReadStart | rAssignStart | rReadEnd}

const (
	pOnce = iota
	pTwice
	pLate
	pEscape
	pLoop
	pRecur
)

var patNames = []string{"once", "twice", "late", "escape", "loop", "recur"}

const (
	eValue = iota
	eReturn
	eThrow
)

var endNames = []string{"value", "return", "throw"}

// spec describes one program: shape = parent index of each block (0 = F), roles[scope][var], pattern/ending per block
type spec struct {
	Parents []int    `json:"parents"` // Parents[i] is the scope index (0=F, k=block k) of block i+1's parent
	Roles   [][2]int `json:"roles"`   // per scope (F first): role of x, role of y
	Pat     []int    `json:"patterns"`
	End     []int    `json:"endings"`
}

func (sp spec) String() string {
	var sb strings.Builder
	fmt.Fprintf(&sb, "shape%v", sp.Parents)
	for i, r := range sp.Roles {
		fmt.Fprintf(&sb, " s%d(x:%s y:%s)", i, roleNames[r[0]], roleNames[r[1]])
	}
	for i := range sp.Pat {
		fmt.Fprintf(&sb, " b%d:%s/%s", i+1, patNames[sp.Pat[i]], endNames[sp.End[i]])
	}
	return sb.String()
}

// build constructs the abstract program of a spec
func build(sp spec) (f *scope, args []int, slots []int) {
	n := len(sp.Parents) + 1
	scopes := make([]*scope, n)
	for i := range scopes {
		scopes[i] = &scope{id: i}
	}
	for i, p := range sp.Parents {
		scopes[i+1].parent = scopes[p]
		scopes[p].children = append(scopes[p].children, scopes[i+1])
	}
	site := 0
	next := func() int { site++; return site }
	vars := []string{"x", "y"}
	var gen func(s *scope)
	gen = func(s *scope) {
		roles := sp.Roles[s.id]
		for vi, v := range vars {
			if roles[vi]&rParam != 0 {
				s.params = append(s.params, v)
			}
		}
		if s.id > 0 && sp.Pat[s.id-1] == pRecur {
			s.params = append(s.params, "n")
		}
		var b []stmt
		for vi, v := range vars {
			if roles[vi]&rReadStart != 0 {
				b = append(b, stmt{k: sRead, v: v, n: next()})
			}
		}
		for vi, v := range vars {
			if roles[vi]&rAssignStart != 0 {
				b = append(b, stmt{k: sAssign, v: v, n: 100 + next()})
			}
		}
		var late []stmt
		for _, c := range s.children {
			gen(c)
			name := fmt.Sprintf("b%d", c.id)
			def := stmt{k: sDef, v: name, blk: c}
			mkcall := func() stmt {
				st := stmt{k: sCall, v: name}
				for range c.params {
					st.args = append(st.args, 200+next())
				}
				if sp.Pat[c.id-1] == pRecur {
					st.args[len(st.args)-1] = 0 // the counter
				}
				if sp.End[c.id-1] == eThrow {
					st.try, st.e = true, fmt.Sprintf("e%d", s.id)
				}
				return st
			}
			switch sp.Pat[c.id-1] {
			case pOnce, pRecur:
				b = append(b, def, mkcall())
			case pTwice:
				b = append(b, def, mkcall(), mkcall())
			case pLate:
				b = append(b, def)
				late = append(late, mkcall())
			case pEscape:
				b = append(b, def, stmt{k: sEscape, v: name, n: c.id})
				slots = append(slots, c.id)
			case pLoop:
				b = append(b, stmt{k: sLoop, v: fmt.Sprintf("i%d", s.id), body: []stmt{def, mkcall()}})
			}
		}
		for vi, v := range vars {
			if roles[vi]&rAssignAfter != 0 {
				b = append(b, stmt{k: sAssign, v: v, n: 100 + next()})
			}
		}
		b = append(b, late...)
		for vi, v := range vars {
			if roles[vi]&rReadEnd != 0 {
				b = append(b, stmt{k: sRead, v: v, n: next()})
			}
		}
		if s.id == 0 {
			b = append(b, stmt{k: sReturn, n: 7000})
		} else {
			if sp.Pat[s.id-1] == pRecur {
				st := stmt{k: sRecur, v: fmt.Sprintf("b%d", s.id), p: "n"}
				for range s.params[:len(s.params)-1] {
					st.args = append(st.args, 300+next())
				}
				b = append(b, st)
			}
			switch sp.End[s.id-1] {
			case eValue:
				b = append(b, stmt{k: sValue, n: 1000 + s.id})
			case eReturn:
				b = append(b, stmt{k: sReturn, n: 2000 + s.id})
			case eThrow:
				b = append(b, stmt{k: sThrow, n: 3000 + s.id})
			}
		}
		s.body = b
	}
	gen(scopes[0])
	scopes[0].collectUses()
	for range scopes[0].params {
		args = append(args, 90+len(args))
	}
	return scopes[0], args, slots
}

// valid excludes combinations outside the documented model
func valid(sp spec) bool {
	for i := range sp.Pat {
		// `return` in a block whose function has already returned is not defined by the model
		if sp.End[i] == eReturn {
			for j := i; ; {
				if sp.Pat[j] == pEscape {
					return false
				}
				p := sp.Parents[j]
				if p == 0 {
					break
				}
				j = p - 1
			}
		}
	}
	return true
}

var shapes = [][]int{{0}, {0, 1}, {0, 0}, {0, 1, 2}, {0, 1, 1}, {0, 1, 0}, {0, 0, 2}, {0, 0, 0}}

// enumerate calls emit for every spec of the tier
func enumerate(c *lib.Ctx, emit func(sp spec)) {
	blockRoles := allRoles
	outerRoles := allRoles
	fewRoles := []int{0, rReadEnd, rAssignStart | rReadEnd, rReadStart | rAssignStart | rReadEnd, rParam | rReadStart | rReadEnd}
	allPat := []int{pOnce, pTwice, pLate, pEscape, pLoop, pRecur}
	allEnd := []int{eValue, eReturn, eThrow}
	quick := c.Quick()
	// y configurations for the multi-block tiers: role of y per scope as a function of depth
	type ycfg func(scopeIdx int, isLeaf bool) int
	ycfgs := []ycfg{
		func(int, bool) int { return 0 },
		func(i int, leaf bool) int {
			if i == 0 {
				return rAssignStart | rReadEnd
			}
			return rReadEnd
		},
		func(i int, leaf bool) int {
			if i == 0 {
				return rAssignStart | rReadEnd
			}
			if leaf {
				return rParam | rReadStart | rReadEnd
			}
			return 0
		},
		func(i int, leaf bool) int {
			if i == 0 {
				return 0
			}
			return rReadStart | rAssignStart | rReadEnd
		},
	}
	// tier 1: one block, everything
	for _, fx := range outerRoles {
		for _, fy := range lib.Pick(c, fewRoles, outerRoles) {
			for _, bx := range blockRoles {
				for _, by := range lib.Pick(c, fewRoles, blockRoles) {
					for _, p := range allPat {
						for _, e := range allEnd {
							emit(spec{[]int{0}, [][2]int{{fx, fy}, {bx, by}}, []int{p}, []int{e}})
						}
					}
				}
			}
		}
	}
	// tier 2: two blocks
	pats2 := [][2]int{{pOnce, pOnce}, {pOnce, pTwice}, {pTwice, pOnce}, {pTwice, pTwice}, {pEscape, pOnce}, {pOnce, pEscape}, {pEscape, pEscape},
		{pLoop, pOnce}, {pOnce, pLoop}, {pLate, pOnce}, {pOnce, pLate}, {pRecur, pOnce}, {pOnce, pRecur}, {pLate, pEscape}, {pLoop, pEscape}, {pRecur, pTwice}}
	ends2 := [][2]int{{eValue, eValue}, {eValue, eReturn}, {eValue, eThrow}, {eReturn, eValue}, {eThrow, eValue}}
	if quick {
		pats2 = pats2[:8]
		ends2 = ends2[:3]
	}
	for _, sh := range shapes[1:3] {
		leaf := func(i int) bool { return i == 2 || sh[1] == 0 && i == 1 }
		for _, fx := range lib.Pick(c, fewRoles[:4], outerRoles) {
			for _, ax := range lib.Pick(c, fewRoles, blockRoles) {
				for _, bx := range lib.Pick(c, fewRoles, blockRoles) {
					for yi, yc := range ycfgs {
						if quick && yi >= 2 {
							break
						}
						for _, p := range pats2 {
							for _, e := range ends2 {
								emit(spec{sh, [][2]int{{fx, yc(0, false)}, {ax, yc(1, leaf(1))}, {bx, yc(2, leaf(2))}}, p[:], e[:]})
							}
						}
					}
				}
			}
		}
	}
	// tier 3: three blocks
	pats3 := [][3]int{{pOnce, pOnce, pOnce}, {pTwice, pTwice, pTwice}, {pEscape, pOnce, pOnce}, {pOnce, pOnce, pEscape}, {pLoop, pOnce, pTwice}, {pRecur, pOnce, pOnce}, {pEscape, pEscape, pEscape}, {pLate, pLate, pOnce}}
	ends3 := [][3]int{{eValue, eValue, eValue}, {eValue, eValue, eReturn}, {eValue, eThrow, eValue}}
	if quick {
		pats3 = pats3[:2]
		ends3 = ends3[:1]
	}
	r3 := lib.Pick(c, fewRoles[:4], fewRoles)
	for _, sh := range shapes[3:] {
		leaf := func(i int) bool {
			for _, p := range sh {
				if p == i {
					return false
				}
			}
			return true
		}
		for _, fx := range fewRoles[:4] {
			for _, ax := range r3 {
				for _, bx := range r3 {
					for _, cx := range r3 {
						for yi, yc := range ycfgs {
							if yi >= lib.Pick(c, 1, 3) {
								break
							}
							for _, p := range pats3 {
								for _, e := range ends3 {
									emit(spec{sh, [][2]int{{fx, yc(0, false)}, {ax, yc(1, leaf(1))}, {bx, yc(2, leaf(2))}, {cx, yc(3, leaf(3))}}, p[:], e[:]})
								}
							}
						}
					}
				}
			}
		}
	}
}

// ---------------------------------------------------------------- run

type failCase struct {
	Spec   spec   `json:"spec"`
	Source string `json:"source"`
}

func failClass(c *lib.Ctx, class string, cs any, format string, a ...any) {
	for _, ig := range strings.Split(os.Getenv("VERIF_DEV_IGNORE"), ",") {
		if ig == class && class != "" {
			c.Count("dev_ignored:"+class, 1)
			return
		}
	}
	c.Fail(class, cs, format, a...)
}

// judge runs one program on the model and the real implementation
func judge(c *lib.Ctx, r *real, sp spec) (outcome string) {
	f, args, slots := build(sp)
	src := source(f)
	want := runModel(f, args, slots)
	got, cerr := r.runReal(src, f, args, slots)
	if cerr != "" {
		if strings.Contains(cerr, "possibly uninitialized variable: ") {
			return "static-uninitialized"
		}
		c.Fail("", failCase{sp, src}, "program does not compile: %s\n%s\n%s", cerr, sp, src)
		return "compile-error"
	}
	if strings.Join(got, "|") != strings.Join(want, "|") {
		c.Fail("", failCase{sp, src}, "observation differs from the scoping model\n  program: %s\n%s\n  real:  %v\n  model: %v", sp, src, got, want)
		return "mismatch"
	}
	// second context: the same program as a function literal nested in a wrapper
	// function that has just called a closure of its own at the call depth the
	// program then runs at. The program's variables stay its own (the wrapper's x
	// is another binding), a `return` in one of its blocks returns from the program
	// and the wrapper continues.
	wsrc, wargs := wrapSource(f, args)
	wwant := wrapModel(want)
	wgot, cerr := r.runReal(wsrc, f, wargs, slots)
	if cerr != "" {
		c.Fail("", failCase{sp, wsrc}, "program compiles on its own but not nested in a function: %s\n%s\n%s", cerr, sp, wsrc)
		return "compile-error"
	}
	if strings.Join(wgot, "|") != strings.Join(wwant, "|") {
		c.Fail("", failCase{sp, wsrc}, "observation differs from the scoping model when the program is a function nested in another function that called a closure before\n  program: %s\n%s\n  real:  %v\n  model: %v", sp, wsrc, wgot, wwant)
		return "mismatch"
	}
	return strings.Join(want, "|")
}

// wrapSource nests the program in a wrapper function: the wrapper shares its
// own x with a block, calls that block, then defines and calls the program.
func wrapSource(f *scope, args []int) (string, []int) {
	var ps []string
	for i := range args {
		ps = append(ps, fmt.Sprintf("p%d", i))
	}
	var sb strings.Builder
	sb.WriteString("function (" + strings.Join(ps, ", ") + ")\n{\nx = 50\nw = { x = 51 }\nw()\nf = ")
	sb.WriteString(source(f))
	sb.WriteString("\nr = f(" + strings.Join(ps, ", ") + ")\nSuneido.L.Add('after', x)\nreturn r\n}")
	return sb.String(), args
}

// wrapModel derives the wrapper's expected observation from the program's: the
// same log and result, plus the wrapper's own log entry when the program
// returned (an exception passes through the wrapper).
func wrapModel(want []string) []string {
	var out []string
	for _, w := range want {
		if strings.HasPrefix(w, "F returns ") {
			out = append(out, "after", "51")
		}
		out = append(out, w)
	}
	return out
}

func run(c *lib.Ctx) {
	var specs []spec
	enumerate(c, func(sp spec) {
		if valid(sp) {
			specs = append(specs, sp)
		}
	})
	c.Set("programs", len(specs))
	const chunk = 200
	nchunks := (len(specs) + chunk - 1) / chunk
	var mu sync.Mutex
	counts := map[string]int{}
	observations := map[string]bool{}
	c.Par(nchunks, func(ci int) {
		r := newReal()
		local := map[string]int{}
		lo, hi := ci*chunk, min((ci+1)*chunk, len(specs))
		nt := 0
		for _, sp := range specs[lo:hi] {
			out := judge(c, r, sp)
			switch out {
			case "static-uninitialized", "compile-error", "mismatch":
				local[out]++
			default:
				local["judged"]++
				// non-trivial: at least one variable value was observed (a read that is not "U") or a block ran
				if strings.Contains(out, "(") || strings.Contains(out, "s") {
					nt++
				}
				local["obs:"+out]++
			}
			if c.Stopped() {
				break
			}
		}
		c.Eval(hi - lo)
		c.Nontrivial(nt)
		mu.Lock()
		for k, v := range local {
			if strings.HasPrefix(k, "obs:") {
				observations[k] = true
			} else {
				counts[k] += v
			}
		}
		mu.Unlock()
		if ci%97 == 0 {
			sp := specs[lo+(ci*31)%(hi-lo)]
			f, args, slots := build(sp)
			c.Sample(map[string]any{"spec": sp.String(), "source": source(f), "expected_observation": runModel(f, args, slots)})
		}
	})
	c.Set("outcomes", counts)
	c.Set("distinct_observations", len(observations))
}

func replay(c *lib.Ctx, raw json.RawMessage) {
	var fc failCase
	if err := json.Unmarshal(raw, &fc); err != nil {
		lib.Infra("bad case: %v", err)
	}
	out := judge(c, newReal(), fc.Spec)
	fmt.Println("outcome:", out)
}

func main() {
	lib.Main(lib.Spec{
		ID:    "C29",
		Level: "exploration",
		Rule: "every program of the block grammar (nesting shape x role of x and y per scope x call pattern x ending per block) compiled and run on the real interpreter, " +
			"observation (read log, call results, exceptions, escaped block calls) compared with the environment-passing reference interpreter, " +
			"once on its own and once as a function literal nested in a wrapper function that called a closure of its own before; " +
			"evaluations = programs; programs are distinct by construction, non-trivial when a block ran or a variable was observed; the number of distinct observations is reported separately",
		Assumptions: []string{
			"interpretation fixed in DESIGN.md: a binding used by more than one scope has one cell per call of the outermost function; a binding used by one scope is private to each call",
			"`return` inside a block that is called after its function returned is excluded (not defined by the model)",
			"programs rejected by the compiler's static 'possibly uninitialized variable' diagnostic are counted, not judged",
			"observations use Suneido.L.Add / Suneido.B<n> (per-thread Suneido object), which are not local variables and so do not influence sharing",
		},
		QuickBudget:    120,
		ThoroughBudget: 900,
		Run:            run,
		Replay:         replay,
	})
}
