// C03 Commit is atomic and its outcome is reported truthfully. See verif/txpipe.
package main

import "verif/txpipe"

func main() {
	txpipe.Main(txpipe.CheckDef{
		ID:         "C03",
		Groups:     []string{"atom", "con"},
		Oracles:    txpipe.Oracles{Atomic: true},
		QuickBound: 1, ThoroughBound: 2,
		SyncLen: -2, SyncLenThorough: 2,
		Rule: "Oracle: (i) every published state equals the reference model after some prefix of the committed transactions (write log replayed in commit order), monotonically - no state shows part of a transaction; (ii) Complete()==\"\" iff the transaction's writes are in the final database, every other ending (explicit abort, conflict, timeout, failed completion) leaves no trace; (iii) in every published state Info.Nrows/Size equal the rows reachable through the first index and BtreeNrows+sum(Deltas) equals Nrows (same for size).",
	})
}
