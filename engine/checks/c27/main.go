// C27 Decimal numbers are correct to their precision.
//
// Exhaustive enumeration of all ordered pairs of a boundary alphabet of
// decimals (coefficient patterns x exponent boundaries x sign, zero, +-inf)
// through dnum.Add/Sub/Mul/Div/Compare, judged against exact big.Rat
// arithmetic; plus String/FromStr round trip and New normalisation for every
// value of the alphabet.
package main

import (
	"encoding/json"
	"fmt"
	"math/big"

	"github.com/apmckinlay/gsuneido/util/dnum"

	"verif/lib"
)

type val struct {
	d   dnum.Dnum
	r   *big.Rat // exact value (nil for +-inf)
	inf int      // +1/-1 for infinities
	s   string
}

var pow10cache = map[int]*big.Rat{}

func pow10(k int) *big.Rat {
	if r, ok := pow10cache[k]; ok {
		return r
	}
	p := new(big.Int).Exp(big.NewInt(10), big.NewInt(int64(abs(k))), nil)
	r := new(big.Rat)
	if k >= 0 {
		r.SetInt(p)
	} else {
		r.SetFrac(big.NewInt(1), p)
	}
	pow10cache[k] = r
	return r
}

func abs(k int) int {
	if k < 0 {
		return -k
	}
	return k
}

func init() {
	for k := -400; k <= 400; k++ {
		pow10(k)
	}
}

// exact value of a finite Dnum from its accessors: sign * coef * 10^(exp-16)
func exact(d dnum.Dnum) *big.Rat {
	if d.IsZero() {
		return new(big.Rat)
	}
	r := new(big.Rat).SetInt(new(big.Int).SetUint64(d.Coef()))
	r.Mul(r, pow10(d.Exp()-16))
	if d.Sign() < 0 {
		r.Neg(r)
	}
	return r
}

func mk(d dnum.Dnum) val {
	v := val{d: d, s: d.String()}
	if d.IsInf() {
		v.inf = sgn(d.Sign())
	} else {
		v.r = exact(d)
	}
	return v
}

// dexp returns e with 10^(e-1) <= |r| < 10^e (r != 0)
func dexp(r *big.Rat) int {
	a := new(big.Rat).Abs(r)
	e := int(float64(a.Num().BitLen()-a.Denom().BitLen()) * 0.30103)
	for a.Cmp(pow10(e)) >= 0 {
		e++
	}
	for a.Cmp(pow10(e-1)) < 0 {
		e--
	}
	return e
}

func coefs(c *lib.Ctx) []uint64 {
	set := map[uint64]bool{}
	add := func(x uint64) {
		if x == 0 {
			return
		}
		for x < 1000_0000_0000_0000 {
			x *= 10
		}
		for x > 9999_9999_9999_9999 {
			x /= 10
		}
		set[x] = true
	}
	for _, d := range []uint64{1, 2, 5, 9} {
		add(d)
	}
	p := uint64(1)
	for k := 0; k <= 15; k++ {
		if k > 0 {
			add(p + 1) // 10..01 with k+1 digits
			add(p - 1) // 9..9 with k digits
			add(5*p + 1)
		}
		p *= 10
	}
	for _, x := range []uint64{9999999999999999, 1000000000000001, 1234567890123456,
		5000000000000000, 4999999999999999, 3333333333333333, 6666666666666667,
		1999999999999999, 9000000000000001, 1000000010000000, 9999999990000000,
		1000000000000010, 1414213562373095, 3162277660168379} {
		add(x)
	}
	if c.Quick() {
		// reduced alphabet for the quick tier: the patterns that sit on
		// rounding/carry/split boundaries
		q := map[uint64]bool{}
		for _, x := range []uint64{1000000000000000, 2000000000000000, 5000000000000000,
			9000000000000000, 9999999999999999, 1000000000000001, 1234567890123456,
			4999999999999999, 5000000000000001, 9900000000000000, 1000000100000000,
			9999999000000000, 1000000010000000, 9999999990000000, 3333333333333333,
			6666666666666667, 1100000000000000, 5000001000000000, 1414213562373095} {
			q[x] = true
		}
		set = q
	}
	var out []uint64
	for x := range set {
		out = append(out, x)
	}
	// deterministic order
	for i := range out {
		for j := i + 1; j < len(out); j++ {
			if out[j] < out[i] {
				out[i], out[j] = out[j], out[i]
			}
		}
	}
	return out
}

func exps(c *lib.Ctx) []int {
	if c.Quick() {
		return []int{-128, -127, -126, -64, -8, -1, 0, 1, 2, 8, 15, 16, 17, 64, 126, 127}
	}
	return []int{-128, -127, -126, -125, -124, -65, -64, -63, -17, -16, -15, -8, -7, -2, -1, 0, 1, 2, 7, 8, 9,
		14, 15, 16, 17, 18, 63, 64, 65, 124, 125, 126, 127}
}

func values(c *lib.Ctx) []val {
	vs := []val{mk(dnum.Zero), mk(dnum.PosInf), mk(dnum.NegInf)}
	for _, e := range exps(c) {
		for _, co := range coefs(c) {
			for _, s := range []int8{1, -1} {
				vs = append(vs, mk(dnum.Raw(s, co, e)))
			}
		}
	}
	return vs
}

type pairCase struct {
	Op   string `json:"op"`
	X, Y string
}

var one = big.NewRat(1, 1)

// checkResult judges res against the exact value r with tolerance one unit in
// the 16th significant digit of a number with decimal exponent tolExp.
// Returns "" if fine.
func checkResult(res dnum.Dnum, r *big.Rat, tolExp int) string {
	if r.Sign() == 0 {
		if !res.IsZero() {
			return "exact result is 0 but got " + res.String()
		}
		return ""
	}
	er := dexp(r)
	if tolExp < er {
		tolExp = er
	}
	sign := r.Sign()
	if res.IsInf() {
		// overflow: required when |r| >= 10^127 (exponent 128 and up); allowed
		// when rounding to 16 digits carries into 10^127
		if er >= 128 && sgn(res.Sign()) == sign {
			return ""
		}
		if er == 127 && sgn(res.Sign()) == sign {
			a := new(big.Rat).Abs(r)
			a.Add(a, pow10(127-16))
			if a.Cmp(pow10(127)) >= 0 {
				return ""
			}
		}
		return fmt.Sprintf("got %s but exact result has decimal exponent %d", res.String(), er)
	}
	if er >= 129 {
		return fmt.Sprintf("expected overflow to infinity (exact exponent %d) got %s", er, res.String())
	}
	if res.IsZero() {
		// underflow: exponent below -128 must give zero. The implementation
		// flushes to zero from the un-normalised exponent, i.e. up to 2
		// decades early for Mul (documented behaviour of New: exp < expMin on
		// entry); the statement only says "underflow to zero", so results with
		// exact exponent <= -126 are accepted as underflow.
		if er <= -126 {
			return ""
		}
		if new(big.Rat).Abs(r).Cmp(pow10(tolExp-16)) <= 0 {
			return "" // cancellation: the exact result is below one unit of the larger operand
		}
		return fmt.Sprintf("got 0 but exact result has decimal exponent %d", er)
	}
	if er < -129 {
		return fmt.Sprintf("expected underflow to zero (exact exponent %d) got %s", er, res.String())
	}
	if c := res.Coef(); c < 1000_0000_0000_0000 || c > 9999_9999_9999_9999 {
		return fmt.Sprintf("result %s not normalised: coef %d", res.String(), c)
	}
	diff := new(big.Rat).Sub(exact(res), r)
	diff.Abs(diff)
	if diff.Cmp(pow10(tolExp-16)) > 0 {
		return fmt.Sprintf("got %s, exact %s: error exceeds one unit in the 16th digit (10^%d)",
			res.String(), r.FloatString(20), tolExp-16)
	}
	return ""
}

func checkPair(c *lib.Ctx, x, y val) {
	fail := func(op, msg string) {
		c.Fail("", pairCase{op, x.s, y.s}, "%s %s %s: %s", x.s, op, y.s, msg)
	}
	// Compare
	cmp := dnum.Compare(x.d, y.d)
	var want int
	switch {
	case x.inf != 0 || y.inf != 0:
		xv, yv := x.inf*2, y.inf*2
		if x.inf == 0 {
			xv = x.r.Sign()
		}
		if y.inf == 0 {
			yv = y.r.Sign()
		}
		want = sgn(xv - yv)
	default:
		want = x.r.Cmp(y.r)
	}
	if sgn(cmp) != want {
		fail("compare", fmt.Sprintf("got %d want %d", cmp, want))
	}
	if dnum.Equal(x.d, y.d) != (want == 0) {
		fail("equal", fmt.Sprintf("got %v want %v", dnum.Equal(x.d, y.d), want == 0))
	}
	if x.inf != 0 || y.inf != 0 {
		checkInf(c, x, y, fail)
		return
	}
	tol := -1000
	if x.r.Sign() != 0 {
		tol = x.d.Exp()
	}
	if y.r.Sign() != 0 && y.d.Exp() > tol {
		tol = y.d.Exp()
	}
	r := new(big.Rat)
	if m := checkResult(dnum.Add(x.d, y.d), r.Add(x.r, y.r), tol); m != "" {
		fail("+", m)
	}
	if m := checkResult(dnum.Sub(x.d, y.d), r.Sub(x.r, y.r), tol); m != "" {
		fail("-", m)
	}
	if m := checkResult(dnum.Mul(x.d, y.d), r.Mul(x.r, y.r), -1000); m != "" {
		fail("*", m)
	}
	if y.r.Sign() != 0 {
		if m := checkResult(dnum.Div(x.d, y.d), r.Quo(x.r, y.r), -1000); m != "" {
			fail("/", m)
		}
	} else {
		// x / 0: 0/0 = 0, otherwise infinity of x's sign (as documented in Div)
		q := dnum.Div(x.d, y.d)
		if x.r.Sign() == 0 && !q.IsZero() || x.r.Sign() != 0 && !(q.IsInf() && sgn(q.Sign()) == x.r.Sign()) {
			fail("/", "division by zero gave "+q.String())
		}
	}
}

func checkInf(c *lib.Ctx, x, y val, fail func(op, msg string)) {
	// infinities: x+inf = inf, inf-inf = 0 (implementation convention),
	// sign rules for * and /; finite/inf = 0
	sx, sy := sgn(x.d.Sign()), sgn(y.d.Sign())
	m := dnum.Mul(x.d, y.d)
	switch {
	case sx == 0 || sy == 0:
		if !m.IsZero() {
			fail("*", "0*inf gave "+m.String())
		}
	default:
		if !m.IsInf() || sgn(m.Sign()) != sx*sy {
			fail("*", "got "+m.String())
		}
	}
	a := dnum.Add(x.d, y.d)
	switch {
	case x.inf != 0 && y.inf != 0 && x.inf != y.inf:
		if !a.IsZero() {
			fail("+", "inf + -inf gave "+a.String())
		}
	case x.inf != 0:
		if !a.IsInf() || sgn(a.Sign()) != x.inf {
			fail("+", "got "+a.String())
		}
	default:
		if !a.IsInf() || sgn(a.Sign()) != y.inf {
			fail("+", "got "+a.String())
		}
	}
	if y.inf != 0 && x.inf == 0 {
		if q := dnum.Div(x.d, y.d); !q.IsZero() {
			fail("/", "finite/inf gave "+q.String())
		}
	}
	if x.inf != 0 && y.inf == 0 && sy != 0 {
		if q := dnum.Div(x.d, y.d); !q.IsInf() || sgn(q.Sign()) != sx*sy {
			fail("/", "inf/finite gave "+q.String())
		}
	}
}

func sgn(i int) int {
	switch {
	case i < 0:
		return -1
	case i > 0:
		return 1
	}
	return 0
}

func checkSingle(c *lib.Ctx, v val) {
	// text round trip
	s := v.d.String()
	var back dnum.Dnum
	if e := lib.Try(func() { back = dnum.FromStr(s) }); e != nil {
		c.Fail("", pairCase{"fromstr", s, ""}, "FromStr(%q) panicked: %v", s, e)
	} else if !dnum.Equal(back, v.d) {
		c.Fail("", pairCase{"roundtrip", s, ""}, "FromStr(String(x)) = %s for x = %s", back.String(), s)
	}
	if v.inf != 0 {
		return
	}
	// unary
	if n := v.d.Neg(); exact(n).Cmp(new(big.Rat).Neg(v.r)) != 0 {
		c.Fail("", pairCase{"neg", s, ""}, "Neg(%s) = %s", s, n.String())
	}
	if a := v.d.Abs(); exact(a).Cmp(new(big.Rat).Abs(v.r)) != 0 {
		c.Fail("", pairCase{"abs", s, ""}, "Abs(%s) = %s", s, a.String())
	}
	// New normalisation: every way of writing the same value with trailing
	// zeros removed / extra digits appended must normalise to the value
	// rounded to 16 digits.
	if v.r.Sign() != 0 {
		sign := int8(v.d.Sign())
		// New(sign, coef, exp): value = coef * 10^(exp-16) for any coef
		co := v.d.Coef()
		ex := v.d.Exp()
		for k := 0; k < 16 && co%10 == 0; k++ {
			co /= 10
			ex++
			if n := dnum.New(sign, co, ex); !dnum.Equal(n, v.d) {
				c.Fail("", pairCase{"new", fmt.Sprint(sign, co, ex), s}, "New(%d,%d,%d) = %s want %s", sign, co, ex, n.String(), s)
			}
		}
		for _, extra := range []uint64{0, 4, 5, 9} {
			co := v.d.Coef()*10 + extra // 17 digits
			want := new(big.Rat).SetInt(new(big.Int).SetUint64(co))
			want.Mul(want, pow10(v.d.Exp()-17))
			if sign < 0 {
				want.Neg(want)
			}
			n := dnum.New(sign, co, v.d.Exp()-1)
			if m := checkResult(n, want, -1000); m != "" {
				c.Fail("", pairCase{"new17", fmt.Sprint(sign, co, v.d.Exp()-1), s}, "New(%d,%d,%d): %s", sign, co, v.d.Exp()-1, m)
			}
		}
	}
}

func run(c *lib.Ctx) {
	vs := values(c)
	c.Set("alphabet_values", len(vs))
	c.Set("coefficients", len(coefs(c)))
	c.Set("exponents", exps(c))
	n := len(vs)
	c.Par(n, func(i int) {
		x := vs[i]
		checkSingle(c, x)
		nt := 0
		for j := 0; j < n; j++ {
			y := vs[j]
			checkPair(c, x, y)
			if x.inf == 0 && y.inf == 0 && x.r.Sign() != 0 && y.r.Sign() != 0 {
				nt++
			}
		}
		c.Eval(n*7 + 1)
		c.Nontrivial(nt)
		if i%97 == 0 && c.NSamples() < 6 {
			y := vs[(i*31+7)%n]
			c.Sample(map[string]string{"x": x.s, "y": y.s, "x+y": dnum.Add(x.d, y.d).String(),
				"x*y": dnum.Mul(x.d, y.d).String(), "x/y": dnum.Div(x.d, y.d).String()})
		}
	})
}

func replay(c *lib.Ctx, raw json.RawMessage) {
	var pc pairCase
	if err := json.Unmarshal(raw, &pc); err != nil {
		lib.Infra("bad case: %v", err)
	}
	if pc.Y == "" {
		checkSingle(c, mk(dnum.FromStr(pc.X)))
		return
	}
	checkPair(c, mk(dnum.FromStr(pc.X)), mk(dnum.FromStr(pc.Y)))
}

func main() {
	lib.Main(lib.Spec{
		ID:    "C27",
		Level: "exploration",
		Rule: "all ordered pairs (x,y) of the decimal boundary alphabet (coefficient patterns x exponent boundaries x sign, 0, +-inf) " +
			"through Add/Sub/Mul/Div/Compare/Equal vs exact big.Rat arithmetic, plus String/FromStr, Neg, Abs, New for every value; " +
			"evaluations = operations judged; a pair is non-trivial (and distinct by construction) when both operands are finite and non-zero",
		Assumptions: []string{
			"math/big is the trusted oracle",
			"add/sub tolerance: one unit in the 16th significant digit of the larger of |x|,|y|,|exact result| (a carry makes the result's own 16th digit the finest representable unit)",
			"underflow to zero is accepted for exact results with decimal exponent <= -126 (the implementation tests the exponent before normalising); overflow must be exact at 10^127",
			"verdict is for the enumerated alphabet only",
		},
		Run:    run,
		Replay: replay,
	})
}
