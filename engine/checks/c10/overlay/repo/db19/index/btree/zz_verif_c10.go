//go:build verif

package btree

import (
	"github.com/apmckinlay/gsuneido/db19/stor"
	"github.com/apmckinlay/gsuneido/util/slc"
)

// Read-only accessors for the /verif C10 check (tree shape, node copies).
// Nothing here is used by the code under test.

const VerifMaxNodeSize = maxNodeSize

// VerifNodeInfo is a decoded view of one stored node.
type VerifNodeInfo struct {
	Leaf      bool
	Size      int      // node size in bytes
	PrefixLen int      // leaf only
	Keys      []string // leaf keys or tree separators
	Offs      []uint64 // record offsets (leaf) or child offsets (tree)
}

func (bt *btree) VerifRoot() (root uint64, treeLevels, count int) {
	return bt.root, bt.treeLevels, bt.count
}

// VerifNode decodes the node at off; level 0 is the root.
func (bt *btree) VerifNode(level int, off uint64) VerifNodeInfo {
	if level < bt.treeLevels {
		nd := bt.readTree(off)
		ni := VerifNodeInfo{Size: len(nd)}
		for i := 0; i < nd.nkeys(); i++ {
			ni.Keys = append(ni.Keys, string(nd.key(i)))
		}
		for i := 0; i < nd.noffs(); i++ {
			ni.Offs = append(ni.Offs, nd.offset(i))
		}
		return ni
	}
	nd := bt.readLeaf(off)
	ni := VerifNodeInfo{Leaf: true, Size: len(nd), PrefixLen: len(nd.prefix())}
	for i := 0; i < nd.nkeys(); i++ {
		ni.Keys = append(ni.Keys, nd.key(i))
		ni.Offs = append(ni.Offs, nd.offset(i))
	}
	return ni
}

// VerifClone copies the nodes of bt byte for byte (child offsets re-pointed)
// into dst, so that a search state can own a compact private stor.
func (bt *btree) VerifClone(dst *stor.Stor) *btree {
	var rec func(level int, off uint64) uint64
	rec = func(level int, off uint64) uint64 {
		if level < bt.treeLevels {
			nd := treeNode(slc.Clone([]byte(bt.readTree(off))))
			for i := 0; i < nd.noffs(); i++ {
				nd.update(i, rec(level+1, nd.offset(i)))
			}
			return nd.write(dst)
		}
		return bt.readLeaf(off).write(dst)
	}
	return &btree{stor: dst, root: rec(0, bt.root), treeLevels: bt.treeLevels,
		count: bt.count}
}
