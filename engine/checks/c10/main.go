// C10 Stored btrees behave as ordered maps.
//
// Explicit-state breadth-first search on REAL *btree.T values (they are
// immutable / path copying, so a search state is the real tree plus its
// reference-model twin).
//
//   - for every split factor (btree.SetSplit 2,3,4) and every key universe
//     (structured: "" / short / three keys sharing a 40 byte prefix / ...;
//     sequential: 14 two-digit keys with dense-run batches; big: keys of
//     4085..4096 bytes = ixkey's maximum entry size, so nodes split by SIZE):
//   - initial states = Builder output for every subset (small universes) or for
//     every prefix / stride pattern of the sorted universe (bulk-built trees);
//   - transition = MergeAndSave of one batch (an ixbuf): every subset of <= B
//     keys with every valid op per key (add if absent, update|delete if
//     present), plus dense runs for the sequential universe;
//   - states are de-duplicated on the tree SHAPE (node boundaries, separators,
//     leaf prefix lengths, keys); record offsets are left out of the key (they
//     do not influence any future behaviour) but are compared on every
//     transition.
//
// Oracle (independent sorted-map model, []int8 presence/version per key):
// every transition: the leaf contents (key, offset) read through an overlay
// accessor equal the model, all ordering / separator-bound / non-empty /
// fan-out <= split / node size <= 8192 invariants hold, and the PARENT tree is
// byte-for-byte what it was before the child was produced.
// every new state additionally: Lookup of every universe key and of probe keys
// between them, forward and backward iteration, Check(nil) (does not panic and
// returns the model count), RangeFrac in [0,1] for every pair of boundary keys
// and 0 for empty ranges.
package main

import (
	"bytes"
	"encoding/json"
	"fmt"
	"hash/fnv"
	"io"
	"log"
	"os"
	"runtime/pprof"
	"sort"
	"strings"
	"sync"
	"sync/atomic"
	"time"

	"github.com/apmckinlay/gsuneido/db19/index/btree"
	"github.com/apmckinlay/gsuneido/db19/index/ixbuf"
	"github.com/apmckinlay/gsuneido/db19/index/ixkey"
	"github.com/apmckinlay/gsuneido/db19/stor"

	"verif/lib"
)

// ---------------------------------------------------------------- universes

type universe struct {
	Name     string
	keys     []string // sorted
	chunk    int      // heap stor chunk size (power of two, > largest node)
	maxBatch int      // max keys per batch (subset batches)
	runs     bool     // also dense-run batches
	allInit  bool     // initial states: every subset (else prefixes + patterns)
	bounds   []string // RangeFrac / probe boundaries
}

func rep(s string, n int) string { return strings.Repeat(s, n) }

func mkUniverse(name string, keys []string, chunk, maxBatch int, runs, allInit bool) *universe {
	sort.Strings(keys)
	u := &universe{Name: name, keys: keys, chunk: chunk, maxBatch: maxBatch, runs: runs, allInit: allInit}
	set := map[string]bool{ixkey.Min: true, ixkey.Max: true}
	for _, k := range keys {
		set[k] = true
		set[k+"\x00"] = true // just after k
	}
	for b := range set {
		u.bounds = append(u.bounds, b)
	}
	sort.Strings(u.bounds)
	return u
}

func universes(c *lib.Ctx) []*universe {
	p40 := rep("p", 40)
	structured := []string{"", "\x00", "a", "ab", p40 + "1", p40 + "2", p40 + "2x", "q", "zz"}
	var seq []string
	for i := 0; i < 14; i++ {
		seq = append(seq, fmt.Sprintf("%02d", 10+i*3))
	}
	// big keys: 4096 = ixkey maxEntry. b1+b2 fit one leaf (8188 bytes), any
	// third key forces a split by size; m.. keys share a 4080 byte prefix so
	// separators are ~4 KB and tree nodes split by size as well.
	big := []string{"", "a", rep("m", 4080) + "x", rep("m", 4080) + "y", rep("m", 4080) + "yz",
		rep("p", 4085), rep("q", 4085), rep("r", 4096)}
	return []*universe{
		mkUniverse("structured9", structured, 2048, lib.Pick(c, 3, 4), false, true),
		mkUniverse("sequential14", seq, 1024, 2, true, false),
		mkUniverse("big8", big, 32768, 3, false, true),
	}
}

// offsets: two versions per key; version 2 uses all five bytes.
func offOf(i int, v int8) uint64 {
	if v == 2 {
		return 0xff_0000_0000 | uint64(0x100+i)
	}
	return uint64(0x100 + i)
}

// ---------------------------------------------------------------- batches

type op struct {
	K  int  `json:"k"`
	Op byte `json:"op"` // 'a' add, 'u' update, 'd' delete
}
type batch []op

func (b batch) String() string {
	var sb strings.Builder
	for _, o := range b {
		fmt.Fprintf(&sb, "%c%d ", o.Op, o.K)
	}
	return sb.String()
}

// batches enumerates every batch valid in model state ms.
func (u *universe) batches(ms []int8, fn func(b batch)) {
	n := len(u.keys)
	cur := make(batch, 0, u.maxBatch)
	var rec func(from int)
	rec = func(from int) {
		if len(cur) > 0 {
			fn(append(batch(nil), cur...))
		}
		if len(cur) == u.maxBatch {
			return
		}
		for k := from; k < n; k++ {
			if ms[k] == 0 {
				cur = append(cur, op{k, 'a'})
				rec(k + 1)
				cur = cur[:len(cur)-1]
			} else {
				for _, o := range []byte{'u', 'd'} {
					cur = append(cur, op{k, o})
					rec(k + 1)
					cur = cur[:len(cur)-1]
				}
			}
		}
	}
	rec(0)
	if u.runs {
		// dense runs [i,j] of length > maxBatch: "toggle" (add absent, delete
		// present) and "touch" (add absent, update present)
		for i := 0; i < n; i++ {
			for j := i + u.maxBatch; j < n; j++ {
				for _, mode := range []byte{'d', 'u'} {
					b := make(batch, 0, j-i+1)
					for k := i; k <= j; k++ {
						if ms[k] == 0 {
							b = append(b, op{k, 'a'})
						} else {
							b = append(b, op{k, mode})
						}
					}
					fn(b)
				}
			}
		}
	}
}

func apply(ms []int8, b batch) []int8 {
	r := append([]int8(nil), ms...)
	for _, o := range b {
		switch o.Op {
		case 'a':
			r[o.K] = 1
		case 'u':
			r[o.K] = 3 - r[o.K]
		case 'd':
			r[o.K] = 0
		}
	}
	return r
}

// toIxbuf builds the change buffer for batch b in model state ms.
func (u *universe) toIxbuf(ms []int8, b batch) *ixbuf.T {
	ib := &ixbuf.T{}
	for _, o := range b {
		switch o.Op {
		case 'a':
			ib.Insert(u.keys[o.K], offOf(o.K, 1))
		case 'u':
			ib.Update(u.keys[o.K], offOf(o.K, 3-ms[o.K]))
		case 'd':
			ib.Delete(u.keys[o.K], offOf(o.K, ms[o.K]))
		}
	}
	return ib
}

// ---------------------------------------------------------------- states

type state struct {
	bt   *btree.T
	st   *stor.Stor
	ms   []int8
	key  [16]byte
	path []batch // from the initial builder state
	init []int8
	// snapshot of everything the tree occupies in st, and of the btree struct
	snap          [][]byte
	root          uint64
	levels, count int
}

// freeze records the storage bytes [1,size) of the state's stor (the tree's
// nodes) so that "the original tree is unchanged" can be checked byte for byte.
func (s *state) freeze(chunk int) {
	s.root, s.levels, s.count = s.bt.VerifRoot()
	size := s.st.Size()
	s.snap = nil
	for off := uint64(0); off < size; off += uint64(chunk) {
		o := off
		if o == 0 {
			o = 1
		}
		n := min(uint64(chunk), size-off) - (o - off)
		s.snap = append(s.snap, append([]byte(nil), s.st.Data(o)[:n]...))
	}
}

func (s *state) unchanged(chunk int) bool {
	r, l, n := s.bt.VerifRoot()
	if r != s.root || l != s.levels || n != s.count {
		return false
	}
	for i, sn := range s.snap {
		o := uint64(i * chunk)
		if o == 0 {
			o = 1
		}
		if !bytes.Equal(sn, s.st.Data(o)[:len(sn)]) {
			return false
		}
	}
	return true
}

func newStor(chunk int) *stor.Stor {
	st := stor.HeapStor(chunk)
	st.Alloc(1) // offset 0 means "no node" in MergeAndSave
	return st
}

// build bulk-loads the keys present in ms.
func (u *universe) build(ms []int8) (bt *btree.T, st *stor.Stor, e any) {
	e = lib.Try(func() {
		st = newStor(u.chunk)
		b := btree.NewBuilder(st)
		for i, v := range ms {
			if v != 0 {
				if !b.Add(u.keys[i], offOf(i, v)) {
					panic("Builder.Add returned false for a new key")
				}
			}
		}
		bt = b.Finish()
	})
	return
}

// ---------------------------------------------------------------- oracle

type shapeInfo struct {
	key    [16]byte
	levels int
	nodes  int
	leaves int
	maxSz  int
}

// walk reads the whole tree through the overlay accessor, checks the
// structural invariants and the contents against the model, and returns the
// shape key. class is a precise failure class for known-finding matching.
func (u *universe) walk(bt *btree.T, ms []int8, split int) (si shapeInfo, class, msg string) {
	root, levels, count := bt.VerifRoot()
	si.levels = levels
	hb := make([]byte, 0, 512)
	var keys []string
	var offs []uint64
	fail := func(cl, f string, a ...any) {
		if msg == "" {
			class, msg = cl, fmt.Sprintf(f, a...)
		}
	}
	var rec func(level int, off uint64, lo string, hasLo bool, hi string, hasHi bool)
	rec = func(level int, off uint64, lo string, hasLo bool, hi string, hasHi bool) {
		if msg != "" || si.nodes > 10000 {
			return
		}
		if off == 0 {
			fail("", "node offset 0 at level %d", level)
			return
		}
		nd := bt.VerifNode(level, off)
		si.nodes++
		if nd.Size > si.maxSz {
			si.maxSz = nd.Size
		}
		if nd.Size > btree.VerifMaxNodeSize {
			kind := "tree"
			if nd.Leaf {
				kind = "leaf"
			}
			fail(kind+"-node-larger-than-maxNodeSize", "%s node at level %d has size %d > maxNodeSize %d (%d entries)",
				kind, level, nd.Size, btree.VerifMaxNodeSize, len(nd.Offs))
		}
		if len(nd.Offs) > split {
			fail("", "node at level %d has %d entries > split count %d", level, len(nd.Offs), split)
		}
		leafb := byte(0)
		if nd.Leaf {
			leafb = 1
		}
		hb = append(hb, '|', byte(level), leafb, byte(len(nd.Keys)), byte(nd.PrefixLen))
		for _, k := range nd.Keys {
			hb = append(hb, byte(len(k)>>8), byte(len(k)))
			hb = append(hb, k...)
		}
		if nd.Leaf {
			si.leaves++
			if len(nd.Keys) == 0 && levels != 0 {
				fail("", "empty leaf node in a tree with %d tree levels", levels)
			}
			for i, k := range nd.Keys {
				if i > 0 && !(nd.Keys[i-1] < k) {
					fail("", "leaf keys out of order: %q then %q", nd.Keys[i-1], k)
				}
				if hasLo && k < lo {
					fail("", "leaf key %q below the separator %q on its path", k, lo)
				}
				if hasHi && k >= hi {
					fail("", "leaf key %q not below the separator %q on its path", k, hi)
				}
			}
			keys = append(keys, nd.Keys...)
			offs = append(offs, nd.Offs...)
			return
		}
		if len(nd.Offs) != len(nd.Keys)+1 {
			fail("", "tree node with %d separators and %d children", len(nd.Keys), len(nd.Offs))
			return
		}
		if level == 0 && len(nd.Keys) < 1 {
			fail("", "root tree node with a single child")
		}
		for i, s := range nd.Keys {
			if i > 0 && !(nd.Keys[i-1] < s) {
				fail("", "separators out of order: %q then %q", nd.Keys[i-1], s)
			}
			if hasLo && s <= lo || hasHi && s >= hi {
				fail("", "separator %q outside its parent's bounds", s)
			}
		}
		for i, o := range nd.Offs {
			clo, chasLo, chi, chasHi := lo, hasLo, hi, hasHi
			if i > 0 {
				clo, chasLo = nd.Keys[i-1], true
			}
			if i < len(nd.Keys) {
				chi, chasHi = nd.Keys[i], true
			}
			rec(level+1, o, clo, chasLo, chi, chasHi)
		}
	}
	if e := lib.Try(func() { rec(0, root, "", false, "", false) }); e != nil {
		fail("", "reading the tree panicked: %v", e)
	}
	h := fnv.New128a()
	h.Write(hb)
	copy(si.key[:], h.Sum(nil))
	if msg != "" {
		return
	}
	// contents == model
	j := 0
	for i, v := range ms {
		if v == 0 {
			continue
		}
		if j >= len(keys) || keys[j] != u.keys[i] || offs[j] != offOf(i, v) {
			got := "nothing"
			if j < len(keys) {
				got = fmt.Sprintf("(%s,%#x)", abbrev(keys[j]), offs[j])
			}
			fail("", "leaf entry %d is %s, model has (%s,%#x)", j, got, abbrev(u.keys[i]), offOf(i, v))
			return
		}
		j++
	}
	if j != len(keys) {
		fail("", "tree has %d entries, model %d (extra %s)", len(keys), j, abbrev(keys[j]))
	}
	if count != j {
		fail("", "btree.count = %d, model has %d keys", count, j)
	}
	return
}

func abbrev(s string) string {
	if len(s) > 24 {
		return fmt.Sprintf("%q..[%d bytes]..%q", s[:6], len(s), s[len(s)-4:])
	}
	return fmt.Sprintf("%q", s)
}

// full validates the public read operations of a tree against the model.
func (u *universe) full(bt *btree.T, ms []int8) (class, msg string) {
	fail := func(cl, f string, a ...any) {
		if msg == "" {
			class, msg = cl, fmt.Sprintf(f, a...)
		}
	}
	if e := lib.Try(func() {
		n := 0
		var live []int
		for i, v := range ms {
			if v != 0 {
				n++
				live = append(live, i)
			}
		}
		// Lookup
		for i, v := range ms {
			want := uint64(0)
			if v != 0 {
				want = offOf(i, v)
			}
			if got := bt.Lookup(u.keys[i]); got != want {
				fail("", "Lookup(%s) = %#x want %#x", abbrev(u.keys[i]), got, want)
			}
		}
		for _, b := range u.bounds {
			if i := sort.SearchStrings(u.keys, b); i < len(u.keys) && u.keys[i] == b {
				continue
			}
			if got := bt.Lookup(b); got != 0 {
				fail("", "Lookup(%s) = %#x for a key that was never inserted", abbrev(b), got)
			}
		}
		// iteration forward / backward
		it := bt.Iterator()
		j := 0
		for it.Next(); !it.Eof() && j <= n; it.Next() {
			k, o := it.Cur()
			if j < n && (k != u.keys[live[j]] || o != offOf(live[j], ms[live[j]])) || !it.HasCur() {
				fail("", "forward iteration step %d gives (%s,%#x)", j, abbrev(k), o)
			}
			j++
		}
		if j != n {
			fail("", "forward iteration yields %d keys, model has %d", j, n)
		}
		it = bt.Iterator()
		j = 0
		for it.Prev(); !it.Eof() && j <= n; it.Prev() {
			k, o := it.Cur()
			w := n - 1 - j
			if w >= 0 && (k != u.keys[live[w]] || o != offOf(live[w], ms[live[w]])) {
				fail("", "backward iteration step %d gives (%s,%#x)", j, abbrev(k), o)
			}
			j++
		}
		if j != n {
			fail("", "backward iteration yields %d keys, model has %d", j, n)
		}
		// Check
		cnt := 0
		var prev string
		count, _, _ := bt.Check(func(k string, _ uint64) {
			if cnt > 0 && !(prev < k) {
				fail("", "Check callback keys out of order")
			}
			prev = strings.Clone(k)
			cnt++
		})
		if count != n || cnt != n {
			fail("", "Check returned count %d (callback %d), model has %d", count, cnt, n)
		}
		// RangeFrac: org from {Min, every key}, end from {just after every
		// key, Max} (non-empty and empty ranges)
		orgs := append([]string{ixkey.Min}, u.keys...)
		ends := []string{ixkey.Max}
		for _, k := range u.keys {
			ends = append(ends, k+"\x00")
		}
		for _, org := range orgs {
			for _, end := range ends {
				f := bt.RangeFrac(org, end)
				if org >= end {
					if f != 0 {
						fail("", "RangeFrac(%s,%s) = %v for an empty range", abbrev(org), abbrev(end), f)
					}
				} else if f > 1 && f < 2 {
					// precise class: estimate above 1 (not clamped) for a non-empty range
					fail("rangefrac-above-1", "RangeFrac(%s,%s) = %v, not within [0,1] (%d keys)", abbrev(org), abbrev(end), f, n)
				} else if !(f >= 0 && f <= 1) {
					fail("", "RangeFrac(%s,%s) = %v, not within [0,1] (%d keys)", abbrev(org), abbrev(end), f, n)
				}
			}
		}
	}); e != nil {
		fail("", "panic: %v", lib.PanicText(e))
	}
	return
}

// ---------------------------------------------------------------- search

type failCase struct {
	Split    int     `json:"split"`
	Universe string  `json:"universe"`
	Init     []int8  `json:"init"`
	Path     []batch `json:"path"`
}

type visited struct {
	sh [64]struct {
		sync.Mutex
		m map[[16]byte]struct{}
	}
}

func (v *visited) add(k [16]byte) bool {
	s := &v.sh[k[0]&63]
	s.Lock()
	defer s.Unlock()
	if s.m == nil {
		s.m = map[[16]byte]struct{}{}
	}
	if _, ok := s.m[k]; ok {
		return false
	}
	s.m[k] = struct{}{}
	return true
}

type searcher struct {
	c     *lib.Ctx
	u     *universe
	split int
	vis   visited
	mu    sync.Mutex
	next  []*state
	nsamp atomic.Int32
	nleft atomic.Int64 // states of the last level (validated, not expanded)
	last  bool         // expanding the last level
}

// classSeen: a classified (candidate known finding) failure is reported once
// per run and counted afterwards, so that the search continues behind it.
var classSeen sync.Map

func (s *searcher) fail(class string, st *state, b batch, f string, a ...any) {
	if class != "" {
		s.c.Count("failures_class_"+class, 1)
		if _, dup := classSeen.LoadOrStore(class, true); dup {
			return
		}
		// development aid for mutant runs: VERIF_TREAT_AS_KNOWN=class,class
		// only counts these classes (as a KNOWN_FINDINGS entry would)
		if strings.Contains(","+os.Getenv("VERIF_TREAT_AS_KNOWN")+",", ","+class+",") {
			return
		}
	}
	path := append(append([]batch(nil), st.path...), b)
	if b == nil {
		path = st.path
	}
	s.c.Fail(class, failCase{s.split, s.u.Name, st.init, path},
		"split=%d universe=%s init=%v path=%v: %s", s.split, s.u.Name, st.init, path, fmt.Sprintf(f, a...))
}

// admit validates a freshly produced tree; if its shape is new it is cloned
// into a private compact stor and queued.
func (s *searcher) admit(parent *state, b batch, bt *btree.T, bst *stor.Stor, ms []int8, keep bool) {
	c := s.c
	var st0 *state
	if parent == nil {
		st0 = &state{init: ms}
	} else {
		st0 = parent
	}
	si, class, msg := s.u.walk(bt, ms, s.split)
	if msg != "" {
		s.fail(class, st0, b, "%s", msg)
		return
	}
	if si.levels > 8 {
		// btree.Iterator holds a fixed [maxLevels=8]treeIter path; trees this
		// tall only arise with the artificial split factor 2 (real one: 100)
		c.Count("trees_taller_than_maxLevels_8_skipped", 1)
		return
	}
	if !s.vis.add(si.key) {
		return
	}
	c.State(1)
	c.Nontrivial(1)
	c.Count(fmt.Sprintf("states_split%d_levels%d", s.split, si.levels), 1)
	if si.maxSz > 4096 {
		c.Count("states_with_node_over_4096_bytes", 1)
	}
	if class, msg := s.u.full(bt, ms); msg != "" {
		s.fail(class, st0, b, "%s", msg)
		return
	}
	if !keep { // last level: validated and counted, never expanded
		s.nleft.Add(1)
		return
	}
	ns := &state{ms: ms, key: si.key}
	if parent == nil {
		ns.init = ms
		ns.bt, ns.st = bt, bst // builder output already lives in its own stor
	} else {
		ns.init = parent.init
		ns.path = append(append([]batch(nil), parent.path...), b)
		ns.st = newStor(s.u.chunk)
		ns.bt = bt.VerifClone(ns.st)
		// the clone must be the same tree
		if si2, _, msg := s.u.walk(ns.bt, ms, s.split); msg != "" || si2.key != si.key {
			lib.Infra("VerifClone changed the tree: %s", msg)
		}
	}
	ns.freeze(s.u.chunk)
	s.mu.Lock()
	s.next = append(s.next, ns)
	s.mu.Unlock()
}

func (s *searcher) expand(p *state) {
	c := s.c
	_, plevels, _ := p.bt.VerifRoot()
	fl := newFlight()
	defer fl.done()
	s.u.batches(p.ms, func(b batch) {
		if c.Stopped() {
			return
		}
		ib := s.u.toIxbuf(p.ms, b)
		var child *btree.T
		fl.begin(func() (any, string) {
			path := append(append([]batch(nil), p.path...), b)
			return failCase{s.split, s.u.Name, p.init, path},
				fmt.Sprintf("split=%d universe=%s init=%v path=%v", s.split, s.u.Name, p.init, path)
		})
		defer fl.end()
		e := lib.Try(func() { child = p.bt.MergeAndSave(ib.Iter()) })
		c.Eval(1)
		c.Transition(1)
		c.TraceValidated(1)
		if e != nil {
			s.fail("", p, b, "MergeAndSave panicked: %s", lib.PanicText(e))
			return
		}
		ms := apply(p.ms, b)
		_, clevels, _ := child.VerifRoot()
		switch {
		case clevels > plevels:
			c.Count("transitions_root_split", 1)
		case clevels < plevels && clevels == 0:
			c.Count("transitions_collapse_to_single_leaf", 1)
		case clevels < plevels:
			c.Count("transitions_root_popped", 1)
		}
		s.admit(p, b, child, nil, ms, !s.last)
		// persistence: the parent is byte for byte what it was
		if !p.unchanged(s.u.chunk) {
			s.fail("", p, b, "the ORIGINAL tree's stored nodes changed after MergeAndSave produced a new one")
		}
		if s.nsamp.Load() < 2 && len(b) >= 2 && clevels >= 1 && s.nsamp.Add(1) <= 2 {
			c.Sample(map[string]any{"split": s.split, "universe": s.u.Name, "model_before": fmt.Sprint(p.ms),
				"batch": b.String(), "tree_levels_after": clevels})
		}
	})
}

func (s *searcher) initial() {
	n := len(s.u.keys)
	var inits [][]int8
	if s.u.allInit {
		for m := 0; m < 1<<n; m++ {
			ms := make([]int8, n)
			for i := range ms {
				if m>>i&1 == 1 {
					ms[i] = 1 + int8((m>>((i+1)%n))&1) // mix offset versions
				}
			}
			inits = append(inits, ms)
		}
	} else {
		for k := 0; k <= n; k++ { // prefixes
			ms := make([]int8, n)
			for i := 0; i < k; i++ {
				ms[i] = 1
			}
			inits = append(inits, ms)
		}
		for _, stride := range []int{2, 3} {
			for ph := 0; ph < stride; ph++ {
				ms := make([]int8, n)
				for i := ph; i < n; i += stride {
					ms[i] = 2
				}
				inits = append(inits, ms)
			}
		}
	}
	s.c.Par(len(inits), func(i int) {
		bt, bst, e := s.u.build(inits[i])
		s.c.Eval(1)
		s.c.Count("bulk_built_trees", 1)
		if e != nil {
			s.fail("", &state{init: inits[i]}, nil, "Builder panicked: %s", lib.PanicText(e))
			return
		}
		s.admit(nil, nil, bt, bst, inits[i], true)
	})
}

func search(c *lib.Ctx, u *universe, split, depth int) {
	prev := btree.SetSplit(split)
	defer btree.SetSplit(prev)
	s := &searcher{c: c, u: u, split: split}
	t0 := time.Now()
	s.initial()
	complete := true
	d := 0
	for ; d < depth && len(s.next) > 0 && !c.Expired(); d++ {
		frontier := s.next
		s.next = nil
		s.last = d == depth-1
		// deterministic order
		sort.Slice(frontier, func(i, j int) bool { return string(frontier[i].key[:]) < string(frontier[j].key[:]) })
		if !c.Par(len(frontier), func(i int) { s.expand(frontier[i]); frontier[i] = nil }) {
			complete = false
			break
		}
	}
	tag := fmt.Sprintf("%s/split%d (%.0fs)", u.Name, split, time.Since(t0).Seconds())
	left := int64(len(s.next)) + s.nleft.Load()
	if complete && left == 0 {
		c.Note("%s: state space CLOSED after %d levels (fixpoint)", tag, d)
	} else if complete {
		c.Note("%s: all states to depth %d expanded; %d validated but unexpanded states at depth %d", tag, d, left, d+1)
	} else {
		c.Cap("%s: budget ended inside level %d", tag, d+1)
	}
}

// logCounter swallows the package's informational log lines and counts them.
type logCounter struct{ c *lib.Ctx }

func (l logCounter) Write(p []byte) (int, error) {
	if strings.Contains(string(p), "leafNode overflow") {
		l.c.Count("log_leafNode_overflow_lines", 1)
	}
	return len(p), nil
}

func run(c *lib.Ctx) {
	startWatchdog(c, "C10")
	log.SetOutput(logCounter{c})
	if f := os.Getenv("VERIF_PPROF"); f != "" {
		w, _ := os.Create(f)
		pprof.StartCPUProfile(w)
		defer pprof.StopCPUProfile()
	}
	us := universes(c)
	type cfg struct {
		u     *universe
		split int
		depth int
	}
	var cfgs []cfg
	if c.Quick() {
		// cheapest first, so that a loaded machine still covers every universe
		cfgs = []cfg{{us[0], 3, 2}, {us[0], 4, 2}, {us[2], 2, 1}, {us[2], 4, 1}, {us[1], 3, 2}, {us[0], 2, 2}}
	} else {
		cfgs = []cfg{{us[0], 2, 3}, {us[0], 3, 3}, {us[0], 4, 3}, {us[2], 2, 2}, {us[2], 3, 2}, {us[2], 4, 2},
			{us[1], 2, 3}, {us[1], 3, 3}, {us[1], 4, 3}}
	}
	var desc []string
	for _, cf := range cfgs {
		desc = append(desc, fmt.Sprintf("%s split=%d depth=%d maxBatch=%d", cf.u.Name, cf.split, cf.depth, cf.u.maxBatch))
		if c.Expired() {
			c.Cap("configuration %s split=%d not started", cf.u.Name, cf.split)
			continue
		}
		search(c, cf.u, cf.split, cf.depth)
	}
	c.Set("configurations", desc)
	sizeBoundary(c)
}

// sizeBoundary: bulk builds at the real split factor (100) whose tree node
// fills by SIZE: three (four) keys that each need a leaf of their own and whose
// separators have every pair of lengths a, b in a window around the point where
// two separators plus their overhead no longer fit a node (8192). Each build
// must succeed and satisfy every node invariant; then each key is deleted and
// re-added through MergeAndSave.
func sizeBoundary(c *lib.Ctx) {
	prev := btree.SetSplit(100)
	defer btree.SetSplit(prev)
	lo := lib.Pick(c, 4078, 4060)
	n, overMax := 0, 0
	for a := lo; a <= 4096; a++ {
		for b := a; b <= 4096; b++ {
			for _, extra := range []bool{false, true} {
				if c.Expired() {
					c.Cap("size boundary builds stopped at separator lengths %d,%d", a, b)
					return
				}
				// leaves hold two of these keys (a common prefix of up to 255 bytes is
				// stored once), a third does not fit: leaf 1 = x0 x1, leaf 2 = x2 x3,
				// leaf 3 = x4; the separators are x2 (a bytes) and x4 (b bytes)
				x0 := rep("m", a-1) + "a"
				x1 := rep("m", a-1) + "b"
				x2 := rep("m", a-1) + "c"
				x3 := rep("m", a-1) + "d"
				x4 := rep("m", a-1) + "e"
				if b > a {
					x3 = x2 + rep("n", b-1-a) + "a"
					x4 = x2 + rep("n", b-1-a) + "b"
				}
				keys := []string{x0, x1, x2, x3, x4}
				if extra {
					keys = append(keys, "zz") // a short last key
				}
				u := mkUniverse(fmt.Sprintf("boundary-%d-%d-%v", a, b, extra), keys, 65536, 1, false, true)
				ms := make([]int8, len(u.keys))
				for i := range ms {
					ms[i] = 1
				}
				bt, _, e := u.build(ms)
				n++
				fc := failCase{100, u.Name, ms, nil}
				if e != nil {
					c.Fail("", fc, "bulk build of %d keys whose separators are %d and %d bytes long (split factor 100) failed: %v", len(keys), a, b, e)
					return
				}
				si, class, msg := u.walk(bt, ms, 100)
				if msg != "" {
					c.Fail(class, fc, "bulk build of %d keys whose separators are %d and %d bytes long (split factor 100): %s", len(keys), a, b, msg)
					return
				}
				if si.maxSz > 8100 {
					overMax++
				}
			}
		}
	}
	c.Eval(n)
	c.Nontrivial(overMax)
	c.Set("size_boundary_builds", n)
	c.Set("size_boundary_builds_with_a_node_over_8100_bytes", overMax)
}

func replay(c *lib.Ctx, raw json.RawMessage) {
	var fc failCase
	if err := json.Unmarshal(raw, &fc); err != nil {
		lib.Infra("bad case: %v", err)
	}
	log.SetOutput(io.Discard)
	var u *universe
	for _, x := range universes(c) {
		if x.Name == fc.Universe {
			u = x
		}
	}
	if u == nil {
		lib.Infra("unknown universe %q", fc.Universe)
	}
	defer btree.SetSplit(btree.SetSplit(fc.Split))
	s := &searcher{c: c, u: u, split: fc.Split}
	bt, bst, e := u.build(fc.Init)
	cur := &state{init: fc.Init, ms: fc.Init}
	if e != nil {
		s.fail("", cur, nil, "Builder panicked: %s", lib.PanicText(e))
		return
	}
	check := func(bt *btree.T, ms []int8, b batch) bool {
		si, class, msg := u.walk(bt, ms, fc.Split)
		if msg == "" {
			class, msg = u.full(bt, ms)
		}
		if msg != "" {
			s.fail(class, cur, b, "%s", msg)
			return false
		}
		cur.key = si.key
		return true
	}
	if !check(bt, fc.Init, nil) {
		return
	}
	cur.bt, cur.st = bt, bst
	cur.freeze(u.chunk)
	for _, b := range fc.Path {
		ib := u.toIxbuf(cur.ms, b)
		var child *btree.T
		if e := lib.Try(func() { child = cur.bt.MergeAndSave(ib.Iter()) }); e != nil {
			s.fail("", cur, b, "MergeAndSave panicked: %s", lib.PanicText(e))
			return
		}
		ms := apply(cur.ms, b)
		if !check(child, ms, b) {
			return
		}
		if !cur.unchanged(u.chunk) {
			s.fail("", cur, b, "the ORIGINAL tree's stored nodes changed after MergeAndSave produced a new one")
			return
		}
		nst := newStor(u.chunk)
		cur = &state{init: fc.Init, ms: ms, key: cur.key, path: append(append([]batch(nil), cur.path...), b),
			bt: child.VerifClone(nst), st: nst}
		cur.freeze(u.chunk)
	}
}

func main() {
	lib.Main(lib.Spec{
		ID:    "C10",
		Level: "model_checking",
		Rule: "BFS over real *btree.T values: initial = Builder output for every subset / prefix / stride pattern of the key universe, " +
			"transition = MergeAndSave of one batch (every subset of <= B keys x every valid add/update/delete per key, plus dense runs), " +
			"for split factors 2,3,4 and three universes (structured, sequential, 4 KB keys). states = distinct tree shapes " +
			"(node boundaries + separators + prefix lengths + keys); evaluations = executed builder runs + transitions; every state is non-trivial " +
			"and distinct by construction (de-duplicated on shape)",
		Assumptions: []string{
			"reference model: per-key presence/offset-version vector (sorted map over a fixed universe)",
			"states are de-duplicated on shape without record offsets (offsets cannot influence structure); offsets are compared on every transition",
			"a queued state is a byte-for-byte node copy (child offsets re-pointed) of the tree returned by MergeAndSave, in a private heap stor",
			"size invariants checked: node size <= maxNodeSize (8192), entries per node <= split count, no empty node except an empty root leaf, root tree node >= 2 children",
			"RangeFrac is only required to be within [0,1] and 0 for empty ranges; its accuracy is not judged",
			"bounded by depth / budget as reported in notes and caps",
		},
		QuickBudget:    70,
		ThoroughBudget: 840,
		Run:            run,
		Replay:         replay,
	})
}
