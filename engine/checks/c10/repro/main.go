//go:build ignore

// Standalone reproduction of the two C10 defect candidates.
// Run: cd /verif/engine && GOFLAGS=-mod=mod GOPROXY=off go run -tags verif -overlay /verif/build/c10/overlay.json checks/c10/repro/main.go
// (the overlay adds the read-only VerifNode accessor used to print node sizes)
package main

import (
	"fmt"
	"io"
	"log"
	"strings"

	"github.com/apmckinlay/gsuneido/db19/index/btree"
	"github.com/apmckinlay/gsuneido/db19/index/ixbuf"
	"github.com/apmckinlay/gsuneido/db19/stor"
)

func main() {
	log.SetOutput(io.Discard)
	// (a) RangeFrac above 1: 7 keys, split factor 3, range covering all keys
	defer btree.SetSplit(btree.SetSplit(3))
	st := stor.HeapStor(8192)
	st.Alloc(1)
	b := btree.NewBuilder(st)
	for i, k := range []string{"", "a", "ab", "p1", "p2", "q", "zz"} {
		b.Add(k, uint64(i+1))
	}
	bt := b.Finish()
	fmt.Println("(a) RangeFrac(\"\", \"zz\\x00\") =", bt.RangeFrac("", "zz\x00"), " (all 7 keys are inside the range)")

	// (b) leaf node larger than maxNodeSize after a split
	btree.SetSplit(100)
	st = stor.HeapStor(32768)
	st.Alloc(1)
	b = btree.NewBuilder(st)
	b.Add(strings.Repeat("p", 4085), 1)
	b.Add(strings.Repeat("q", 4085), 2)
	bt = b.Finish() // one leaf of 8188 bytes
	ib := &ixbuf.T{}
	ib.Insert(strings.Repeat("r", 4096), 3) // a key of the maximum entry size
	bt = bt.MergeAndSave(ib.Iter())
	bt.Check(nil)
	root, levels, _ := bt.VerifRoot()
	for _, off := range bt.VerifNode(0, root).Offs {
		nd := bt.VerifNode(1, off)
		fmt.Printf("(b) leaf with %d keys has size %d (maxNodeSize %d, tree levels %d)\n", len(nd.Keys), nd.Size, btree.VerifMaxNodeSize, levels)
	}
}
