//go:build ignore

// Standalone reproduction of the two C10 defect candidates.
// Run: cd /verif/engine && GOFLAGS=-mod=mod GOPROXY=off go run -tags verif -overlay /verif/build/c10/overlay.json checks/c10/repro/main.go
// (the overlay adds the read-only VerifNode accessor used to print node sizes)
package main

import (
	"fmt"
	"io"
	"log"
	"strings"

	"github.com/apmckinlay/gsuneido/db19/index/btree"
	"github.com/apmckinlay/gsuneido/db19/index/ixbuf"
	"github.com/apmckinlay/gsuneido/db19/stor"
)

func main() {
	log.SetOutput(io.Discard)
	// (a) RangeFrac above 1: split factor 3, 7 keys, a range that covers all keys
	defer btree.SetSplit(btree.SetSplit(3))
	p40 := strings.Repeat("p", 40)
	keys := []string{"", "\x00", "a", "ab", p40 + "1", p40 + "2", p40 + "2x", "q", "zz"}
	st := stor.HeapStor(8192)
	st.Alloc(1)
	b := btree.NewBuilder(st)
	for _, i := range []int{0, 2, 3, 5, 6, 7, 8} {
		b.Add(keys[i], uint64(i+1))
	}
	bt := b.Finish()
	ib := &ixbuf.T{}
	ib.Delete(keys[0], 1)
	ib.Insert(keys[4], 5)
	ib.Delete(keys[6], 7)
	bt = bt.MergeAndSave(ib.Iter())
	ib = &ixbuf.T{}
	ib.Insert(keys[0], 1)
	ib.Insert(keys[1], 2)
	ib.Delete(keys[2], 3)
	bt = bt.MergeAndSave(ib.Iter())
	n, _, _ := bt.Check(nil)
	fmt.Println("(a) RangeFrac(\"\", \"zz\\x00\") =", bt.RangeFrac("", "zz\x00"), " (all", n, "keys are inside the range)")

	// (b) leaf node larger than maxNodeSize after a split
	btree.SetSplit(100)
	st = stor.HeapStor(32768)
	st.Alloc(1)
	b = btree.NewBuilder(st)
	b.Add(strings.Repeat("p", 4085), 1)
	b.Add(strings.Repeat("q", 4085), 2)
	bt = b.Finish() // one leaf of 8188 bytes
	ib = &ixbuf.T{}
	ib.Insert(strings.Repeat("r", 4096), 3) // a key of the maximum entry size
	bt = bt.MergeAndSave(ib.Iter())
	bt.Check(nil)
	root, levels, _ := bt.VerifRoot()
	for _, off := range bt.VerifNode(0, root).Offs {
		nd := bt.VerifNode(1, off)
		fmt.Printf("(b) leaf with %d keys has size %d (maxNodeSize %d, tree levels %d)\n", len(nd.Keys), nd.Size, btree.VerifMaxNodeSize, levels)
	}
}
