// C19 Historical reads show the state as of the requested time.
//
// Enumerated: every history built from 1..N segments, each segment = one
// change (insert a row, delete a row, create a second table with a row, add a
// view, update a row) followed by a persist or by a clean close+reopen, on a
// real db19 database (in-memory store, real checker/merger pipeline), with
// optionally one more committed but UNPERSISTED transaction at the end. After
// the history is built the harness gives the persisted states a VIRTUAL
// timeline: it overwrites the time stamp of every state record in the store
// with chosen strictly increasing times (gaps of 1 ms and of 1000 ms, every
// combination) and recomputes the record checksum. No wall clock is involved
// (times are in 2020, "future" requests in the year 3000).
//
// Requests, each on read transactions of the real database:
//   - Asof(t) for every t in {T_i-1, T_i, T_i+1} of every state and a time
//     before the first state, twice each (state cache), interleaved;
//   - Asof(0) returns the current as-of time;
//   - every sequence of prev/next steps of length <= 4 starting from every
//     state (set with Asof) and, for prev, from a fresh transaction;
//   - a time before the first state followed by steps;
//   - a far future time.
//
// Oracle: a list model [(T_i, model database_i)]: Asof(t) returns the time of
// and shows the contents of the last state with T_i <= t (the first state if
// there is none); prev/next move by one state, return 0 at the ends and then
// leave the view unchanged; a future time shows the live state including the
// unpersisted transaction. "Shows" = the full comparison of drive.CompareObs
// (tables, schema, rows through every index, info) against model database_i.
package main

import (
	"bytes"
	"encoding/binary"
	"encoding/json"
	"fmt"
	"hash/crc32"
	"os"
	"strings"
	"time"

	"github.com/apmckinlay/gsuneido/db19"

	"verif/lib"
	"verif/model/dbmodel"
	"verif/model/dbmodel/drive"
)

type M = map[string]string

func ix(mode byte, cols string) dbmodel.Index {
	return dbmodel.Index{Mode: mode, Cols: strings.Split(cols, ",")}
}

func req(kind, table, cols string, idx ...dbmodel.Index) drive.Event {
	return drive.Admin(dbmodel.Req{Kind: kind, Table: table, Cols: strings.Split(cols, ","), Idx: idx})
}

func ins(table string, row M) drive.Event {
	return drive.Tx(dbmodel.RowOp{Kind: "insert", Table: table, Row: row})
}

// change k of the history (i = position, to make inserted keys distinct)
func change(kind, i int) drive.Event {
	switch kind {
	case 0:
		return ins("t", M{"k": fmt.Sprint("r", i), "v": "x"})
	case 1:
		return drive.Tx(dbmodel.RowOp{Kind: "delete", Table: "t", Row: M{"k": "r0"}})
	case 2:
		return drive.Seq(req("create", "u", "a,b", ix('k', "a"), ix('i', "b")), ins("u", M{"a": "1", "b": "2"}))
	case 3:
		return drive.Admin(dbmodel.Req{Kind: "view", Table: fmt.Sprint("v", i), Def: "t"})
	case 5, 6:
		// large rows: the storage (8 KiB chunks in this harness, 64 MiB in
		// production) moves on to the next chunk, so that consecutive states lie
		// in different chunks at unrelated positions
		n := 2500
		if kind == 6 {
			n = 5000
		}
		return ins("t", M{"k": fmt.Sprint("b", i), "v": "big", "w": strings.Repeat(string(rune('a'+i%26)), n)})
	default:
		return drive.Tx(dbmodel.RowOp{Kind: "update", Table: "t", Row: M{"k": "r0"}, Set: M{"v": fmt.Sprint("y", i)}})
	}
}

// chunkHistories: every sequence of small / 2.5 KB / 5 KB inserts of the given
// length, each followed by a persist (1 s apart): state records spread over
// several storage chunks.
func chunkHistories(n int) []history {
	var out []history
	kinds := []int{0, 5, 6}
	total := 1
	for i := 0; i < n; i++ {
		total *= len(kinds)
	}
	for x := 0; x < total; x++ {
		h := history{}
		big := false
		for i, y := 0, x; i < n; i, y = i+1, y/len(kinds) {
			k := kinds[y%len(kinds)]
			big = big || k != 0
			h.Changes = append(h.Changes, k)
			h.Reopen = append(h.Reopen, false)
			h.Gaps = append(h.Gaps, 1000)
		}
		if big {
			out = append(out, h)
		}
	}
	return out
}

const nChanges = 5

type history struct {
	Changes []int  `json:"changes"` // change kind per segment
	Reopen  []bool `json:"reopen"`  // segment ends with close+reopen instead of persist
	Gaps    []int  `json:"gaps"`    // virtual ms between consecutive states
	Tail    bool   `json:"tail"`    // one more unpersisted committed transaction at the end
}

func (h history) String() string {
	var ps []string
	for i, ch := range h.Changes {
		p := "persist"
		if h.Reopen[i] {
			p = "reopen"
		}
		ps = append(ps, change(ch, i+1).String()+" + "+p)
	}
	s := strings.Join(ps, " ; ")
	if h.Tail {
		s += " ; unpersisted insert"
	}
	return fmt.Sprintf("%s | gaps %v", s, h.Gaps)
}

// histories enumerates all histories with 1..n segments.
func histories(n int, gapAlphabet []int) []history {
	var out []history
	var rec func(h history)
	rec = func(h history) {
		if k := len(h.Changes); k > 0 {
			// all gap patterns between the k+1 states (state 0 = after the initial create)
			var gaps func(g []int)
			gaps = func(g []int) {
				if len(g) == k {
					for _, tail := range []bool{false, true} {
						hh := history{Changes: append([]int(nil), h.Changes...), Reopen: append([]bool(nil), h.Reopen...),
							Gaps: append([]int(nil), g...), Tail: tail}
						out = append(out, hh)
					}
					return
				}
				for _, x := range gapAlphabet {
					gaps(append(g, x))
				}
			}
			gaps(nil)
		}
		if len(h.Changes) == n {
			return
		}
		for ch := 0; ch < nChanges; ch++ {
			for _, ro := range []bool{false, true} {
				rec(history{Changes: append(append([]int(nil), h.Changes...), ch), Reopen: append(append([]bool(nil), h.Reopen...), ro)})
			}
		}
	}
	rec(history{})
	return out
}

// ---- state records in the store (harness side knowledge of the layout:
// magic1, 8 byte big-endian unix-milli time, two 5 byte offsets, 2 byte
// crc32c checksum, magic2)

var magic1 = []byte("\x01\x23\x45\x67\x89\xab\xcd\xef")
var magic2 = []byte("\xfe\xdc\xba\x98\x76\x54\x32\x10")

const stateLen = 36
const cksumAt = 26

var castagnoli = crc32.MakeTable(crc32.Castagnoli)

func setStateTime(s *drive.Sys, off uint64, t int64) {
	buf := s.Store.Data(off)
	if len(buf) < stateLen || !bytes.Equal(buf[:8], magic1) || !bytes.Equal(buf[stateLen-8:stateLen], magic2) {
		lib.Infra("no state record at offset %d (layout changed?)", off)
	}
	binary.BigEndian.PutUint64(buf[8:], uint64(t))
	cs := crc32.Checksum(buf[:cksumAt], castagnoli)
	buf[cksumAt], buf[cksumAt+1] = byte(cs), byte(cs>>8)
	if st := db19.ReadState(s.Store, off); st.Asof != t { // panics if the record is now invalid
		lib.Infra("patched state record at %d reads back time %d, wanted %d", off, st.Asof, t)
	}
}

type pstate struct {
	off uint64
	t   int64
	m   *dbmodel.DB
}

const baseTime = int64(1_600_000_000_000) // 2020-09-13, far in the past
var future = time.Date(3000, 1, 1, 0, 0, 0, 0, time.UTC).UnixMilli()

// build executes the history and returns the system (still open) and its
// persisted states with their virtual times.
func build(h history) (*drive.Sys, []pstate, string) {
	s := drive.NewHeap()
	var states []pstate
	note := func() {
		off := s.DB.GetState().Off
		if off != 0 && (len(states) == 0 || states[len(states)-1].off != off) {
			states = append(states, pstate{off: off, m: s.M.Clone()})
		}
	}
	apply := func(ev drive.Event) string {
		m := s.Apply(ev)
		if ev.Kind == "persist" || ev.Kind == "reopen" {
			note()
		}
		return m
	}
	for _, ev := range []drive.Event{req("create", "t", "k,v,w", ix('k', "k"), ix('i', "v")), ins("t", M{"k": "r0", "v": "x"}), drive.Persist()} {
		if m := apply(ev); m != "" {
			return s, nil, m
		}
	}
	for i, ch := range h.Changes {
		if m := apply(change(ch, i+1)); m != "" {
			return s, nil, m
		}
		ev := drive.Persist()
		if h.Reopen[i] {
			ev = drive.Reopen()
		}
		if m := apply(ev); m != "" {
			return s, nil, m
		}
	}
	if h.Tail {
		if m := apply(ins("t", M{"k": "tail", "v": "unpersisted"})); m != "" {
			return s, nil, m
		}
	}
	// virtual timeline
	t := baseTime
	for i := range states {
		if i > 0 {
			g := 1
			if i-1 < len(h.Gaps) {
				g = h.Gaps[i-1]
			}
			t += int64(g)
		}
		states[i].t = t
		setStateTime(s, states[i].off, t)
	}
	return s, states, ""
}

// ---- oracle

type judge struct {
	c      *lib.Ctx
	s      *drive.Sys
	states []pstate
	h      history
	fails  []string
	class  string
	ops    int
}

func (j *judge) failf(class, format string, a ...any) {
	if len(j.fails) < 6 {
		j.fails = append(j.fails, fmt.Sprintf(format, a...))
	}
	if len(j.fails) == 1 || class == "" {
		j.class = class
	}
}

// shows: the transaction's view equals state i.
func (j *judge) shows(rt *db19.ReadTran, i int, what string) bool {
	d := drive.CompareObs(drive.ObserveTran(j.s.DB, rt), j.states[i].m, drive.CompareOpts{})
	if len(d) > 0 {
		j.failf("", "%s: expected the contents of state %d (time %d): %s", what, i, j.states[i].t, strings.Join(d, "; "))
		return false
	}
	return true
}

func (j *judge) asofIndex(t int64) int {
	idx := 0
	for i, st := range j.states {
		if st.t <= t {
			idx = i
		}
	}
	return idx
}

const classLost = "asof-before-first-state-loses-position"

func (j *judge) run() {
	db, states := j.s.DB, j.states
	n := len(states)
	// (a) Asof(t) around every state time, twice (the second answer comes from the state cache)
	var times []int64
	times = append(times, states[0].t-1000)
	for _, st := range states {
		times = append(times, st.t-1, st.t, st.t+1)
	}
	for round := 0; round < 2; round++ {
		for _, t := range times {
			rt := db.NewReadTran()
			got := rt.Asof(t)
			want := j.asofIndex(t)
			j.ops++
			what := fmt.Sprintf("Asof(%d) [round %d]", t, round)
			if got != states[want].t {
				j.failf("", "%s returned %d, expected %d (state %d)", what, got, states[want].t, want)
			}
			j.shows(rt, want, what)
			if cur := rt.Asof(0); cur != got {
				j.failf("", "%s then Asof(0) returned %d, expected %d", what, cur, got)
			}
		}
	}
	// (b) all step strings of length <= 4 from every starting state, and from a
	// fresh transaction for strings starting with prev
	for start := -1; start < n; start++ {
		for length := 1; length <= 4; length++ {
			for code := 0; code < 1<<length; code++ {
				if start == -1 && code&1 == 1 {
					continue // "next" from a transaction that is not as-of anything: not specified
				}
				rt := db.NewReadTran()
				pos := start
				var trace []string
				if start >= 0 {
					rt.Asof(states[start].t)
					trace = append(trace, fmt.Sprintf("Asof(%d)", states[start].t))
				}
				for k := 0; k < length; k++ {
					next := code>>k&1 == 1
					var got int64
					want := pos
					if next {
						got = rt.Asof(1)
						trace = append(trace, "next")
						want = pos + 1
					} else {
						got = rt.Asof(-1)
						trace = append(trace, "prev")
						if pos == -1 {
							want = n - 1
						} else {
							want = pos - 1
						}
					}
					j.ops++
					what := strings.Join(trace, ",")
					if want < 0 || want >= n { // at the end: 0, view unchanged
						if got != 0 {
							j.failf("", "%s returned %d, expected 0 (no such state)", what, got)
							break
						}
						if pos >= 0 && !j.shows(rt, pos, what+" (view must be unchanged)") {
							break
						}
						continue
					}
					if got != states[want].t {
						j.failf("", "%s returned %d, expected %d (state %d)", what, got, states[want].t, want)
						break
					}
					if !j.shows(rt, want, what) {
						break
					}
					pos = want
				}
			}
		}
	}
	// (c) before the first state, then steps: the initial state is state 0, so
	// next must lead to state 1 and prev must fail
	for _, step := range []int64{1, -1} {
		rt := db.NewReadTran()
		got := rt.Asof(states[0].t - 5)
		j.ops++
		if got != states[0].t {
			continue // already reported by (a)
		}
		g2 := rt.Asof(step)
		name := map[int64]string{1: "next", -1: "prev"}[step]
		what := fmt.Sprintf("Asof(%d) [before the first state],%s", states[0].t-5, name)
		want := int64(0)
		wi := 0
		if step == 1 && n > 1 {
			want, wi = states[1].t, 1
		}
		if g2 != want {
			j.failf(classLost, "%s returned %d, expected %d", what, g2, want)
		} else {
			j.shows(rt, wi, what)
		}
	}
	// (d) a future time shows the live state (with the unpersisted transaction)
	rt := db.NewReadTran()
	rt.Asof(future)
	j.ops++
	if d := drive.CompareObs(drive.ObserveTran(db, rt), j.s.M, drive.CompareOpts{}); len(d) > 0 {
		j.failf("", "Asof(year 3000): expected the live state: %s", strings.Join(d, "; "))
	}
	// the live database itself is not disturbed by any of this
	if d := j.s.Compare(); len(d) > 0 {
		j.failf("", "live database after the as-of reads: %s", strings.Join(d, "; "))
	}
}

func runHistory(c *lib.Ctx, h history) {
	s, states, msg := build(h)
	defer s.Close()
	c.Eval(1)
	if msg != "" {
		c.Fail("", h, "building %s: %s", h, msg)
		return
	}
	if len(states) == 0 {
		c.Fail("", h, "history %s: persist / close+reopen succeeded but no persisted state exists", h)
		return
	}
	j := &judge{c: c, s: s, states: states, h: h}
	j.run()
	c.Count("asof_and_step_requests", j.ops)
	c.Count(fmt.Sprintf("histories_with_%d_states", len(states)), 1)
	if len(j.fails) > 0 {
		var ts []int64
		for _, st := range states {
			ts = append(ts, st.t)
		}
		if j.class != "" && strings.Contains(","+os.Getenv("VERIF_ASSUME_KNOWN")+",", ","+j.class+",") {
			c.Count("assumed_known_"+j.class, 1) // development aid, see C04
		} else {
			c.Fail(j.class, h, "%s\n  history: %s\n  state times: %v", strings.Join(j.fails, "\n  "), h, ts)
		}
	}
	if c.NSamples() < 3 && len(states) >= 3 {
		var ts []int64
		for _, st := range states {
			ts = append(ts, st.t)
		}
		rt := s.DB.NewReadTran()
		got := rt.Asof(states[1].t + 1)
		c.Sample(map[string]any{"history": h.String(), "state_times": ts,
			"request": fmt.Sprintf("Asof(%d)", states[1].t+1), "returned": got,
			"tables_seen": len(drive.ObserveTran(s.DB, rt).Tables)})
	}
}

func run(c *lib.Ctx) {
	defer drive.Quiet()()
	// full product up to nFull segments; one more segment with 1 ms gaps only
	// and no unpersisted tail
	nFull := lib.Pick(c, 2, 3)
	hs := histories(nFull, []int{1, 1000})
	for _, h := range histories(nFull+1, []int{1}) {
		if len(h.Changes) == nFull+1 && !h.Tail {
			hs = append(hs, h)
		}
	}
	ch := chunkHistories(lib.Pick(c, 5, 7))
	hs = append(hs, ch...)
	if c.Shard == 0 {
		c.Set("multi_chunk_histories", len(ch))
		c.Set("max_segments_full_product", nFull)
		c.Set("max_segments", nFull+1)
		c.Set("histories", len(hs))
		c.Set("changes", []string{"insert row", "delete row", "create table+row", "add view", "update row"})
		c.Set("gap_alphabet_ms", []int{1, 1000})
	}
	for i, h := range hs {
		if i%c.NShards != c.Shard {
			continue
		}
		if c.Expired() {
			c.Cap("stopped after %d of %d histories", i, len(hs))
			break
		}
		runHistory(c, h)
		c.Nontrivial(1)
	}
}

func replay(c *lib.Ctx, raw json.RawMessage) {
	defer drive.Quiet()()
	var h history
	if err := json.Unmarshal(raw, &h); err != nil {
		lib.Infra("bad case: %v", err)
	}
	runHistory(c, h)
}

func main() {
	lib.Main(lib.Spec{
		ID:    "C19",
		Level: "exploration",
		Rule: "all histories of 1..N segments (5 changes x persist|reopen per segment) x all gap patterns over {1 ms, 1000 ms} x with/without an unpersisted tail transaction; " +
			"for each: Asof at t-1,t,t+1 of every state and before the first (twice), all prev/next step strings of length <= 4 from every state; " +
			"evaluations = histories (each distinct by construction); requests are counted in coverage.counters",
		Assumptions: []string{
			"virtual timeline: the harness rewrites the time stamp (and checksum) of the persisted state records in the in-memory store; the database's clock is not involved",
			"'next' from a transaction that is not as-of any state is not specified by the property and not enumerated",
			"a far future time is expected to show the live state (tran.go ReadTran.Asof)",
			"reference model verif/model/dbmodel for the contents of every state",
		},
		QuickBudget: 70, ThoroughBudget: 900,
		Procs: 16,
		Run:   run, Replay: replay,
	})
}
