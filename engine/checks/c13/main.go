// C13 Packed values round-trip, are canonical and sort like values.
//
// What is enumerated
//   - booleans;
//   - integers: EVERY integer in [-70000, 70000] and +-3 around every 10^k
//     (k<=18) and 2^k (k<=63) and the int64 limits, each in every exact
//     representation (smi, SuInt64, SuDnum when <= 16 digits, and the value
//     parsed from its decimal text);
//   - decimals: digit patterns of 1..16 digits (1, 9..9, 10..01, 1234.., 5,
//     prefix families 1 / 105 / 10500001 ...) x exponent boundaries
//     {-127,-126,-1,0,1,2,15..20,126,127} x sign, +-infinity; each built with
//     dnum.New and parsed from text;
//   - strings: all strings over {00,01,'a','b',ff} up to length 3, as SuStr,
//     SuConcat and SuExcept;
//   - dates at every field boundary (year/month/day/hour/minute/second/ms)
//     in 1700..3000 and timestamps with extra in {1,2,255};
//   - objects and records nested up to depth 2 over small scalars (list and
//     named members).
//
// Oracle (independent reference model built by construction; math/big)
//   - round trip: the value read back from Unpack(Pack(v)) through public
//     accessors has the same abstract value as v (and core Equal agrees);
//     Pack is idempotent over a round trip; PackSize == len(Pack).
//   - canonical: all representations of one abstract scalar pack to identical
//     bytes.
//   - order: for ALL pairs of the boundary alphabet inside {boolean, number,
//     non-empty string, date, timestamp}: sign(bytewise compare of the packed
//     values) == reference order (class order, exact numeric order, bytewise
//     strings, chronological dates then extra). For the dense integer range
//     every adjacent pair n, n+1 is checked as well.
//   - Pack("") is empty and every other encoding is not.
//
// Known-finding class computed by the oracle: "neg-digit-prefix" = both
// operands negative finite numbers with the same exponent byte and one's digit
// bytes a proper prefix of the other's (Pack(-1) < Pack(-1.05) bytewise).
package main

import (
	"encoding/json"
	"fmt"
	"math"
	"math/big"
	"os"
	"sort"
	"strings"

	"github.com/apmckinlay/gsuneido/core"
	"github.com/apmckinlay/gsuneido/util/dnum"

	"verif/lib"
)

// ---------------------------------------------------------------- model

const (
	clBool = iota
	clNum
	clStr
	clDate
	clObj
)

// mval is the reference model of a value
type mval struct {
	class  int
	b      bool
	n      *big.Rat // nil = infinite
	inf    int
	s      string
	d      [8]int // y m d h mi s ms extra
	record bool
	list   []*mval
	named  []member
}

type member struct{ k, v *mval }

func (m *mval) key() string {
	switch m.class {
	case clBool:
		return fmt.Sprint("b:", m.b)
	case clNum:
		if m.n == nil {
			return fmt.Sprint("n:inf", m.inf)
		}
		return "n:" + m.n.RatString()
	case clStr:
		return fmt.Sprintf("s:%q", m.s)
	case clDate:
		return fmt.Sprint("d:", m.d)
	}
	var sb strings.Builder
	if m.record {
		sb.WriteString("r(")
	} else {
		sb.WriteString("o(")
	}
	for _, x := range m.list {
		sb.WriteString(x.key())
		sb.WriteString(",")
	}
	sb.WriteString("|")
	var ns []string
	for _, e := range m.named {
		ns = append(ns, e.k.key()+"="+e.v.key())
	}
	sort.Strings(ns)
	sb.WriteString(strings.Join(ns, ","))
	sb.WriteString(")")
	return sb.String()
}

func sgn(i int) int {
	switch {
	case i < 0:
		return -1
	case i > 0:
		return 1
	}
	return 0
}

// refCompare: reference order of scalars
func refCompare(a, b *mval) int {
	if a.class != b.class {
		return sgn(a.class - b.class)
	}
	switch a.class {
	case clBool:
		x, y := 0, 0
		if a.b {
			x = 1
		}
		if b.b {
			y = 1
		}
		return sgn(x - y)
	case clNum:
		if a.n == nil || b.n == nil {
			x, y := a.inf*2, b.inf*2
			if a.n != nil {
				x = a.n.Sign()
			}
			if b.n != nil {
				y = b.n.Sign()
			}
			return sgn(x - y)
		}
		return a.n.Cmp(b.n)
	case clStr:
		return strings.Compare(a.s, b.s)
	case clDate:
		for i := range a.d {
			if a.d[i] != b.d[i] {
				return sgn(a.d[i] - b.d[i])
			}
		}
		return 0
	}
	panic("refCompare: not a scalar")
}

var pow10cache = map[int]*big.Rat{}

func pow10(k int) *big.Rat {
	if r, ok := pow10cache[k]; ok {
		return r
	}
	a := k
	if a < 0 {
		a = -a
	}
	p := new(big.Int).Exp(big.NewInt(10), big.NewInt(int64(a)), nil)
	r := new(big.Rat)
	if k >= 0 {
		r.SetInt(p)
	} else {
		r.SetFrac(big.NewInt(1), p)
	}
	return r
}

func init() {
	for k := -200; k <= 200; k++ {
		pow10cache[k] = pow10(k)
	}
}

// toModel reads a core value back through public accessors only.
func toModel(v core.Value) (*mval, error) {
	switch x := v.(type) {
	case core.SuBool:
		return &mval{class: clBool, b: bool(x)}, nil
	case core.SuDnum:
		d := x.Dnum
		if d.IsInf() {
			return &mval{class: clNum, inf: sgn(d.Sign())}, nil
		}
		if d.IsZero() {
			return &mval{class: clNum, n: new(big.Rat)}, nil
		}
		if c := d.Coef(); c < 1000_0000_0000_0000 || c > 9999_9999_9999_9999 {
			return nil, fmt.Errorf("unpacked decimal is not normalised: coef %d", c)
		}
		r := new(big.Rat).SetInt(new(big.Int).SetUint64(d.Coef()))
		r.Mul(r, pow10(d.Exp()-16))
		if d.Sign() < 0 {
			r.Neg(r)
		}
		return &mval{class: clNum, n: r}, nil
	case core.SuInt64:
		n, _ := x.ToInt()
		return &mval{class: clNum, n: new(big.Rat).SetInt64(int64(n))}, nil
	case core.SuStr:
		return &mval{class: clStr, s: string(x)}, nil
	case core.SuConcat, *core.SuExcept:
		s, _ := v.ToStr()
		return &mval{class: clStr, s: s}, nil
	case core.SuDate:
		return &mval{class: clDate, d: [8]int{x.Year(), x.Month(), x.Day(), x.Hour(), x.Minute(), x.Second(), x.Millisecond(), 0}}, nil
	case core.SuTimestamp:
		// the extra byte is only visible in the literal text
		s := x.String()
		var e int
		if len(s) != 22 {
			return nil, fmt.Errorf("timestamp text %q", s)
		}
		fmt.Sscanf(s[19:], "%d", &e)
		return &mval{class: clDate, d: [8]int{x.Year(), x.Month(), x.Day(), x.Hour(), x.Minute(), x.Second(), x.Millisecond(), e}}, nil
	case *core.SuObject, *core.SuRecord:
		m := &mval{class: clObj}
		var it func() (core.Value, core.Value)
		if r, ok := x.(*core.SuRecord); ok {
			m.record = true
			it = r.ArgsIter()
		} else {
			it = x.(*core.SuObject).ArgsIter()
		}
		for {
			k, val := it()
			if val == nil {
				break
			}
			vm, err := toModel(val)
			if err != nil {
				return nil, err
			}
			if k == nil {
				m.list = append(m.list, vm)
				continue
			}
			km, err := toModel(k)
			if err != nil {
				return nil, err
			}
			m.named = append(m.named, member{km, vm})
		}
		return m, nil
	}
	if v != nil && fmt.Sprintf("%T", v) == "*core.smi" {
		n, _ := v.ToInt()
		return &mval{class: clNum, n: new(big.Rat).SetInt64(int64(n))}, nil
	}
	return nil, fmt.Errorf("unexpected value type %T", v)
}

// ---------------------------------------------------------------- triage aid

var assumeKnown = map[string]bool{}

func init() {
	for _, k := range strings.Split(os.Getenv("VERIF_ASSUME_KNOWN"), ",") {
		if k != "" {
			assumeKnown[k] = true
		}
	}
}

// failc: as c.Fail; VERIF_ASSUME_KNOWN=class,... (never set by ./check)
// makes the listed classes count-only so that other classes stay visible.
func failc(c *lib.Ctx, class string, cs any, format string, a ...any) {
	if class != "" {
		c.Count("class:"+class, 1)
		if assumeKnown[class] {
			return
		}
	}
	c.Fail(class, cs, format, a...)
}

// ---------------------------------------------------------------- scalars

// sval: one representation of a scalar
type sval struct {
	name string // how it was built, replayable: see build()
	m    *mval
	v    core.Packable
	p    string // packed bytes
}

// spec strings (replayable):
//
//	b:true  i:<int>:<smi|int64|dnum|text>  d:<digits>:<E>:<sign>:<new|text>  inf:<sign>
//	s:<hex>:<str|concat|except>   S:<length>   t:<literal text>
func build(spec string) (sv sval, err error) {
	defer func() {
		if r := recover(); r != nil {
			err = fmt.Errorf("building %s panicked: %v", spec, r)
		}
	}()
	f := strings.Split(spec, ":")
	sv.name = spec
	switch f[0] {
	case "b":
		sv.m = &mval{class: clBool, b: f[1] == "true"}
		sv.v = core.SuBool(f[1] == "true")
	case "i":
		n, _ := new(big.Int).SetString(f[1], 10)
		sv.m = &mval{class: clNum, n: new(big.Rat).SetInt(n)}
		i := n.Int64()
		switch f[2] {
		case "smi":
			sv.v = core.SuInt(int(i))
		case "int64":
			if core.MinSuInt < i && i < core.MaxSuInt {
				return sv, fmt.Errorf("no SuInt64 for %d", i)
			}
			sv.v = core.Int64Val(i)
		case "dnum":
			sv.v = core.SuDnum{Dnum: dnum.FromInt(i)}
		case "text":
			sv.v = core.NumFromString(f[1]).(core.Packable)
		}
	case "d": // value = sign 0.<digits> * 10^E
		digits, sign := f[1], f[3]
		var e int
		fmt.Sscanf(f[2], "%d", &e)
		co, _ := new(big.Int).SetString(digits, 10)
		r := new(big.Rat).SetInt(co)
		r.Mul(r, pow10(e-len(digits)))
		s := int8(1)
		if sign == "-" {
			s = -1
			r.Neg(r)
		}
		sv.m = &mval{class: clNum, n: r}
		if f[4] == "new" {
			sv.v = core.SuDnum{Dnum: dnum.New(s, co.Uint64(), e+16-len(digits))}
		} else {
			txt := fmt.Sprintf("%s.%se%d", strings.TrimPrefix(sign, "+"), digits, e)
			sv.v = core.NumFromString(txt).(core.Packable)
		}
	case "inf":
		if f[1] == "-" {
			sv.m = &mval{class: clNum, inf: -1}
			sv.v = core.NegInf.(core.Packable)
		} else {
			sv.m = &mval{class: clNum, inf: 1}
			sv.v = core.Inf.(core.Packable)
		}
	case "s":
		var b []byte
		fmt.Sscanf(f[1], "%x", &b)
		s := string(b)
		sv.m = &mval{class: clStr, s: s}
		switch f[2] {
		case "str":
			sv.v = core.SuStr(s)
		case "concat":
			cc := core.NewSuConcat()
			if len(s) > 0 {
				cc = cc.Add(s[:len(s)/2]).Add(s[len(s)/2:])
			}
			sv.v = cc
		case "except":
			sv.v = core.BuiltinSuExcept(s)
		}
	case "S": // S:<n> = a string of n bytes ("xxx...y")
		var n int
		fmt.Sscanf(f[1], "%d", &n)
		str := strings.Repeat("x", n-1) + "y"
		sv.m = &mval{class: clStr, s: str}
		sv.v = core.SuStr(str)
	case "t": // date / timestamp literal yyyymmdd.hhmmssmmm[ccc]
		lit := f[1]
		var d [8]int
		fmt.Sscanf(lit, "%4d%2d%2d.%2d%2d%2d%3d", &d[0], &d[1], &d[2], &d[3], &d[4], &d[5], &d[6])
		if len(lit) == 21 {
			fmt.Sscanf(lit[18:], "%d", &d[7])
		}
		sv.m = &mval{class: clDate, d: d}
		if len(lit) == 21 {
			sv.v = core.DateFromLiteral(lit)
		} else {
			dt := core.NewDate(d[0], d[1], d[2], d[3], d[4], d[5], d[6])
			if dt == core.NilDate {
				return sv, fmt.Errorf("NewDate rejects %s", lit)
			}
			sv.v = dt
		}
	default:
		return sv, fmt.Errorf("bad spec %q", spec)
	}
	// the value as built must be the value meant (alphabet sanity, through accessors)
	got, e2 := toModel(sv.v.(core.Value))
	if e2 != nil {
		return sv, e2
	}
	if got.key() != sv.m.key() {
		return sv, fmt.Errorf("constructing %s gives %s", spec, got.key())
	}
	return sv, nil
}

type pcase struct {
	Kind string `json:"kind"` // single | pair | object
	A, B string
}

func doPack(c *lib.Ctx, sv *sval) bool {
	if e := lib.Try(func() { sv.p = core.Pack(sv.v) }); e != nil {
		c.Fail("", pcase{Kind: "single", A: sv.name}, "Pack(%s) panicked: %s", sv.name, lib.PanicText(e))
		return false
	}
	return true
}

// packedMinInt64 = Pack(MinInt64) written out independently:
// minus tag, exponent 19 (^0x80 ^0xff), digit pairs 92 23 37 20 36 85 47 75 80 80 complemented
const packedMinInt64 = "\x02\x6c\xa3\xe8\xda\xeb\xdb\xaa\xd0\xb4\xaf\xaf"

// roundTripClass computes the known-finding class of a round trip failure:
//   - "unpack-neg-prefix-of-minint64": the packed bytes are a negative number
//     with more than 8 digit bytes that is a proper prefix of Pack(MinInt64)
//     (i.e. -9223372036854775800): intable() decides "in int64 range" by byte
//     order, which is wrong for such a prefix, and the decimal unpacker then
//     rejects the length.
//   - "dnum-toint64-limit": +-9223372036854775000 comes back with the right
//     value but in the other representation (SuInt64 <-> SuDnum) and core
//     Equal between the two fails (dnum.ToInt64 limit, see C26/C28).
func roundTripClass(m *mval, p string, modelOk bool) string {
	if len(p) > 10 && p[0] == core.PackMinus && p != packedMinInt64 && strings.HasPrefix(packedMinInt64, p) {
		return "unpack-neg-prefix-of-minint64"
	}
	if modelOk && m.class == clNum && m.n != nil && m.n.IsInt() &&
		new(big.Int).Abs(m.n.Num()).String() == "9223372036854775000" {
		return "dnum-toint64-limit"
	}
	return ""
}

// checkSingle: round trip, pack size, idempotence
func checkSingle(c *lib.Ctx, name string, m *mval, v core.Packable, p string) {
	cs := pcase{Kind: "single", A: name}
	if e := lib.Try(func() {
		if n := core.PackSize(v.(core.Value)); n != len(p) {
			c.Fail("", cs, "PackSize(%s) = %d but Pack gives %d bytes", name, n, len(p))
		}
		back := core.Unpack(p)
		bm, err := toModel(back)
		if err != nil {
			c.Fail("", cs, "Unpack(Pack(%s)): %v", name, err)
			return
		}
		modelOk := bm.key() == m.key()
		if !modelOk {
			failc(c, roundTripClass(m, p, false), cs, "Unpack(Pack(%s)) = %s (%s), packed % x", name, back, bm.key(), p)
		}
		if !back.Equal(v) || !v.(core.Value).Equal(back) {
			failc(c, roundTripClass(m, p, modelOk), cs, "Unpack(Pack(%s)) = %s is not Equal to the original", name, back)
		}
		if p2 := core.Pack(back.(core.Packable)); p2 != p {
			c.Fail("", cs, "Pack(Unpack(Pack(%s))) = % x differs from % x", name, p2, p)
		}
	}); e != nil {
		failc(c, roundTripClass(m, p, false), cs, "round trip of %s (% x) panicked: %s", name, p, lib.PanicText(e))
	}
}

// negDigitPrefix: both packed values are negative finite numbers with the
// same exponent byte and the digit bytes of one are a proper prefix of the
// digit bytes of the other.
func negDigitPrefix(p, q string) bool {
	const negInf = "\x02\x00\x00"
	if len(p) < 3 || len(q) < 3 || p[0] != core.PackMinus || q[0] != core.PackMinus || p == negInf || q == negInf {
		return false
	}
	if p[1] != q[1] || len(p) == len(q) {
		return false
	}
	if len(p) > len(q) {
		p, q = q, p
	}
	return strings.HasPrefix(q[2:], p[2:])
}

func orderClass(a, b *sval) string {
	if a.m.class == clNum && b.m.class == clNum && negDigitPrefix(a.p, b.p) {
		return "neg-digit-prefix"
	}
	return ""
}

func checkOrder(c *lib.Ctx, a, b *sval) {
	want := refCompare(a.m, b.m)
	got := sgn(strings.Compare(a.p, b.p))
	if got != want {
		failc(c, orderClass(a, b), pcase{Kind: "pair", A: a.name, B: b.name},
			"byte order of Pack(%s) = % x and Pack(%s) = % x is %d, value order is %d", a.name, a.p, b.name, b.p, got, want)
	}
	// "sort like values": the language's own comparison of the two values must
	// give the same order as the reference (and therefore as the packed bytes)
	if a.m.class == clNum && b.m.class == clNum {
		av, aok := a.v.(core.Value)
		bv, bok := b.v.(core.Value)
		if aok && bok {
			if cmp := sgn(av.Compare(bv)); cmp != want {
				failc(c, orderClass(a, b), pcase{Kind: "pair", A: a.name, B: b.name},
					"Compare(%s, %s) = %d but the value order (and the order of the packed bytes) is %d", a.name, b.name, cmp, want)
			}
		}
	}
}

// ---------------------------------------------------------------- alphabets

func intSpecs(n *big.Int) []string {
	s := n.String()
	var out []string
	i := n.Int64()
	if core.MinSuInt <= i && i <= core.MaxSuInt {
		out = append(out, "i:"+s+":smi")
	}
	if i <= core.MinSuInt || i >= core.MaxSuInt {
		out = append(out, "i:"+s+":int64")
	}
	t := strings.TrimRight(strings.TrimLeft(strings.TrimPrefix(s, "-"), "0"), "0")
	if len(t) <= 16 {
		out = append(out, "i:"+s+":dnum")
	}
	return append(out, "i:"+s+":text")
}

func boundaryInts() []*big.Int {
	set := map[string]*big.Int{}
	lo, hi := big.NewInt(math.MinInt64), big.NewInt(math.MaxInt64)
	add := func(n *big.Int) {
		if n.Cmp(lo) >= 0 && n.Cmp(hi) <= 0 {
			set[n.String()] = new(big.Int).Set(n)
		}
	}
	around := func(n *big.Int) {
		for d := int64(-3); d <= 3; d++ {
			m := new(big.Int).Add(n, big.NewInt(d))
			add(m)
			add(new(big.Int).Neg(m))
		}
	}
	for k := 0; k <= 18; k++ {
		around(new(big.Int).Exp(big.NewInt(10), big.NewInt(int64(k)), nil))
	}
	for k := uint(0); k <= 63; k++ {
		around(new(big.Int).Lsh(big.NewInt(1), k))
	}
	for _, s := range []string{"105", "1050", "10500001", "1005", "12", "120", "1234567890123456", "12345678901234567",
		"9999999999999999", "99999999999999999", "9223372036854775000", "9223372036854775799", "9223372036854775800",
		"101", "1001", "100000000000000001", "1000000000000000010", "5000000000000000000"} {
		n, _ := new(big.Int).SetString(s, 10)
		add(n)
		add(new(big.Int).Neg(n))
	}
	var out []*big.Int
	for _, n := range set {
		out = append(out, n)
	}
	sort.Slice(out, func(i, j int) bool { return out[i].Cmp(out[j]) < 0 })
	return out
}

func decimalSpecs(c *lib.Ctx) []string {
	digs := []string{"1", "5", "9", "12", "105", "1050001", "10500001", "1005", "11", "1001", "99", "999", "1234567",
		"12345678", "123456789", "1234567890123456", "9999999999999999", "1000000000000001", "99999999", "100000001",
		"5000000000000005", "10000001", "123456789012345"}
	exps := []int{-127, -126, -1, 0, 1, 2, 15, 16, 17, 18, 19, 20, 126, 127}
	if !c.Quick() {
		for k := 2; k <= 15; k++ {
			digs = append(digs, strings.Repeat("9", k), "1"+strings.Repeat("0", k-1)+"1", "1234567890123456"[:k])
		}
		exps = append(exps, -125, -2, 3, 4, 5, 8, 9, 14, 21, 64, 125)
	}
	seen := map[string]bool{}
	var out []string
	for _, d := range digs {
		if seen[d] {
			continue
		}
		seen[d] = true
		for _, e := range exps {
			for _, s := range []string{"+", "-"} {
				out = append(out, fmt.Sprintf("d:%s:%d:%s:new", d, e, s), fmt.Sprintf("d:%s:%d:%s:text", d, e, s))
			}
		}
	}
	return append(out, "inf:+", "inf:-")
}

func stringSpecs() []string {
	letters := []byte{0, 1, 'a', 'b', 0xff}
	var strs []string
	var rec func(prefix []byte, n int)
	rec = func(prefix []byte, n int) {
		strs = append(strs, string(prefix))
		if n == 0 {
			return
		}
		for _, l := range letters {
			rec(append(append([]byte{}, prefix...), l), n-1)
		}
	}
	rec(nil, 3)
	var out []string
	for _, s := range strs {
		for _, k := range []string{"str", "concat", "except"} {
			out = append(out, fmt.Sprintf("s:%x:%s", s, k))
		}
	}
	return out
}

func dateSpecs(c *lib.Ctx) []string {
	var out []string
	years := []int{1700, 1701, 1999, 2000, 2024, 2999}
	months := []int{1, 2, 12}
	days := []int{1, 28, 29, 31}
	hms := [][3]int{{0, 0, 0}, {0, 0, 59}, {0, 59, 0}, {23, 0, 0}, {23, 59, 59}, {1, 1, 1}}
	mss := []int{0, 1, 999}
	if !c.Quick() {
		years = append(years, 1899, 1900, 2023, 2100, 2400)
		months = append(months, 3, 11)
		days = append(days, 2, 30)
	}
	for _, y := range years {
		for _, mo := range months {
			for _, d := range days {
				if core.NewDate(y, mo, d, 0, 0, 0, 0) == core.NilDate {
					continue // not a calendar date (validity itself is C33's business)
				}
				for _, t := range hms {
					for _, ms := range mss {
						lit := fmt.Sprintf("%04d%02d%02d.%02d%02d%02d%03d", y, mo, d, t[0], t[1], t[2], ms)
						out = append(out, "t:"+lit)
						if (d == 1 || d == 31) && (ms != 1) && (t[0] == 0 || t[0] == 23) {
							for _, x := range []int{1, 2, 255} {
								out = append(out, fmt.Sprintf("t:%s%03d", lit, x))
							}
						}
					}
				}
			}
		}
	}
	return append(out, "t:30000101.000000000")
}

// ---------------------------------------------------------------- objects

type ospec struct {
	name string
	m    *mval
	v    core.Packable
}

func scalarLeaves() []sval {
	var out []sval
	for _, s := range []string{"b:false", "b:true", "i:0:smi", "i:1:smi", "i:1:dnum", "i:-1:smi", "i:100000:int64",
		"i:100000:dnum", "d:15:1:+:new", "d:105:1:-:new", "inf:+", "s::str", "s:61:str", "s:61:concat", "s:6162:str",
		"t:20200102.030405006", "t:20200102.030405006007"} {
		sv, err := build(s)
		if err != nil {
			lib.Infra("leaf %s: %v", s, err)
		}
		out = append(out, sv)
	}
	return out
}

// mkContainer builds an object/record with the given list and named members
func mkContainer(record bool, list []ospec, named [][2]ospec) ospec {
	m := &mval{class: clObj, record: record}
	ob := &core.SuObject{}
	var names []string
	for _, e := range list {
		m.list = append(m.list, e.m)
		ob.Add(e.v.(core.Value))
		names = append(names, e.name)
	}
	for _, kv := range named {
		m.named = append(m.named, member{kv[0].m, kv[1].m})
		ob.Set(kv[0].v.(core.Value), kv[1].v.(core.Value))
		names = append(names, kv[0].name+"="+kv[1].name)
	}
	o := ospec{m: m, v: ob}
	if record {
		o.v = core.SuRecordFromObject(ob)
		o.name = "[" + strings.Join(names, ", ") + "]"
	} else {
		o.name = "#(" + strings.Join(names, ", ") + ")"
	}
	return o
}

// containers enumerates objects and records of depth <= depth:
// 0..2 list members and 0..2 named members drawn from the pool.
func containers(pool []ospec, keys []ospec, full bool) []ospec {
	var out []ospec
	for _, record := range []bool{false, true} {
		out = append(out, mkContainer(record, nil, nil))
		for _, a := range pool {
			out = append(out, mkContainer(record, []ospec{a}, nil))
			for _, k := range keys {
				out = append(out, mkContainer(record, nil, [][2]ospec{{k, a}}))
			}
		}
		step := 1
		if !full {
			step = 3
		}
		for i := 0; i < len(pool); i += step {
			for j := 0; j < len(pool); j += step {
				a, b := pool[i], pool[j]
				out = append(out, mkContainer(record, []ospec{a, b}, nil))
				out = append(out, mkContainer(record, []ospec{a}, [][2]ospec{{keys[(i+j)%len(keys)], b}}))
				out = append(out, mkContainer(record, nil, [][2]ospec{{keys[0], a}, {keys[1], b}}))
			}
		}
	}
	return out
}

func checkObjects(c *lib.Ctx) {
	var pool, keys []ospec
	for _, sv := range scalarLeaves() {
		pool = append(pool, ospec{sv.name, sv.m, sv.v})
	}
	for _, s := range []string{"s:61:str", "s:62:str", "i:5:smi", "i:100000:int64", "d:15:1:+:new", "b:true", "t:20200102.030405006"} {
		sv, _ := build(s)
		keys = append(keys, ospec{sv.name, sv.m, sv.v})
	}
	// nested values whose packed size sits on the varint length thresholds
	// (1+len = 127 | 128 | 129 and 16383 | 16384 | 16385): packValue moves
	// the bytes when the length needs more than one byte
	for _, sp := range []string{"S:126", "S:127", "S:128", "S:16382", "S:16383", "S:16384"} {
		sv, err := build(sp)
		if err != nil {
			lib.Infra("leaf %s: %v", sp, err)
		}
		pool = append(pool, ospec{sv.name, sv.m, sv.v})
	}
	keys = append(keys, pool[len(pool)-5]) // a 127 byte key
	level1 := containers(pool, keys, true)
	// depth 2: containers over a sample of depth-1 containers plus scalars
	var pool2 []ospec
	for i := 0; i < len(level1); i += lib.Pick(c, 37, 11) {
		pool2 = append(pool2, level1[i])
	}
	pool2 = append(pool2, pool[2], pool[12])
	level2 := containers(pool2, keys, false)
	all := append(level1, level2...)
	c.Set("objects", len(all))
	c.Par(len(all), func(i int) {
		o := all[i]
		var p string
		if e := lib.Try(func() { p = core.Pack(o.v) }); e != nil {
			c.Fail("", pcase{Kind: "object", A: o.name}, "Pack(%s) panicked: %s", o.name, lib.PanicText(e))
			return
		}
		checkSingle(c, o.name, o.m, o.v, p)
		want := byte(core.PackObject)
		if o.m.record {
			want = core.PackRecord
		}
		if len(p) == 0 || p[0] != want {
			c.Fail("", pcase{Kind: "object", A: o.name}, "Pack(%s) has tag % x", o.name, p)
		}
		c.Eval(4)
		c.Nontrivial(1)
		if i == len(all)-5 {
			c.Sample(map[string]string{"object": o.name, "packed": fmt.Sprintf("% x", p)})
		}
	})
	// equal scalars in different representations inside a list pack identically
	for _, pr := range [][2]string{{"i:1:smi", "i:1:dnum"}, {"i:100000:int64", "i:100000:dnum"}, {"s:61:str", "s:61:concat"}} {
		a, _ := build(pr[0])
		b, _ := build(pr[1])
		oa := mkContainer(false, []ospec{{a.name, a.m, a.v}}, nil)
		ob := mkContainer(false, []ospec{{b.name, b.m, b.v}}, nil)
		if pa, pb := core.Pack(oa.v), core.Pack(ob.v); pa != pb {
			c.Fail("", pcase{Kind: "object", A: oa.name, B: ob.name}, "Pack(%s) = % x but Pack(%s) = % x", oa.name, pa, ob.name, pb)
		}
		c.Eval(1)
	}
}

// ---------------------------------------------------------------- run

func run(c *lib.Ctx) {
	// 1. the boundary alphabet of scalars
	var specs []string
	specs = append(specs, "b:false", "b:true")
	for _, n := range boundaryInts() {
		specs = append(specs, intSpecs(n)...)
	}
	specs = append(specs, decimalSpecs(c)...)
	specs = append(specs, stringSpecs()...)
	specs = append(specs, "S:64", "S:126", "S:127", "S:128", "S:255", "S:256", "S:16382", "S:16383", "S:16384", "S:70000")
	specs = append(specs, dateSpecs(c)...)
	var svs []sval
	for _, s := range specs {
		sv, err := build(s)
		if err != nil {
			c.Fail("", pcase{Kind: "single", A: s}, "%v", err)
			continue
		}
		if doPack(c, &sv) {
			svs = append(svs, sv)
		}
	}
	c.Set("boundary_scalar_representations", len(svs))

	// round trip of every representation
	c.Par(len(svs), func(i int) {
		checkSingle(c, svs[i].name, svs[i].m, svs[i].v, svs[i].p)
		c.Eval(4)
		c.Nontrivial(1) // one (value, representation) round trip
	})

	// canonical: group by abstract value
	groups := map[string][]int{}
	var order []string
	for i := range svs {
		k := svs[i].m.key()
		if _, ok := groups[k]; !ok {
			order = append(order, k)
		}
		groups[k] = append(groups[k], i)
	}
	multi := 0
	var reps []*sval // one representative per abstract value
	for _, k := range order {
		g := groups[k]
		if len(g) > 1 {
			multi++
		}
		for _, i := range g[1:] {
			c.Eval(1)
			if svs[i].p != svs[g[0]].p {
				c.Fail("", pcase{Kind: "pair", A: svs[g[0]].name, B: svs[i].name},
					"equal values pack differently: Pack(%s) = % x, Pack(%s) = % x", svs[g[0]].name, svs[g[0]].p, svs[i].name, svs[i].p)
			}
		}
		reps = append(reps, &svs[g[0]])
	}
	c.Set("abstract_scalars", len(reps))
	c.Set("abstract_scalars_with_several_representations", multi)

	// the empty string is the smallest encoding
	for _, r := range reps {
		c.Eval(1)
		if r.m.class == clStr && r.m.s == "" {
			if r.p != "" {
				c.Fail("", pcase{Kind: "single", A: r.name}, "Pack(\"\") = % x is not empty", r.p)
			}
		} else if r.p == "" {
			c.Fail("", pcase{Kind: "single", A: r.name}, "Pack(%s) is empty like the empty string", r.name)
		}
	}

	// order: all pairs of the abstract scalars except the empty string
	var ord []*sval
	for _, r := range reps {
		if !(r.m.class == clStr && r.m.s == "") {
			ord = append(ord, r)
		}
	}
	byClass := map[int]int{}
	for _, r := range ord {
		byClass[r.m.class]++
	}
	c.Set("ordered_scalars_by_class(bool,number,string,date)", []int{byClass[clBool], byClass[clNum], byClass[clStr], byClass[clDate]})
	n := len(ord)
	c.Par(n, func(i int) {
		for j := 0; j < n; j++ {
			checkOrder(c, ord[i], ord[j])
		}
		c.Eval(n)
		c.Nontrivial(n - 1)
		if i%997 == 3 && c.NSamples() < 5 {
			j := (i*7919 + 13) % n
			c.Sample(map[string]string{"a": ord[i].name, "pack(a)": fmt.Sprintf("% x", ord[i].p), "b": ord[j].name,
				"pack(b)": fmt.Sprintf("% x", ord[j].p), "value_order": fmt.Sprint(refCompare(ord[i].m, ord[j].m))})
		}
	})

	// 2. the dense integer range: round trip, canonical, adjacent order
	lim := 70000
	c.Set("dense_integer_range", []int{-lim, lim})
	const chunk = 1000
	nchunks := (2*lim + 1 + chunk - 1) / chunk
	c.Par(nchunks, func(ci int) {
		var prev *sval
		for k := 0; k <= chunk; k++ { // one overlap so that every adjacent pair is seen
			i := -lim + ci*chunk + k
			if i > lim {
				break
			}
			var first *sval
			for _, spec := range intSpecs(big.NewInt(int64(i))) {
				sv, err := build(spec)
				if err != nil {
					c.Fail("", pcase{Kind: "single", A: spec}, "%v", err)
					continue
				}
				if !doPack(c, &sv) {
					continue
				}
				if k < chunk {
					checkSingle(c, sv.name, sv.m, sv.v, sv.p)
					c.Eval(4)
				}
				if first == nil {
					first = &sv
				} else if sv.p != first.p {
					c.Fail("", pcase{Kind: "pair", A: first.name, B: sv.name},
						"equal values pack differently: Pack(%s) = % x, Pack(%s) = % x", first.name, first.p, sv.name, sv.p)
				}
			}
			if prev != nil && first != nil {
				checkOrder(c, prev, first)
				checkOrder(c, first, prev)
				c.Eval(2)
				c.Nontrivial(1)
			}
			prev = first
		}
	})

	// 3. objects and records
	checkObjects(c)
}

func replay(c *lib.Ctx, raw json.RawMessage) {
	var pc pcase
	if err := json.Unmarshal(raw, &pc); err != nil {
		lib.Infra("bad case: %v", err)
	}
	if pc.Kind == "object" {
		checkObjects(c) // objects are cheap: re-run them all
		return
	}
	a, err := build(pc.A)
	if err != nil {
		c.Fail("", pc, "%v", err)
		return
	}
	if !doPack(c, &a) {
		return
	}
	checkSingle(c, a.name, a.m, a.v, a.p)
	if pc.B == "" {
		return
	}
	b, err := build(pc.B)
	if err != nil {
		c.Fail("", pc, "%v", err)
		return
	}
	if !doPack(c, &b) {
		return
	}
	if a.m.key() == b.m.key() {
		if a.p != b.p {
			c.Fail("", pc, "equal values pack differently: Pack(%s) = % x, Pack(%s) = % x", a.name, a.p, b.name, b.p)
		}
		return
	}
	checkOrder(c, &a, &b)
}

func main() {
	lib.Main(lib.Spec{
		ID:    "C13",
		Level: "exploration",
		Rule: "every representation of every scalar of the boundary alphabet and of every integer in [-70000,70000]: Pack/Unpack round trip, PackSize, canonical bytes; " +
			"ALL ordered pairs of the abstract boundary scalars (booleans, numbers, non-empty strings, dates, timestamps): byte order vs reference order; " +
			"every adjacent pair of the dense integer range; objects/records nested to depth 2: round trip. " +
			"evaluations = assertions judged; non-trivial = (value, representation) round trips of the boundary alphabet + ordered pairs of distinct abstract values + adjacent integer pairs + distinct objects (distinct by construction)",
		Assumptions: []string{
			"math/big and the by-construction model are the trusted oracle; values are read back through public accessors only",
			"the value order between classes is boolean < number < string < date (suneidoc / Ord in core/value.go)",
			"ordering of packed objects/records is not required by the property and is not judged",
			"canonical bytes are required for scalars (also when they sit inside an object list), not for named members of objects (iteration order)",
			"verdict is for the enumerated alphabet only",
		},
		QuickBudget:    60,
		ThoroughBudget: 600,
		Run:            run,
		Replay:         replay,
	})
}
