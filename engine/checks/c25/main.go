// C25 Query expressions evaluate like language expressions.
//
// Enumerated: every expression of depth <= 1 (operator over leaves) and a
// structured depth-2 family over the operators
//
//	is isnt < <= > >= =~ !~ and or not + - * / % $ in (...) ?: unary-minus
//	Number?() String?() Date?()  (the calls with a raw form)  and Min/Max
//
// with leaves = the two fields a, b and constants of a boundary alphabet;
// each evaluated on every row (a, b) of the square of a 24-value alphabet
// (integers, int64 limits, decimals including -1 / -1.05, "", strings that
// differ by case / trailing space / digits, booleans, dates, an object).
//
// Three evaluations of the same source text:
//
//	raw      parsed by the query expression parser, wrapped and prepared
//	         exactly as Where does (Nary And + CanEvalRaw on the stored
//	         fields), evaluated on the row holding the packed values
//	unpacked the same parse without CanEvalRaw (what Extend does)
//	lang     "function (a, b) { return <text> }" compiled by the language
//	         compiler and called with the unpacked values
//
// Oracle: lang. The result values must be equal (and of the same type), or
// all three must throw. Not judged: rows on which an ordering comparison
// (< <= > >=) anywhere in the expression meets "" and a non-string (the
// documented exception: on stored encodings "" sorts before everything).
package main

import (
	"encoding/json"
	"fmt"
	"os"
	"strings"

	_ "github.com/apmckinlay/gsuneido/builtin"
	"github.com/apmckinlay/gsuneido/compile"
	"github.com/apmckinlay/gsuneido/compile/ast"
	tok "github.com/apmckinlay/gsuneido/compile/tokens"
	"github.com/apmckinlay/gsuneido/core"
	"github.com/apmckinlay/gsuneido/core/types"
	qry "github.com/apmckinlay/gsuneido/dbms/query"
	"github.com/apmckinlay/gsuneido/util/dnum"

	"verif/lib"
)

// ClassNegPrefix: F1 (C13's subject) seen through a raw comparison: both
// operands negative numbers with the same decimal exponent where the digits of
// one are a proper prefix of the other's (-1 vs -1.05): the packed bytes order
// them the wrong way round.
const ClassNegPrefix = "packed-order-negative-digit-prefix"

// ClassReciprocal: the constant folder turns "c / x" (constant numerator) into
// a product whose first factor is the unary reciprocal node; the compiler
// generates code for that node but ast.Unary.eval has no case for it and
// asserts ("should not reach here"): every query expression that divides a
// constant by a non-constant fails.
const ClassReciprocal = "query-eval-of-constant-divided-by-expression-asserts"

// ClassBeyond16: both results are numbers that agree when rounded to the 16
// digits of a decimal but differ as values: x - y is computed by the query
// evaluator as x + (-y) (exact in int64 when y converts to the integer 0)
// and by the language as a decimal subtraction (rounded), for |x| >= 10^16.
const ClassBeyond16 = "integer-beyond-16-digits-sub-as-add-of-negation"

// alphabet: literal source text of each value.
var alphabet = []string{
	"0", "1", "-1", "2", "10", "-10", "100", "9223372036854775807",
	"1.5", "-1.05", ".1", "1e20",
	`""`, `"a"`, `"A"`, `"a "`, `"b"`, `"1"`, `"-1"`,
	"true", "false",
	"#20200101", "#20200101.0930",
	"#(1)",
}

// constant leaves of expressions
var consts = []string{"0", "1", "-1", `""`, `"a"`, "true", "-1.05", "#20200101", "1.5"}

type expr struct {
	Text string `json:"text"`
	// ordering comparisons inside, as (lhs text, rhs text): to recognise the
	// documented "" exception on a row
	Cmps [][2]string `json:"cmps,omitempty"`
}

var cmpOps = []string{"<", "<=", ">", ">="}
var binOps = []string{"is", "isnt", "<", "<=", ">", ">=", "=~", "!~", "+", "-", "*", "/", "%", "$", "and", "or"}

func isCmp(op string) bool {
	for _, c := range cmpOps {
		if c == op {
			return true
		}
	}
	return false
}

// leaves of expressions: the fields and the constants (thorough: the whole alphabet)
func leaves(quick bool) []string {
	if quick {
		return append([]string{"a", "b"}, consts...)
	}
	return append([]string{"a", "b"}, alphabet...)
}

func isConst(l string) bool { return l != "a" && l != "b" }

func expressions(quick bool) []expr {
	var out []expr
	add := func(text string, cmps ...[2]string) {
		out = append(out, expr{Text: text, Cmps: cmps})
	}
	ls := leaves(quick)
	// depth 1
	for _, op := range binOps {
		for _, x := range ls {
			for _, y := range ls {
				if isConst(x) && isConst(y) {
					continue // folded at compile time in all three
				}
				t := x + " " + op + " " + y
				if isCmp(op) {
					add(t, [2]string{x, y})
				} else {
					add(t)
				}
			}
		}
	}
	for _, x := range []string{"a", "b"} {
		add("not " + x)
		add("-" + x)
		add("Number?(" + x + ")")
		add("String?(" + x + ")")
		add("Date?(" + x + ")")
		add("Max(" + x + ", 1)")
		add(x + ` in (1, "a", "")`)
		add(x + ` in (0, -1.05, #20200101)`)
		add(x + ` not in (1, "a", "")`)
		add(x + " in (a, b)")
		add(x + " ? a : b")
		add(x + ` ? 1 : "a"`)
	}
	// depth 2
	for _, op := range cmpOps {
		for _, c1 := range []string{"0", "1", `""`, `"a"`, "-1.05", "#20200101"} {
			for _, c2 := range []string{"1", "10", `"a"`, `"b"`, "-1", "#20200101.0930"} {
				// ranges (folded into a range node by the parser)
				lo := "a " + op + " " + c1
				for _, op2 := range cmpOps {
					hi := "a " + op2 + " " + c2
					add(lo+" and "+hi, [2]string{"a", c1}, [2]string{"a", c2})
					if !quick {
						add(lo+" or "+hi, [2]string{"a", c1}, [2]string{"a", c2})
					}
				}
			}
		}
	}
	for _, op := range binOps {
		for _, inner := range []string{"a + b", "a $ b", "a is b", "a < b", "-a", "not a", "a * 2"} {
			var innerCmp [][2]string
			if inner == "a < b" {
				innerCmp = append(innerCmp, [2]string{"a", "b"})
			}
			for _, y := range []string{"b", "1", `""`, `"a"`, "true"} {
				t := "(" + inner + ") " + op + " " + y
				cm := append([][2]string(nil), innerCmp...)
				if isCmp(op) {
					cm = append(cm, [2]string{"(" + inner + ")", y})
				}
				out = append(out, expr{Text: t, Cmps: cm})
				t2 := y + " " + op + " (" + inner + ")"
				cm2 := append([][2]string(nil), innerCmp...)
				if isCmp(op) {
					cm2 = append(cm2, [2]string{y, "(" + inner + ")"})
				}
				out = append(out, expr{Text: t2, Cmps: cm2})
			}
		}
	}
	for _, l := range []string{"a < b", "a is 1", "a >= \"\"", "b", "Number?(a)"} {
		for _, r := range []string{"b < 1", "b isnt \"a\"", "a", "String?(b)", "a > b"} {
			var cm [][2]string
			for _, s := range []string{l, r} {
				for _, op := range cmpOps {
					if parts := strings.SplitN(s, " "+op+" ", 2); len(parts) == 2 {
						cm = append(cm, [2]string{parts[0], parts[1]})
					}
				}
			}
			out = append(out, expr{Text: l + " and " + r, Cmps: cm},
				expr{Text: l + " or " + r, Cmps: cm},
				expr{Text: "not (" + l + ") and " + r, Cmps: cm},
				expr{Text: "(" + l + ") ? (" + r + ") : a", Cmps: cm})
		}
	}
	return out
}

type result struct {
	v   core.Value
	err string
}

func (r result) String() string {
	if r.err != "" {
		return "throws(" + r.err + ")"
	}
	return fmt.Sprintf("%s %v", r.v.Type(), r.v)
}

func try(f func() core.Value) (r result) {
	defer func() {
		if e := recover(); e != nil {
			r = result{err: lib.PanicText(e)}
			if r.err == "" {
				r.err = "?"
			}
		}
	}()
	return result{v: f()}
}

func same(x, y result) bool {
	if x.err != "" || y.err != "" {
		return x.err != "" && y.err != ""
	}
	return x.v.Type() == y.v.Type() && x.v.Equal(y.v)
}

type evaluator struct {
	th     *core.Thread
	hdr    *core.Header
	vals   []core.Value
	packed []string
	fns    map[string]core.Value
}

func newEvaluator() *evaluator {
	ev := &evaluator{th: core.NewThread(nil), hdr: core.SimpleHeader([]string{"a", "b"}),
		fns: map[string]core.Value{}}
	for _, lit := range alphabet {
		v := compile.Constant(lit)
		ev.vals = append(ev.vals, v)
		ev.packed = append(ev.packed, core.Pack(v.(core.Packable)))
	}
	return ev
}

func (ev *evaluator) row(i, j int) core.Row {
	var rb core.RecordBuilder
	rb.AddRaw(ev.packed[i])
	rb.AddRaw(ev.packed[j])
	return core.Row{core.DbRec{Record: rb.Build()}}
}

func (ev *evaluator) parse(text string) ast.Expr {
	p := qry.NewQueryParser(text, nil, nil)
	p.EqToIs = true
	e := p.Expression()
	if p.Token != tok.Eof {
		panic("did not parse all of: " + text)
	}
	return e
}

// fn compiles (once) the language function for an expression text.
func (ev *evaluator) fn(text string) core.Value {
	f, ok := ev.fns[text]
	if !ok {
		f = compile.Constant("function (a, b) { return " + text + " }")
		ev.fns[text] = f
	}
	return f
}

func (ev *evaluator) lang(text string, i, j int) result {
	r := try(func() core.Value { return ev.th.Call(ev.fn(text), ev.vals[i], ev.vals[j]) })
	if r.err != "" {
		ev.th.Reset() // an exception leaves the interpreter stack as it was
	}
	return r
}

func isNum(v core.Value) bool { return v.Type() == types.Number }

// emptyVsNonString: the documented exception.
func emptyVsNonString(x, y core.Value) bool {
	xe := x.Type() == types.String && core.ToStr(x) == ""
	ye := y.Type() == types.String && core.ToStr(y) == ""
	return (xe && y.Type() != types.String) || (ye && x.Type() != types.String)
}

// negPrefix: F1's predicate on two numbers.
func negPrefix(x, y core.Value) bool {
	if !isNum(x) || !isNum(y) {
		return false
	}
	dx, dy := core.ToDnum(x), core.ToDnum(y)
	if dx.Sign() >= 0 || dy.Sign() >= 0 || dx.Exp() != dy.Exp() || dnum.Equal(dx, dy) {
		return false
	}
	sx := strings.TrimRight(fmt.Sprint(dx.Coef()), "0")
	sy := strings.TrimRight(fmt.Sprint(dy.Coef()), "0")
	return strings.HasPrefix(sx, sy) || strings.HasPrefix(sy, sx)
}

// agree16: both numbers, equal after conversion to a 16 digit decimal.
func agree16(x, y result) bool {
	if x.err != "" || y.err != "" || !isNum(x.v) || !isNum(y.v) {
		return false
	}
	return dnum.Compare(core.ToDnum(x.v), core.ToDnum(y.v)) == 0
}

type failCase struct {
	Expr expr `json:"expr"`
	I    int  `json:"i"`
	J    int  `json:"j"`
}

func (ev *evaluator) check(c *lib.Ctx, e expr, triage bool) {
	var rawE, plainE ast.Expr
	perr := lib.Try(func() {
		// as NewWhere: wrap in an And and prepare raw evaluation
		x := ev.parse(e.Text)
		if n, ok := x.(*ast.Nary); !ok || n.Tok != tok.And {
			x = &ast.Nary{Tok: tok.And, Exprs: []ast.Expr{x}}
		}
		x.CanEvalRaw(ev.hdr.Physical())
		rawE = x.(*ast.Nary)
		plainE = ev.parse(e.Text)
	})
	cerr := lib.Try(func() { ev.fn(e.Text) })
	if perr != nil || cerr != nil {
		if (perr == nil) != (cerr == nil) {
			c.Fail("", failCase{Expr: e}, "%s: query parser: %v, language compiler: %v", e.Text, perr, cerr)
		}
		c.Count("rejected_by_both", 1)
		return
	}
	n := len(alphabet)
	for i := 0; i < n; i++ {
		for j := 0; j < n; j++ {
			row := ev.row(i, j)
			want := ev.lang(e.Text, i, j)
			// the documented exception / F1 on this row?
			skip, f1 := false, false
			for _, cm := range e.Cmps {
				l, r := ev.lang(cm[0], i, j), ev.lang(cm[1], i, j)
				if l.err != "" || r.err != "" {
					continue
				}
				if emptyVsNonString(l.v, r.v) {
					skip = true
				}
				if negPrefix(l.v, r.v) {
					f1 = true
				}
			}
			if skip {
				c.Count("documented_exception_rows", 1)
				continue
			}
			ctx := &ast.RowContext{Th: ev.th, Hdr: ev.hdr, Row: row}
			plain := try(func() core.Value { return plainE.Eval(ctx) })
			if plain.err != "" {
				ev.th.Reset()
			}
			var raw result
			if len(rawE.(*ast.Nary).Exprs) == 1 {
				// the wrapped single expression: evaluate the expression itself
				// (the And wrapper would coerce to boolean)
				raw = try(func() core.Value { return rawE.(*ast.Nary).Exprs[0].Eval(ctx) })
			} else {
				raw = try(func() core.Value { return rawE.Eval(ctx) })
			}
			if raw.err != "" {
				ev.th.Reset()
			}
			c.Eval(3)
			outcome := want.String()
			if want.err != "" {
				outcome = "throws"
			} else if len(outcome) > 12 {
				outcome = outcome[:12]
			}
			c.Distinct(outcome)
			if want.err == "" {
				c.Nontrivial(1)
			}
			if !same(plain, want) || !same(raw, want) {
				class := ""
				switch {
				case f1 && same(plain, want):
					class = ClassNegPrefix
				case want.err == "" && strings.Contains(e.Text, " / ") &&
					strings.Contains(plain.err, "should not reach here") && strings.Contains(raw.err, "should not reach here"):
					class = ClassReciprocal
				case strings.Contains(e.Text, " - ") && agree16(want, plain) && agree16(want, raw):
					class = ClassBeyond16
				}
				if class != "" && os.Getenv("VERIF_DEV_KNOWN") != "" {
					c.Count("dev_known:"+class, 1)
					continue
				}
				msg := fmt.Sprintf("%s with a = %s, b = %s: language %s | query unpacked %s | query raw %s",
					e.Text, alphabet[i], alphabet[j], want, plain, raw)
				if triage {
					fmt.Fprintln(os.Stderr, "TRIAGE", msg)
					continue
				}
				c.Fail(class, failCase{e, i, j}, "%s", msg)
				if c.Stopped() {
					return
				}
			}
		}
	}
}

func run(c *lib.Ctx) {
	ev := newEvaluator()
	es := expressions(c.Quick())
	c.Set("expressions", len(es))
	c.Set("rows", len(alphabet)*len(alphabet))
	triage := os.Getenv("VERIF_TRIAGE") != ""
	for k, e := range es {
		if k%c.NShards != c.Shard {
			continue
		}
		if c.Expired() || c.Stopped() {
			break
		}
		ev.check(c, e, triage)
		if k%977 == 0 {
			c.Sample(map[string]any{"expr": e.Text, "a": alphabet[3], "b": alphabet[12], "language": ev.lang(e.Text, 3, 12).String()})
		}
	}
}

func replay(c *lib.Ctx, raw json.RawMessage) {
	var fc failCase
	if err := json.Unmarshal(raw, &fc); err != nil {
		lib.Infra("bad case: %v", err)
	}
	newEvaluator().check(c, fc.Expr, false)
}

func main() {
	lib.Main(lib.Spec{
		ID:    "C25",
		Level: "exploration",
		Rule: "every expression of the enumerated family (depth <= 1 complete over 16 binary operators x 11 leaves, unary/in/?:/calls, structured depth 2 incl. all range pairs) " +
			"x every row (a,b) of the 24-value alphabet squared; evaluations = 3 per judged row (raw, unpacked, language); " +
			"non-trivial = rows where the language result is a value (not an exception); distinct = distinct language outcomes (type and value prefix)",
		Assumptions: []string{
			"oracle: the language compiler + interpreter on the unpacked values (the property defines query evaluation by it)",
			"not judged: rows where an ordering comparison in the expression meets \"\" and a non-string (documented exception)",
			"exceptions: all three must throw; messages are not compared",
			"raw evaluation is prepared as NewWhere does (And wrapper, CanEvalRaw on the stored fields)",
		},
		QuickBudget: 60, ThoroughBudget: 300,
		Procs: 8,
		Run:   run, Replay: replay,
	})
}
