// C44 Triggers see every row change of their table.
//
// Explicit-state BFS over event sequences on a real database: a fresh
// db19.CreateDb(HeapStor) with the synchronous checker per execution, tables
//
//	p (pk, pv) key(pk)
//	c (ck, pk, cv) key(ck) index(pk) in p cascade
//	a (seq, what) key(seq)                 -- audit table written BY the triggers
//
// and global definitions Trigger_p / Trigger_c (Global.TestDef, builtin
// callables). A trigger call (1) appends (table, old row, new row) to the
// execution's log, (2) checks through ITS transaction argument that the change
// is visible (new row found, old key gone) - i.e. that it runs inside the
// changing, still uncommitted transaction, (3) throws if the new row has
// pv = "bad", otherwise (4) inserts an audit row into `a` through its
// transaction argument, so the audit row commits or rolls back with the change.
//
// Events: insert / update (changed, unchanged, key change) / delete of p and c
// rows, issued as query statements (qry.DoAction) or directly on the
// UpdateTran (Output / Update / Delete), single- and multi-row statements,
// cascaded deletes and cascaded key updates from p to c, statements that fail
// (duplicate key, foreign key block), an insert whose trigger throws; commit /
// abort of the open transaction; DisableTrigger / EnableTrigger for p and c
// nested to depth 2; statements run inside the builtin DoWithoutTriggers(tables)
// { ... } by the interpreter (succeeding and failing). Successor = replay the event path on a fresh database +
// one event; states are deduplicated on the model state (committed tables, open
// transaction's tables, disable counts).
//
// Oracle (reference model in plain Go: two maps with the foreign-key cascade
// rules, an open-transaction copy, disable counters): after every event the
// trigger log of that event must equal, as a multiset, one entry per effective
// row change (insert, delete, update to a DIFFERENT value, including cascaded
// changes) of a table whose disable count is 0, with the right old and new
// rows and "visible inside the transaction" = ok; a failing statement must
// raise; an exception from a trigger must reach the caller. The harness then
// does what the block form of Transaction does on an exception: it rolls the
// transaction back. At the end of every path the committed contents of p, c
// and of the audit table a (read through a fresh read transaction) must equal
// the model: nothing of an aborted / failed transaction, everything of a
// committed one.
package main

import (
	"encoding/json"
	"fmt"
	"runtime/debug"
	"sort"
	"strings"
	"sync"

	_ "github.com/apmckinlay/gsuneido/builtin"
	"github.com/apmckinlay/gsuneido/compile"
	"github.com/apmckinlay/gsuneido/core"
	"github.com/apmckinlay/gsuneido/db19"
	"github.com/apmckinlay/gsuneido/db19/stor"
	"github.com/apmckinlay/gsuneido/dbms" // also injects db19.MakeSuTran / qry.MakeSuTran
	qry "github.com/apmckinlay/gsuneido/dbms/query"

	"verif/lib"
)

// ---------------------------------------------------------------- reference model

type crow struct {
	pk int
	cv string
}

type tables struct {
	p map[int]string
	c map[int]crow
}

func newTables() tables { return tables{p: map[int]string{}, c: map[int]crow{}} }

func (t tables) clone() tables {
	n := newTables()
	for k, v := range t.p {
		n.p[k] = v
	}
	for k, v := range t.c {
		n.c[k] = v
	}
	return n
}

func pText(pk int, pv string) string { return fmt.Sprintf("pk=%d,pv=%s", pk, pv) }
func cText(ck int, r crow) string    { return fmt.Sprintf("ck=%d,pk=%d,cv=%s", ck, r.pk, r.cv) }

func (t tables) String() string {
	var ps, cs []string
	for k, v := range t.p {
		ps = append(ps, "{"+pText(k, v)+"}")
	}
	for k, v := range t.c {
		cs = append(cs, "{"+cText(k, v)+"}")
	}
	sort.Strings(ps)
	sort.Strings(cs)
	return "p: " + strings.Join(ps, " ") + " c: " + strings.Join(cs, " ")
}

type model struct {
	committed tables
	audit     []string // audit entries of committed transactions
	open      bool
	work      tables
	workAudit []string
	dis       map[string]int
	calls     []string // expected trigger calls of the current event
}

func newModel() *model {
	return &model{committed: newTables(), dis: map[string]int{"p": 0, "c": 0}}
}

func (m *model) key() string {
	s := m.committed.String() + " | dis p=" + fmt.Sprint(m.dis["p"]) + " c=" + fmt.Sprint(m.dis["c"])
	if m.open {
		s += " | open " + m.work.String()
	}
	return s
}

func (m *model) begin() {
	if !m.open {
		m.open = true
		m.work = m.committed.clone()
		m.workAudit = nil
	}
}

// call records a row change of table tbl: the trigger is expected to be
// called once (if enabled) and to write one audit row
func (m *model) call(tbl, old, new string) {
	if m.dis[tbl] > 0 {
		return
	}
	m.calls = append(m.calls, tbl+"|"+old+"|"+new+"|visible=ok")
	if !strings.Contains(new, "pv=bad") {
		m.workAudit = append(m.workAudit, tbl+"|"+old+"|"+new)
	}
}

const none = "false"

// Each op returns true if the statement must fail (raise an exception).
func (m *model) insP(pk int, pv string) bool {
	if _, ok := m.work.p[pk]; ok {
		return true // duplicate key
	}
	m.work.p[pk] = pv
	m.call("p", none, pText(pk, pv))
	return pv == "bad" && m.dis["p"] == 0 // the trigger throws
}

func (m *model) insC(ck, pk int, cv string) bool {
	if _, ok := m.work.c[ck]; ok {
		return true // duplicate key
	}
	if _, ok := m.work.p[pk]; !ok {
		return true // blocked by foreign key
	}
	m.work.c[ck] = crow{pk, cv}
	m.call("c", none, cText(ck, crow{pk, cv}))
	return false
}

func (m *model) updPv(pk int, pv string) bool {
	old, ok := m.work.p[pk]
	if !ok || old == pv {
		return false // no row, or no different value: no change
	}
	m.work.p[pk] = pv
	m.call("p", pText(pk, old), pText(pk, pv))
	return false
}

func (m *model) updPk(from, to int) bool {
	pv, ok := m.work.p[from]
	if !ok {
		return false
	}
	if _, dup := m.work.p[to]; dup {
		return true
	}
	// cascade: every c row that references the old key follows
	for _, ck := range m.cKeys() {
		if r := m.work.c[ck]; r.pk == from {
			m.work.c[ck] = crow{to, r.cv}
			m.call("c", cText(ck, r), cText(ck, crow{to, r.cv}))
		}
	}
	delete(m.work.p, from)
	m.work.p[to] = pv
	m.call("p", pText(from, pv), pText(to, pv))
	return false
}

func (m *model) updCpk(ck, pk int) bool {
	r, ok := m.work.c[ck]
	if !ok || r.pk == pk {
		return false
	}
	if _, ok := m.work.p[pk]; !ok {
		return true // blocked by foreign key
	}
	m.work.c[ck] = crow{pk, r.cv}
	m.call("c", cText(ck, r), cText(ck, crow{pk, r.cv}))
	return false
}

func (m *model) updAllCv(cv string) bool {
	for _, ck := range m.cKeys() {
		if r := m.work.c[ck]; r.cv != cv {
			m.work.c[ck] = crow{r.pk, cv}
			m.call("c", cText(ck, r), cText(ck, crow{r.pk, cv}))
		}
	}
	return false
}

func (m *model) delP(pk int) bool {
	pv, ok := m.work.p[pk]
	if !ok {
		return false
	}
	for _, ck := range m.cKeys() {
		if r := m.work.c[ck]; r.pk == pk {
			delete(m.work.c, ck)
			m.call("c", cText(ck, r), none)
		}
	}
	delete(m.work.p, pk)
	m.call("p", pText(pk, pv), none)
	return false
}

func (m *model) delC(ck int) bool {
	if r, ok := m.work.c[ck]; ok {
		delete(m.work.c, ck)
		m.call("c", cText(ck, r), none)
	}
	return false
}

func (m *model) delAllC() bool {
	for _, ck := range m.cKeys() {
		m.delC(ck)
	}
	return false
}

func (m *model) cKeys() []int {
	var ks []int
	for k := range m.work.c {
		ks = append(ks, k)
	}
	sort.Ints(ks)
	return ks
}

// ---------------------------------------------------------------- implementation side

type execCtx struct {
	db    *db19.Database
	th    *core.Thread
	ut    *db19.UpdateTran
	setup bool
	log   []string
	seq   int
}

var ctxs sync.Map // *core.Thread -> *execCtx

func fieldText(th *core.Thread, rec core.Value, f string) string {
	v := rec.Get(th, core.SuStr(f))
	if v == nil {
		return "<nil>"
	}
	if s, ok := v.ToStr(); ok {
		return s
	}
	return v.String()
}

func recText(th *core.Thread, tbl string, rec core.Value) string {
	if rec == core.False {
		return none
	}
	if _, ok := rec.(*core.SuRecord); !ok {
		return fmt.Sprintf("<%T %v>", rec, rec)
	}
	if tbl == "p" {
		return "pk=" + fieldText(th, rec, "pk") + ",pv=" + fieldText(th, rec, "pv")
	}
	return "ck=" + fieldText(th, rec, "ck") + ",pk=" + fieldText(th, rec, "pk") + ",cv=" + fieldText(th, rec, "cv")
}

func keyOf(tbl, text string) string {
	// "pk=1,..." or "ck=1,..."
	return strings.SplitN(strings.SplitN(text, ",", 2)[0], "=", 2)[1]
}

func keyCol(tbl string) string {
	if tbl == "p" {
		return "pk"
	}
	return "ck"
}

// lookup reads one row of tbl by key through the given SuTran
func lookup(th *core.Thread, st *core.SuTran, tbl, key string) string {
	q := fmt.Sprintf("%s where %s is %s", tbl, keyCol(tbl), key)
	row, hdr, _ := st.GetRow(th, core.SuObjectOf(core.SuStr(q)), core.Only)
	if row == nil {
		return none
	}
	f := func(col string) string {
		v := row.GetVal(hdr, col, nil, nil)
		if s, ok := v.ToStr(); ok {
			return s
		}
		return v.String()
	}
	if tbl == "p" {
		return "pk=" + f("pk") + ",pv=" + f("pv")
	}
	return "ck=" + f("ck") + ",pk=" + f("pk") + ",cv=" + f("cv")
}

func trigger(tbl string) core.Value {
	ps := compile.Constant("function (transaction, oldrecord, newrecord) { }").(*core.SuFunc).ParamSpec
	return &core.SuBuiltin{
		Fn: func(th *core.Thread, args []core.Value) core.Value {
			x, ok := ctxs.Load(th)
			if !ok {
				panic("C44: trigger called on an unknown thread")
			}
			ctx := x.(*execCtx)
			if ctx.setup {
				return nil
			}
			old, new := recText(th, tbl, args[1]), recText(th, tbl, args[2])
			vis := "no transaction"
			if st, ok := args[0].(*core.SuTran); ok && st.Updatable() && !st.Ended() {
				vis = "ok"
				if new != none {
					if got := lookup(th, st, tbl, keyOf(tbl, new)); got != new {
						vis = "new row not visible (found " + got + ")"
					}
				}
				if old != none && (new == none || keyOf(tbl, new) != keyOf(tbl, old)) {
					if got := lookup(th, st, tbl, keyOf(tbl, old)); got != none {
						vis = "old row still visible (" + got + ")"
					}
				}
			}
			ctx.log = append(ctx.log, tbl+"|"+old+"|"+new+"|visible="+vis)
			if strings.Contains(new, "pv=bad") {
				panic("trigger rejects bad")
			}
			if st, ok := args[0].(*core.SuTran); ok {
				ctx.seq++
				st.Action(th, fmt.Sprintf("insert { seq: %d, what: %q } into a", ctx.seq, tbl+"|"+old+"|"+new))
			}
			return nil
		},
		BuiltinParams: core.BuiltinParams{ParamSpec: ps}}
}

var setupOnce sync.Once

func setup() {
	setupOnce.Do(func() {
		core.Global.TestDef("Trigger_p", trigger("p"))
		core.Global.TestDef("Trigger_c", trigger("c"))
		defEvents()
	})
}

func newExec(root int) (*execCtx, *model) {
	db := db19.CreateDb(stor.HeapStor(8192))
	// synchronous checker, no background goroutines: commits go through
	// Database.CommitMerge (checker commit + layering + merge, synchronously)
	db.CheckerSync()
	x := &execCtx{db: db, th: &core.Thread{}}
	x.th.SetDbms(dbms.NewDbmsLocal(db)) // for the builtin DoWithoutTriggers
	ctxs.Store(x.th, x)
	qry.DoAdmin(db, "create p (pk, pv) key(pk)", nil)
	qry.DoAdmin(db, "create c (ck, pk, cv) key(ck) index(pk) in p cascade", nil)
	qry.DoAdmin(db, "create a (seq, what) key(seq)", nil)
	m := newModel()
	if root == 1 {
		x.setup = true
		ut := db.NewUpdateTran()
		qry.DoAction(x.th, ut, "insert { pk: 1, pv: 'a' } into p")
		qry.DoAction(x.th, ut, "insert { ck: 1, pk: 1, cv: 'x' } into c")
		qry.DoAction(x.th, ut, "insert { ck: 2, pk: 1, cv: 'y' } into c")
		db.CommitMerge(ut)
		x.setup = false
		m.committed.p[1] = "a"
		m.committed.c[1] = crow{1, "x"}
		m.committed.c[2] = crow{1, "y"}
	}
	return x, m
}

func (x *execCtx) close() {
	if x.ut != nil {
		lib.Try(func() { x.ut.Abort() })
	}
	ctxs.Delete(x.th)
}

func (x *execCtx) tran() *db19.UpdateTran {
	if x.ut == nil {
		x.ut = x.db.NewUpdateTran()
	}
	return x.ut
}

// rowOff finds the offset of the single row selected by query in the open transaction
func (x *execCtx) rowOff(query string) uint64 {
	ut := x.tran()
	q := qry.ParseQuery(query, ut, nil)
	q, _, _ = qry.Setup(q, qry.UpdateMode, ut)
	row := q.Get(x.th, core.Next)
	if row == nil {
		return 0
	}
	return row[0].Off
}

func rec(vals ...core.Value) core.Record {
	rb := core.RecordBuilder{}
	for _, v := range vals {
		rb.Add(v.(core.Packable))
	}
	return rb.Build()
}

// readTables reads p, c and a through a fresh read transaction (committed state)
func readTables(db *db19.Database) (tables, []string) {
	rt := db.NewReadTran()
	th := &core.Thread{}
	all := func(table string, cols ...string) [][]string {
		q := qry.ParseQuery(table, rt, nil)
		q, _, _ = qry.Setup(q, qry.ReadMode, rt)
		hdr := q.Header()
		var out [][]string
		for row := q.Get(th, core.Next); row != nil; row = q.Get(th, core.Next) {
			var r []string
			for _, c := range cols {
				v := row.GetVal(hdr, c, nil, nil)
				s, ok := v.ToStr()
				if !ok {
					s = v.String()
				}
				r = append(r, s)
			}
			out = append(out, r)
		}
		return out
	}
	t := newTables()
	atoi := func(s string) int {
		var n int
		fmt.Sscan(s, &n)
		return n
	}
	for _, r := range all("p", "pk", "pv") {
		t.p[atoi(r[0])] = r[1]
	}
	for _, r := range all("c", "ck", "pk", "cv") {
		t.c[atoi(r[0])] = crow{atoi(r[1]), r[2]}
	}
	var audit []string
	for _, r := range all("a", "what") {
		audit = append(audit, r[0])
	}
	return t, audit
}

// ---------------------------------------------------------------- events

type event struct {
	name string
	kind byte // 'd' data statement, 'C' commit, 'A' abort, 'D' disable, 'E' enable
	tbl  string
	do   func(x *execCtx)    // executes the statement on the implementation
	mod  func(m *model) bool // applies it to the model; true = must raise
}

var events []event

func defEvents() {
	action := func(name, act string, mod func(m *model) bool) {
		events = append(events, event{name: name + " [statement: " + act + "]", kind: 'd',
			do: func(x *execCtx) { qry.DoAction(x.th, x.tran(), act) }, mod: mod})
	}
	direct := func(name string, do func(x *execCtx), mod func(m *model) bool) {
		events = append(events, event{name: name + " [direct]", kind: 'd', do: do, mod: mod})
	}
	action("insert p1", "insert { pk: 1, pv: 'a' } into p", func(m *model) bool { return m.insP(1, "a") })
	direct("insert p2", func(x *execCtx) { x.tran().Output(x.th, "p", rec(core.IntVal(2), core.SuStr("b"))) },
		func(m *model) bool { return m.insP(2, "b") })
	action("insert p9 (trigger throws)", "insert { pk: 9, pv: 'bad' } into p", func(m *model) bool { return m.insP(9, "bad") })
	action("insert c1 -> p1", "insert { ck: 1, pk: 1, cv: 'x' } into c", func(m *model) bool { return m.insC(1, 1, "x") })
	direct("insert c2 -> p1", func(x *execCtx) {
		x.tran().Output(x.th, "c", rec(core.IntVal(2), core.IntVal(1), core.SuStr("y")))
	}, func(m *model) bool { return m.insC(2, 1, "y") })
	action("insert c3 -> p2", "insert { ck: 3, pk: 2, cv: 'x' } into c", func(m *model) bool { return m.insC(3, 2, "x") })
	action("update p1.pv = z", "update p where pk is 1 set pv = 'z'", func(m *model) bool { return m.updPv(1, "z") })
	direct("update p1.pv = a", func(x *execCtx) {
		if off := x.rowOff("p where pk is 1"); off != 0 {
			x.tran().Update(x.th, "p", off, rec(core.IntVal(1), core.SuStr("a")))
		}
	}, func(m *model) bool { return m.updPv(1, "a") })
	action("update p key 1 -> 3", "update p where pk is 1 set pk = 3", func(m *model) bool { return m.updPk(1, 3) })
	action("update p key 3 -> 1", "update p where pk is 3 set pk = 1", func(m *model) bool { return m.updPk(3, 1) })
	action("update c1.pk = 2", "update c where ck is 1 set pk = 2", func(m *model) bool { return m.updCpk(1, 2) })
	action("update all c.cv = w", "update c set cv = 'w'", func(m *model) bool { return m.updAllCv("w") })
	action("delete p1", "delete p where pk is 1", func(m *model) bool { return m.delP(1) })
	direct("delete p2", func(x *execCtx) {
		if off := x.rowOff("p where pk is 2"); off != 0 {
			x.tran().Delete(x.th, "p", off)
		}
	}, func(m *model) bool { return m.delP(2) })
	direct("delete c1", func(x *execCtx) {
		if off := x.rowOff("c where ck is 1"); off != 0 {
			x.tran().Delete(x.th, "c", off)
		}
	}, func(m *model) bool { return m.delC(1) })
	action("delete all c", "delete c", func(m *model) bool { return m.delAllC() })
	// the builtin DoWithoutTriggers(tables, block), run by the interpreter with
	// the open transaction as argument: disables, runs the block, re-enables
	// (also when the block throws)
	without := func(name, tables, act string, dis []string, mod func(m *model) bool) {
		fn := compile.Constant("function (t) { DoWithoutTriggers(#(" + tables + ")) { t.QueryDo(\"" + act + "\") } }")
		events = append(events, event{name: name + " [DoWithoutTriggers(#(" + tables + ")) { t.QueryDo(\"" + act + "\") }]", kind: 'd',
			do: func(x *execCtx) { x.th.Call(fn, db19.MakeSuTran(x.tran())) },
			mod: func(m *model) bool {
				for _, d := range dis {
					m.dis[d]++
				}
				fails := mod(m)
				for _, d := range dis {
					m.dis[d]--
				}
				return fails
			}})
	}
	without("insert p2 without its trigger", "p", "insert { pk: 2, pv: 'b' } into p", []string{"p"},
		func(m *model) bool { return m.insP(2, "b") })
	without("delete p1 (cascades) without triggers", "p, c", "delete p where pk is 1", []string{"p", "c"},
		func(m *model) bool { return m.delP(1) })
	without("insert c3 -> p2 without triggers (may fail)", "c, p", "insert { ck: 3, pk: 2, cv: 'x' } into c", []string{"p", "c"},
		func(m *model) bool { return m.insC(3, 2, "x") })
	events = append(events,
		event{name: "commit", kind: 'C'},
		event{name: "abort", kind: 'A'},
		event{name: "DisableTrigger(p)", kind: 'D', tbl: "p"},
		event{name: "EnableTrigger(p)", kind: 'E', tbl: "p"},
		event{name: "DisableTrigger(c)", kind: 'D', tbl: "c"},
		event{name: "EnableTrigger(c)", kind: 'E', tbl: "c"})
}

func applicable(m *model, ev *event) bool {
	switch ev.kind {
	case 'C', 'A':
		return m.open
	case 'D':
		return m.dis[ev.tbl] < 2
	case 'E':
		return m.dis[ev.tbl] > 0
	}
	return true
}

func sortedCopy(s []string) []string {
	c := append([]string(nil), s...)
	sort.Strings(c)
	return c
}

// step executes one event on the implementation and the model and judges it.
func step(x *execCtx, m *model, ev *event) string {
	x.log = nil
	m.calls = nil
	switch ev.kind {
	case 'C':
		var e any
		e = lib.Try(func() { x.db.CommitMerge(x.ut) })
		x.ut = nil
		if e != nil {
			return fmt.Sprintf("commit failed: %s", lib.PanicText(e))
		}
		m.committed, m.open = m.work, false
		m.audit = append(m.audit, m.workAudit...)
	case 'A':
		res := ""
		e := lib.Try(func() { res = x.ut.Abort() })
		x.ut = nil
		if e != nil || res != "" {
			return fmt.Sprintf("abort failed: %v %s", e, res)
		}
		m.open = false
	case 'D':
		x.db.DisableTrigger(ev.tbl)
		m.dis[ev.tbl]++
	case 'E':
		x.db.EnableTrigger(ev.tbl)
		m.dis[ev.tbl]--
	case 'd':
		m.begin()
		before := m.work.String()
		mustFail := ev.mod(m)
		e := lib.Try(func() { ev.do(x) })
		if e != nil {
			x.th = resetThread(x)
		}
		if got, want := sortedCopy(x.log), sortedCopy(m.calls); strings.Join(got, "\n") != strings.Join(want, "\n") {
			return fmt.Sprintf("%s on [%s] (disabled: p=%d c=%d): trigger calls were\n    %s\n  expected exactly\n    %s",
				ev.name, before, m.dis["p"], m.dis["c"], strings.Join(got, "\n    "), strings.Join(want, "\n    "))
		}
		if mustFail {
			if e == nil {
				return fmt.Sprintf("%s on [%s]: no exception reached the caller", ev.name, before)
			}
			// what the block form of Transaction does on an exception
			lib.Try(func() { x.ut.Abort() })
			x.ut = nil
			m.open = false
		} else if e != nil {
			return fmt.Sprintf("%s on [%s]: unexpected exception: %s", ev.name, before, lib.PanicText(e))
		}
	}
	return ""
}

// resetThread replaces the thread after a Go-level recover (the interpreter's
// frame stack is not unwound by it)
func resetThread(x *execCtx) *core.Thread {
	ctxs.Delete(x.th)
	th := &core.Thread{}
	th.SetDbms(dbms.NewDbmsLocal(x.db))
	ctxs.Store(th, x)
	return th
}

func compareState(db *db19.Database, want tables, wantAudit []string, when string) string {
	got, audit := readTables(db)
	if got.String() != want.String() {
		return fmt.Sprintf("%s: committed tables are [%s], expected [%s]", when, got, want)
	}
	if a, b := sortedCopy(audit), sortedCopy(wantAudit); strings.Join(a, "\n") != strings.Join(b, "\n") {
		return fmt.Sprintf("%s: committed audit rows (written by the triggers inside their transactions) are\n    %s\n  expected\n    %s",
			when, strings.Join(a, "\n    "), strings.Join(b, "\n    "))
	}
	return ""
}

type caseT struct {
	Root   int      `json:"root"`
	Path   []int    `json:"path"`
	Events []string `json:"events"`
}

func mkCase(root int, path []int) caseT {
	cs := caseT{Root: root, Path: append([]int(nil), path...)}
	for _, e := range path {
		cs.Events = append(cs.Events, events[e].name)
	}
	return cs
}

// runPath replays path on a fresh database, judging every step; then checks
// the committed state, commits an open transaction and checks again.
// Returns the model key after the last event.
func runPath(root int, path []int) (key string, msg string) {
	x, m := newExec(root)
	defer x.close()
	for i, e := range path {
		if !applicable(m, &events[e]) {
			return "", fmt.Sprintf("step %d: event %q not applicable (bad path)", i+1, events[e].name)
		}
		if msg := step(x, m, &events[e]); msg != "" {
			return "", fmt.Sprintf("step %d: %s", i+1, msg)
		}
	}
	key = m.key()
	if msg := compareState(x.db, m.committed, m.audit, "before commit"); msg != "" {
		return key, msg
	}
	if m.open {
		if e := lib.Try(func() { x.db.CommitMerge(x.ut) }); e != nil {
			x.ut = nil
			return key, fmt.Sprintf("final commit failed: %s", lib.PanicText(e))
		}
		x.ut = nil
		if msg := compareState(x.db, m.work, append(append([]string(nil), m.audit...), m.workAudit...), "after the final commit"); msg != "" {
			return key, msg
		}
		m.committed, m.open = m.work, false
	}
	// Probe the enabled/disabled status of both triggers on the implementation
	// (states with equal model state are merged by the search, so every
	// transition checks it): insert a parent and a child row in a new
	// transaction, compare the trigger calls, roll back.
	x.log, m.calls = nil, nil
	m.begin()
	m.insP(7, "probe")
	m.insC(7, 7, "probe")
	e := lib.Try(func() {
		qry.DoAction(x.th, x.tran(), "insert { pk: 7, pv: 'probe' } into p")
		qry.DoAction(x.th, x.tran(), "insert { ck: 7, pk: 7, cv: 'probe' } into c")
	})
	if e != nil {
		return key, fmt.Sprintf("probe inserts failed: %s", lib.PanicText(e))
	}
	if got, want := sortedCopy(x.log), sortedCopy(m.calls); strings.Join(got, "\n") != strings.Join(want, "\n") {
		return key, fmt.Sprintf("probe (insert p7, c7 with disable counts p=%d c=%d): trigger calls were\n    %s\n  expected exactly\n    %s",
			m.dis["p"], m.dis["c"], strings.Join(got, "\n    "), strings.Join(want, "\n    "))
	}
	return key, ""
}

// modelAfter replays path on the model only (to decide applicability of the next event)
func modelAfter(root int, path []int) *model {
	m := newModel()
	if root == 1 {
		m.committed.p[1] = "a"
		m.committed.c[1] = crow{1, "x"}
		m.committed.c[2] = crow{1, "y"}
	}
	for _, e := range path {
		ev := &events[e]
		m.calls = nil
		switch ev.kind {
		case 'C':
			m.committed, m.open = m.work, false
		case 'A':
			m.open = false
		case 'D':
			m.dis[ev.tbl]++
		case 'E':
			m.dis[ev.tbl]--
		case 'd':
			m.begin()
			if ev.mod(m) {
				m.open = false
			}
		}
	}
	return m
}

// ---------------------------------------------------------------- BFS

type succ struct {
	key  string
	path []int
}

var rootNames = []string{"empty tables", "p1 with children c1, c2"}

func run(c *lib.Ctx) {
	setup()
	debug.SetGCPercent(400)
	depth := lib.Pick(c, 4, 6)
	c.Set("events", len(events))
	c.Set("max_depth", depth)
	names := []string{}
	for _, e := range events {
		names = append(names, e.name)
	}
	c.Set("alphabet", names)
	completed := map[string]int{}
	for root := len(rootNames) - 1; root >= 0; root-- {
		completed[rootNames[root]] = bfs(c, root, depth)
		if c.Expired() {
			break
		}
	}
	c.Set("depth_completed", completed)
}

func bfs(c *lib.Ctx, root int, depth int) int {
	seen := map[string]bool{modelAfter(root, nil).key(): true}
	c.State(1)
	frontier := [][]int{{}}
	for d := 1; d <= depth; d++ {
		results := make([][]succ, len(frontier))
		ok := c.Par(len(frontier), func(i int) {
			base := frontier[i]
			mb := modelAfter(root, base)
			var out []succ
			for e := range events {
				if !applicable(mb, &events[e]) {
					continue
				}
				path := append(append(make([]int, 0, len(base)+1), base...), e)
				key, msg := runPath(root, path)
				c.Eval(1)
				c.Transition(1)
				c.TraceValidated(1)
				if msg != "" {
					cs := mkCase(root, path)
					c.Fail("", cs, "%s [root: %s; events: %s]", msg, rootNames[root], strings.Join(cs.Events, "; "))
					continue
				}
				out = append(out, succ{key, path})
			}
			results[i] = out
		})
		var next [][]int
		for _, out := range results {
			for _, s := range out {
				if !seen[s.key] {
					seen[s.key] = true
					next = append(next, s.path)
				}
			}
		}
		c.State(len(next))
		c.Nontrivial(len(next))
		if len(next) > 0 && c.NSamples() < 8 {
			c.Sample(mkCase(root, next[len(next)*2/3]))
		}
		if !ok || c.Stopped() {
			return d - 1
		}
		frontier = next
		if len(frontier) == 0 {
			return d
		}
	}
	return depth
}

func replay(c *lib.Ctx, raw json.RawMessage) {
	setup()
	var cs caseT
	if err := json.Unmarshal(raw, &cs); err != nil {
		lib.Infra("bad case: %v", err)
	}
	if _, msg := runPath(cs.Root, cs.Path); msg != "" {
		c.Fail("", cs, "%s", msg)
	}
}

func main() {
	lib.Main(lib.Spec{
		ID:    "C44",
		Level: "model_checking",
		Rule: "BFS over event sequences (insert/update/delete of parent and child rows as statements and direct transaction calls, cascades, failing statements, a throwing trigger, commit/abort, nested DisableTrigger/EnableTrigger) " +
			"on a fresh real database per execution; successor = replay path + 1 event; a state is distinct when the model state (committed tables, open transaction's tables, disable counts) is new; " +
			"every transition is executed on the implementation; trigger log per event and committed tables + trigger-written audit table per path are compared with the model",
		Assumptions: []string{
			"reference model: two maps with cascade delete / cascade key update from p to c, foreign-key block and duplicate-key failures, an open-transaction copy, disable counters",
			"the order of trigger calls within one statement is not specified: calls are compared as a multiset",
			"after an exception from a statement (failing statement or throwing trigger) the harness rolls the transaction back, as the block form of Transaction does; the property's 'stops the change from being committed' is read as: the exception reaches the caller",
			"single client thread; one open update transaction at a time; triggers are global definitions, the per-execution context is found through the calling thread",
			"the database uses the synchronous checker (Database.CheckerSync) and commits through Database.CommitMerge: no background goroutines; the asynchronous commit pipeline is the subject of C01-C03/C16",
			"verdict is for the enumerated events and depth only",
		},
		QuickBudget: 70, ThoroughBudget: 800,
		Run: run, Replay: replay})
}
