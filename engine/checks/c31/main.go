// C31 Displayed constants evaluate back to equal values; unterminated string
// literals are rejected by the language and query compilers.
//
// Enumerated (bounded-exhaustive):
//
//	(1) strings: every byte string of length <= 2 (all 256 byte values) and
//	    every string of length <= 5 (quick 3) over the 16 byte boundary alphabet
//	    { " ' ` \ NUL \t \n \r space a n x 4 [ 0x7f 0xff } – quotes, backslash,
//	    the escape letters, control / high bytes – displayed with every quote
//	    preference (Thread.Quote 0,1,2 and SuStr.String)
//	(2) numbers: a boundary alphabet of integers and decimals with both signs
//	(3) dates: boundary dates x boundary times, and timestamps
//	(4) booleans
//	(5) containers: objects #(...) and records [...] with 0..2 unnamed and 0..2
//	    named members, keys from a key alphabet (identifier-like strings incl.
//	    keywords, strings needing quotes, numbers, dates, booleans) and values
//	    from a scalar alphabet, plus every such container with one nested
//	    container value (nested once)
//	(6) unterminated literals: for each quote kind and every body of <= 3
//	    (quick) / 5 (thorough) pieces over { a, \, \n, \q (escaped quote), \x4,
//	    \\ , newline, other-quote } that an independent scan of the documented
//	    escape rules finds to be unterminated: quote+body as a whole constant,
//	    as `function(){ return <lit>`, inside an object constant `#(<lit>`, and
//	    as the query `table where a is <lit>`.
//
// Oracle: (1)-(5) v' := compile.Constant(Display(v)) must not fail and
// v'.Equal(v) && v.Equal(v') (what the statement says: "a value equal to the
// original"). (6) every compiler call must report an error.
// Values are built with the core constructors (SuStr, IntVal, SuDnum, NewDate,
// SuObject.Add/Set, SuRecord) – not by parsing.
package main

import (
	"encoding/hex"
	"encoding/json"
	"fmt"
	"os"
	"strings"

	_ "github.com/apmckinlay/gsuneido/builtin"
	"github.com/apmckinlay/gsuneido/compile"
	. "github.com/apmckinlay/gsuneido/core"
	"github.com/apmckinlay/gsuneido/dbms/query"
	"github.com/apmckinlay/gsuneido/util/dnum"

	"verif/lib"
)

type failCase struct {
	Kind string `json:"kind"` // "display" | "unterminated"
	Hex  string `json:"hex"`  // display: the displayed text; unterminated: the literal
	Text string `json:"text_quoted"`
	API  string `json:"api,omitempty"`
	Desc string `json:"value,omitempty"`
}

// ---------------------------------------------------------------- round trip

type rt struct {
	c  *lib.Ctx
	th *Thread
}

// roundTrip checks one value with one displayed text
func (r *rt) roundTrip(v Value, text, how string) {
	r.c.Eval(1)
	var back Value
	e := lib.Try(func() { back = compile.Constant(text) })
	fc := failCase{Kind: "display", Hex: hex.EncodeToString([]byte(text)), Text: fmt.Sprintf("%q", text), Desc: how}
	if e != nil {
		// Precisely classified defect candidate: lexer.IsIdentifier accepts
		// the one-character strings "?" and "!" (suffix characters without a
		// name), so such a member name is displayed unquoted and does not
		// compile. Matched only when the same value with that key renamed to
		// an ordinary name round-trips.
		if hasKey(v, SuStr("?")) || hasKey(v, SuStr("!")) {
			alt := v
			for i, bad := range []string{"?", "!", "_"} { // "_" has its own defect class, see below
				if alt != nil {
					alt = renameKey(alt, SuStr(bad), SuStr(fmt.Sprint("verif_k", i)))
				}
			}
			if alt != nil && r.roundTripsQuietly(alt) {
				failClass(r.c, classSuffixKey, fc, "%s displays as %s which does not compile back: %s", how, text, lib.PanicText(e))
				return
			}
		}
		r.c.Fail("", fc, "%s displays as %s which does not compile back: %s", how, text, lib.PanicText(e))
		return
	}
	var eq1, eq2 bool
	if e := lib.Try(func() { eq1, eq2 = back.Equal(v), v.Equal(back) }); e != nil {
		r.c.Fail("", fc, "%s displays as %s; comparing the compiled value panicked: %s", how, text, lib.PanicText(e))
		return
	}
	if !eq1 || !eq2 {
		// Precisely classified defect candidate: a member named "_" is
		// displayed unquoted (core.Unquoted) and the lexer turns the
		// identifier _ into "unused": the value comes back with the key
		// "unused". Matched only when the compiled value equals the original
		// with exactly that renaming applied.
		if hasKey(v, SuStr("_")) {
			if want := renameKey(v, SuStr("_"), SuStr("unused")); want != nil && lib.Try(func() { eq1 = back.Equal(want) }) == nil && eq1 {
				failClass(r.c, classUnderscoreKey, fc, "%s displays as %s which evaluates to %s: member \"_\" came back as \"unused\"", how, text, safeString(back))
				return
			}
		}
		r.c.Fail("", fc, "%s displays as %s which evaluates to %s (%T): not equal to the original", how, text, safeString(back), back)
	}
}

const classSuffixKey = "container-key-bare-suffix-char-displayed-unquoted"

// roundTripsQuietly reports whether Display -> Constant -> Equal holds for v (no failure recorded)
func (r *rt) roundTripsQuietly(v Value) (ok bool) {
	defer func() {
		if recover() != nil {
			ok = false
		}
	}()
	back := compile.Constant(Display(r.th, v))
	return back.Equal(v) && v.Equal(back)
}

const classUnderscoreKey = "container-key-underscore-displayed-unquoted"

// members lists the (key, value) pairs of an object or record (key nil = unnamed)
func members(v Value) (ms []member, record, ok bool) {
	var ob *SuObject
	switch c := v.(type) {
	case *SuObject:
		ob = c
	case *SuRecord:
		ob, record = c.ToObject(), true
	default:
		return nil, false, false
	}
	iter := ob.ArgsIter()
	for k, x := iter(); x != nil; k, x = iter() {
		ms = append(ms, member{k, x})
	}
	return ms, record, true
}

func hasKey(v Value, key Value) bool {
	ms, _, ok := members(v)
	if !ok {
		return false
	}
	for _, m := range ms {
		if m.k != nil && m.k.Equal(key) || hasKey(m.v, key) {
			return true
		}
	}
	return false
}

// renameKey returns a copy of v with every member key `from` renamed to `to`
// (nil when that would collide with an existing key)
func renameKey(v Value, from, to Value) Value {
	ms, record, ok := members(v)
	if !ok {
		return v
	}
	var out []member
	for _, m := range ms {
		if m.k != nil && m.k.Equal(to) {
			return nil
		}
		nv := renameKey(m.v, from, to)
		if nv == nil {
			return nil
		}
		k := m.k
		if k != nil && k.Equal(from) {
			k = to
		}
		out = append(out, member{k, nv})
	}
	return build(record, out)
}

func safeString(v Value) (s string) {
	defer func() {
		if e := recover(); e != nil {
			s = fmt.Sprint("<String() panicked: ", e, ">")
		}
	}()
	return v.String()
}

// value goes through every display route of v
func (r *rt) value(v Value, how string) {
	for q := 0; q <= 2; q++ {
		r.th.Quote = q
		var text string
		if e := lib.Try(func() { text = Display(r.th, v) }); e != nil {
			r.c.Fail("", failCase{Kind: "display", Desc: how}, "Display(%s) with Quote=%d panicked: %s", how, q, lib.PanicText(e))
			continue
		}
		r.roundTrip(v, text, how)
		if _, isStr := v.(SuStr); !isStr && !isContainer(v) {
			break // the quote preference only matters where strings occur
		}
	}
	r.th.Quote = 0
	var text string
	if e := lib.Try(func() { text = v.String() }); e != nil {
		r.c.Fail("", failCase{Kind: "display", Desc: how}, "String() of %s panicked: %s", how, lib.PanicText(e))
		return
	}
	r.roundTrip(v, text, how)
}

func isContainer(v Value) bool {
	switch v.(type) {
	case *SuObject, *SuRecord:
		return true
	}
	return false
}

// ---------------------------------------------------------------- alphabets

var strAlpha = []byte{'"', '\'', '`', '\\', 0, '\t', '\n', '\r', ' ', 'a', 'n', 'x', '4', '[', 0x7f, 0xff}

func numbers() []Value {
	var out []Value
	add := func(v Value) { out = append(out, v) }
	ints := []int64{0, 1, 2, 9, 10, 11, 99, 100, 255, 256, 999, 1000, 32767, 32768, 65535, 65536,
		99999, 100000, 2147483647, 2147483648, 4294967295, 4294967296, 9007199254740992,
		999999999999999, 1000000000000000, 9999999999999999, 10000000000000000, 10000000000000001,
		99999999999999999, 1234567890123456789, 9223372036854775807}
	for _, i := range ints {
		add(Int64Val(i))
		add(Int64Val(-i))
	}
	add(Int64Val(-9223372036854775808))
	coefs := []uint64{1000000000000000, 1200000000000000, 1234567890123456, 9999999999999999, 5000000000000000, 1000000000000001, 9900000000000000}
	exps := []int{-126, -125, -20, -17, -16, -15, -7, -6, -5, -4, -3, -2, -1, 0, 1, 2, 3, 7, 15, 16, 17, 18, 19, 20, 21, 100, 125, 126}
	for _, co := range coefs {
		for _, ex := range exps {
			for _, s := range []int8{1, -1} {
				add(SuDnum{Dnum: dnum.New(s, co, ex)})
			}
		}
	}
	return out
}

func dates() []Value {
	var out []Value
	days := [][3]int{{1, 1, 1}, {999, 12, 31}, {1000, 1, 1}, {1600, 2, 29}, {1900, 2, 28}, {1970, 1, 1}, {1999, 12, 31},
		{2000, 2, 29}, {2024, 2, 29}, {2026, 9, 21}, {2999, 12, 31}, {3000, 1, 1}}
	times := [][4]int{{0, 0, 0, 0}, {0, 0, 0, 1}, {0, 0, 0, 10}, {0, 0, 0, 100}, {0, 0, 1, 0}, {0, 0, 10, 0}, {0, 1, 0, 0}, {0, 10, 0, 0},
		{1, 0, 0, 0}, {10, 0, 0, 0}, {20, 0, 0, 0}, {12, 34, 56, 789}, {23, 59, 59, 999}, {10, 10, 10, 10}, {0, 0, 59, 900}}
	for _, d := range days {
		for _, t := range times {
			if d[0] == 3000 && t != [4]int{} {
				continue // year 3000 is only valid as 3000-01-01 00:00
			}
			v := NewDate(d[0], d[1], d[2], t[0], t[1], t[2], t[3])
			if v == NilDate {
				lib.Infra("NewDate%v%v rejected", d, t)
			}
			out = append(out, v)
		}
	}
	// timestamps (date + extra counter); DateFromLiteral is used only as a constructor here
	for _, s := range []string{"20200101.000000000001", "20200101.123456789255", "19991231.235959999128"} {
		v := DateFromLiteral(s)
		if v == NilDate {
			lib.Infra("timestamp literal %s rejected", s)
		}
		out = append(out, v)
	}
	return out
}

func dn(s string) Value { return SuDnum{Dnum: dnum.FromStr(s)} }

// scalar values used inside containers
func scalarValues() []Value {
	return []Value{True, False, Zero, IntVal(1), IntVal(-1), dn("1.5"), dn("-.001"), dn("1e20"),
		SuStr(""), SuStr("a"), SuStr("a b"), SuStr("'"), SuStr(`"`), SuStr("`'\""), SuStr(`\`), SuStr("\n"), SuStr("\x00\xff"),
		SuStr("true"), SuStr("1"), SuStr("x:"), SuStr("#(1)"),
		NewDate(2020, 1, 1, 0, 0, 0, 0), NewDate(2020, 1, 1, 12, 34, 56, 789)}
}

func keyValues() []Value {
	ks := []Value{True, False, Zero, IntVal(1), IntVal(2), IntVal(-1), IntVal(100), dn("1.5"), dn("1e20"),
		NewDate(2020, 1, 1, 0, 0, 0, 0), NewDate(2020, 1, 1, 10, 0, 0, 0)}
	for _, s := range []string{"a", "b", "A", "a?", "a!", "x_1", "_", "_a", "true", "false", "default", "function", "class", "if", "is", "in",
		"not", "and", "return", "this", "super", "it", "", " ", "a b", "1a", "1", "-1", "a.b", "a:", "?", "!", "a??", "'", `"`, "`", `\`, "\n", "\x00", "\xff", "#a", "dll", "struct"} {
		ks = append(ks, SuStr(s))
	}
	return ks
}

// ---------------------------------------------------------------- containers

type member struct {
	k Value // nil = unnamed
	v Value
}

func build(record bool, mems []member) Value {
	if record {
		r := NewSuRecord()
		for _, m := range mems {
			if m.k == nil {
				r.Add(m.v)
			} else {
				r.Set(m.k, m.v)
			}
		}
		return r
	}
	ob := &SuObject{}
	for _, m := range mems {
		if m.k == nil {
			ob.Add(m.v)
		} else {
			ob.Set(m.k, m.v)
		}
	}
	return ob
}

func (r *rt) containers() {
	c := r.c
	vals := scalarValues()
	keys := keyValues()
	// small value alphabet for the positions that are not being varied
	few := []Value{IntVal(7), SuStr("s"), True}
	fewKeys := []Value{SuStr("k"), IntVal(5), SuStr("a b")}
	n := 0
	emit := func(mems []member, what string) {
		if c.Expired() {
			return
		}
		for _, rec := range []bool{false, true} {
			v := build(rec, mems)
			r.value(v, what)
			c.Distinct("container:" + Display(nil, v))
			n++
			if n%5003 == 1 {
				c.Sample(map[string]string{"container": Display(nil, v)})
			}
		}
	}
	emit(nil, "empty container")
	// unnamed: all 1- and 2-sequences of scalar values
	for _, a := range vals {
		emit([]member{{nil, a}}, "1 unnamed")
		for _, b := range vals {
			emit([]member{{nil, a}, {nil, b}}, "2 unnamed")
		}
	}
	// named: every key x every value
	for _, k := range keys {
		for _, v := range vals {
			emit([]member{{k, v}}, "1 named")
		}
	}
	// two named: every ordered pair of distinct keys (values from the small alphabet)
	for i, k1 := range keys {
		for j, k2 := range keys {
			if i == j {
				continue
			}
			emit([]member{{k1, few[i%3]}, {k2, few[j%3]}}, "2 named")
		}
	}
	// mixed: 1..2 unnamed + 1..2 named: every key with every count combination
	for _, k := range keys {
		for _, v := range few {
			emit([]member{{nil, v}, {k, v}}, "1 unnamed + 1 named")
			emit([]member{{nil, v}, {nil, SuStr("u")}, {k, v}}, "2 unnamed + 1 named")
			for _, k2 := range fewKeys {
				if !k2.Equal(k) {
					emit([]member{{nil, v}, {k, v}, {k2, False}}, "1 unnamed + 2 named")
					emit([]member{{nil, v}, {nil, Zero}, {k2, SuStr("")}, {k, v}}, "2 unnamed + 2 named")
				}
			}
		}
	}
	// nested once: every inner container shape as unnamed value, named value and (objects allow it) under every key
	var inner []Value
	for _, rec := range []bool{false, true} {
		inner = append(inner, build(rec, nil), build(rec, []member{{nil, IntVal(1)}}),
			build(rec, []member{{SuStr("a"), SuStr("'")}}), build(rec, []member{{nil, SuStr(`"`)}, {SuStr("a b"), True}}),
			build(rec, []member{{IntVal(3), NewDate(2020, 1, 1, 0, 0, 0, 0)}}))
	}
	for _, in := range inner {
		emit([]member{{nil, in}}, "nested unnamed")
		emit([]member{{nil, in}, {nil, in}}, "nested twice unnamed")
		for _, k := range keys {
			emit([]member{{k, in}}, "nested named")
		}
		for _, v := range vals {
			emit([]member{{nil, v}, {SuStr("n"), in}}, "scalar + nested named")
		}
	}
	c.Set("containers", n)
}

// ---------------------------------------------------------------- unterminated literals

// unterminated decides, from the documented escape rules only (a backslash
// followed by \ " or ' is one escaped character; a backquote string has no
// escapes), whether quote+body lacks its closing quote.
func unterminated(quote byte, body string) bool {
	for i := 0; i < len(body); i++ {
		c := body[i]
		if c == quote {
			return false
		}
		if c == '\\' && quote != '`' && i+1 < len(body) {
			switch body[i+1] {
			case '\\', '"', '\'':
				i++
			}
		}
	}
	return true
}

const classUntermEscape = "unterminated-string-with-escape-accepted"

func failClass(c *lib.Ctx, class string, cs any, format string, a ...any) {
	for _, ig := range strings.Split(os.Getenv("VERIF_DEV_IGNORE"), ",") {
		if ig == class && class != "" {
			c.Count("dev_ignored:"+class, 1)
			return
		}
	}
	c.Fail(class, cs, format, a...)
}

var tran = query.VerifTestTran()

func (r *rt) untermOne(lit string) {
	c := r.c
	quote := lit[0]
	forms := []struct {
		api string
		f   func() any
	}{
		{"constant", func() any { return compile.Constant(lit) }},
		{"function", func() any { return compile.Constant("function(){ return " + lit) }},
		{"object", func() any { return compile.Constant("#(" + lit) }},
		{"query", func() any { return query.ParseQuery("table where a is "+lit, tran, nil) }},
		{"queryextend", func() any { return query.ParseQuery("table extend z = "+lit, tran, nil) }},
	}
	for _, fm := range forms {
		c.Eval(1)
		var res any
		e := lib.Try(func() { res = fm.f() })
		if e != nil {
			if lib.IsRuntimeError(e) {
				c.Fail("", failCase{Kind: "unterminated", Hex: hex.EncodeToString([]byte(lit)), Text: fmt.Sprintf("%q", lit), API: fm.api},
					"unterminated literal %q via %s: Go runtime error %s instead of a reported error", lit, fm.api, lib.PanicText(e))
			}
			c.Distinct("unterm:" + fm.api + ":rejected")
			continue
		}
		// Accepted. Precisely classified known defect candidate: the lexer's
		// escape-processing loop (lexer.quotedString, second loop) stops at
		// end of input without reporting the missing quote; it is entered
		// only when the body contains a backslash.
		class := ""
		if quote != '`' && strings.Contains(lit[1:], `\`) {
			class = classUntermEscape
		}
		failClass(c, class, failCase{Kind: "unterminated", Hex: hex.EncodeToString([]byte(lit)), Text: fmt.Sprintf("%q", lit), API: fm.api},
			"unterminated string literal %s (no closing quote) was silently accepted via %s, result %v", lit, fm.api, res)
	}
}

func (r *rt) unterminatedAll() {
	c := r.c
	maxPieces := lib.Pick(c, 3, 5)
	n := 0
	for _, quote := range []byte{'"', '\'', '`'} {
		other := "'"
		if quote == '\'' {
			other = `"`
		}
		pieces := []string{"a", `\`, `\n`, `\` + string(quote), `\x4`, `\\`, "\n", other, `\x41`, " "}
		var rec func(body string, left int)
		rec = func(body string, left int) {
			if unterminated(quote, body) {
				r.untermOne(string(quote) + body)
				n++
				if n%397 == 5 {
					c.Sample(map[string]string{"unterminated_literal": string(quote) + body})
				}
			} else {
				c.Count("unterminated_generator_skipped_terminated", 1)
			}
			if left == 0 {
				return
			}
			for _, p := range pieces {
				rec(body+p, left-1)
			}
		}
		rec("", maxPieces)
	}
	c.Nontrivial(n)
	c.Set("unterminated_literals", n)
}

// ---------------------------------------------------------------- run

func run(c *lib.Ctx) {
	r := &rt{c: c, th: &Thread{}}
	// (1) strings
	nstr := 0
	str := func(s string) {
		r.value(SuStr(s), fmt.Sprintf("string %q", s))
		nstr++
	}
	str("")
	for a := 0; a < 256; a++ {
		str(string([]byte{byte(a)}))
		for b := 0; b < 256; b++ {
			str(string([]byte{byte(a), byte(b)}))
		}
	}
	maxLen := lib.Pick(c, 3, 5)
	var gen func(prefix []byte, left int)
	gen = func(prefix []byte, left int) {
		if len(prefix) >= 3 { // shorter ones are covered by the all-bytes part
			str(string(prefix))
			if nstr%20011 == 0 {
				c.Sample(map[string]string{"string": fmt.Sprintf("%q", prefix), "display": Display(nil, SuStr(prefix))})
			}
		}
		if left == 0 || c.Expired() {
			return
		}
		for _, b := range strAlpha {
			gen(append(prefix[:len(prefix):len(prefix)], b), left-1)
		}
	}
	gen(nil, maxLen)
	c.Nontrivial(nstr)
	c.Set("strings", nstr)
	// (2) numbers (3) dates (4) booleans
	nums := numbers()
	for _, v := range nums {
		r.value(v, "number "+v.String())
	}
	ds := dates()
	for _, v := range ds {
		r.value(v, "date "+v.String())
	}
	r.value(True, "true")
	r.value(False, "false")
	c.Nontrivial(len(nums) + len(ds) + 2)
	c.Set("numbers", len(nums))
	c.Set("dates", len(ds))
	c.Sample(map[string]string{"number": nums[len(nums)-3].String(), "date": ds[len(ds)-5].String()})
	// (5) containers
	r.containers()
	// (6) unterminated literals
	r.unterminatedAll()
}

func replay(c *lib.Ctx, raw json.RawMessage) {
	var fc failCase
	if err := json.Unmarshal(raw, &fc); err != nil {
		lib.Infra("bad case: %v", err)
	}
	b, err := hex.DecodeString(fc.Hex)
	if err != nil {
		lib.Infra("bad case: %v", err)
	}
	r := &rt{c: c, th: &Thread{}}
	if fc.Kind == "unterminated" {
		r.untermOne(string(b))
		return
	}
	// display case: the recorded text is the displayed form; recompile it and
	// require that displaying the result reproduces an equal value (the original
	// value is described in the message)
	var v Value
	if e := lib.Try(func() { v = compile.Constant(string(b)) }); e != nil {
		c.Fail("", fc, "displayed text %s does not compile: %s", string(b), lib.PanicText(e))
		return
	}
	r.value(v, "replayed "+fc.Desc)
	fmt.Println("note: a display replay re-checks the value obtained from the recorded text; see the recorded message for the original value")
}

func main() {
	lib.Main(lib.Spec{
		ID:    "C31",
		Level: "exploration",
		Rule: "every value of the string / number / date / boolean / container alphabets: compile.Constant(Display(v)) (every quote preference, and String()) must Equal v; " +
			"every unterminated literal of the body grammar through constant, function, object, query where and query extend must be rejected; " +
			"evaluations = round trips + compiler calls judged; values and literals are distinct by construction (containers counted through their distinct displayed texts)",
		Assumptions: []string{
			"values are built with core constructors, equality is core Value.Equal in both directions (the property's own notion of 'equal')",
			"whether a literal is unterminated is decided by an independent scan of the documented escape rules",
			"infinite decimals are not constants and are excluded; containers are nested once",
		},
		QuickBudget:    120,
		ThoroughBudget: 900,
		Run:            run,
		Replay:         replay,
	})
}
