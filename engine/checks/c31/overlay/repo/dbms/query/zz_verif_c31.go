//go:build verif

package query

// VerifTestTran exposes the hard coded test schema transaction (testtran.go)
// so that a check can call ParseQuery without a database.
func VerifTestTran() QueryTran { return testTran{} }
