// C01 Committed update transactions are serializable. See verif/txpipe.
package main

import "verif/txpipe"

func main() {
	txpipe.Main(txpipe.CheckDef{
		ID:         "C01",
		Groups:     []string{"ser", "con", "fk"},
		Oracles:    txpipe.Oracles{Serializable: true, ForeignKeys: true},
		QuickBound: 1, ThoroughBound: 2,
		SyncLen: -2, SyncLenThorough: 2,

		Rule: "Oracle: the committed update transactions that wrote something are replayed serially, in commit order, on a reference model (ordered maps); every lookup result, every row of every scan incl. where it stopped, and every error class must equal what the real transaction observed, every published state must be a prefix of that serial history and the final database must equal the model (no lost update, no phantom).",
	})
}
