// C05 Crash recovery restores the latest durable state.
//
// Fault enumeration. Workloads = short histories on a REAL database file
// (mmap store, real checker/merger pipeline): 1-2 tables (one with two
// indexes, optionally a foreign key), several commits, 2-4 persists,
// optionally a clean close+reopen in the middle, optionally updates/deletes
// and a schema change; the reference model is snapshotted at every persist
// point and the end offset of every persisted state record is recorded.
// Then, for EVERY length L in [0, size] of the finished file and every tail
// kind (absent, zeros to the next 4 KiB boundary, 0xFF fill, 0xA5 fill,
// counting bytes, the state-record magic alone, magic + junk, a copy of the
// last state record with one flipped byte (two variants)) the damaged file
// base[:L]+tail is materialised and run through the production sequence
//
//	OpenDb(update, check)  -> refused?  CheckDatabase -> Repair -> OpenDb -> contents -> CheckDatabase(full)
//
// Oracle (per case):
//
//	(a) the file is accepted by OpenDb exactly when (after the trailing-zero
//	    stripping done by the store) it ends right behind the shutdown marker
//	    of a clean close, and then shows that state; otherwise it is refused
//	    (an error, or the documented fatal "not a valid database file" for
//	    files shorter than the 8 byte magic);
//	(b) for a refused file CheckDatabase returns an error and Repair returns:
//	    success when at least one complete state record lies within the first
//	    L bytes - the repaired file then opens with the full check and its
//	    contents equal the reference model at the NEWEST such state, and
//	    CheckDatabase(full) passes; otherwise the clear error "no valid states";
//	(c) nothing panics with a Go runtime error, calls os.Exit unexpectedly or
//	    kills the process (cases run in executor sub-processes; a dead executor
//	    is a violation carrying the case).
//
// Precisely classified genuine defects (findings F4, F5): see classes below.
package main

import (
	"bufio"
	"bytes"
	"encoding/json"
	"fmt"
	"io"
	"log"
	"os"
	"os/exec"
	"path/filepath"
	"strings"
	"syscall"
	"time"

	"github.com/apmckinlay/gsuneido/core"
	"github.com/apmckinlay/gsuneido/db19"
	"github.com/apmckinlay/gsuneido/db19/stor"

	"verif/lib"
	"verif/model/dbmodel"
	"verif/model/dbmodel/drive"
)

const (
	// F4: Repair panics (index out of range [-1] in repair.search) when the
	// file holds no complete state record
	classF4 = "repair-panic-no-complete-state"
	// F5: a zero-length file makes OpenDb / CheckDatabase / Repair panic
	// (index out of range [0] in Stor.Data called from version) instead of a
	// clear "not a valid database file"
	classF5 = "open-panic-empty-file"
	// Repair hangs in scanner.getUpTo (lost wakeup); timing dependent
	classHang = "repair-hang-scanner-lost-wakeup"
)

const stateLen = 36 // magic1 8 + time 8 + 2 offsets 10 + checksum 2 + magic2 8
const tailSize = 8
const shutdownMarker = "\x2b\xc1\x85\x63\x8d\x71\x65\x6d"

var magic1 = []byte("\x01\x23\x45\x67\x89\xab\xcd\xef")

type M = map[string]string

// ---------------------------------------------------------------- workloads

type wlSpec struct {
	Name     string
	TwoTabs  bool // second table b with a foreign key into a
	Reopen   bool // clean close+reopen in the middle
	Rows     int  // rows per commit (1..3)
	UpdDel   bool // an update and a delete
	Schema   bool // a schema change (new column + index) after the middle persist
	Persists int  // 2..4
}

func workloadSpecs(thorough bool) []wlSpec {
	var out []wlSpec
	add := func(two, reopen bool, rows int, upddel, schema bool, persists int) {
		out = append(out, wlSpec{Name: fmt.Sprintf("w%d", len(out)), TwoTabs: two, Reopen: reopen, Rows: rows,
			UpdDel: upddel, Schema: schema, Persists: persists})
	}
	if !thorough {
		add(false, false, 1, false, false, 2)
		add(true, true, 2, true, false, 3)
		add(false, true, 3, false, true, 3)
		return out
	}
	for _, two := range []bool{false, true} {
		for _, reopen := range []bool{false, true} {
			for _, rows := range []int{1, 3} {
				for _, v := range []int{0, 1, 2} {
					add(two, reopen, rows, v >= 1, v == 2, 2+v)
				}
			}
		}
	}
	return out
}

func ix(mode byte, cols string, fk ...string) dbmodel.Index {
	x := dbmodel.Index{Mode: mode, Cols: strings.Split(cols, ",")}
	if len(fk) == 2 {
		x.FkTable, x.FkCols = fk[0], strings.Split(fk[1], ",")
	}
	return x
}

func req(kind, table, cols string, idx ...dbmodel.Index) drive.Event {
	r := dbmodel.Req{Kind: kind, Table: table, Idx: idx}
	if cols == "" {
		r.NoCols = true
	} else {
		r.Cols = strings.Split(cols, ",")
	}
	return drive.Admin(r)
}

// events of a workload; "persist" and "reopen" events are the persist points
func (w wlSpec) events() []drive.Event {
	var evs []drive.Event
	n := 0
	insA := func() drive.Event {
		var ops []dbmodel.RowOp
		for i := 0; i < w.Rows; i++ {
			n++
			ops = append(ops, dbmodel.RowOp{Kind: "insert", Table: "a",
				Row: M{"k": fmt.Sprintf("k%02d", n), "x": fmt.Sprint("x", n%2), "y": strings.Repeat("v", n)}})
		}
		return drive.Tx(ops...)
	}
	evs = append(evs, req("create", "a", "k,x,y", ix('k', "k"), ix('i', "x")))
	if w.TwoTabs {
		evs = append(evs, req("create", "b", "id,ak", ix('k', "id"), ix('i', "ak", "a", "k")))
	}
	evs = append(evs, insA(), drive.Persist())
	evs = append(evs, insA())
	if w.TwoTabs {
		evs = append(evs, drive.Tx(dbmodel.RowOp{Kind: "insert", Table: "b", Row: M{"id": "1", "ak": "k01"}},
			dbmodel.RowOp{Kind: "insert", Table: "b", Row: M{"id": "2"}}))
	}
	if w.Reopen {
		evs = append(evs, drive.Reopen())
	} else {
		evs = append(evs, drive.Persist())
	}
	if w.Schema {
		evs = append(evs, req("alter_create", "a", "z", ix('i', "z")))
	}
	if w.UpdDel {
		evs = append(evs, drive.Tx(dbmodel.RowOp{Kind: "update", Table: "a", Row: M{"k": "k02"}, Set: M{"y": "changed"}}))
		evs = append(evs, drive.Tx(dbmodel.RowOp{Kind: "delete", Table: "a", Row: M{"k": "k02"}}))
	}
	for p := 2; p < w.Persists; p++ {
		evs = append(evs, insA(), drive.Persist())
	}
	evs = append(evs, insA()) // committed, persisted only by the final close
	return evs
}

// workload is a finished database file with its persisted states.
type workload struct {
	Name    string
	Events  []string
	Base    string  // path of the finished file
	Size    int64   // its length
	Ends    []int64 // end offset (exclusive) of every persisted state record, ascending
	Models  []*dbmodel.DB
	Markers []int64 // end offsets of the shutdown markers written by clean closes
}

// workloadFailed: the workload's events are valid, so the database disagreeing
// with the model while the file is produced is the code's failure (a
// violation), not the tooling's.
type workloadFailed string

func buildWorkload(dir string, w wlSpec) *workload {
	file := filepath.Join(dir, w.Name+".db")
	s, err := drive.NewFile(file)
	if err != nil {
		lib.Infra("create %s: %v", file, err)
	}
	wl := &workload{Name: w.Name, Base: file}
	note := func() {
		off := int64(s.DB.GetState().Off)
		end := off + stateLen
		if off != 0 && (len(wl.Ends) == 0 || wl.Ends[len(wl.Ends)-1] != end) {
			wl.Ends = append(wl.Ends, end)
			wl.Models = append(wl.Models, s.M.Clone())
		}
	}
	for _, ev := range w.events() {
		wl.Events = append(wl.Events, ev.String())
		if m := s.Apply(ev); m != "" {
			panic(workloadFailed(fmt.Sprintf("workload %s: while producing the database file the database disagreed with the model: %s", w.Name, m)))
		}
		switch ev.Kind {
		case "persist":
			note()
		case "reopen":
			note()
			wl.Markers = append(wl.Markers, wl.Ends[len(wl.Ends)-1]+tailSize)
		}
	}
	s.Close()
	b, err := os.ReadFile(file)
	if err != nil {
		lib.Infra("read %s: %v", file, err)
	}
	b = bytes.TrimRight(b, "\x00")
	wl.Size = int64(len(b))
	os.WriteFile(file, b, 0o644)
	// the final close wrote one more state + marker
	end := wl.Size - tailSize
	if string(b[end:]) != shutdownMarker || !bytes.Equal(b[end-stateLen:end-stateLen+8], magic1) {
		lib.Infra("workload %s: file does not end with state record + shutdown marker", w.Name)
	}
	if len(wl.Ends) == 0 || wl.Ends[len(wl.Ends)-1] != end {
		wl.Ends = append(wl.Ends, end)
		wl.Models = append(wl.Models, s.M.Clone())
	}
	wl.Markers = append(wl.Markers, wl.Size)
	for i, e := range wl.Ends { // harness sanity: a state record really ends there
		if !bytes.Equal(b[e-stateLen:e-stateLen+8], magic1) {
			lib.Infra("workload %s: no state record ends at %d (state %d)", w.Name, e, i)
		}
	}
	return wl
}

// ---------------------------------------------------------------- tails

var tailNames = []string{"absent", "zeros-to-4k", "ff-fill", "a5-fill", "counting", "magic1-only", "magic1+junk",
	"last-state-copy-flipped-time", "last-state-copy-flipped-magic2",
	// stale blocks: several well-framed state records (magic1 ... magic2) whose
	// checksum does not match; repair's scanner sees each as a state that its
	// exponential-then-binary search has to classify as bad
	"2x-stale-state-record", "4x-stale-state-record",
	// the write of a few bytes at the cut never reached the disk but what was
	// written behind them did: the rest of the original file (up to its last state
	// record, without the shutdown marker) follows 8 inverted / 64 zeroed bytes
	"8-inverted-then-rest-of-file", "64-zeroed-then-rest-of-file"}

// restTail reports whether the tail kind keeps the original bytes behind the damage
func restTail(kind int) bool { return kind == 11 || kind == 12 }

func makeTail(kind int, base []byte, L int64, wl *workload) []byte {
	switch kind {
	case 0:
		return nil
	case 1:
		n := 4096 - L%4096
		return make([]byte, n)
	case 2:
		return bytes.Repeat([]byte{0xff}, 64)
	case 3:
		return bytes.Repeat([]byte{0xa5}, 64)
	case 4:
		t := make([]byte, 64)
		for i := range t {
			t[i] = byte(i + 1)
		}
		return t
	case 5:
		return append([]byte(nil), magic1...)
	case 6:
		t := append([]byte(nil), magic1...)
		for i := 0; i < 40; i++ {
			t = append(t, byte(0x30+i))
		}
		return t
	case 7, 8:
		e := wl.Ends[len(wl.Ends)-1]
		t := append([]byte(nil), base[e-stateLen:e]...)
		if kind == 7 {
			t[10] ^= 0x40 // time stamp: checksum no longer matches
		} else {
			t[stateLen-1] ^= 0x01 // last byte of magic2
		}
		return t
	case 9, 10:
		e := wl.Ends[len(wl.Ends)-1]
		n := 2
		if kind == 10 {
			n = 4
		}
		var t []byte
		for i := 0; i < n; i++ {
			r := append([]byte(nil), base[e-stateLen:e]...)
			r[10] ^= byte(0x40 >> i) // time stamp: checksum no longer matches
			t = append(t, r...)
			t = append(t, byte(0x61+i), byte(0x62+i), byte(0x63+i))
		}
		return t
	case 11, 12:
		end := wl.Ends[len(wl.Ends)-1]
		n := int64(8)
		if kind == 12 {
			n = 64
		}
		var t []byte
		for i := L; i < L+n && i < end; i++ {
			if kind == 11 {
				t = append(t, ^base[i])
			} else {
				t = append(t, 0)
			}
		}
		if L+n < end {
			t = append(t, base[L+n:end]...)
		}
		return t
	}
	panic("bad tail kind")
}

// ---------------------------------------------------------------- one case (runs in an executor process)

type caseID struct {
	Workload string `json:"workload"`
	L        int64  `json:"len"`
	Tail     int    `json:"tail"`
	TailName string `json:"tail_name"`
}

type fatalExit struct{ code int }

var logBuf bytes.Buffer

// call runs f and classifies how it ended.
type outcome struct {
	Err     string // returned error
	Panic   string // recovered panic text
	Runtime bool   // the panic was a Go runtime error
	Fatal   string // core.Fatal message (process exit requested)
}

func (o outcome) ok() bool { return o.Err == "" && o.Panic == "" && o.Fatal == "" }
func (o outcome) String() string {
	switch {
	case o.Fatal != "":
		return "fatal(" + o.Fatal + ")"
	case o.Panic != "" && o.Runtime:
		return "RUNTIME-PANIC(" + o.Panic + ")"
	case o.Panic != "":
		return "panic(" + o.Panic + ")"
	case o.Err != "":
		return "error(" + o.Err + ")"
	}
	return "ok"
}

var timing = map[string]time.Duration{}
var timingOn = os.Getenv("VERIF_C05_TIMING") != ""

func timed(name string) func() {
	if !timingOn {
		return func() {}
	}
	t := time.Now()
	return func() { timing[name] += time.Since(t) }
}

func call(f func() error) (o outcome) {
	logBuf.Reset()
	defer func() {
		if e := recover(); e != nil {
			if _, ok := e.(fatalExit); ok {
				o.Fatal = strings.TrimSpace(strings.TrimPrefix(lastLine(logBuf.String()), "FATAL:"))
				if o.Fatal == "" {
					o.Fatal = "exit"
				}
				return
			}
			o.Panic = lib.PanicText(e)
			o.Runtime = lib.IsRuntimeError(e)
		}
	}()
	if err := f(); err != nil {
		o.Err = err.Error()
	}
	return
}

func lastLine(s string) string {
	s = strings.TrimSpace(s)
	if i := strings.LastIndex(s, "FATAL:"); i >= 0 {
		return s[i:]
	}
	return ""
}

type verdict struct {
	Class   string `json:"class,omitempty"`
	Msg     string `json:"msg,omitempty"` // "" = case passed
	Outcome string `json:"outcome"`       // summary for the distinct-outcome statistics
}

var caseSeq int

// runCase materialises the damaged file and judges the recovery sequence.
func runCase(dir string, wl *workload, base []byte, id caseID) verdict {
	caseSeq++
	file := filepath.Join(dir, fmt.Sprintf("c%d.db", caseSeq)) // unique: a panic inside OpenDb leaks the locked descriptor
	tail := makeTail(id.Tail, base, id.L, wl)
	content := append(append([]byte(nil), base[:id.L]...), tail...)
	if err := os.WriteFile(file, content, 0o644); err != nil {
		lib.Infra("write case file: %v", err)
	}
	// CheckDatabase and Repair get their own copies of the damaged file: when a
	// step ends in a fatal exit (turned into a panic here) or a panic, the store
	// is not closed and its descriptor keeps the file lock - in production the
	// process would be gone; with a copy the next step is not affected
	fileC := strings.TrimSuffix(file, ".db") + "c.db"
	fileR := strings.TrimSuffix(file, ".db") + "r.db"
	os.WriteFile(fileC, content, 0o644)
	os.WriteFile(fileR, content, 0o644)
	os.WriteFile(fileR+".bak", nil, 0o644) // else Repair's RenameBak sleeps ~0.3 s
	defer func() {
		for _, f := range []string{file, fileC, fileR, fileR + ".bak"} {
			os.Remove(f)
		}
		if tmps, _ := filepath.Glob(filepath.Join(dir, "gs*.tmp")); len(tmps) > 0 {
			for _, t := range tmps {
				os.Remove(t)
			}
		}
	}()
	// expected: newest state completely inside the first L bytes
	want := -1
	for i, e := range wl.Ends {
		if e <= id.L {
			want = i
		}
	}
	// effective end after the store's trailing-zero stripping
	eff := int64(len(bytes.TrimRight(content, "\x00")))
	clean := false
	for _, mk := range wl.Markers {
		if eff == mk && mk <= id.L {
			clean = true
		}
	}
	fail := func(class, format string, a ...any) verdict {
		return verdict{Class: class, Msg: fmt.Sprintf(format, a...)}
	}
	observe := func(file, what string) (string, *verdict) {
		var obs *drive.Obs
		o := call(func() error {
			defer timed("reopen+observe")()
			db, err := db19.OpenDb(file, stor.Update, true)
			if err != nil {
				return err
			}
			obs = drive.Observe(db)
			db.Close()
			return nil
		})
		if !o.ok() {
			v := fail("", "%s: OpenDb: %s", what, o)
			return "", &v
		}
		if want < 0 && !restTail(id.Tail) {
			v := fail("", "%s: the file opens although no complete state lies within the first %d bytes", what, id.L)
			return "", &v
		}
		if restTail(id.Tail) {
			// the states behind the cut are still in the file: one of them may be
			// completely intact (the damaged bytes were slack, or belong to data that
			// the state no longer refers to), so any state from the expected one on is
			// a right answer - provided it reads exactly as that state and (below)
			// passes the full check
			for j := max(want, 0); j < len(wl.Models); j++ {
				if len(drive.CompareObs(obs, wl.Models[j], drive.CompareOpts{})) == 0 {
					if o := call(func() error { defer timed("fullcheck")(); return db19.CheckDatabase(file, true) }); !o.ok() {
						v := fail("", "%s: shows state %d but CheckDatabase(full): %s", what, j, o)
						return "", &v
					}
					return fmt.Sprintf("state%d+%d", want, j-want), nil
				}
			}
		}
		if want < 0 {
			v := fail("", "%s: the file opens but shows none of the persisted states", what)
			return "", &v
		}
		if d := drive.CompareObs(obs, wl.Models[want], drive.CompareOpts{}); len(d) > 0 {
			// which state does it show, if any?
			shows := "no persisted state"
			for i := range wl.Models {
				if len(drive.CompareObs(obs, wl.Models[i], drive.CompareOpts{})) == 0 {
					shows = fmt.Sprintf("state %d (ends at %d)", i, wl.Ends[i])
				}
			}
			v := fail("", "%s: contents are not those of the newest complete state %d (ends at %d <= %d); it shows %s: %s",
				what, want, wl.Ends[want], id.L, shows, strings.Join(d, "; "))
			return "", &v
		}
		if o := call(func() error { defer timed("fullcheck")(); return db19.CheckDatabase(file, true) }); !o.ok() {
			v := fail("", "%s: CheckDatabase(full): %s", what, o)
			return "", &v
		}
		return fmt.Sprintf("state%d", want), nil
	}

	// (a) open
	var openErr error
	op := call(func() error {
		defer timed("open")()
		db, err := db19.OpenDb(file, stor.Update, true)
		if err == nil {
			db.Close()
		}
		openErr = err
		return err
	})
	emptyFile := len(content) == 0
	if op.Runtime {
		class := ""
		if emptyFile && strings.Contains(op.Panic, "index out of range [0] with length 0") {
			class = classF5
		}
		return fail(class, "OpenDb: %s", op)
	}
	if op.Panic != "" {
		return fail("", "OpenDb panicked instead of returning an error: %s", op)
	}
	if clean {
		if !op.ok() {
			return fail("", "the file ends right behind the shutdown marker of a clean close (effective length %d) but OpenDb refuses it: %s", eff, op)
		}
		s, v := observe(file, "cleanly closed file")
		if v != nil {
			return *v
		}
		return verdict{Outcome: "clean:open-ok:" + s}
	}
	if op.ok() {
		return fail("", "OpenDb accepted a damaged file (effective length %d is not the end of a clean close)", eff)
	}
	validHeader := bytes.HasPrefix(content, []byte("gsndo004"))
	fatalOK := func(o outcome) bool { // the documented fatal refusal of a file without the database magic
		return !validHeader && (strings.Contains(o.Fatal, "not a valid database file") ||
			strings.Contains(o.Fatal, "unsupported database version"))
	}
	if op.Fatal != "" && !fatalOK(op) {
		return fail("", "OpenDb ended the process: %s", op)
	}
	summary := "refused"
	if op.Fatal != "" {
		summary = "fatal"
	}
	// (b) check + repair
	ck := call(func() error { defer timed("check")(); return db19.CheckDatabase(fileC, false) })
	if ck.Runtime || ck.Panic != "" {
		class := ""
		if emptyFile && strings.Contains(ck.Panic, "index out of range [0] with length 0") {
			class = classF5
		}
		return fail(class, "CheckDatabase: %s", ck)
	}
	if ck.ok() {
		return fail("", "CheckDatabase reports no error for a file that OpenDb refuses (%s)", op)
	}
	if ck.Fatal != "" && !fatalOK(ck) {
		return fail("", "CheckDatabase ended the process: %s", ck)
	}
	var repMsg string
	rp := call(func() error {
		defer timed("repair")()
		var err error
		repMsg, err = db19.Repair(fileR, openErr)
		return err
	})
	if rp.Runtime || rp.Panic != "" {
		class := ""
		switch {
		case emptyFile && strings.Contains(rp.Panic, "index out of range [0] with length 0"):
			class = classF5
		case want < 0 && validHeader && rp.Runtime && strings.Contains(rp.Panic, "index out of range [-1]"):
			class = classF4
		}
		return fail(class, "Repair: %s (newest complete state: %d)", rp, want)
	}
	if want < 0 {
		// no complete state: a clear refusal is the right answer
		if rp.ok() && restTail(id.Tail) {
			// a later state may be completely intact behind the damage
			s, v := observe(fileR, "after Repair ("+repMsg+")")
			if v != nil {
				return *v
			}
			return verdict{Outcome: summary + ":repaired:" + s}
		}
		if rp.ok() {
			return fail("", "Repair reports success (%s) although no complete state lies within the first %d bytes", repMsg, id.L)
		}
		if rp.Fatal != "" && !fatalOK(rp) {
			return fail("", "Repair ended the process: %s", rp)
		}
		return verdict{Outcome: summary + ":repair-" + map[bool]string{true: "fatal", false: "no-valid-states"}[rp.Fatal != ""]}
	}
	if !rp.ok() {
		return fail("", "Repair failed although state %d (ends at %d) lies completely within the first %d bytes: %s", want, wl.Ends[want], id.L, rp)
	}
	s, v := observe(fileR, "after Repair ("+repMsg+")")
	if v != nil {
		return *v
	}
	return verdict{Outcome: summary + ":repaired:" + s}
}

// ---------------------------------------------------------------- executor process

type job struct {
	Dir      string
	Workload *workload
	Cases    []caseID
}

func executorMain(jobFile string) {
	proto := os.NewFile(3, "proto")
	if proto == nil {
		os.Exit(9)
	}
	b, err := os.ReadFile(jobFile)
	if err != nil {
		fmt.Fprintln(os.Stderr, "executor:", err)
		os.Exit(9)
	}
	var j job
	if err := json.Unmarshal(b, &j); err != nil {
		fmt.Fprintln(os.Stderr, "executor:", err)
		os.Exit(9)
	}
	drive.Init()
	null, _ := os.OpenFile(os.DevNull, os.O_WRONLY, 0)
	os.Stdout = null // Repair prints its search steps
	os.Stderr = null
	log.SetOutput(&logBuf)
	log.SetFlags(0)
	core.Exit = func(code int) { panic(fatalExit{code}) }
	if err := os.Chdir(j.Dir); err != nil { // Repair creates its temp file in "."
		os.Exit(9)
	}
	base, err := os.ReadFile(j.Workload.Base)
	if err != nil {
		os.Exit(9)
	}
	w := bufio.NewWriter(proto)
	t0 := time.Now()
	defer func() {
		if timingOn {
			f, _ := os.OpenFile("/tmp/c05timing.txt", os.O_APPEND|os.O_CREATE|os.O_WRONLY, 0o644)
			fmt.Fprintln(f, len(j.Cases), "cases", time.Since(t0), timing)
			f.Close()
		}
	}()
	for i, id := range j.Cases {
		fmt.Fprintf(w, "S %d\n", i)
		w.Flush()
		done := timed("case")
		v := runCase(j.Dir, j.Workload, base, id)
		done()
		vb, _ := json.Marshal(v)
		fmt.Fprintf(w, "R %d %s\n", i, vb)
		w.Flush()
	}
	if timingOn {
		f, _ := os.OpenFile("/tmp/c05timing.txt", os.O_APPEND|os.O_CREATE|os.O_WRONLY, 0o644)
		fmt.Fprintln(f, len(j.Cases), "cases", time.Since(t0), timing)
		f.Close()
	}
	os.Exit(0)
}

// ---------------------------------------------------------------- parent side

const hangTimeout = 90 * time.Second

var batch = envInt("VERIF_C05_BATCH", 1500) // cases per executor process (every open maps 64 MiB that is never unmapped)

type runner struct {
	c   *lib.Ctx
	dir string
	seq int
}

// runBatch runs the cases in executor processes, restarting after a crash.
func (r *runner) runBatch(wl *workload, cases []caseID) {
	c := r.c
	for len(cases) > 0 && !c.Expired() {
		r.seq++
		jobFile := filepath.Join(r.dir, fmt.Sprintf("job%d.json", r.seq))
		jb, _ := json.Marshal(job{Dir: r.dir, Workload: wl, Cases: cases})
		os.WriteFile(jobFile, jb, 0o644)
		pr, pw, err := os.Pipe()
		if err != nil {
			lib.Infra("pipe: %v", err)
		}
		exe, _ := os.Executable()
		cmd := exec.Command(exe)
		cmd.Env = append(os.Environ(), "VERIF_C05_EXEC="+jobFile, "GOMAXPROCS=1")
		cmd.ExtraFiles = []*os.File{pw}
		var stderr bytes.Buffer
		cmd.Stderr = &stderr
		if err := cmd.Start(); err != nil {
			lib.Infra("start executor: %v", err)
		}
		pw.Close()
		started, done := -1, -1
		lines := make(chan string, 64)
		go func() {
			sc := bufio.NewScanner(pr)
			sc.Buffer(make([]byte, 1<<20), 1<<24)
			for sc.Scan() {
				lines <- sc.Text()
			}
			close(lines)
		}()
		hung := false
	read:
		for {
			select {
			case line, ok := <-lines:
				if !ok {
					break read
				}
				var i int
				if strings.HasPrefix(line, "S ") {
					fmt.Sscanf(line, "S %d", &i)
					started = i
				} else if strings.HasPrefix(line, "R ") {
					rest := line[2:]
					sp := strings.IndexByte(rest, ' ')
					fmt.Sscanf(rest[:sp], "%d", &i)
					var v verdict
					json.Unmarshal([]byte(rest[sp+1:]), &v)
					done = i
					r.account(cases[i], v)
				}
			case <-time.After(hangTimeout):
				// no progress for a very long time (a case takes milliseconds):
				// the recovery sequence hangs; get the goroutine dump and go on
				hung = true
				cmd.Process.Signal(syscall.SIGQUIT)
				time.Sleep(2 * time.Second)
				cmd.Process.Kill()
				break read
			}
		}
		pr.Close()
		werr := cmd.Wait()
		os.Remove(jobFile)
		if done == len(cases)-1 {
			return
		}
		if hung && started > done {
			class := ""
			if dump := stderr.String(); strings.Contains(dump, "(*scanner).getUpTo") && strings.Contains(dump, "sync.(*Cond).Wait") {
				// repair.go scanner: done is set and the condition signalled without
				// holding the lock, so getUpTo can miss the last wakeup (a race, seen
				// only under heavy machine load)
				class = classHang
			}
			r.account(cases[started], verdict{Class: class, Msg: fmt.Sprintf("the recovery sequence did not terminate within %v; goroutine dump: %s",
				hangTimeout, headStr(stderr.String(), 9000))})
			cases = cases[started+1:]
			continue
		}
		// the executor died
		if started <= done {
			lib.Infra("executor died outside a case: %v\n%s", werr, tailStr(stderr.String(), 3000))
		}
		id := cases[started]
		r.account(id, verdict{Msg: fmt.Sprintf("the process died during the recovery sequence (%v): %s", werr,
			firstLines(stderr.String(), 40))})
		cases = cases[started+1:]
		// leftovers of the dead executor
		if fs, _ := filepath.Glob(filepath.Join(r.dir, "c*.db*")); len(fs) > 0 {
			for _, f := range fs {
				os.Remove(f)
			}
		}
	}
}

func nearBoundary(wl *workload, L int64) bool {
	near := func(x int64) bool { return L >= x-44 && L <= x+12 }
	if L < 64 || near(wl.Size) {
		return true
	}
	for _, e := range wl.Ends {
		if near(e) {
			return true
		}
	}
	for _, m := range wl.Markers {
		if near(m) {
			return true
		}
	}
	for p := int64(4096); p <= wl.Size+4096; p += 4096 {
		if near(p) {
			return true
		}
	}
	return false
}

func envInt(name string, def int) int {
	var n int
	if _, err := fmt.Sscanf(os.Getenv(name), "%d", &n); err == nil && n > 0 {
		return n
	}
	return def
}

func tailStr(s string, n int) string {
	if len(s) > n {
		return s[len(s)-n:]
	}
	return s
}

func firstLines(s string, n int) string {
	ls := strings.Split(strings.TrimSpace(s), "\n")
	if len(ls) > n {
		ls = ls[:n]
	}
	return strings.Join(ls, " | ")
}

func (r *runner) account(id caseID, v verdict) {
	c := r.c
	c.Eval(1)
	if v.Msg == "" {
		c.Distinct(id.Workload + ":" + id.TailName + ":" + v.Outcome)
		c.Count("outcome_"+v.Outcome[:strings.IndexAny(v.Outcome+":", ":")], 1)
		return
	}
	if v.Class != "" && strings.Contains(","+os.Getenv("VERIF_ASSUME_KNOWN")+",", ","+v.Class+",") {
		c.Count("assumed_known_"+v.Class, 1) // development aid, see C04
		return
	}
	c.Fail(v.Class, id, "workload %s, file cut at %d of its bytes, tail %s: %s", id.Workload, id.L, id.TailName, v.Msg)
}

func run(c *lib.Ctx) {
	defer drive.Quiet()()
	dir := fmt.Sprintf("/dev/shm/verif-c05-%d", os.Getpid())
	os.RemoveAll(dir)
	if err := os.MkdirAll(dir, 0o755); err != nil {
		lib.Infra("scratch: %v", err)
	}
	defer os.RemoveAll(dir)
	r := &runner{c: c, dir: dir}
	specs := workloadSpecs(!c.Quick())
	total := 0
	for _, sp := range specs {
		var wl *workload
		if e := lib.Try(func() { wl = buildWorkload(dir, sp) }); e != nil {
			if wf, ok := e.(workloadFailed); ok {
				c.Fail("", caseID{Workload: sp.Name, L: -1}, "%s", string(wf))
				return
			}
			panic(e)
		}
		if c.Shard == 0 {
			c.Set("workload_"+wl.Name, map[string]any{"events": wl.Events, "file_size": wl.Size, "state_record_ends": wl.Ends,
				"clean_close_ends": wl.Markers})
		}
		c.Distinct(fmt.Sprintf("%s-size-%d-ends-%v", wl.Name, wl.Size, wl.Ends))
		var cases []caseID
		for L := int64(0); L <= wl.Size; L++ {
			if int(L)%c.NShards != c.Shard {
				continue
			}
			for t := range tailNames {
				// quick tier: the full tail alphabet only near the boundaries (file
				// start, state record ends, clean-close ends, 4 KiB page ends, file
				// end); elsewhere absent / 0xFF fill / state magic alone
				if restTail(t) && L >= wl.Ends[len(wl.Ends)-1] {
					continue // nothing behind the cut
				}
				if c.Quick() && !nearBoundary(wl, L) && t != 0 && t != 2 && t != 5 && t != 11 {
					continue
				}
				cases = append(cases, caseID{Workload: wl.Name, L: L, Tail: t, TailName: tailNames[t]})
			}
		}
		total += len(cases)
		for len(cases) > 0 && !c.Expired() {
			n := batch
			if n > len(cases) {
				n = len(cases)
			}
			r.runBatch(wl, cases[:n])
			cases = cases[n:]
		}
		if c.Expired() {
			c.Cap("stopped in workload %s", wl.Name)
			break
		}
		os.Remove(wl.Base)
	}
	c.Nontrivial(0)
	if c.Shard == 0 {
		c.Set("workloads", len(specs))
		c.Set("tail_kinds", tailNames)
		c.Sample(map[string]any{"case": "every length L of every workload file x every tail kind",
			"example": "workload w1 cut at L=ends[1]+3 with tail ff-fill: OpenDb refuses, CheckDatabase errors, Repair truncates to state 1, contents = model at persist 1"})
	}
}

func replay(c *lib.Ctx, raw json.RawMessage) {
	defer drive.Quiet()()
	var id caseID
	if err := json.Unmarshal(raw, &id); err != nil {
		lib.Infra("bad case: %v", err)
	}
	dir := fmt.Sprintf("/dev/shm/verif-c05-%d", os.Getpid())
	os.RemoveAll(dir)
	os.MkdirAll(dir, 0o755)
	defer os.RemoveAll(dir)
	r := &runner{c: c, dir: dir}
	thorough := c.Tier == "thorough"
	for _, sp := range workloadSpecs(thorough) {
		if sp.Name == id.Workload {
			wl := buildWorkload(dir, sp)
			r.runBatch(wl, []caseID{id})
		}
	}
}

func main() {
	if jf := os.Getenv("VERIF_C05_EXEC"); jf != "" {
		executorMain(jf)
		return
	}
	_ = io.Discard
	lib.Main(lib.Spec{
		ID:    "C05",
		Level: "fault_enumeration",
		Rule: "every truncation length L in [0,size] of every workload file x 9 tail kinds; each case = OpenDb, CheckDatabase, Repair, OpenDb, compare with the reference model at the newest complete state, CheckDatabase(full); " +
			"evaluations = cases; distinct = distinct (workload, tail kind, outcome class) combinations (hashed)",
		Assumptions: []string{
			"crash model: the file ends at an arbitrary byte with an absent / zero / garbage tail (property quantifier); page-granular reordered write-back (holes before a valid tail) is not modeled",
			"a file that, after the store's trailing-zero stripping, ends right behind the shutdown marker of a clean close is a clean database and must open",
			"the documented fatal exit for files shorter than the 8 byte magic counts as a clear refusal",
			"reference model verif/model/dbmodel snapshotted at every persist point; state record layout (36 bytes) is harness knowledge, verified against the file",
		},
		QuickBudget: 70, ThoroughBudget: 900,
		Procs: 16, ProcMaxProcs: 2,
		Run: run, Replay: replay,
	})
}

func headStr(s string, n int) string {
	if len(s) > n {
		return s[:n]
	}
	return s
}
