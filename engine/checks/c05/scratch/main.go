package main

import (
	"fmt"
	"os"
	"time"

	"github.com/apmckinlay/gsuneido/db19"
	"verif/model/dbmodel"
	"verif/model/dbmodel/drive"
)

func main() {
	dir := fmt.Sprintf("/dev/shm/verif-c05s-%d", os.Getpid())
	os.MkdirAll(dir, 0o755)
	defer os.RemoveAll(dir)
	os.Chdir(dir)
	s, _ := drive.NewFile(dir + "/base.db")
	s.Apply(drive.Admin(dbmodel.Req{Kind: "create", Table: "a", Cols: []string{"k"}, Idx: []dbmodel.Index{{Mode: 'k', Cols: []string{"k"}}}}))
	s.Apply(drive.Tx(dbmodel.RowOp{Kind: "insert", Table: "a", Row: map[string]string{"k": "1"}}))
	s.Apply(drive.Persist())
	s.Close()
	b, _ := os.ReadFile(dir + "/base.db")
	for len(b) > 0 && b[len(b)-1] == 0 {
		b = b[:len(b)-1]
	}
	null, _ := os.OpenFile(os.DevNull, os.O_WRONLY, 0)
	os.Stdout = null
	cut := b[:len(b)-3]
	t0 := time.Now()
	for i := 0; i < 200000; i++ {
		f := fmt.Sprintf("%s/c%d.db", dir, i)
		os.WriteFile(f, cut, 0o644)
		os.WriteFile(f+".bak", nil, 0o644)
		done := make(chan struct{})
		go func() {
			db19.Repair(f, nil)
			close(done)
		}()
		select {
		case <-done:
		case <-time.After(20 * time.Second):
			fmt.Fprintln(os.Stderr, "HANG at iteration", i, "after", time.Since(t0))
			panic("hang")
		}
		os.Remove(f)
		os.Remove(f + ".bak")
		if time.Since(t0) > 150*time.Second {
			fmt.Fprintln(os.Stderr, "no hang in", i, "iterations")
			return
		}
	}
}
