// C16 Background merge and persist never lose or duplicate committed changes. See verif/txpipe.
package main

import "verif/txpipe"

func main() {
	txpipe.Main(txpipe.CheckDef{
		ID:         "C16",
		Groups:     []string{"merge", "idx"},
		Oracles:    txpipe.Oracles{MergePersist: true},
		QuickBound: 1, ThoroughBound: 2,
		Rule: "Oracle: the real merger, merge list batching, merge workers, persist workers, persist ticker and forced persists run concurrently with committers; every published state (after commit, merge or persist) must equal the reference model after a prefix of the commits, with Info row/size bookkeeping (btree + layer deltas) consistent; after the final persist everything is merged, the database's own full check passes and the content equals the model.",
	})
}
