// C22 Query results do not depend on optimization or strategy.
//
// Enumerated: every query of operator depth <= 2 (thorough: larger parameter
// sets and a restricted depth 3) over a small schema designed to trigger each
// strategy, written as query text and parsed by the real parser; four content
// variants per schema (empty / distinct / duplicates with empty strings /
// mixed); every mode (read, update, cursor) and, in read mode, every
// requirement the optimizer interface offers (none, order / group on every
// index prefix, unique on every key index); for each of those the optimizer's
// decisions: the minimum-cost plan under each knob setting (join reversal
// off, temp indexes discouraged, three table-statistics profiles) and, through
// the randomBest seam, a depth-first enumeration of the answers of
// best.update up to a deviation bound from both defaults. Every distinct
// strategy is executed forwards and backwards.
//
// Oracle: package qm, a relational evaluator over Go slices that implements
// the documented meaning of each operator on the query as written (never on
// the transformed tree). Cases whose result the documentation leaves open
// (ordering of "" against non-strings, expressions that throw) are not judged.
// The implementation's own Simple() on the untransformed tree is compared
// with the model as a cross-check of the model.
package main

import (
	"encoding/json"
	"fmt"
	"os"
	"runtime/pprof"
	"sort"
	"strings"

	_ "github.com/apmckinlay/gsuneido/builtin"
	"github.com/apmckinlay/gsuneido/core"
	qry "github.com/apmckinlay/gsuneido/dbms/query"

	"verif/checks/c22/qh"
	"verif/checks/c22/qm"
	"verif/lib"
)

type failCase struct {
	Variant string      `json:"variant"`
	Text    string      `json:"query"`
	Q       *qm.Q       `json:"ast"`
	Plan    qh.PlanCase `json:"plan"`
	What    string      `json:"what"`
}

type checker struct {
	c      *lib.Ctx
	envs   map[string]*qh.Env
	minB   int
	sample int
}

func newChecker(c *lib.Ctx) *checker {
	ck := &checker{c: c, envs: map[string]*qh.Env{}, minB: 99}
	for name, m := range qm.Variants() {
		ck.envs[name] = qh.NewEnv(name, m)
	}
	return ck
}

var (
	kNone  = qh.Knobs{}
	kFuzz  = qh.Knobs{NoJoinRev: true, NoTempIdx: true} // the settings of the repo's fuzz test
	kNoRev = qh.Knobs{NoJoinRev: true}
	kNoTI  = qh.Knobs{NoTempIdx: true}
	kBig   = qh.Knobs{Stats: "big"}
	kSkewA = qh.Knobs{Stats: "skewA"}
	kSkewB = qh.Knobs{Stats: "skewB"}
)

// effort decides how much of the decision space is enumerated for a
// (mode, requirement): most for the plain read that Setup performs.
func (ck *checker) effort(q *qm.Q, mode qry.Mode, r qh.Req) qh.Effort {
	quick := ck.c.Quick()
	var ef qh.Effort
	plain := mode == qry.ReadMode && r.Use == "none"
	switch {
	case plain && quick:
		ef = qh.Effort{MinCost: []qh.Knobs{kNone, kFuzz, kNoRev, kNoTI, kBig, kSkewA, kSkewB},
			Seam: []qh.Knobs{kNone, kFuzz}, Bound: 1, MaxRuns: 24}
	case plain:
		ef = qh.Effort{MinCost: []qh.Knobs{kNone, kFuzz, kNoRev, kNoTI, kBig, kSkewA, kSkewB},
			Seam: []qh.Knobs{kNone, kFuzz, kBig}, Bound: 2, MaxRuns: 100}
	case mode == qry.ReadMode && quick:
		ef = qh.Effort{MinCost: []qh.Knobs{kNone, kNoTI, kBig}, Seam: []qh.Knobs{kNone}, Bound: 0}
	case mode == qry.ReadMode:
		ef = qh.Effort{MinCost: []qh.Knobs{kNone, kFuzz, kNoRev, kNoTI, kBig, kSkewA, kSkewB},
			Seam: []qh.Knobs{kNone, kFuzz}, Bound: 1, MaxRuns: 30}
	case quick:
		ef = qh.Effort{MinCost: []qh.Knobs{kNone, kFuzz}, Seam: []qh.Knobs{kNone}, Bound: 0}
	default:
		ef = qh.Effort{MinCost: []qh.Knobs{kNone, kFuzz, kNoRev, kNoTI, kBig, kSkewB},
			Seam: []qh.Knobs{kNone}, Bound: 1, MaxRuns: 24}
	}
	if qm.Count1(q) {
		// a bare "summarize count" is answered from the table statistics, so
		// scaled statistics would change its documented result
		strip := func(ks []qh.Knobs) []qh.Knobs {
			var out []qh.Knobs
			for _, k := range ks {
				if k.Stats == "" {
					out = append(out, k)
				}
			}
			return out
		}
		ef.MinCost, ef.Seam = strip(ef.MinCost), strip(ef.Seam)
	}
	return ef
}

// reqs lists the requirements to prepare the query under in read mode: as in
// the repo's fuzz test, order/group columns come from the indexes the query
// reports and unique columns from its key indexes.
func reqs(pq qry.Query, isSort bool) []qh.Req {
	out := []qh.Req{{Use: "none"}}
	if isSort {
		return out
	}
	seen := map[string]bool{}
	add := func(r qh.Req) {
		if len(r.Cols) == 0 {
			return
		}
		k := r.String()
		if !seen[k] {
			seen[k] = true
			out = append(out, r)
		}
	}
	idxs := pq.Indexes()
	if len(idxs) == 1 && len(idxs[0]) == 0 {
		return out
	}
	for _, ix := range idxs {
		for n := 1; n <= len(ix); n++ {
			add(qh.Req{Use: "order", Cols: ix[:n]})
		}
		add(qh.Req{Use: "group", Cols: ix})
		for _, key := range pq.Keys() {
			if qh.SameCols(ix, key) {
				add(qh.Req{Use: "unique", Cols: ix})
			}
		}
	}
	return out
}

func (ck *checker) fail(env *qh.Env, q *qm.Q, pc qh.PlanCase, what, format string, a ...any) {
	msg := fmt.Sprintf(format, a...)
	class := ""
	switch what {
	case "rows", "columns-optimized":
		class = env.Classify(q)
	case "read":
		class = qh.ClassifyPanic(msg)
	case "columns-grew-minmax":
		class = qm.ClassWholeRowFlips
	}
	if triage != nil {
		what += ":" + class
		// development aid (VERIF_TRIAGE=file prefix): log every failure instead of stopping at five
		fmt.Fprintf(triage, "[%s] %s | db=%s | %s | %s\n", what, q.Text(), env.Name, pc, msg)
		return
	}
	if class != "" && os.Getenv("VERIF_DEV_KNOWN") != "" {
		// development aid: behave as if the classes were listed in KNOWN_FINDINGS
		ck.c.Count("dev_known:"+class, 1)
		return
	}
	ck.c.Fail(class, failCase{Variant: env.Name, Text: q.Text(), Q: q, Plan: pc, What: what},
		"[%s] %s | db=%s | %s | %s", what, q.Text(), env.Name, pc, msg)
}

// checkCase judges one (query, content variant).
func (ck *checker) checkCase(env *qh.Env, q *qm.Q, only *qh.PlanCase) {
	c := ck.c
	text := q.Text()
	exp, err := env.Model.Eval(q)
	if err != nil {
		if _, ok := err.(*qm.Ambiguous); ok {
			c.Count("undecided_by_documentation", 1)
			return
		}
		if _, perr := env.ParseOnly(text); perr == nil {
			c.Count("model_invalid_but_parsed", 1)
			c.Note("model says invalid (%v) but the parser accepts: %s", err, text)
		}
		c.Count("invalid", 1)
		return
	}
	pq, err := env.ParseOnly(text)
	if err != nil {
		c.Count("rejected_by_parser", 1)
		if c.NSamples() < 8 {
			c.Note("parser rejects %q: %v", text, err)
		}
		return
	}
	if !qh.SameCols(pq.Columns(), exp.Cols) {
		if qm.MinMax1(q) {
			// whether an overall min/max returns the whole record depends on
			// the key inference of the implementation: shape not modelled
			c.Count("minmax_shape_not_modelled", 1)
			return
		}
		ck.fail(env, q, qh.PlanCase{}, "columns", "columns %v, expected %v", pq.Columns(), exp.Cols)
		return
	}
	_, isSort := pq.(*qry.Sort)
	if only == nil {
		// cross-check of the model: Simple() of the untransformed tree
		srows, err := env.Simple(text, exp.Cols)
		if err != nil {
			ck.fail(env, q, qh.PlanCase{}, "simple", "%v", err)
		} else if m := qh.CompareRows(exp, srows, core.Next); m != "" {
			ck.fail(env, q, qh.PlanCase{}, "model-vs-simple", "Simple() of the untransformed tree disagrees with the model: %s", m)
		}
		c.Eval(1)
	}
	undecidedAtSetup := false
	visit := func(pc qh.PlanCase, p *qh.Prepared, err error) {
		if err != nil {
			undecidedAtSetup = undecidedAtSetup || strings.Contains(err.Error(), "cannot do math on String literal")
			if pc.Knobs.Stats != "" {
				// cost arithmetic can overflow under the scaled statistics
				// (assertion in the optimizer): not a result, not judged
				c.Count("setup_panic_under_scaled_statistics", 1)
				return
			}
			if strings.Contains(err.Error(), "cannot do math on String literal") {
				// a where/extend with arithmetic on a column that one side of a
				// union does not have is rewritten with "" for that column and
				// refused by the constant folder: an expression error, which the
				// model leaves undecided (it only sees it when there are rows)
				c.Count("undecided_expression_error_at_setup", 1)
				return
			}
			ck.fail(env, q, pc, "setup", "%v", err)
			return
		}
		if !qh.SameCols(p.Cols, exp.Cols) {
			if qm.MinMax1(q) && env.Classify(q) == "" && subset(exp.Cols, p.Cols) {
				ck.fail(env, q, pc, "columns-grew-minmax", "optimized query has columns %v, as written %v (%s)", p.Cols, exp.Cols, p.Strategy)
				return
			}
			ck.fail(env, q, pc, "columns-optimized", "optimized query has columns %v, expected %v (%s)", p.Cols, exp.Cols, p.Strategy)
			return
		}
		for _, dir := range []core.Dir{core.Next, core.Prev} {
			rows, err := p.ReadAll(env.Th, dir)
			if err != nil {
				ck.fail(env, q, pc, "read", "%v reading %c; strategy: %s", err, dir, p.Strategy)
				return
			}
			got, err := qh.Rows(p, rows, exp.Cols, env.Th)
			if err != nil {
				ck.fail(env, q, pc, "values", "%v; strategy: %s", err, p.Strategy)
				return
			}
			c.Eval(1)
			if m := qh.CompareRows(exp, got, dir); m != "" {
				ck.fail(env, q, pc, "rows", "reading %c: %s; strategy: %s", dir, m, p.Strategy)
				return
			}
		}
		c.Count("strategies_executed", 1)
		if len(exp.Rows) > 0 {
			c.Nontrivial(1)
		}
		c.Distinct(stratShape(p.Strategy))
		if ck.sample%4001 == 0 {
			c.Sample(map[string]any{"query": text, "db": env.Name, "plan": pc.String(),
				"strategy": p.Strategy, "rows": len(exp.Rows)})
		}
		ck.sample++
	}
	if only != nil {
		p, err := env.Prepare(text, qh.ParseMode(only.Mode), only.Req, only.Knobs, only.Choices)
		if err == qh.ErrImpossible {
			return
		}
		visit(*only, p, err)
		if p != nil {
			p.Close()
		}
		return
	}
	for _, mode := range []qry.Mode{qry.ReadMode, qry.UpdateMode, qry.CursorMode} {
		rs := []qh.Req{{Use: "none"}}
		if mode == qry.ReadMode {
			rs = reqs(pq, isSort)
		}
		for _, r := range rs {
			st := env.ExplorePlans(text, mode, r, ck.effort(q, mode, r), visit)
			c.Count("optimizer_runs", st.Runs)
			if st.Distinct == 0 {
				c.Count("no_plan:"+qh.ModeName(mode)+":"+r.Use, 1)
				if r.Use == "none" && mode != qry.CursorMode && !undecidedAtSetup {
					ck.fail(env, q, qh.PlanCase{Mode: qh.ModeName(mode), Req: r}, "impossible",
						"no plan at all for a plain read")
				}
			}
			if mode == qry.ReadMode && r.Use == "none" {
				if st.Bound < ck.minB {
					ck.minB = st.Bound
				}
				c.Count(fmt.Sprintf("plain_read_seam_bound_%d", st.Bound), 1)
			}
			if st.Capped {
				c.Count("seam_search_capped", 1)
			}
		}
	}
	c.Count("cases_judged", 1)
}

func subset(a, b []string) bool {
	for _, x := range a {
		found := false
		for _, y := range b {
			if x == y {
				found = true
			}
		}
		if !found {
			return false
		}
	}
	return true
}

// stratShape reduces a strategy string to its operator/strategy skeleton
// (identifiers and constants removed) for the distinct-outcome counter.
func stratShape(s string) string {
	var sb strings.Builder
	for _, w := range strings.Fields(s) {
		switch {
		case strings.ContainsAny(w, "^"):
			sb.WriteString("T^ ")
		case strings.HasPrefix(w, "project") || strings.HasPrefix(w, "summarize") ||
			strings.HasPrefix(w, "union") || strings.HasPrefix(w, "join") ||
			strings.HasPrefix(w, "leftjoin") || strings.HasPrefix(w, "semijoin") ||
			strings.HasPrefix(w, "tempindex") || strings.HasPrefix(w, "where") ||
			w == "intersect" || w == "minus" || w == "times" || w == "extend" || w == "rename" ||
			w == "1:1" || w == "1:n" || w == "n:1" || w == "n:n" || w == "reverse":
			sb.WriteString(w + " ")
		}
	}
	return sb.String()
}

// work is one query with the content variants it is run on.
type work struct {
	q        *qm.Q
	variants []string
}

func queries(c *lib.Ctx) []work {
	var out []work
	all := qm.VariantNames
	{
		g := &qm.Gen{DB: qm.Variants()["small"]}
		d1, d2 := g.QuickQueries()
		for _, q := range d1 {
			out = append(out, work{q, all})
			for _, sq := range g.Sorts(q) {
				out = append(out, work{sq, all})
			}
		}
		for k, q := range d2 {
			// depth 2 in the quick tier: not on the empty database, and one of
			// the sort variants for every third query, by position
			out = append(out, work{q, all[:3]})
			if ss := g.Sorts(q); k%3 == 0 && len(ss) > 0 {
				out = append(out, work{ss[(k/3)%len(ss)], all[:3]})
			}
		}
		if c.Quick() {
			return out
		}
	}
	// thorough: the quick set first, then the complete depth-2 enumeration with
	// the rich / normal parameter sets, all sorts, all contents
	g := &qm.Gen{DB: qm.Variants()["small"], Outer: 2, Inner: 1}
	for _, q := range g.Queries(2) {
		out = append(out, work{q, all})
		for _, sq := range g.Sorts(q) {
			out = append(out, work{sq, all})
		}
	}
	return out
}

var triage *os.File

func run(c *lib.Ctx) {
	if pf := os.Getenv("VERIF_PROF"); pf != "" && c.Shard == 0 {
		f, _ := os.Create(pf)
		pprof.StartCPUProfile(f)
		defer pprof.StopCPUProfile()
	}
	if pre := os.Getenv("VERIF_TRIAGE"); pre != "" {
		triage, _ = os.Create(fmt.Sprintf("%s-%d.txt", pre, c.Shard))
		defer triage.Close()
	}
	ck := newChecker(c)
	qs := queries(c)
	c.Set("queries_enumerated", len(qs))
	c.Set("content_variants", qm.VariantNames)
	for k, w := range qs {
		if k%c.NShards != c.Shard {
			continue
		}
		if c.Expired() {
			c.Cap("stopped at query %d of %d", k, len(qs))
			break
		}
		for _, vn := range w.variants {
			ck.checkCase(ck.envs[vn], w.q, nil)
		}
	}
	c.Set("seam_deviation_bound_completed_min", ck.minB)
}

func replay(c *lib.Ctx, raw json.RawMessage) {
	var fc failCase
	if err := json.Unmarshal(raw, &fc); err != nil {
		lib.Infra("bad case: %v", err)
	}
	ck := newChecker(c)
	env := ck.envs[fc.Variant]
	if env == nil {
		lib.Infra("unknown variant %q", fc.Variant)
	}
	var only *qh.PlanCase
	if fc.Plan.Mode != "" && fc.What != "impossible" {
		only = &fc.Plan
	}
	ck.checkCase(env, fc.Q, only)
}

func main() {
	_ = sort.Strings
	lib.Main(lib.Spec{
		ID:    "C22",
		Level: "exploration",
		Rule: "every query text of operator depth <= 2 over the 5-table+view schema x 4 content variants x modes (read/update/cursor) x requirements " +
			"(none; in read mode order/group on every reported index prefix, unique on key indexes) x optimizer decisions (min-cost under 7 knob settings; " +
			"randomBest seam answers by DFS to the reported deviation bound from both defaults) x read direction; evaluations = result sets judged " +
			"(+1 per case for the Simple() cross-check); distinct = distinct strategy skeletons executed + cases (query, contents, strategy) with a non-empty expected result",
		Assumptions: []string{
			"oracle: own relational evaluator (package qm) on the query as written; expression semantics of the language for the small operator set used",
			"not judged: cases where an ordering comparison meets '' and a non-string, or an expression would throw (documented exception / strategy dependent evaluation)",
			"overall min/max of a key returns the whole record: modelled only directly on a base table; other shapes skipped",
			"table statistics profiles only scale Nrows/Size seen by the optimizer (as the repo's sizeTran test helper); not used for bare 'summarize count'",
			"values: integers, strings, '' and booleans; no negative decimals (F1 is C13's subject)",
		},
		QuickBudget: 60, ThoroughBudget: 840,
		Procs: 16,
		Run:   run, Replay: replay,
	})
}
