package qm

import (
	"fmt"
	"sort"
	"strconv"
)

// TableDef is a table of the model database: schema and contents.
type TableDef struct {
	Name    string
	Cols    []string
	Keys    [][]string // key(...) indexes; an empty list entry is the empty key
	Indexes [][]string // index(...) (non-unique)
	Uniques [][]string // index unique(...): unique among the non-empty values
	Rows    [][]Val    // parallel to Cols
}

// DB is the model database.
type DB struct {
	Tables map[string]*TableDef
	Views  map[string]*Q // name -> definition
	Order  []string      // table creation order
}

// Schema renders the create statement of a table.
func (t *TableDef) Schema() string {
	s := "create " + t.Name + " (" + join(t.Cols) + ")"
	for _, k := range t.Keys {
		s += " key(" + join(k) + ")"
	}
	for _, ix := range t.Indexes {
		s += " index(" + join(ix) + ")"
	}
	for _, ix := range t.Uniques {
		s += " index unique(" + join(ix) + ")"
	}
	return s
}

func join(list []string) string {
	s := ""
	for i, x := range list {
		if i > 0 {
			s += ","
		}
		s += x
	}
	return s
}

// Ambiguous is returned (as an error) when the documented semantics do not
// determine the result, so no verdict can be given for the case:
//   - an ordering comparison between the empty string and a non-string (the
//     documented exception: on stored encodings "" sorts first, in the
//     language it sorts with the strings);
//   - an expression that would throw in the language (arithmetic on a
//     non-number, a non-boolean condition): whether a row is evaluated at all
//     depends on the strategy;
//   - total over a non-numeric value.
type Ambiguous struct{ Why string }

func (a *Ambiguous) Error() string { return "ambiguous: " + a.Why }

func amb(format string, a ...any) error { return &Ambiguous{fmt.Sprintf(format, a...)} }

// Invalid is returned when the query is not a legal query (wrong columns).
type Invalid struct{ Why string }

func (a *Invalid) Error() string { return "invalid: " + a.Why }

func inval(format string, a ...any) error { return &Invalid{fmt.Sprintf(format, a...)} }

// EvalExpr evaluates an expression on a row with the language semantics.
func EvalExpr(e *E, get func(col string) (Val, bool)) (Val, error) {
	switch e.Op {
	case "col":
		v, ok := get(e.Col)
		if !ok {
			return Empty, inval("no column %s", e.Col)
		}
		return v, nil
	case "const":
		return e.Val, nil
	}
	args := make([]Val, len(e.Args))
	for i, a := range e.Args {
		// all operands are evaluated: an error/ambiguity in a part that the
		// language would skip by short-circuit still makes the case undecided,
		// because the engine may evaluate the parts separately.
		v, err := EvalExpr(a, get)
		if err != nil {
			return Empty, err
		}
		args[i] = v
	}
	switch e.Op {
	case "is":
		return Bool(args[0] == args[1]), nil
	case "isnt":
		return Bool(args[0] != args[1]), nil
	case "<", "<=", ">", ">=":
		c, err := cmpLang(args[0], args[1])
		if err != nil {
			return Empty, err
		}
		switch e.Op {
		case "<":
			return Bool(c < 0), nil
		case "<=":
			return Bool(c <= 0), nil
		case ">":
			return Bool(c > 0), nil
		}
		return Bool(c >= 0), nil
	case "and", "or":
		res := e.Op == "and"
		for _, a := range args {
			if a.K != KBool {
				return Empty, amb("%s of non-boolean %s", e.Op, a)
			}
			if e.Op == "and" {
				res = res && a.I == 1
			} else {
				res = res || a.I == 1
			}
		}
		return Bool(res), nil
	case "not":
		if args[0].K != KBool {
			return Empty, amb("not of non-boolean %s", args[0])
		}
		return Bool(args[0].I == 0), nil
	case "in":
		for _, a := range args[1:] {
			if a == args[0] {
				return Bool(true), nil
			}
		}
		return Bool(false), nil
	case "+", "-", "*":
		res := int64(0)
		for i, a := range args {
			if a.K != KInt {
				return Empty, amb("arithmetic on non-number %s", a)
			}
			if a.I > 1<<30 || a.I < -(1<<30) {
				return Empty, amb("large number")
			}
			switch {
			case i == 0:
				res = a.I
			case e.Op == "+":
				res += a.I
			case e.Op == "-":
				res -= a.I
			default:
				res *= a.I
			}
		}
		return Int(res), nil
	case "$":
		s := ""
		for _, a := range args {
			switch a.K {
			case KStr:
				s += a.S
			case KInt:
				s += strconv.FormatInt(a.I, 10)
			default:
				return Empty, amb("concatenation of boolean")
			}
		}
		return Str(s), nil
	case "?:":
		if args[0].K != KBool {
			return Empty, amb("?: on non-boolean")
		}
		if args[0].I == 1 {
			return args[1], nil
		}
		return args[2], nil
	}
	return Empty, inval("unknown operator %s", e.Op)
}

// cmpLang is the language ordering: booleans < numbers < strings, except
// that the position of "" relative to non-strings is undecided.
func cmpLang(x, y Val) (int, error) {
	if x.K != y.K && (x.IsEmpty() || y.IsEmpty()) {
		return 0, amb("ordering of '' against %s", map[bool]Val{true: y, false: x}[x.IsEmpty()])
	}
	rank := func(v Val) int {
		switch v.K {
		case KBool:
			return 0
		case KInt:
			return 1
		}
		return 2
	}
	if rank(x) != rank(y) {
		return sgn(rank(x) - rank(y)), nil
	}
	return CmpStored(x, y), nil
}

// Result of evaluating a query.
type Result struct {
	Rel
	// SortCols/Reverse: the required output order ("" if the query has no sort).
	SortCols []string
	Reverse  bool
}

// Eval evaluates the query on the model database.
func (db *DB) Eval(q *Q) (*Result, error) {
	if q.Op == "sort" {
		r, err := db.eval(q.Src)
		if err != nil {
			return nil, err
		}
		for _, c := range q.Cols {
			if r.Col(c) < 0 {
				return nil, inval("sort: no column %s", c)
			}
		}
		return &Result{Rel: *r, SortCols: q.Cols, Reverse: q.Reverse}, nil
	}
	r, err := db.eval(q)
	if err != nil {
		return nil, err
	}
	return &Result{Rel: *r}, nil
}

func has(list []string, s string) bool {
	for _, x := range list {
		if x == s {
			return true
		}
	}
	return false
}

func (db *DB) eval(q *Q) (*Rel, error) {
	switch q.Op {
	case "table":
		if v, ok := db.Views[q.Name]; ok {
			return db.eval(v)
		}
		t, ok := db.Tables[q.Name]
		if !ok {
			return nil, inval("no table %s", q.Name)
		}
		return &Rel{Cols: t.Cols, Rows: t.Rows}, nil
	case "sort":
		return nil, inval("sort must be the last operation")
	}
	src, err := db.eval(q.Src)
	if err != nil {
		return nil, err
	}
	var src2 *Rel
	if q.Src2 != nil {
		if src2, err = db.eval(q.Src2); err != nil {
			return nil, err
		}
	}
	switch q.Op {
	case "where":
		for _, c := range q.Exprs[0].Cols() {
			if src.Col(c) < 0 {
				return nil, inval("where: no column %s", c)
			}
		}
		// the implementation may evaluate the condition below the operators
		// under it (moved into the sources of a union / minus / join, where a
		// column that a source lacks counts as ""), on rows that never reach
		// this point: an undecided comparison on such a row makes the case
		// undecided as well
		if err := db.ambiguousBelow(q.Src, q.Exprs[0], map[string]string{}); err != nil {
			return nil, err
		}
		out := &Rel{Cols: src.Cols}
		for _, row := range src.Rows {
			v, err := EvalExpr(q.Exprs[0], getter(src, row))
			if err != nil {
				return nil, err
			}
			if v.K != KBool {
				return nil, amb("where condition is not boolean: %s", v)
			}
			if v.I == 1 {
				out.Rows = append(out.Rows, row)
			}
		}
		return out, nil
	case "project", "remove":
		var cols []string
		if q.Op == "project" {
			for _, c := range q.Cols {
				if src.Col(c) < 0 {
					return nil, inval("project: no column %s", c)
				}
				cols = addUnique(cols, c)
			}
		} else {
			for _, c := range src.Cols {
				if !has(q.Cols, c) {
					cols = append(cols, c)
				}
			}
		}
		if len(cols) == 0 {
			return nil, inval("no columns left")
		}
		return projectRel(src, cols), nil
	case "rename":
		cols := append([]string(nil), src.Cols...)
		for i, f := range q.From {
			j := -1
			for k, c := range cols {
				if c == f {
					j = k
				}
			}
			if j < 0 {
				return nil, inval("rename: no column %s", f)
			}
			if has(cols, q.To[i]) {
				return nil, inval("rename: column exists %s", q.To[i])
			}
			cols[j] = q.To[i]
		}
		return &Rel{Cols: cols, Rows: src.Rows}, nil
	case "extend":
		cols := append([]string(nil), src.Cols...)
		for i, c := range q.Cols {
			if has(cols, c) {
				return nil, inval("extend: column exists %s", c)
			}
			for _, u := range q.Exprs[i].Cols() {
				if !has(cols, u) {
					return nil, inval("extend: no column %s", u)
				}
			}
			cols = append(cols, c)
		}
		out := &Rel{Cols: cols}
		for _, row := range src.Rows {
			nr := append(append(make([]Val, 0, len(cols)), row...), make([]Val, len(q.Cols))...)
			for i := range q.Cols {
				// later expressions see earlier extend columns
				v, err := EvalExpr(q.Exprs[i], func(c string) (Val, bool) {
					for k := 0; k < len(src.Cols)+i; k++ {
						if cols[k] == c {
							return nr[k], true
						}
					}
					return Empty, false
				})
				if err != nil {
					return nil, err
				}
				nr[len(src.Cols)+i] = v
			}
			out.Rows = append(out.Rows, nr)
		}
		return out, nil
	case "summarize":
		return db.summarize(q, src)
	case "join", "leftjoin", "semijoin":
		by := common(src.Cols, src2.Cols)
		if len(by) == 0 {
			return nil, inval("%s: no common columns", q.Op)
		}
		cols := append([]string(nil), src.Cols...)
		var only2 []int
		for j, c := range src2.Cols {
			if !has(src.Cols, c) {
				only2 = append(only2, j)
				if q.Op != "semijoin" {
					cols = append(cols, c)
				}
			}
		}
		out := &Rel{Cols: cols}
		for _, r1 := range src.Rows {
			matched := false
			for _, r2 := range src2.Rows {
				if !equalOn(src, r1, src2, r2, by) {
					continue
				}
				matched = true
				if q.Op == "semijoin" {
					break
				}
				nr := append([]Val(nil), r1...)
				for _, j := range only2 {
					nr = append(nr, r2[j])
				}
				out.Rows = append(out.Rows, nr)
			}
			switch {
			case q.Op == "semijoin" && matched:
				out.Rows = append(out.Rows, r1)
			case q.Op == "leftjoin" && !matched:
				// unmatched rows of the first query get "" for the columns
				// of the second
				nr := append([]Val(nil), r1...)
				for range only2 {
					nr = append(nr, Empty)
				}
				out.Rows = append(out.Rows, nr)
			}
		}
		return out, nil
	case "times":
		if len(common(src.Cols, src2.Cols)) != 0 {
			return nil, inval("times: common columns")
		}
		out := &Rel{Cols: append(append([]string(nil), src.Cols...), src2.Cols...)}
		for _, r1 := range src.Rows {
			for _, r2 := range src2.Rows {
				out.Rows = append(out.Rows, append(append([]Val(nil), r1...), r2...))
			}
		}
		return out, nil
	case "union", "intersect", "minus":
		// rows are compared on all columns of both sides, a column that a
		// side does not have counts as ""
		all := append([]string(nil), src.Cols...)
		for _, c := range src2.Cols {
			all = addUnique(all, c)
		}
		w1 := widen(src, all)
		w2 := widen(src2, all)
		in2 := map[string]bool{}
		for _, r := range w2 {
			in2[rowText(r)] = true
		}
		switch q.Op {
		case "union":
			out := &Rel{Cols: all}
			out.Rows = dedup(append(append([][]Val(nil), w1...), w2...))
			return out, nil
		case "minus":
			out := &Rel{Cols: src.Cols}
			for i, r := range w1 {
				if !in2[rowText(r)] {
					out.Rows = append(out.Rows, src.Rows[i])
				}
			}
			return out, nil
		}
		cm := common(src.Cols, src2.Cols)
		if len(cm) == 0 {
			return nil, inval("intersect: no common columns")
		}
		tmp := &Rel{Cols: src.Cols}
		for i, r := range w1 {
			if in2[rowText(r)] {
				tmp.Rows = append(tmp.Rows, src.Rows[i])
			}
		}
		return projectRel(tmp, cm), nil
	}
	return nil, inval("unknown operator %s", q.Op)
}

// ambiguousBelow evaluates e on every row of every relation in the subtree n
// (names: column name above -> name in this subtree, through renames; a column
// the relation lacks is "") and returns the first Ambiguous error.
func (db *DB) ambiguousBelow(n *Q, e *E, names map[string]string) error {
	if n == nil {
		return nil
	}
	if v, ok := db.Views[n.Name]; ok && n.Op == "table" {
		return db.ambiguousBelow(v, e, names)
	}
	if rel, err := db.eval(n); err == nil {
		for _, row := range rel.Rows {
			_, err := EvalExpr(e, func(c string) (Val, bool) {
				if m, ok := names[c]; ok {
					c = m
				}
				if i := rel.Col(c); i >= 0 {
					return row[i], true
				}
				return Empty, true
			})
			if a, ok := err.(*Ambiguous); ok {
				return a
			}
		}
	}
	below := names
	if n.Op == "rename" {
		below = map[string]string{}
		for k, v := range names {
			below[k] = v
		}
		for i, to := range n.To {
			// a name above that maps to `to` here is `from` below
			hit := false
			for k, v := range names {
				if v == to {
					below[k] = n.From[i]
					hit = true
				}
			}
			if !hit {
				below[to] = n.From[i]
			}
		}
	}
	if err := db.ambiguousBelow(n.Src, e, below); err != nil {
		return err
	}
	return db.ambiguousBelow(n.Src2, e, below)
}

func getter(r *Rel, row []Val) func(string) (Val, bool) {
	return func(c string) (Val, bool) {
		i := r.Col(c)
		if i < 0 {
			return Empty, false
		}
		return row[i], true
	}
}

func projectRel(src *Rel, cols []string) *Rel {
	idx := make([]int, len(cols))
	for i, c := range cols {
		idx[i] = src.Col(c)
	}
	out := &Rel{Cols: cols}
	for _, row := range src.Rows {
		nr := make([]Val, len(cols))
		for i, j := range idx {
			nr[i] = row[j]
		}
		out.Rows = append(out.Rows, nr)
	}
	out.Rows = dedup(out.Rows)
	return out
}

func common(a, b []string) []string {
	var out []string
	for _, c := range a {
		if has(b, c) {
			out = append(out, c)
		}
	}
	return out
}

func equalOn(r1 *Rel, row1 []Val, r2 *Rel, row2 []Val, cols []string) bool {
	for _, c := range cols {
		if row1[r1.Col(c)] != row2[r2.Col(c)] {
			return false
		}
	}
	return true
}

func widen(r *Rel, all []string) [][]Val {
	out := make([][]Val, len(r.Rows))
	idx := make([]int, len(all))
	for i, c := range all {
		idx[i] = r.Col(c)
	}
	for k, row := range r.Rows {
		nr := make([]Val, len(all))
		for i, j := range idx {
			if j >= 0 {
				nr[i] = row[j]
			}
		}
		out[k] = nr
	}
	return out
}

// WholeRow reports whether this summarize node is the documented special
// case "overall minimum or maximum of a key field also gives the record":
// recognised by the model only directly on a base table whose key is exactly
// the summarized column (or that has the empty key).
func (db *DB) WholeRow(q *Q) bool {
	if q.Op != "summarize" || len(q.Cols) != 0 || len(q.Sums) != 1 ||
		(q.Sums[0].Op != "min" && q.Sums[0].Op != "max") || q.Src.Op != "table" {
		return false
	}
	t, ok := db.Tables[q.Src.Name]
	if !ok {
		return false
	}
	for _, k := range t.Keys {
		if len(k) == 0 || (len(k) == 1 && k[0] == q.Sums[0].On) {
			return true
		}
	}
	return false
}

// MinMax1 reports whether the query contains a summarize with no by columns
// and a single min or max: its result shape depends on the key inference of
// the implementation (see WholeRow).
func MinMax1(q *Q) bool {
	found := false
	q.Walk(func(n *Q) {
		if n.Op == "summarize" && len(n.Cols) == 0 && len(n.Sums) == 1 &&
			(n.Sums[0].Op == "min" || n.Sums[0].Op == "max") {
			found = true
		}
	})
	return found
}

// Count1 reports whether the query contains a summarize that is just a count
// (answered from the table statistics by the implementation).
func Count1(q *Q) bool {
	found := false
	q.Walk(func(n *Q) {
		if n.Op == "summarize" && len(n.Cols) == 0 && len(n.Sums) == 1 && n.Sums[0].Op == "count" {
			found = true
		}
	})
	return found
}

func (db *DB) summarize(q *Q, src *Rel) (*Rel, error) {
	for _, c := range q.Cols {
		if src.Col(c) < 0 {
			return nil, inval("summarize: no by column %s", c)
		}
	}
	var names []string
	for _, s := range q.Sums {
		if s.Op != "count" {
			if src.Col(s.On) < 0 {
				return nil, inval("summarize: no column %s", s.On)
			}
			if has(q.Cols, s.On) {
				return nil, inval("summarize: by and on conflict")
			}
		}
		n := s.Name()
		if has(names, n) || has(q.Cols, n) {
			return nil, inval("summarize: duplicate column %s", n)
		}
		names = append(names, n)
	}
	for _, s := range q.Sums {
		if s.On != "" && has(names, s.On) {
			return nil, inval("summarize: on conflicts with output")
		}
	}
	whole := db.WholeRow(q)
	out := &Rel{}
	if whole {
		out.Cols = append(append([]string(nil), src.Cols...), names...)
		for _, n := range names {
			if has(src.Cols, n) {
				return nil, inval("summarize: column exists %s", n)
			}
		}
	} else {
		out.Cols = append(append([]string(nil), q.Cols...), names...)
	}
	// no rows in, no rows out (also without by columns)
	type group struct {
		by   []Val
		rows [][]Val
	}
	var groups []*group
	index := map[string]*group{}
	byIdx := make([]int, len(q.Cols))
	for i, c := range q.Cols {
		byIdx[i] = src.Col(c)
	}
	for _, row := range src.Rows {
		by := make([]Val, len(byIdx))
		for i, j := range byIdx {
			by[i] = row[j]
		}
		k := rowText(by)
		g := index[k]
		if g == nil {
			g = &group{by: by}
			index[k] = g
			groups = append(groups, g)
		}
		g.rows = append(g.rows, row)
	}
	for _, g := range groups {
		var res []Val
		var minmaxRow []Val
		for _, s := range q.Sums {
			switch s.Op {
			case "count":
				res = append(res, Int(int64(len(g.rows))))
			case "total":
				t := int64(0)
				j := src.Col(s.On)
				for _, row := range g.rows {
					switch {
					case row[j].K == KInt:
						t += row[j].I
					case row[j].IsEmpty():
						// "" counts as zero
					default:
						return nil, amb("total of non-number %s", row[j])
					}
				}
				res = append(res, Int(t))
			case "min", "max":
				j := src.Col(s.On)
				best := g.rows[0]
				ties := 1
				for _, row := range g.rows[1:] {
					c := CmpStored(row[j], best[j])
					if c == 0 {
						ties++
					}
					if (s.Op == "min" && c < 0) || (s.Op == "max" && c > 0) {
						best = row
						ties = 1
					}
				}
				if whole && ties > 1 {
					return nil, amb("whole-row min/max with ties")
				}
				minmaxRow = best
				res = append(res, best[j])
			default:
				return nil, inval("summarize: unknown function %s", s.Op)
			}
		}
		if whole {
			out.Rows = append(out.Rows, append(append([]Val(nil), minmaxRow...), res...))
		} else {
			out.Rows = append(out.Rows, append(append([]Val(nil), g.by...), res...))
		}
	}
	return out, nil
}

// SortRows orders rows (for presenting a result deterministically).
func SortRows(r *Rel) {
	sort.SliceStable(r.Rows, func(i, j int) bool {
		for k := range r.Cols {
			if c := CmpStored(r.Rows[i][k], r.Rows[j][k]); c != 0 {
				return c < 0
			}
		}
		return false
	})
}
