// Package qm is the reference side of the query checks C22-C24: a value
// model, a query AST with a text renderer (the text is what the real parser
// gets), and a relational evaluator over plain Go slices that implements the
// documented meaning of every operator on the query *as written*.
//
// It imports nothing from the repository.
package qm

import (
	"fmt"
	"sort"
	"strconv"
	"strings"
)

// Kind of a model value. The data alphabets of the checks only use strings
// (including the empty string), integers and booleans (booleans only arise as
// results of comparison expressions in extend).
type Kind uint8

const (
	KStr Kind = iota
	KInt
	KBool
)

type Val struct {
	K Kind
	I int64 // KInt value; KBool: 0/1
	S string
}

var Empty = Val{}

func Int(i int64) Val  { return Val{K: KInt, I: i} }
func Str(s string) Val { return Val{K: KStr, S: s} }
func Bool(b bool) Val {
	if b {
		return Val{K: KBool, I: 1}
	}
	return Val{K: KBool}
}

func (v Val) IsEmpty() bool { return v.K == KStr && v.S == "" }
func (v Val) IsTrue() bool  { return v.K == KBool && v.I == 1 }

// Lit renders the value as a query-language literal.
func (v Val) Lit() string {
	switch v.K {
	case KInt:
		return strconv.FormatInt(v.I, 10)
	case KBool:
		if v.I == 1 {
			return "true"
		}
		return "false"
	}
	return "'" + v.S + "'"
}

func (v Val) String() string { return v.Lit() }

// storedRank is the rank of a value's class in the order of stored (packed)
// values, which is the order of indexes, sort, min and max: the empty string
// first, then booleans, numbers, strings.
func storedRank(v Val) int {
	switch {
	case v.IsEmpty():
		return 0
	case v.K == KBool:
		return 1
	case v.K == KInt:
		return 2
	}
	return 3
}

// CmpStored compares in stored order.
func CmpStored(x, y Val) int {
	rx, ry := storedRank(x), storedRank(y)
	if rx != ry {
		return sgn(rx - ry)
	}
	switch x.K {
	case KInt, KBool:
		return sgn64(x.I - y.I)
	}
	return strings.Compare(x.S, y.S)
}

func sgn(i int) int {
	switch {
	case i < 0:
		return -1
	case i > 0:
		return 1
	}
	return 0
}
func sgn64(i int64) int {
	switch {
	case i < 0:
		return -1
	case i > 0:
		return 1
	}
	return 0
}

// Rel is a relation: named columns and rows (values parallel to Cols).
type Rel struct {
	Cols []string
	Rows [][]Val
}

func (r *Rel) Col(name string) int {
	for i, c := range r.Cols {
		if c == name {
			return i
		}
	}
	return -1
}

// RowKey is a canonical text of a row over the given column order.
func RowKey(cols []string, get func(col string) Val) string {
	var sb strings.Builder
	for _, c := range cols {
		v := get(c)
		sb.WriteString(c)
		sb.WriteByte('=')
		sb.WriteString(v.Lit())
		sb.WriteByte(' ')
	}
	return sb.String()
}

// Keys returns the canonical row texts over the sorted column list.
func (r *Rel) Keys() []string {
	cols := append([]string(nil), r.Cols...)
	sort.Strings(cols)
	idx := make([]int, len(cols))
	for i, c := range cols {
		idx[i] = r.Col(c)
	}
	out := make([]string, len(r.Rows))
	for i, row := range r.Rows {
		out[i] = RowKey(cols, func(c string) Val {
			for j := range cols {
				if cols[j] == c {
					return row[idx[j]]
				}
			}
			panic("col")
		})
	}
	return out
}

func (r *Rel) String() string {
	ks := r.Keys()
	sort.Strings(ks)
	return fmt.Sprintf("%d rows {%s}", len(ks), strings.Join(ks, "| "))
}

func dedup(rows [][]Val) [][]Val {
	seen := map[string]bool{}
	var out [][]Val
	for _, row := range rows {
		k := rowText(row)
		if !seen[k] {
			seen[k] = true
			out = append(out, row)
		}
	}
	return out
}

func rowText(row []Val) string {
	var sb strings.Builder
	for _, v := range row {
		sb.WriteString(v.Lit())
		sb.WriteByte(',')
	}
	return sb.String()
}
