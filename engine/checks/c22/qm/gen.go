package qm

import (
	"sort"
)

// ---------------------------------------------------------------------------
// Schema and contents
//
//	t1(a,b,c) key(a) index(b)        a int, b string, c int
//	t2(a,d)   key(a,d) index(d)      composite key; n:1 to t1 on a
//	t3(b,e)   key(b) index unique(e) 1:n from t3 to t1 on b; e unique among its non-empty values
//	                                 (a unique index stores its empty values with the key appended)
//	t4(a,b,c) key(a) index(b,c)      same columns as t1 (union/intersect/minus), multi column index
//	s1(f,g)   key()                  singleton table
//	v1 = t1 join t3                  view
//
// Four content variants: "empty", "small" (distinct values), "dups"
// (duplicates in non-key columns, empty strings, an int column holding ""),
// "mixed" (some tables empty, t4 = t1).
// ---------------------------------------------------------------------------

func vi(n int64) Val      { return Int(n) }
func vs(x string) Val     { return Str(x) }
func row(vs ...Val) []Val { return vs }

func newDB(rows map[string][][]Val) *DB {
	db := &DB{Tables: map[string]*TableDef{}, Views: map[string]*Q{}}
	add := func(t *TableDef) {
		t.Rows = rows[t.Name]
		db.Tables[t.Name] = t
		db.Order = append(db.Order, t.Name)
	}
	add(&TableDef{Name: "t1", Cols: []string{"a", "b", "c"}, Keys: [][]string{{"a"}}, Indexes: [][]string{{"b"}}})
	add(&TableDef{Name: "t2", Cols: []string{"a", "d"}, Keys: [][]string{{"a", "d"}}, Indexes: [][]string{{"d"}}})
	add(&TableDef{Name: "t3", Cols: []string{"b", "e"}, Keys: [][]string{{"b"}}, Uniques: [][]string{{"e"}}})
	add(&TableDef{Name: "t4", Cols: []string{"a", "b", "c"}, Keys: [][]string{{"a"}}, Indexes: [][]string{{"b", "c"}}})
	add(&TableDef{Name: "s1", Cols: []string{"f", "g"}, Keys: [][]string{{}}})
	db.Views["v1"] = Binary("join", Table("t1"), Table("t3"))
	return db
}

// Variants returns the named model databases.
func Variants() map[string]*DB {
	small := map[string][][]Val{
		"t1": {row(vi(1), vs("x"), vi(10)), row(vi(2), vs("y"), vi(20)), row(vi(3), vs("z"), vi(30))},
		"t2": {row(vi(1), vi(5)), row(vi(2), vi(6)), row(vi(4), vi(7))},
		"t3": {row(vs("x"), vi(1)), row(vs("y"), vi(2)), row(vs("w"), vi(3))},
		"t4": {row(vi(2), vs("y"), vi(20)), row(vi(3), vs("q"), vi(30)), row(vi(5), vs("r"), vi(50))},
		"s1": {row(vi(7), vs("g"))},
	}
	dups := map[string][][]Val{
		"t1": {row(vi(0), vs(""), vi(0)), row(vi(1), vs("x"), vi(1)), row(vi(2), vs("x"), vi(1)),
			row(vi(3), vs("y"), vs("")), row(vi(4), vs(""), vi(2)), row(vi(-1), vs("Y"), vi(1))},
		"t2": {row(vi(1), vi(1)), row(vi(1), vi(2)), row(vi(2), vi(1)), row(vi(2), vi(2)), row(vi(3), vi(0)), row(vi(9), vi(2)), row(vi(0), vs(""))},
		"t3": {row(vs(""), vi(0)), row(vs("x"), vi(1)), row(vs("y"), vs("")), row(vs("z"), vs(""))},
		"t4": {row(vi(1), vs("x"), vi(1)), row(vi(2), vs("x"), vi(2)), row(vi(4), vs(""), vi(2)),
			row(vi(6), vs("y"), vs("")), row(vi(0), vs(""), vi(0))},
		"s1": {row(vs(""), vi(0))},
	}
	mixed := map[string][][]Val{
		"t1": dups["t1"],
		"t2": nil,
		"t3": small["t3"],
		"t4": dups["t1"],
		"s1": nil,
	}
	return map[string]*DB{
		"empty": newDB(map[string][][]Val{}),
		"small": newDB(small),
		"dups":  newDB(dups),
		"mixed": newDB(mixed),
	}
}

// VariantNames in a fixed order.
var VariantNames = []string{"small", "dups", "mixed", "empty"}

// ---------------------------------------------------------------------------
// Column typing (only to choose sensible parameters while enumerating)
// ---------------------------------------------------------------------------

type Typ uint8

const (
	TInt Typ = iota // integers (possibly with "" )
	TStr
	TBool
)

// Shape is the column list of a query with a type per column.
type Shape struct {
	Cols []string
	Typ  map[string]Typ
}

func (sh *Shape) has(c string) bool { return has(sh.Cols, c) }

func (sh *Shape) clone() *Shape {
	n := &Shape{Cols: append([]string(nil), sh.Cols...), Typ: map[string]Typ{}}
	for k, v := range sh.Typ {
		n.Typ[k] = v
	}
	return n
}

var baseTypes = map[string]Typ{"a": TInt, "b": TStr, "c": TInt, "d": TInt, "e": TInt, "f": TInt, "g": TStr}

// ShapeOf computes the columns of a query (nil if it is not legal).
func (db *DB) ShapeOf(q *Q) *Shape {
	switch q.Op {
	case "table":
		if v, ok := db.Views[q.Name]; ok {
			return db.ShapeOf(v)
		}
		t := db.Tables[q.Name]
		if t == nil {
			return nil
		}
		sh := &Shape{Cols: t.Cols, Typ: map[string]Typ{}}
		for _, c := range t.Cols {
			sh.Typ[c] = baseTypes[c]
		}
		return sh
	}
	src := db.ShapeOf(q.Src)
	if src == nil {
		return nil
	}
	var src2 *Shape
	if q.Src2 != nil {
		if src2 = db.ShapeOf(q.Src2); src2 == nil {
			return nil
		}
	}
	switch q.Op {
	case "where", "sort":
		return src
	case "project":
		sh := &Shape{Typ: src.Typ}
		for _, c := range q.Cols {
			if !src.has(c) {
				return nil
			}
			sh.Cols = addUnique(sh.Cols, c)
		}
		return sh
	case "remove":
		sh := &Shape{Typ: src.Typ}
		for _, c := range src.Cols {
			if !has(q.Cols, c) {
				sh.Cols = append(sh.Cols, c)
			}
		}
		if len(sh.Cols) == 0 {
			return nil
		}
		return sh
	case "rename":
		sh := src.clone()
		for k, f := range q.From {
			j := -1
			for x, c := range sh.Cols {
				if c == f {
					j = x
				}
			}
			if j < 0 || sh.has(q.To[k]) {
				return nil
			}
			sh.Cols[j] = q.To[k]
			sh.Typ[q.To[k]] = sh.Typ[f]
		}
		return sh
	case "extend":
		sh := src.clone()
		for k, c := range q.Cols {
			if sh.has(c) {
				return nil
			}
			for _, u := range q.Exprs[k].Cols() {
				if !sh.has(u) {
					return nil
				}
			}
			sh.Cols = append(sh.Cols, c)
			sh.Typ[c] = exprType(q.Exprs[k], sh)
		}
		return sh
	case "summarize":
		sh := &Shape{Typ: map[string]Typ{}}
		if db.WholeRow(q) {
			sh = src.clone()
		} else {
			for _, c := range q.Cols {
				if !src.has(c) {
					return nil
				}
				sh.Cols = append(sh.Cols, c)
				sh.Typ[c] = src.Typ[c]
			}
		}
		for _, so := range q.Sums {
			n := so.Name()
			if sh.has(n) || (so.Op != "count" && (!src.has(so.On) || has(q.Cols, so.On))) {
				return nil
			}
			sh.Cols = append(sh.Cols, n)
			sh.Typ[n] = TInt
			if so.Op == "min" || so.Op == "max" {
				sh.Typ[n] = src.Typ[so.On]
			}
		}
		return sh
	case "join", "leftjoin", "semijoin":
		if len(common(src.Cols, src2.Cols)) == 0 {
			return nil
		}
		if q.Op == "semijoin" {
			return src
		}
		sh := src.clone()
		for _, c := range src2.Cols {
			if !sh.has(c) {
				sh.Cols = append(sh.Cols, c)
				sh.Typ[c] = src2.Typ[c]
			}
		}
		return sh
	case "times":
		if len(common(src.Cols, src2.Cols)) != 0 {
			return nil
		}
		sh := src.clone()
		for _, c := range src2.Cols {
			sh.Cols = append(sh.Cols, c)
			sh.Typ[c] = src2.Typ[c]
		}
		return sh
	case "union":
		sh := src.clone()
		for _, c := range src2.Cols {
			if !sh.has(c) {
				sh.Cols = append(sh.Cols, c)
				sh.Typ[c] = src2.Typ[c]
			}
		}
		return sh
	case "minus":
		return src
	case "intersect":
		cm := common(src.Cols, src2.Cols)
		if len(cm) == 0 {
			return nil
		}
		return &Shape{Cols: cm, Typ: src.Typ}
	}
	return nil
}

func exprType(e *E, sh *Shape) Typ {
	switch e.Op {
	case "col":
		return sh.Typ[e.Col]
	case "const":
		switch e.Val.K {
		case KInt:
			return TInt
		case KBool:
			return TBool
		}
		return TStr
	case "+", "-", "*":
		return TInt
	case "$":
		return TStr
	case "?:":
		return exprType(e.Args[1], sh)
	}
	return TBool
}

// ---------------------------------------------------------------------------
// Enumeration
// ---------------------------------------------------------------------------

// Gen enumerates queries. Parameter sets come in three sizes:
//
//	0 lean  (operators used as the inner operator of a depth-2 query in the quick tier)
//	1 normal
//	2 rich  (thorough tier)
type Gen struct {
	DB    *DB // any variant: only the schema is used
	Outer int // parameter set size of the outermost operator
	Inner int // parameter set size of operators below
}

var leaves = []string{"t1", "t2", "t3", "t4", "s1", "v1"}

func classify(sh *Shape) (ints, strs, bools []string) {
	for _, c := range sh.Cols {
		switch sh.Typ[c] {
		case TInt:
			ints = append(ints, c)
		case TStr:
			strs = append(strs, c)
		case TBool:
			bools = append(bools, c)
		}
	}
	return
}

// wheres: constants are values around the ones present in the contents.
func wheres(sh *Shape, size int) []*E {
	var out []*E
	ints, strs, bools := classify(sh)
	for k, c := range ints {
		if k > 0 && size == 0 {
			break
		}
		out = append(out,
			Bin("is", Col(c), Con(vi(2))), // point
			Bin(">", Col(c), Con(vi(1))))  // range
		if size >= 1 || k == 0 {
			out = append(out, In(Col(c), vi(1), vi(2), vi(30)))
		}
		if size >= 1 {
			out = append(out, Bin("and", Bin(">=", Col(c), Con(vi(1))), Bin("<", Col(c), Con(vi(3)))))
		}
		if (size >= 1 && k == 0) || size >= 2 {
			out = append(out,
				Bin("isnt", Col(c), Con(vi(1))),
				Bin("is", Col(c), Con(vs(""))),
				Bin("<=", Col(c), Con(vi(2))),
				Bin("is", Bin("+", Col(c), Con(vi(1))), Con(vi(2))))
		}
	}
	for k, c := range strs {
		if k > 0 && size == 0 {
			break
		}
		out = append(out, Bin("is", Col(c), Con(vs("x"))))
		if size >= 1 || k == 0 {
			// several values for the leading column of an index: the index is not
			// ordered / grouped by its following columns
			out = append(out, In(Col(c), vs("x"), vs("")))
		}
		if size >= 1 {
			out = append(out, Bin(">", Col(c), Con(vs("x"))))
		}
		if (size >= 1 && k == 0) || size >= 2 {
			out = append(out,
				Bin("is", Col(c), Con(vs(""))),
				Bin("<=", Col(c), Con(vs("x"))),
				Bin("isnt", Col(c), Con(vs("y"))))
		}
	}
	for _, c := range bools {
		out = append(out, Col(c))
		if size >= 1 {
			out = append(out, Not(Col(c)))
		}
	}
	if len(ints) > 0 && len(strs) > 0 {
		x, y := ints[0], strs[0]
		out = append(out, Bin("and", Bin("is", Col(x), Con(vi(1))), Bin("is", Col(y), Con(vs("x")))))
		if size >= 1 {
			out = append(out,
				Bin("or", Bin("is", Col(x), Con(vi(1))), Bin("is", Col(y), Con(vs("y")))),
				Bin("and", Bin("is", Col(x), Con(vi(1))), Bin("is", Col(x), Con(vi(2))))) // conflict
		}
	}
	// the last column (of a join: a column of the second source only) with
	// predicates that the empty string satisfies: what a where above a leftjoin
	// must not lose
	if last := sh.Cols[len(sh.Cols)-1]; len(sh.Cols) > 1 {
		out = append(out, Bin("is", Col(last), Con(vs(""))))
		switch sh.Typ[last] {
		case TInt:
			out = append(out, Bin("isnt", Col(last), Con(vi(1))))
		case TStr:
			out = append(out, Bin("isnt", Col(last), Con(vs("y"))))
		}
	}
	if len(ints) > 1 && size >= 1 {
		out = append(out, Bin("is", Col(ints[0]), Col(ints[1])),
			Bin("and", Bin("is", Col(ints[0]), Con(vi(1))), Bin("is", Col(ints[1]), Con(vi(2)))))
	}
	return out
}

type extendSpec struct {
	cols  []string
	exprs []*E
}

func extends(sh *Shape, size int) []extendSpec {
	var out []extendSpec
	add := func(cols []string, exprs ...*E) {
		for _, c := range cols {
			if sh.has(c) {
				return
			}
		}
		out = append(out, extendSpec{cols, exprs})
	}
	add([]string{"x"}, Con(vi(1)))
	if size >= 1 {
		add([]string{"x"}, Con(vs("")))
		add([]string{"x"}, Col(sh.Cols[0]))
	}
	nint, nstr := 0, 0
	for _, c := range sh.Cols {
		switch sh.Typ[c] {
		case TInt:
			if nint == 0 || size >= 2 {
				add([]string{"x"}, Bin("+", Col(c), Con(vi(1))))
				if size >= 1 {
					add([]string{"x", "y"}, Con(vi(2)), Bin("*", Col("x"), Col(c)))
				}
				if size >= 2 {
					add([]string{"x"}, Bin("is", Col(c), Con(vi(1))))
				}
			}
			nint++
		case TStr:
			if (nstr == 0 && size >= 1) || size >= 2 {
				add([]string{"x"}, Bin("$", Col(c), Con(vs("k"))))
				if size >= 2 {
					add([]string{"x"}, Bin(">", Col(c), Con(vs("x"))))
				}
			}
			nstr++
		}
	}
	return out
}

func subsets(cols []string, maxSize int) [][]string {
	var out [][]string
	n := len(cols)
	for m := 1; m < (1 << n); m++ {
		var sub []string
		for k := 0; k < n; k++ {
			if m&(1<<k) != 0 {
				sub = append(sub, cols[k])
			}
		}
		if len(sub) <= maxSize && len(sub) < n {
			out = append(out, sub)
		}
	}
	sort.SliceStable(out, func(x, y int) bool { return len(out[x]) < len(out[y]) })
	return out
}

type sumSpec struct {
	by   []string
	sums []SumOp
}

func summaries(sh *Shape, size int) []sumSpec {
	var out []sumSpec
	// a by column named like a summarize function cannot be written
	// ("summarize count, max a" parses count as the function)
	var byable []string
	for _, c := range sh.Cols {
		switch c {
		case "count", "total", "min", "max", "average", "list":
		default:
			byable = append(byable, c)
		}
	}
	bys := [][]string{nil}
	for k, c := range byable {
		if k < 2 || size >= 1 {
			bys = append(bys, []string{c})
		}
	}
	if len(byable) >= 2 && size >= 1 {
		bys = append(bys, []string{byable[1], byable[0]})
	}
	for bi, by := range bys {
		var ons []string
		for _, c := range sh.Cols {
			if !has(by, c) {
				ons = append(ons, c)
			}
		}
		if size >= 1 || bi > 0 {
			out = append(out, sumSpec{by, []SumOp{{Op: "count"}}})
		}
		for k, on := range ons {
			if k > 0 && size < 2 {
				break
			}
			if sh.Typ[on] == TInt {
				out = append(out, sumSpec{by, []SumOp{{Op: "total", On: on}}})
				if size >= 1 {
					out = append(out, sumSpec{by, []SumOp{{Op: "count"}, {Op: "max", On: on}}})
				}
			}
			out = append(out, sumSpec{by, []SumOp{{Op: "max", On: on}}})
			if size >= 1 {
				out = append(out, sumSpec{by, []SumOp{{Col: "m", Op: "min", On: on}}})
			}
			// result column named like a column of the source that is not a by
			// column (known finding class, see classify.go)
			if len(ons) > 1 && k == 0 && size >= 1 && bi == 1 {
				out = append(out, sumSpec{by, []SumOp{{Col: ons[1], Op: "max", On: on}}})
			}
		}
	}
	return out
}

// Unary returns the single-operator queries over src for a parameter set size.
func (g *Gen) Unary(src *Q, size int) []*Q {
	sh := g.DB.ShapeOf(src)
	if sh == nil {
		return nil
	}
	var out []*Q
	for _, e := range wheres(sh, size) {
		out = append(out, Where(src, e))
	}
	if size == 0 {
		out = append(out, Project(src, sh.Cols[0]))
		if len(sh.Cols) > 1 {
			out = append(out, Project(src, sh.Cols[len(sh.Cols)-1]))
		}
		if len(sh.Cols) > 2 {
			out = append(out, Project(src, sh.Cols[0], sh.Cols[1]))
		}
	} else {
		for _, sub := range subsets(sh.Cols, 1+size) {
			out = append(out, Project(src, sub...))
		}
	}
	if len(sh.Cols) > 1 {
		out = append(out, Remove(src, sh.Cols[0]))
		if size >= 1 {
			out = append(out, Remove(src, sh.Cols[len(sh.Cols)-1]))
		}
	}
	if !sh.has("z") {
		out = append(out, Rename(src, []string{sh.Cols[0]}, []string{"z"}))
		if len(sh.Cols) > 1 && size >= 1 {
			last := sh.Cols[len(sh.Cols)-1]
			out = append(out, Rename(src, []string{last}, []string{"z"}))
			// sequential: the second rename reuses the name freed by the first
			out = append(out, Rename(src, []string{sh.Cols[0], last}, []string{"z", sh.Cols[0]}))
		}
	}
	for _, ex := range extends(sh, size) {
		out = append(out, Extend(src, ex.cols, ex.exprs))
	}
	for _, su := range summaries(sh, size) {
		q := Summarize(src, su.by, su.sums...)
		if g.DB.ShapeOf(q) != nil {
			out = append(out, q)
		}
	}
	return out
}

var binOps = []string{"join", "leftjoin", "semijoin", "times", "union", "intersect", "minus"}

// Binaries returns all legal two-source queries over x and y.
func (g *Gen) Binaries(x, y *Q) []*Q {
	var out []*Q
	sx, sy := g.DB.ShapeOf(x), g.DB.ShapeOf(y)
	if sx == nil || sy == nil {
		return nil
	}
	cm := common(sx.Cols, sy.Cols)
	same := len(cm) == len(sx.Cols) && len(cm) == len(sy.Cols)
	for _, op := range binOps {
		switch op {
		case "join", "leftjoin", "semijoin":
			if len(cm) == 0 {
				continue
			}
		case "times":
			if len(cm) != 0 {
				continue
			}
		case "union", "minus":
			// documented for equal columns; different columns (missing = "")
			// only when the sides overlap
			if !same && len(cm) == 0 {
				continue
			}
		case "intersect":
			if len(cm) == 0 {
				continue
			}
		}
		out = append(out, Binary(op, x, y))
	}
	return out
}

// Sorts returns sorted variants of the query.
func (g *Gen) Sorts(q *Q) []*Q {
	sh := g.DB.ShapeOf(q)
	if sh == nil {
		return nil
	}
	out := []*Q{Sort(q, false, sh.Cols[0])}
	last := sh.Cols[len(sh.Cols)-1]
	out = append(out, Sort(q, true, last))
	if len(sh.Cols) > 1 {
		out = append(out, Sort(q, false, last, sh.Cols[0]))
	}
	return out
}

// Queries enumerates all queries of operator depth <= depth (without sorts),
// simplest first. The outermost operator of each query takes the Outer
// parameter sets, operators below it the Inner sets; binary operators have a
// table on at least one side.
func (g *Gen) Queries(depth int) []*Q {
	var tables []*Q
	for _, l := range leaves {
		tables = append(tables, Table(l))
	}
	level := func(prev []*Q, size int, d int) []*Q {
		var cur []*Q
		for _, src := range prev {
			cur = append(cur, g.Unary(src, size)...)
		}
		for _, x := range prev {
			for _, y := range tables {
				cur = append(cur, g.Binaries(x, y)...)
				if d > 1 {
					cur = append(cur, g.Binaries(y, x)...)
				}
			}
		}
		return cur
	}
	all := append([]*Q(nil), tables...)
	inner := tables // queries of depth d-1 built with the Inner sets
	for d := 1; d <= depth; d++ {
		all = append(all, level(inner, g.Outer, d)...)
		if d < depth {
			inner = level(inner, g.Inner, d)
		}
	}
	return all
}

// QuickQueries is the reduced enumeration of the quick tier: all depth <= 1
// queries with the normal parameter sets; at depth 2 the lean parameter sets
// at both levels, binary operators over (unary, table) in both orders, unary
// operators over unary and over (table, table) binaries.
func (g *Gen) QuickQueries() (depth1, depth2 []*Q) {
	var tables []*Q
	for _, l := range leaves {
		tables = append(tables, Table(l))
	}
	depth1 = append(depth1, tables...)
	var iu, ib []*Q
	for _, t := range tables {
		depth1 = append(depth1, g.Unary(t, 1)...)
		iu = append(iu, g.Unary(t, 0)...)
		for _, u := range tables {
			ib = append(ib, g.Binaries(t, u)...)
		}
	}
	depth1 = append(depth1, ib...)
	depth2 = append(depth2, g.Twins()...)
	for _, src := range iu {
		depth2 = append(depth2, g.Unary(src, 0)...)
	}
	for _, src := range ib {
		depth2 = append(depth2, g.Unary(src, 0)...)
	}
	for _, x := range iu {
		for _, t := range tables {
			depth2 = append(depth2, g.Binaries(x, t)...)
			depth2 = append(depth2, g.Binaries(t, x)...)
		}
	}
	return
}

// Twins are binary operators with a where or extend on both sides over the
// tables with equal columns (t1, t4): fixed values on both sides, which is
// what the "disjoint" proofs of union / intersect / minus and the fixed
// propagation of joins work from.
func (g *Gen) Twins() []*Q {
	var out []*Q
	side := func(t string) []*Q {
		src := Table(t)
		return []*Q{
			Where(src, Bin("is", Col("a"), Con(vi(2)))),
			Where(src, Bin("is", Col("a"), Con(vi(1)))),
			Where(src, In(Col("a"), vi(1), vi(2), vi(30))),
			Where(src, In(Col("a"), vi(2), vi(3))),
			Where(src, Bin("is", Col("b"), Con(vs("x")))),
			Where(src, Bin("is", Col("b"), Con(vs("")))),
			Extend(src, []string{"x"}, []*E{Con(vi(1))}),
			Extend(src, []string{"x"}, []*E{Con(vi(2))}),
			Extend(src, []string{"x"}, []*E{Con(vs(""))}),
			Extend(src, []string{"x"}, []*E{Col("c")}),
		}
	}
	for _, pair := range [][2]string{{"t1", "t4"}, {"t1", "t1"}, {"t4", "t1"}} {
		for _, x := range side(pair[0]) {
			for _, y := range side(pair[1]) {
				out = append(out, g.Binaries(x, y)...)
			}
		}
	}
	// nested compatible operators: a union of sources with different columns
	// fixes the missing column to (value, ""), i.e. a fixed value LIST that
	// contains the empty string - what the disjointness proofs must look at as a
	// whole (added after a seeded change that only looked at the first value)
	var nested []*Q
	for _, t := range []string{"t1", "t4"} {
		src := Table(t)
		nested = append(nested,
			Binary("union", Extend(src, []string{"x"}, []*E{Con(vi(1))}), src),
			Binary("union", src, Extend(src, []string{"x"}, []*E{Con(vi(1))})),
			Where(Binary("union", Extend(src, []string{"x"}, []*E{Con(vi(1))}), src), In(Col("x"), vi(1), vs(""))),
			Where(src, In(Col("b"), vs("x"), vs(""))))
	}
	for _, x := range nested {
		for _, t := range []string{"t1", "t4"} {
			for _, y := range []*Q{Table(t), Extend(Table(t), []string{"x"}, []*E{Con(vi(1))}),
				Extend(Table(t), []string{"x"}, []*E{Con(vs(""))})} {
				out = append(out, g.Binaries(x, y)...)
				out = append(out, g.Binaries(y, x)...)
			}
		}
	}
	return out
}
