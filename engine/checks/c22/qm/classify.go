package qm

// Classification of failures into precisely described known-finding classes.
// Both concern columns of a summarize result that also exist in its source
// without being by columns: Transform rules, Select/Lookup and requirement
// pass-through treat such a column as if it were a by column.

const (
	// A summarize function result is named like a column of the summarize's
	// source that is not a by column (t1 summarize b, c = max a; also the
	// default name, e.g. count over a source that has a count column): where,
	// sort and order requirements on that name reach the source column.
	ClassSumNameClash = "summarize-result-named-like-source-column"
	// A summarize in the "whole row" special case (no by columns, one min/max
	// of a key: the record is returned too) lies below another operator: a
	// where / project / join lookup / select on the record's columns is
	// applied to the source before summarizing; also a project that drops all
	// but one min/max function of a by-less summarize, which thereby becomes
	// a whole-row summarize.
	ClassWholeRowBelow = "whole-row-summarize-below-operator"
)

// NameClash reports whether the query contains a summarize with a result
// column named like a non-by column of its source.
func (db *DB) NameClash(q *Q) bool {
	found := false
	q.Walk(func(n *Q) {
		if n.Op == "summarize" {
			if src := db.ShapeOf(n.Src); src != nil {
				for _, so := range n.Sums {
					if has(src.Cols, so.Name()) && !has(n.Cols, so.Name()) {
						found = true
					}
				}
			}
		}
	})
	return found
}

// ProjectToMinMax reports whether the query contains a project/remove
// directly above a summarize without by columns that keeps exactly one
// function of several, a min or max.
func (db *DB) ProjectToMinMax(q *Q) bool {
	found := false
	q.Walk(func(n *Q) {
		if (n.Op != "project" && n.Op != "remove") || n.Src.Op != "summarize" {
			return
		}
		s := n.Src
		sh := db.ShapeOf(n)
		if sh == nil || len(s.Cols) != 0 || len(s.Sums) < 2 {
			return
		}
		var kept []SumOp
		for _, so := range s.Sums {
			if has(sh.Cols, so.Name()) {
				kept = append(kept, so)
			}
		}
		if len(kept) == 1 && (kept[0].Op == "min" || kept[0].Op == "max") {
			found = true
		}
	})
	return found
}
