package qm

// Classification of failures into precisely described known-finding classes.
// Both concern columns of a summarize result that also exist in its source
// without being by columns: Transform rules, Select/Lookup and requirement
// pass-through treat such a column as if it were a by column.

const (
	// A summarize function result is named like a column of the summarize's
	// source that is not a by column (t1 summarize b, c = max a; also the
	// default name, e.g. count over a source that has a count column): where,
	// sort and order requirements on that name reach the source column.
	ClassSumNameClash = "summarize-result-named-like-source-column"
	// A summarize in the "whole row" special case (no by columns, one min/max
	// of a key: the record is returned too) lies below another operator: a
	// where / project / join lookup / select on the record's columns is
	// applied to the source before summarizing; also a project that drops all
	// but one min/max function of a by-less summarize, which thereby becomes
	// a whole-row summarize.
	ClassWholeRowBelow = "whole-row-summarize-below-operator"
)

// NameClash reports whether the query contains a summarize with a result
// column named like a non-by column of its source.
func (db *DB) NameClash(q *Q) bool {
	found := false
	q.Walk(func(n *Q) {
		if n.Op == "summarize" {
			if src := db.ShapeOf(n.Src); src != nil {
				for _, so := range n.Sums {
					if has(src.Cols, so.Name()) && !has(n.Cols, so.Name()) {
						found = true
					}
				}
			}
		}
	})
	return found
}

// ProjectToMinMax reports whether the query contains a project/remove
// directly above a summarize without by columns that keeps exactly one
// function of several, a min or max.
func (db *DB) ProjectToMinMax(q *Q) bool {
	found := false
	q.Walk(func(n *Q) {
		if (n.Op != "project" && n.Op != "remove") || n.Src.Op != "summarize" {
			return
		}
		s := n.Src
		sh := db.ShapeOf(n)
		if sh == nil || len(s.Cols) != 0 || len(s.Sums) < 2 {
			return
		}
		var kept []SumOp
		for _, so := range s.Sums {
			if has(sh.Cols, so.Name()) {
				kept = append(kept, so)
			}
		}
		if len(kept) == 1 && (kept[0].Op == "min" || kept[0].Op == "max") {
			found = true
		}
	})
	return found
}

// ClassUnionOrderFixed: a sort over a union whose two sources each fix the
// leading sort column to a constant (extend c = const / where c is const),
// to different constants: the merge strategy accepts an order that satisfies
// the sort only within each source (union.go mergeIndexes checks the
// requirement against each source's fixed values, not the union's), so rows
// of the two sources interleave. Seen where no temp index can be used
// (cursor mode).
const ClassUnionOrderFixed = "union-merge-order-from-per-source-fixed"

func fixedConst(q *Q, c string) (Val, bool) {
	switch q.Op {
	case "extend":
		for i, col := range q.Cols {
			if col == c && q.Exprs[i].Op == "const" {
				return q.Exprs[i].Val, true
			}
		}
		return fixedConst(q.Src, c)
	case "where":
		var conj func(e *E) (Val, bool)
		conj = func(e *E) (Val, bool) {
			if e.Op == "and" {
				for _, a := range e.Args {
					if v, ok := conj(a); ok {
						return v, true
					}
				}
			}
			if e.Op == "is" && e.Args[0].Op == "col" && e.Args[0].Col == c && e.Args[1].Op == "const" {
				return e.Args[1].Val, true
			}
			return Empty, false
		}
		if v, ok := conj(q.Exprs[0]); ok {
			return v, true
		}
		return fixedConst(q.Src, c)
	}
	return Empty, false
}

// UnionOrderFixed reports whether the query is a sort over a union whose
// sources fix the leading sort column to different constants.
func UnionOrderFixed(q *Q) bool {
	if q.Op != "sort" || q.Src.Op != "union" || len(q.Cols) == 0 {
		return false
	}
	v1, ok1 := fixedConst(q.Src.Src, q.Cols[0])
	v2, ok2 := fixedConst(q.Src.Src2, q.Cols[0])
	return ok1 && ok2 && v1 != v2
}

// ClassWholeRowFlips: whether an overall min/max returns the whole record is
// decided from the keys of the summarize's source; Transform rebuilds the
// summarize over a rewritten source whose inferred keys differ (e.g. a project
// pushed into the sources of a join), so the optimized query has the source's
// columns in addition to the columns of the query as written.
const ClassWholeRowFlips = "whole-row-decision-changes-with-transform"
