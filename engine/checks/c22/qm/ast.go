package qm

import (
	"strings"
)

// E is an expression of a where / extend / set clause.
type E struct {
	Op   string // "col", "const", "is","isnt","<","<=",">",">=","and","or","not","in","+","-","*","$","?:"
	Col  string
	Val  Val
	Args []*E
}

func Col(c string) *E           { return &E{Op: "col", Col: c} }
func Con(v Val) *E              { return &E{Op: "const", Val: v} }
func Bin(op string, x, y *E) *E { return &E{Op: op, Args: []*E{x, y}} }
func Not(x *E) *E               { return &E{Op: "not", Args: []*E{x}} }
func In(x *E, vals ...Val) *E {
	e := &E{Op: "in", Args: []*E{x}}
	for _, v := range vals {
		e.Args = append(e.Args, Con(v))
	}
	return e
}

// prec is the binding strength of the operator in the expression grammar
// (compile/expression.go); used to emit only the parentheses that are needed,
// because a parenthesised sub-expression is kept as a node by the parser and
// would hide simple comparisons from the optimizer.
func (e *E) prec() int {
	switch e.Op {
	case "?:":
		return 3
	case "or":
		return 4
	case "and":
		return 5
	case "in":
		return 6
	case "is", "isnt":
		return 10
	case "<", "<=", ">", ">=":
		return 11
	case "+", "-", "$":
		return 13
	case "*":
		return 14
	case "not":
		return 16
	}
	return 20
}

// Text renders the expression with minimal parentheses.
func (e *E) Text() string {
	switch e.Op {
	case "col":
		return e.Col
	case "const":
		return e.Val.Lit()
	case "not":
		return "not " + e.Args[0].sub(17)
	case "in":
		var parts []string
		for _, a := range e.Args[1:] {
			parts = append(parts, a.Text())
		}
		return e.Args[0].sub(7) + " in (" + strings.Join(parts, ", ") + ")"
	case "?:":
		return e.Args[0].sub(4) + " ? " + e.Args[1].sub(4) + " : " + e.Args[2].sub(4)
	}
	var parts []string
	for i, a := range e.Args {
		need := e.prec() + 1
		if i == 0 && (e.Op == "and" || e.Op == "or") {
			need = e.prec()
		}
		if a.Op == e.Op && (e.Op == "and" || e.Op == "or") {
			need = e.prec()
		}
		parts = append(parts, a.sub(need))
	}
	return strings.Join(parts, " "+e.Op+" ")
}

// sub renders an operand, parenthesised if it binds weaker than need.
func (e *E) sub(need int) string {
	if e.prec() >= need {
		return e.Text()
	}
	return "(" + e.Text() + ")"
}

// Cols returns the columns referenced.
func (e *E) Cols() []string {
	var out []string
	var walk func(*E)
	walk = func(x *E) {
		if x.Op == "col" {
			out = addUnique(out, x.Col)
		}
		for _, a := range x.Args {
			walk(a)
		}
	}
	walk(e)
	return out
}

func addUnique(list []string, s string) []string {
	for _, x := range list {
		if x == s {
			return list
		}
	}
	return append(list, s)
}

// SumOp is one summarize function.
type SumOp struct {
	Col string // result column ("" = default name)
	Op  string // count total min max
	On  string
}

func (s SumOp) Name() string {
	if s.Col != "" {
		return s.Col
	}
	if s.Op == "count" {
		return "count"
	}
	return s.Op + "_" + s.On
}

// Q is a query as written.
type Q struct {
	Op      string // table where project remove rename extend summarize join leftjoin semijoin times union intersect minus sort
	Name    string // table (or view) name
	Src     *Q
	Src2    *Q
	Cols    []string // project/remove columns, summarize by, sort columns, extend result columns
	From    []string // rename
	To      []string
	Exprs   []*E // where: one expression; extend: parallel to Cols (nil = rule, not used)
	Sums    []SumOp
	Reverse bool
}

func Table(name string) *Q                { return &Q{Op: "table", Name: name} }
func Where(src *Q, e *E) *Q               { return &Q{Op: "where", Src: src, Exprs: []*E{e}} }
func Project(src *Q, cols ...string) *Q   { return &Q{Op: "project", Src: src, Cols: cols} }
func Remove(src *Q, cols ...string) *Q    { return &Q{Op: "remove", Src: src, Cols: cols} }
func Rename(src *Q, from, to []string) *Q { return &Q{Op: "rename", Src: src, From: from, To: to} }
func Extend(src *Q, cols []string, exprs []*E) *Q {
	return &Q{Op: "extend", Src: src, Cols: cols, Exprs: exprs}
}
func Summarize(src *Q, by []string, sums ...SumOp) *Q {
	return &Q{Op: "summarize", Src: src, Cols: by, Sums: sums}
}
func Binary(op string, x, y *Q) *Q { return &Q{Op: op, Src: x, Src2: y} }
func Sort(src *Q, reverse bool, cols ...string) *Q {
	return &Q{Op: "sort", Src: src, Cols: cols, Reverse: reverse}
}

func (q *Q) IsBinary() bool { return q.Src2 != nil }

// Text renders the query in the query language. A right operand that is not
// a plain table is parenthesised; left operands never need parentheses because
// operators apply left to right.
func (q *Q) Text() string {
	switch q.Op {
	case "table":
		return q.Name
	case "where":
		return q.Src.Text() + " where " + q.Exprs[0].Text()
	case "project", "remove":
		return q.Src.Text() + " " + q.Op + " " + strings.Join(q.Cols, ", ")
	case "rename":
		var parts []string
		for i := range q.From {
			parts = append(parts, q.From[i]+" to "+q.To[i])
		}
		return q.Src.Text() + " rename " + strings.Join(parts, ", ")
	case "extend":
		var parts []string
		for i := range q.Cols {
			parts = append(parts, q.Cols[i]+" = "+q.Exprs[i].Text())
		}
		return q.Src.Text() + " extend " + strings.Join(parts, ", ")
	case "summarize":
		var parts []string
		parts = append(parts, q.Cols...)
		for _, s := range q.Sums {
			t := ""
			if s.Col != "" {
				t = s.Col + " = "
			}
			t += s.Op
			if s.Op != "count" {
				t += " " + s.On
			}
			parts = append(parts, t)
		}
		return q.Src.Text() + " summarize " + strings.Join(parts, ", ")
	case "sort":
		r := ""
		if q.Reverse {
			r = "reverse "
		}
		return q.Src.Text() + " sort " + r + strings.Join(q.Cols, ", ")
	}
	// binary
	rhs := q.Src2.Text()
	if q.Src2.Op != "table" {
		rhs = "(" + rhs + ")"
	}
	return q.Src.Text() + " " + q.Op + " " + rhs
}

// Depth is the number of operators on the longest path (sort not counted).
func (q *Q) Depth() int {
	switch {
	case q.Op == "table":
		return 0
	case q.Op == "sort":
		return q.Src.Depth()
	case q.Src2 != nil:
		return 1 + max(q.Src.Depth(), q.Src2.Depth())
	}
	return 1 + q.Src.Depth()
}

// Walk visits every node.
func (q *Q) Walk(f func(*Q)) {
	f(q)
	if q.Src != nil {
		q.Src.Walk(f)
	}
	if q.Src2 != nil {
		q.Src2.Walk(f)
	}
}

// Has reports whether some node has the given operator.
func (q *Q) Has(op string) bool {
	found := false
	q.Walk(func(n *Q) {
		if n.Op == op {
			found = true
		}
	})
	return found
}
