package qh

import (
	"fmt"
	"sort"
	"strings"

	"github.com/apmckinlay/gsuneido/core"
	qry "github.com/apmckinlay/gsuneido/dbms/query"

	"verif/checks/c22/qm"
)

// PlanCase identifies one way of preparing a query (replayable).
type PlanCase struct {
	Mode    string  `json:"mode"`
	Req     Req     `json:"req"`
	Knobs   Knobs   `json:"knobs"`
	Choices Choices `json:"choices"`
}

func (pc PlanCase) String() string {
	return fmt.Sprintf("mode=%s req=%s knobs=%s choices=%s", pc.Mode, pc.Req, pc.Knobs, pc.Choices)
}

// ExploreStats reports what the plan exploration of one (query, mode, req) did.
type ExploreStats struct {
	Runs     int // optimizer runs
	Distinct int // distinct strategies handed to visit
	MaxQ     int // largest number of seam questions in one run
	Bound    int // deviation bound completed (from both defaults)
	Capped   bool
}

func estRuns(n, d int) int {
	r := 1
	if d >= 1 {
		r += n
	}
	if d >= 2 {
		r += n * (n - 1) / 2
	}
	if d >= 3 {
		r += n * (n - 1) * (n - 2) / 6
	}
	return r
}

// Effort says how much of the optimizer's decision space to enumerate.
type Effort struct {
	MinCost []Knobs // knob settings for the normal minimum-cost plan
	Seam    []Knobs // knob settings under which the randomBest seam is searched
	Bound   int     // maximal deviation bound of the seam search
	MaxRuns int     // budget of optimizer runs per seam search (decides the bound used)
}

// ExplorePlans enumerates optimizer decisions for one query text / mode /
// requirement:
//
//   - the normal minimum-cost plan under every knob setting in ef.MinCost;
//   - with the randomBest seam, under every knob setting in ef.Seam: a
//     stateless depth-first search over the answer sequences, once with default
//     answer "keep the first candidate" and once with default answer "always
//     take the later candidate", all deviations from the default up to a
//     bound. The bound is the largest d <= ef.Bound whose estimated number of
//     runs (from the number of questions of the default run) stays within
//     ef.MaxRuns.
//
// visit is called once per distinct strategy string with the prepared query;
// it must not keep it. Errors of Prepare other than ErrImpossible are passed
// to visit with p == nil.
func (e *Env) ExplorePlans(text string, mode qry.Mode, req Req, ef Effort,
	visit func(pc PlanCase, p *Prepared, err error)) ExploreStats {
	st := ExploreStats{Bound: ef.Bound}
	seen := map[string]bool{}
	try := func(kn Knobs, ch Choices) int {
		pc := PlanCase{Mode: ModeName(mode), Req: req, Knobs: kn, Choices: ch}
		p, err := e.Prepare(text, mode, req, kn, ch)
		st.Runs++
		if err == ErrImpossible {
			return -1
		}
		if err != nil {
			visit(pc, nil, err)
			return -1
		}
		defer p.Close()
		if p.NChoices > st.MaxQ {
			st.MaxQ = p.NChoices
		}
		if !seen[p.Strategy] {
			seen[p.Strategy] = true
			st.Distinct++
			visit(pc, p, nil)
		}
		return p.NChoices
	}
	for _, kn := range ef.MinCost {
		try(kn, Choices{Off: true})
	}
	for _, kn := range ef.Seam {
		for _, rest := range []bool{false, true} {
			n0 := try(kn, Choices{Rest: rest})
			if n0 <= 0 {
				continue
			}
			bound := 0
			for d := 1; d <= ef.Bound; d++ {
				if estRuns(n0, d) <= ef.MaxRuns {
					bound = d
				}
			}
			if bound < st.Bound {
				st.Bound = bound
			}
			runs0 := st.Runs
			var rec func(script []bool, dev int)
			rec = func(script []bool, dev int) {
				n := n0
				if len(script) > 0 {
					n = try(kn, Choices{Script: script, Rest: rest})
				}
				if dev >= bound || n <= 0 {
					return
				}
				for i := len(script); i < n; i++ {
					if st.Runs-runs0 > 4*ef.MaxRuns {
						st.Capped = true
						return
					}
					child := make([]bool, i+1)
					copy(child, script)
					for j := len(script); j < i; j++ {
						child[j] = rest
					}
					child[i] = !rest
					rec(child, dev+1)
				}
			}
			rec(nil, 0)
		}
	}
	return st
}

// Rows converts implementation rows to model rows over cols.
func Rows(p *Prepared, rows []core.Row, cols []string, th *core.Thread) ([][]qm.Val, error) {
	hdr := p.Q.Header()
	out := make([][]qm.Val, len(rows))
	for i, row := range rows {
		vals, err := RowVals(hdr, row, cols, th)
		if err != nil {
			return nil, err
		}
		out[i] = vals
	}
	return out, nil
}

// SameCols reports whether two column lists are equal as sets.
func SameCols(a, b []string) bool {
	if len(a) != len(b) {
		return false
	}
	x := append([]string(nil), a...)
	y := append([]string(nil), b...)
	sort.Strings(x)
	sort.Strings(y)
	for i := range x {
		if x[i] != y[i] {
			return false
		}
	}
	return true
}

// CompareRows judges the rows got (over exp.Cols, in the order read in
// direction dir) against the expected result: equal as multisets (every
// relational result is a set, so a duplicate is an error) and, if the query
// has a sort, ordered by the sort columns in stored-value order (reversed for
// sort reverse and for reading backwards). Returns "" if fine.
func CompareRows(exp *qm.Result, got [][]qm.Val, dir core.Dir) string {
	want := map[string]int{}
	for _, row := range exp.Rows {
		want[rowText(row)]++
	}
	var extra, dups []string
	have := map[string]int{}
	for _, row := range got {
		k := rowText(row)
		have[k]++
		if have[k] > want[k] {
			if want[k] > 0 {
				dups = append(dups, k)
			} else {
				extra = append(extra, k)
			}
		}
	}
	var missing []string
	for k, n := range want {
		if have[k] < n {
			missing = append(missing, k)
		}
	}
	if len(extra)+len(dups)+len(missing) > 0 {
		sort.Strings(missing)
		return fmt.Sprintf("rows differ (columns %s): missing %v, unexpected %v, duplicated %v; got %d rows, expected %d",
			strings.Join(exp.Cols, ","), trunc(missing), trunc(extra), trunc(dups), len(got), len(exp.Rows))
	}
	if len(exp.SortCols) > 0 {
		idx := make([]int, len(exp.SortCols))
		for i, c := range exp.SortCols {
			idx[i] = exp.Col(c)
		}
		asc := !exp.Reverse
		if dir == core.Prev {
			asc = !asc
		}
		for i := 1; i < len(got); i++ {
			c := 0
			for _, j := range idx {
				if c = qm.CmpStored(got[i-1][j], got[i][j]); c != 0 {
					break
				}
			}
			if (asc && c > 0) || (!asc && c < 0) {
				return fmt.Sprintf("sort order violated at row %d: %s then %s (sort %v reverse=%v dir=%c)",
					i, rowText(got[i-1]), rowText(got[i]), exp.SortCols, exp.Reverse, dir)
			}
		}
	}
	return ""
}

func trunc(list []string) []string {
	if len(list) > 4 {
		return append(list[:4:4], fmt.Sprintf("… %d more", len(list)-4))
	}
	return list
}

func rowText(row []qm.Val) string {
	var sb strings.Builder
	for _, v := range row {
		sb.WriteString(v.Lit())
		sb.WriteByte(',')
	}
	return sb.String()
}

// Simple runs the implementation's own Simple() on a freshly parsed,
// untransformed tree (used only as a cross-check of the model).
func (e *Env) Simple(text string, cols []string) (rows [][]qm.Val, err error) {
	defer func() {
		if r := recover(); r != nil {
			err = fmt.Errorf("panic in Simple: %v", r)
		}
	}()
	q := qry.ParseQuery(text, e.DB.NewReadTran(), nil)
	rs := q.Simple(e.Th)
	hdr := q.Header()
	for _, row := range rs {
		vals, err := RowVals(hdr, row, cols, e.Th)
		if err != nil {
			return nil, err
		}
		rows = append(rows, vals)
	}
	return rows, nil
}

// Classify computes the known-finding class a failing query belongs to (""
// if none); see qm/classify.go for the classes. The whole-row class uses the
// implementation's own flag on the parsed tree to recognise the special case.
func (e *Env) Classify(q *qm.Q) string {
	if qm.UnionOrderFixed(q) {
		return qm.ClassUnionOrderFixed
	}
	if e.Model.NameClash(q) {
		return qm.ClassSumNameClash
	}
	if e.Model.ProjectToMinMax(q) {
		return qm.ClassWholeRowBelow
	}
	if pq, err := e.ParseOnly(q.Text()); err == nil && qry.VerifWholeRowBelow(pq) {
		return qm.ClassWholeRowBelow
	}
	return ""
}

// ClassUnionDisjointProbe: the union "lookup" strategy, when the sources are
// disjoint (no lookups needed), still probes the second source for every row
// of the first with an empty selection (Union.getLookup calls source2Has
// unconditionally; its dbg.Assert(disjoint == "") is compiled out). Harmless
// on a table read by a single-column index, but a TempIndex or a table read by
// a multi-column index as second source panics ("TempIndex makeKey not full" /
// "selOrg not full"). Reached under a unique/group requirement that includes
// the disjoint column (what a to-one join on all columns asks for).
const ClassUnionDisjointProbe = "union-disjoint-lookup-probes-second-source"

// ClassifyPanic classifies a failure message of a read.
func ClassifyPanic(msg string) string {
	if (strings.Contains(msg, "TempIndex makeKey not full") || strings.Contains(msg, "selOrg not full")) &&
		strings.Contains(msg, "union-disjoint(") && !strings.Contains(msg, "-merge") {
		return ClassUnionDisjointProbe
	}
	return ""
}
