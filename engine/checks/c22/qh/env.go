// Package qh is the implementation side of the query checks C22-C24: it
// builds a real database (heap stor) from a model database, prepares queries
// with the real parser / Transform / optimizer under enumerated optimizer
// decisions, executes them and converts the rows to model values.
package qh

import (
	"fmt"
	"strings"
	"time"

	"github.com/apmckinlay/gsuneido/core"
	"github.com/apmckinlay/gsuneido/core/types"
	"github.com/apmckinlay/gsuneido/db19"
	"github.com/apmckinlay/gsuneido/db19/stor"
	qry "github.com/apmckinlay/gsuneido/dbms/query"

	"verif/checks/c22/qm"
)

// Env is one real database mirroring a model database.
type Env struct {
	Name  string
	Model *qm.DB
	DB    *db19.Database
	Th    *core.Thread
}

// setHooks installs the transaction-value hooks the way the repo's query
// tests do (rules are not used by the checks). Called from NewEnv, i.e. after
// package dbms' init which installs the production hooks.
func setHooks() {
	db19.MakeSuTran = func(ut *db19.UpdateTran) *core.SuTran {
		return core.NewSuTran(nil, true)
	}
	qry.MakeSuTran = func(qt qry.QueryTran) *core.SuTran { return nil }
}

// NewEnv creates the database: tables, rows (one insert action each, through
// the query language), views; then waits for the background merge so that the
// committed rows are in the base indexes' overlay as usual.
func NewEnv(name string, model *qm.DB) *Env {
	setHooks()
	st := stor.HeapStor(8192)
	db := db19.CreateDb(st)
	db19.StartConcur(db, 50*time.Millisecond)
	e := &Env{Name: name, Model: model, DB: db, Th: &core.Thread{}}
	for _, tn := range model.Order {
		t := model.Tables[tn]
		qry.DoAdmin(db, t.Schema(), nil)
		for _, row := range t.Rows {
			e.Act(InsertText(t, row))
		}
	}
	for vn, def := range model.Views {
		qry.DoAdmin(db, "view "+vn+" = "+def.Text(), nil)
	}
	return e
}

// InsertText renders an insert statement for one row.
func InsertText(t *qm.TableDef, row []qm.Val) string {
	var parts []string
	for i, c := range t.Cols {
		parts = append(parts, c+": "+row[i].Lit())
	}
	return "insert { " + strings.Join(parts, ", ") + " } into " + t.Name
}

// Act runs one action in its own committed update transaction.
func (e *Env) Act(action string) int {
	ut := e.DB.NewUpdateTran()
	n := qry.DoAction(nil, ut, action)
	ut.Commit()
	return n
}

func (e *Env) Close() { e.DB.Close() }

// ToVal converts a packed value to a model value.
func ToVal(raw string) (qm.Val, error) {
	if raw == "" {
		return qm.Empty, nil
	}
	v := core.Unpack(raw)
	switch x := v.(type) {
	case core.SuBool:
		return qm.Bool(bool(x)), nil
	case core.SuStr:
		return qm.Str(string(x)), nil
	}
	if i, ok := v.ToInt(); ok && v.Type() == types.Number {
		return qm.Int(int64(i)), nil
	}
	if s, ok := v.ToStr(); ok && v.Type() == types.String {
		return qm.Str(s), nil
	}
	return qm.Empty, fmt.Errorf("value outside the model alphabet: %v", v)
}

// Pack converts a model value to its packed form.
func Pack(v qm.Val) string {
	switch v.K {
	case qm.KInt:
		return core.Pack(core.IntVal(int(v.I)))
	case qm.KBool:
		return core.Pack(core.SuBool(v.I == 1))
	}
	return core.Pack(core.SuStr(v.S))
}

// RowVals reads the given columns of a row through the header, the way the
// language interface does (GetRawVal), and converts them.
func RowVals(hdr *core.Header, row core.Row, cols []string, th *core.Thread) ([]qm.Val, error) {
	out := make([]qm.Val, len(cols))
	for i, c := range cols {
		v, err := ToVal(row.GetRawVal(hdr, c, th, nil))
		if err != nil {
			return nil, fmt.Errorf("column %s: %v", c, err)
		}
		out[i] = v
	}
	return out, nil
}
