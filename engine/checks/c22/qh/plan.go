package qh

import (
	"fmt"
	"math"
	"math/rand/v2"
	"os"
	"runtime/debug"
	"strings"

	"github.com/apmckinlay/gsuneido/core"
	"github.com/apmckinlay/gsuneido/db19"
	"github.com/apmckinlay/gsuneido/db19/meta"
	qry "github.com/apmckinlay/gsuneido/dbms/query"
)

// Req is the requirement a query is prepared under (see require.go):
// none (what Setup uses), order, group, unique.
type Req struct {
	Use  string   `json:"use"` // "none" "order" "group" "unique"
	Cols []string `json:"cols,omitempty"`
}

func (r Req) String() string {
	if r.Use == "none" || r.Use == "" {
		return "none"
	}
	return r.Use + "(" + strings.Join(r.Cols, ",") + ")"
}

func (r Req) require() qry.Require {
	switch r.Use {
	case "order":
		return qry.OrderReq(r.Cols, 1)
	case "group":
		return qry.GroupReq(r.Cols, 1, 1)
	case "unique":
		return qry.UniqueReq(r.Cols, 1)
	}
	return qry.NoneReq(1)
}

// Knobs are the optimizer settings that are not cost based decisions of the
// `best` kind: the test seams joinRev / ticostAdj and a statistics profile.
type Knobs struct {
	NoJoinRev bool   `json:"noJoinRev,omitempty"` // joinRev = impossible: joins keep the written order
	NoTempIdx bool   `json:"noTempIdx,omitempty"` // ticostAdj = 9999999: temp indexes only when unavoidable
	Stats     string `json:"stats,omitempty"`     // "" real | "big" | "skewA" | "skewB": table size estimates seen by the optimizer
}

func (k Knobs) String() string {
	s := ""
	if k.NoJoinRev {
		s += "J"
	}
	if k.NoTempIdx {
		s += "T"
	}
	if k.Stats != "" {
		s += "/" + k.Stats
	}
	if s == "" {
		return "-"
	}
	return s
}

// Choices drives the optimizer's `best.update` seam (randomBest): with the
// seam active every candidate after the first of each `best` asks one
// question "replace the current candidate by this one?". Script gives the
// answers of the first len(Script) questions; Rest answers all later ones.
// Off = seam inactive (normal minimum-cost choice).
type Choices struct {
	Off    bool   `json:"off,omitempty"`
	Script []bool `json:"script,omitempty"`
	Rest   bool   `json:"rest,omitempty"`
}

func (c Choices) String() string {
	if c.Off {
		return "mincost"
	}
	var sb strings.Builder
	for _, b := range c.Script {
		if b {
			sb.WriteByte('1')
		} else {
			sb.WriteByte('0')
		}
	}
	if c.Rest {
		sb.WriteString("+1*")
	} else {
		sb.WriteString("+0*")
	}
	return sb.String()
}

// choiceSrc is the deterministic rand.Source behind randomBest. best.update
// asks randomBest.IntN(nseen) == 0 (replace?). math/rand/v2 computes IntN(n)
// from one Uint64 x as x&(n-1) for powers of two and as the high word of x*n
// otherwise (re-drawing only if the low word is < 2^64 mod n):
//
//	x = 1<<32  gives 0 for every n < 2^32 (no re-draw since low = n<<32 >= n)
//	x = 2^64-1 gives n-1 != 0 for every n >= 2 (low = 2^64-n, no re-draw)
type choiceSrc struct {
	c Choices
	n int
}

func (s *choiceSrc) Uint64() uint64 {
	i := s.n
	s.n++
	replace := s.c.Rest
	if i < len(s.c.Script) {
		replace = s.c.Script[i]
	}
	if replace {
		return 1 << 32
	}
	return math.MaxUint64
}

// statsTran shows the optimizer scaled table statistics (like the repo's own
// sizeTran test helper); the data is unchanged.
type statsTran struct {
	qry.QueryTran
	profile string
}

func (t statsTran) GetInfo(table string) *meta.Info {
	info := t.QueryTran.GetInfo(table)
	if info == nil {
		return nil
	}
	ti := *info
	scale := 1
	odd := len(table) > 0 && (table[len(table)-1]-'0')%2 == 1
	switch t.profile {
	case "big":
		scale = 4000
	case "skewA":
		if odd {
			scale = 20000
		}
	case "skewB":
		if !odd {
			scale = 20000
		}
	}
	ti.Nrows = max(ti.Nrows, 1) * scale
	ti.Size = int64(ti.Nrows) * 100
	return &ti
}

// Prepared is a query ready for execution.
type Prepared struct {
	Q        qry.Query
	Tran     qry.QueryTran
	Strategy string // qry.String of the optimized query
	NChoices int    // number of questions the seam asked
	Cols     []string
	done     func()
}

func (p *Prepared) Close() {
	if p.done != nil {
		p.done()
		p.done = nil
	}
}

// ErrImpossible: the optimizer found no way to satisfy the requirement.
var ErrImpossible = fmt.Errorf("impossible")

// Prepare parses text with the real parser and sets it up (Transform,
// Optimize, SetApproach) in the given mode under the requirement, knobs and
// seam answers. A panic of the implementation is returned as error.
func (e *Env) Prepare(text string, mode qry.Mode, req Req, kn Knobs, ch Choices) (p *Prepared, err error) {
	var rt *db19.ReadTran
	var ut *db19.UpdateTran
	var tran qry.QueryTran
	if mode == qry.UpdateMode {
		ut = e.DB.NewUpdateTran()
		tran = ut
	} else {
		rt = e.DB.NewReadTran()
		tran = rt
	}
	if kn.Stats != "" {
		tran = statsTran{QueryTran: tran, profile: kn.Stats}
	}
	done := func() {
		if ut != nil {
			ut.Abort()
		}
	}
	src := &choiceSrc{c: ch}
	if !ch.Off {
		qry.VerifSetRandomBest(rand.New(src))
	}
	if kn.NoJoinRev {
		qry.VerifSetJoinRev(qry.VerifImpossible)
	}
	if kn.NoTempIdx {
		qry.VerifSetTicostAdj(9999999)
	}
	defer func() {
		qry.VerifSetRandomBest(nil)
		qry.VerifSetJoinRev(0)
		qry.VerifSetTicostAdj(0)
		if r := recover(); r != nil {
			done()
			p = nil
			err = fmt.Errorf("panic in parse/setup: %v", r)
			if os.Getenv("VERIF_STACK") != "" {
				fmt.Fprintf(os.Stderr, "%v\n%s\n", r, debug.Stack())
			}
		}
	}()
	q := qry.ParseQuery(text, tran, nil)
	if _, isSort := q.(*qry.Sort); isSort && req.Use != "none" && req.Use != "" {
		done()
		return nil, ErrImpossible // Sort only accepts ReqNone
	}
	q = q.Transform()
	r := req.require()
	fix, vr := qry.Optimize(q, mode, r)
	if fix+vr >= qry.VerifImpossible {
		done()
		return nil, ErrImpossible
	}
	q = qry.SetApproach(q, r, tran)
	if mode == qry.CursorMode {
		// a cursor is set up with one transaction and read with another
		q.SetTran(e.DB.NewReadTran())
	}
	return &Prepared{Q: q, Tran: tran, Strategy: qry.String(q), NChoices: src.n,
		Cols: q.Header().Columns, done: done}, nil
}

// ParseOnly parses the query (no transform) in a fresh read transaction.
func (e *Env) ParseOnly(text string) (q qry.Query, err error) {
	defer func() {
		if r := recover(); r != nil {
			err = fmt.Errorf("panic in parse: %v", r)
		}
	}()
	return qry.ParseQuery(text, e.DB.NewReadTran(), nil), nil
}

const maxRows = 5000

// ReadAll rewinds and reads all rows in one direction; it also checks that the
// query sticks at the end (two more reads return nothing). Panics are
// returned as errors.
func (p *Prepared) ReadAll(th *core.Thread, dir core.Dir) (rows []core.Row, err error) {
	defer func() {
		if r := recover(); r != nil {
			err = fmt.Errorf("panic in Get: %v", r)
			if os.Getenv("VERIF_STACK") != "" {
				fmt.Fprintf(os.Stderr, "%v\n%s\n", r, debug.Stack())
			}
		}
	}()
	p.Q.Rewind()
	for {
		row := p.Q.Get(th, dir)
		if row == nil {
			break
		}
		rows = append(rows, row)
		if len(rows) > maxRows {
			return rows, fmt.Errorf("more than %d rows: does not terminate", maxRows)
		}
	}
	for i := 0; i < 2; i++ {
		if p.Q.Get(th, dir) != nil {
			return rows, fmt.Errorf("Get returned a row after the end (does not stick at eof)")
		}
	}
	return rows, nil
}

// ModeName / ParseMode for replay files.
func ModeName(m qry.Mode) string {
	switch m {
	case qry.CursorMode:
		return "cursor"
	case qry.UpdateMode:
		return "update"
	}
	return "read"
}

func ParseMode(s string) qry.Mode {
	switch s {
	case "cursor":
		return qry.CursorMode
	case "update":
		return qry.UpdateMode
	}
	return qry.ReadMode
}
