package main

import (
	"fmt"
	"math/rand/v2"
	"os"
	"time"

	_ "github.com/apmckinlay/gsuneido/builtin"
	. "github.com/apmckinlay/gsuneido/core"
	"github.com/apmckinlay/gsuneido/db19"
	"github.com/apmckinlay/gsuneido/db19/stor"
	qry "github.com/apmckinlay/gsuneido/dbms/query"
)

type src struct{ n int; script []int }

func (s *src) Uint64() uint64 {
	s.n++
	return 0
}

func main() {
	st := stor.HeapStor(8192)
	db := db19.CreateDb(st)
	db19.StartConcur(db, 50*time.Millisecond)
	db19.MakeSuTran = func(ut *db19.UpdateTran) *SuTran { return NewSuTran(nil, true) }
	qry.MakeSuTran = func(qt qry.QueryTran) *SuTran { return nil }
	adm := func(s string) { qry.DoAdmin(db, s, nil) }
	act := func(s string) { ut := db.NewUpdateTran(); qry.DoAction(nil, ut, s); ut.Commit() }
	adm("create t1 (a,b,c) key(a) index(b)")
	adm("create t2 (a,d) key(a,d) index(d)")
	adm("create t3 (b,e) key(b)")
	for i := 0; i < 5; i++ {
		act(fmt.Sprintf("insert {a: %d, b: 'b%d', c: %d} into t1", i, i%3, i%2))
		act(fmt.Sprintf("insert {a: %d, d: %d} into t2", i%3, i))
	}
	act("insert {b: 'b0', e: 1} into t3")
	act("insert {b: 'b1', e: 2} into t3")
	th := &Thread{}
	for _, q := range os.Args[1:] {
		rt := db.NewReadTran()
		s := &src{}
		qry.VerifSetRandomBest(rand.New(s))
		pq := qry.ParseQuery(q, rt, nil)
		fmt.Println("parsed:", qry.String(pq), "cols", pq.Columns(), "keys", pq.Keys(), "fixed", pq.Fixed())
		t0 := time.Now()
		oq, fc, vc := qry.Setup(pq, qry.ReadMode, rt)
		fmt.Println("opt:", qry.String(oq), fc, vc, "randcalls", s.n, time.Since(t0))
		hdr := oq.Header()
		for row := oq.Get(th, Next); row != nil; row = oq.Get(th, Next) {
			fmt.Println("  ", RowStr(hdr, row))
		}
		qry.VerifSetRandomBest(nil)
		pq = qry.ParseQuery(q, rt, nil)
		oq, fc, vc = qry.Setup(pq, qry.ReadMode, rt)
		fmt.Println("normal:", qry.String(oq), fc, vc)
	}
}
