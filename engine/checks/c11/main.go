// C11 Index buffer merging is equivalent to applying changes in order.
//
// Bounded-exhaustive enumeration of LISTS of index change buffers (ixbuf.T):
// every pair (and, from a reduced alphabet, every triple / quadruple) of buffer
// specifications = key pattern x size x operation mix x insertion order, for
// three initial presence lines. Sizes sit on the chunk boundaries read off the
// code (goal(n<256) = 24 slots: a chunk splits at 25; Merge passes chunks of
// more than 12 slots through by reference). Every buffer is built with the real
// ixbuf.Insert/Update/Delete (which combine repeated operations on a key and
// split chunks), then the list is merged with the real ixbuf.Merge.
//
// Oracle: an independent fold. Every raw operation is (key, kind, unique
// offset); per key the net change of a buffer, and of the buffer list in order,
// is computed from PRESENCE semantics only (add: absent->present, update:
// present->present, delete: present->absent; net absent->absent = no entry and
// no trace, the offset is the one of the last operation that left a trace) - not from the Combine bit
// table. Checked: every single buffer equals its own model (sorted, unique,
// Len, Check, Lookup); Merge(list) yields exactly the model entries in order
// with the expected flag bits and offsets; result.Check() passes; Len()
// matches; every input buffer is unchanged (entries and chunk structure);
// nested merging Merge(Merge(a,b),c) gives the same entries.
package main

import (
	"encoding/json"
	"fmt"
	"slices"
	"strings"

	"github.com/apmckinlay/gsuneido/db19/index/ixbuf"

	"verif/lib"
)

const nKeys = 128

var keyTab = func() []string {
	t := make([]string, nKeys)
	for i := range t {
		t[i] = fmt.Sprintf("k%03d", i)
	}
	t[0] = "" // the empty key is a legal index key
	return t
}()

// ---------------------------------------------------------------- buffer specs

type bufSpec struct {
	Pat   int `json:"pat"`   // key pattern
	Size  int `json:"size"`  // number of keys touched
	Mix   int `json:"mix"`   // how the operation per key is chosen
	Order int `json:"order"` // order of the Insert calls
}

var patNames = []string{"evens", "odds", "low-run", "high-run", "mid-run", "spread"}
var mixNames = []string{"add|update", "add|delete", "add|update/delete alternating", "two ops per key (churn)"}
var orderNames = []string{"ascending", "descending", "stride"}

func (b bufSpec) String() string {
	return fmt.Sprintf("{%s x%d, %s, %s}", patNames[b.Pat], b.Size, mixNames[b.Mix], orderNames[b.Order])
}

// positions returns the key indexes touched by a buffer, ascending.
func positions(pat, size int) []int {
	p := make([]int, size)
	for i := range p {
		switch pat {
		case 0:
			p[i] = 2 * i
		case 1:
			p[i] = 2*i + 1
		case 2:
			p[i] = i
		case 3:
			p[i] = nKeys - size + i
		case 4:
			p[i] = nKeys/2 - size/2 + i
		case 5:
			p[i] = i * (nKeys / max(size, 1))
		}
	}
	return p
}

// order returns the permutation in which the keys are inserted.
func order(ord, n int) []int { return orderInto(make([]int, n), ord) }

func orderInto(p []int, ord int) []int {
	n := len(p)
	switch ord {
	case 0:
		for i := range p {
			p[i] = i
		}
	case 1:
		for i := range p {
			p[i] = n - 1 - i
		}
	default: // stride: i*k mod n with k coprime to n, k > n/2
		k := n/2 + 1
		for gcd(k, n) != 1 {
			k++
		}
		for i := range p {
			p[i] = i * k % n
		}
	}
	return p
}

func gcd(a, b int) int {
	for b != 0 {
		a, b = b, a%b
	}
	return a
}

// ---------------------------------------------------------------- model

type rawOp struct {
	key  int
	kind byte // 'a' add, 'u' update, 'd' delete
	off  uint64
}

// change is the net effect on one key: presence before -> after, offset of
// the last operation.
type change struct {
	pre, post bool
	off       uint64
	set       bool
}

// then composes c followed by one more operation.
func (c change) then(kind byte, off uint64) (change, string) {
	var pre, post bool
	switch kind {
	case 'a':
		pre, post = false, true
	case 'u':
		pre, post = true, true
	case 'd':
		pre, post = true, false
	}
	if !c.set {
		return change{pre, post, off, true}, ""
	}
	if c.post != pre {
		return c, fmt.Sprintf("harness: invalid op %c after presence=%v", kind, c.post)
	}
	if !c.pre && !post {
		// added and deleted again: no trace is left (in particular an
		// earlier buffer's tombstone keeps its own offset)
		return change{}, ""
	}
	return change{c.pre, post, off, true}, ""
}

// thenChange composes c with the net change n of a later buffer.
func (c change) thenChange(n change) (change, string) {
	if !n.set {
		return c, ""
	}
	kind := byte('u')
	switch {
	case !n.pre && n.post:
		kind = 'a'
	case n.pre && !n.post:
		kind = 'd'
	}
	return c.then(kind, n.off)
}

// slotOff is the offset word an ixbuf entry must hold for a net change
// (0 = no entry).
func (c change) slotOff() uint64 {
	switch {
	case !c.set || (!c.pre && !c.post):
		return 0
	case !c.pre && c.post:
		return c.off
	case c.pre && c.post:
		return c.off | ixbuf.Update
	}
	return c.off | ixbuf.Delete
}

// ---------------------------------------------------------------- one case

type listCase struct {
	P0   int       `json:"p0"` // initial presence: 0 none, 1 all, 2 even keys
	Bufs []bufSpec `json:"bufs"`
}

func (lc listCase) String() string {
	var sb strings.Builder
	fmt.Fprintf(&sb, "initially-present=%s", []string{"none", "all", "even keys"}[lc.P0])
	for _, b := range lc.Bufs {
		sb.WriteString(" " + b.String())
	}
	return sb.String()
}

type stats struct {
	passthru, multiChunkIn, multiChunkOut, combined, removed int
}

// genOps produces the raw operations of one buffer given the presence line,
// and advances the presence line. buf is reused scratch space.
func genOps(b bufSpec, present *[nKeys]bool, nextOff *uint64, buf []rawOp) []rawOp {
	var pos [64]int
	n := b.Size
	copy(pos[:], positions(b.Pat, b.Size))
	var perKey [64][3]byte // op kinds per key, 0 = none
	for i := 0; i < n; i++ {
		p := present[pos[i]]
		var ops [3]byte
		switch b.Mix {
		case 0:
			if p {
				ops = [3]byte{'u'}
			} else {
				ops = [3]byte{'a'}
			}
		case 1:
			if p {
				ops = [3]byte{'d'}
			} else {
				ops = [3]byte{'a'}
			}
		case 2:
			switch {
			case !p:
				ops = [3]byte{'a'}
			case i%2 == 0:
				ops = [3]byte{'u'}
			default:
				ops = [3]byte{'d'}
			}
		default: // churn: two or three operations on the key inside one buffer
			switch {
			case !p && i%2 == 0:
				ops = [3]byte{'a', 'u'} // net add
			case !p && i%4 == 1:
				ops = [3]byte{'a', 'd'} // net nothing (entry removed)
			case !p:
				ops = [3]byte{'a', 'd', 'a'} // net add
			case i%3 == 0:
				ops = [3]byte{'d', 'a'} // net update
			case i%3 == 1:
				ops = [3]byte{'u', 'd'} // net delete
			default:
				ops = [3]byte{'u', 'u'} // net update
			}
		}
		perKey[i] = ops
		for _, o := range ops {
			if o != 0 {
				present[pos[i]] = o != 'd'
			}
		}
	}
	// interleave: first ops of all keys in insertion order, then second ops, ...
	out := buf[:0]
	var ordb [64]int
	ord := orderInto(ordb[:n], b.Order)
	for round := 0; round < 3; round++ {
		for _, i := range ord {
			if k := perKey[i][round]; k != 0 {
				*nextOff++
				out = append(out, rawOp{pos[i], k, *nextOff})
			}
		}
	}
	return out
}

func build(ops []rawOp) *ixbuf.T {
	ib := &ixbuf.T{}
	for _, o := range ops {
		switch o.kind {
		case 'a':
			ib.Insert(keyTab[o.key], o.off)
		case 'u':
			ib.Update(keyTab[o.key], o.off)
		case 'd':
			ib.Delete(keyTab[o.key], o.off)
		}
	}
	return ib
}

func showOff(k string, o uint64) string {
	if o == 0 {
		return "<nothing>"
	}
	return fmt.Sprintf("%q%s", k, ixbuf.OffString(o))
}

// checkBuf validates one buffer against its model (streaming, no copies):
// the entries must be exactly the model's, in key order.
func checkBuf(whatf string, bi int, ib *ixbuf.T, m *[nKeys]change) (msg string) {
	defer func() {
		if msg != "" {
			msg = fmt.Sprintf(whatf, bi) + ": " + msg
		}
	}()
	it := ib.Iter()
	n := 0
	emptyKey := false
	for i := range m {
		exp := m[i].slotOff()
		if exp == 0 {
			continue
		}
		k, o, ok := it()
		if !ok {
			return fmt.Sprintf("ends after %d entries, expected next %s", n, showOff(keyTab[i], exp))
		}
		if k != keyTab[i] || o != exp {
			return fmt.Sprintf("entry %d is %s, expected %s", n, showOff(k, o), showOff(keyTab[i], exp))
		}
		if k == "" {
			emptyKey = true
		}
		n++
	}
	if k, o, ok := it(); ok {
		return fmt.Sprintf("has an extra entry %s after the %d expected ones", showOff(k, o), n)
	}
	if ib.Len() != n {
		return fmt.Sprintf("Len() = %d, expected %d", ib.Len(), n)
	}
	// ixbuf.Check() (a test helper without production callers) starts from
	// prev = "" and so reports the legal empty key as a duplicate; it is only
	// consulted for buffers that do not hold the empty key. Sortedness and
	// uniqueness are judged by the comparison with the model above.
	if !emptyKey {
		if e := lib.Try(ib.Check); e != nil {
			return "Check() panicked: " + lib.PanicText(e)
		}
	}
	lens, _ := ib.VerifChunks()
	tot := 0
	for _, l := range lens {
		if l == 0 {
			return "holds an empty chunk"
		}
		tot += l
	}
	if tot != n {
		return fmt.Sprintf("chunks hold %d entries, expected %d", tot, n)
	}
	return ""
}

func countEntries(m *[nKeys]change) int {
	n := 0
	for i := range m {
		if m[i].slotOff() != 0 {
			n++
		}
	}
	return n
}

// runCase executes one buffer list; returns "" or the failure text.
func runCase(lc listCase, st *stats, deep bool) string {
	var present [nKeys]bool
	for i := range present {
		present[i] = lc.P0 == 1 || lc.P0 == 2 && i%2 == 0
	}
	nextOff := uint64(0)
	var total [nKeys]change
	nb := len(lc.Bufs)
	if nb > 4 {
		lib.Infra("at most 4 buffers")
	}
	var ibsArr [4]*ixbuf.T
	ibs := ibsArr[:nb]
	var models [4][nKeys]change
	var nEntries [4]int
	var inChunks []uintptr
	var inLens [4][]int
	var opbuf [192]rawOp
	for bi, b := range lc.Bufs {
		ops := genOps(b, &present, &nextOff, opbuf[:0])
		m := &models[bi]
		for _, o := range ops {
			var msg string
			if m[o.key], msg = m[o.key].then(o.kind, o.off); msg != "" {
				lib.Infra("%s", msg)
			}
		}
		for k := range m {
			// the list is folded over the NET entries of each buffer
			var msg string
			if total[k], msg = total[k].thenChange(m[k]); msg != "" {
				lib.Infra("%s", msg)
			}
		}
		var ib *ixbuf.T
		if e := lib.Try(func() { ib = build(ops) }); e != nil {
			return fmt.Sprintf("building buffer %d panicked: %s", bi, lib.PanicText(e))
		}
		if msg := checkBuf("input buffer %d", bi, ib, m); msg != "" {
			return msg
		}
		ibs[bi] = ib
		lens, first := ib.VerifChunks()
		inLens[bi] = lens
		inChunks = append(inChunks, first...)
		if len(lens) > 1 {
			st.multiChunkIn++
		}
		nEntries[bi] = countEntries(m)
		st.removed += b.Size - nEntries[bi]
	}
	var res *ixbuf.T
	if e := lib.Try(func() { res = ixbuf.Merge(ibs...) }); e != nil {
		return "Merge panicked: " + lib.PanicText(e)
	}
	if msg := checkBuf("Merge result%.0d", 0, res, &total); msg != "" {
		return msg
	}
	// Lookup on the result
	for i := range total {
		if got, exp := res.Lookup(keyTab[i]), total[i].slotOff(); got != exp {
			return fmt.Sprintf("Merge result: Lookup(%q) = %s, expected %s", keyTab[i], ixbuf.OffString(got), ixbuf.OffString(exp))
		}
	}
	// inputs unchanged
	for bi, ib := range ibs {
		if msg := checkBuf("input buffer %d AFTER Merge", bi, ib, &models[bi]); msg != "" {
			return msg
		}
		lens, _ := ib.VerifChunks()
		if !slices.Equal(lens, inLens[bi]) {
			return fmt.Sprintf("input buffer %d: chunk structure changed by Merge: %v -> %v", bi, inLens[bi], lens)
		}
	}
	// evidence counters
	sum, nonEmpty := 0, 0
	for bi := range ibs {
		sum += nEntries[bi]
		if nEntries[bi] > 0 {
			nonEmpty++
		}
	}
	if sum > countEntries(&total) {
		st.combined++
	}
	lens, first := res.VerifChunks()
	if len(lens) > 1 {
		st.multiChunkOut++
	}
	if nonEmpty > 1 {
		for _, f := range first {
			if slices.Contains(inChunks, f) {
				st.passthru++
				break
			}
		}
	}
	if deep && nb >= 3 {
		// nested: Merge(Merge(b0,b1), b2, ...) - the result of a merge is used
		// as the base of the next merge (as the database does)
		var res2 *ixbuf.T
		if e := lib.Try(func() {
			res2 = ixbuf.Merge(ibs[0], ibs[1])
			res2 = ixbuf.Merge(append([]*ixbuf.T{res2}, ibs[2:]...)...)
		}); e != nil {
			return "nested Merge panicked: " + lib.PanicText(e)
		}
		if msg := checkBuf("nested Merge result%.0d", 0, res2, &total); msg != "" {
			return msg
		}
		for bi, ib := range ibs {
			if msg := checkBuf("input buffer %d AFTER nested Merge", bi, ib, &models[bi]); msg != "" {
				return msg
			}
		}
	}
	return ""
}

// ---------------------------------------------------------------- enumeration

func alphabet(sizes []int, mixes, orders []int) []bufSpec {
	var out []bufSpec
	seen := map[string]bool{}
	for _, s := range sizes {
		for p := range patNames {
			for _, m := range mixes {
				for _, o := range orders {
					if s <= 1 && (o != 0) {
						continue
					}
					if s == 0 && (p != 0 || m != 0) {
						continue
					}
					b := bufSpec{p, s, m, o}
					k := fmt.Sprint(positions(p, s), m, o)
					if seen[k] {
						continue
					}
					seen[k] = true
					out = append(out, b)
				}
			}
		}
	}
	return out
}

func run(c *lib.Ctx) {
	full := alphabet([]int{13, 25, 1, 12, 24, 26, 37, 60, 0}, []int{0, 1, 2, 3}, lib.Pick(c, []int{0, 2}, []int{0, 1, 2}))
	tri := alphabet(lib.Pick(c, []int{1, 13, 25, 37}, []int{13, 25, 1, 26, 37, 0}), []int{1, 2, 3}, []int{0})
	quad := alphabet([]int{13, 26}, lib.Pick(c, []int{3}, []int{2, 3}), []int{1})
	// four buffers of 64 entries: the summed size reaches 256, where goal()
	// switches from 24 to 48 slots per chunk (pass-through threshold 24)
	big := alphabet([]int{64}, []int{2, 3}, []int{2})
	c.Set("alphabet_big_quadruples", len(big))
	c.Set("alphabet_pairs", len(full))
	c.Set("alphabet_triples", len(tri))
	c.Set("alphabet_quadruples", len(quad))
	var total stats
	add := func(s stats) {
		c.Count("merges_with_chunk_passed_through_by_reference", s.passthru)
		c.Count("input_buffers_with_more_than_one_chunk", s.multiChunkIn)
		c.Count("merge_results_with_more_than_one_chunk", s.multiChunkOut)
		c.Count("merges_where_entries_of_different_buffers_combined", s.combined)
		c.Count("entries_removed_inside_a_buffer_by_add_then_delete", s.removed)
	}
	_ = total
	do := func(lc listCase, st *stats, deep bool, fl *flight) {
		fl.begin(func() (any, string) { return lc, lc.String() })
		msg := runCase(lc, st, deep)
		fl.end()
		c.Eval(1)
		ne := 0
		for _, b := range lc.Bufs {
			if b.Size > 0 {
				ne++
			}
		}
		if ne >= 2 {
			c.Nontrivial(1)
		}
		if msg != "" {
			c.Fail("", lc, "%s: %s", lc, msg)
		}
	}
	// pairs: all ordered pairs x 3 presence lines
	startWatchdog(c, "C11")
	c.Par(len(full), func(i int) {
		fl := newFlight()
		defer fl.done()
		var st stats
		for p0 := 0; p0 < 3; p0++ {
			for j := range full {
				do(listCase{p0, []bufSpec{full[i], full[j]}}, &st, false, fl)
			}
		}
		add(st)
		if i%97 == 5 && c.NSamples() < 3 {
			c.Sample(listCase{2, []bufSpec{full[i], full[(i*31+7)%len(full)]}}.String())
		}
	})
	// triples (flat and nested) x 1 (quick) / 2 (thorough) presence lines
	n := len(tri)
	c.Par(n*n, func(ij int) {
		fl := newFlight()
		defer fl.done()
		var st stats
		i, j := ij/n, ij%n
		for p0 := lib.Pick(c, 2, 0); p0 < 3; p0 += 2 {
			for k := range tri {
				do(listCase{p0, []bufSpec{tri[i], tri[j], tri[k]}}, &st, true, fl)
			}
		}
		add(st)
		if ij%9973 == 11 && c.NSamples() < 6 {
			c.Sample(listCase{2, []bufSpec{tri[i], tri[j], tri[(ij*7)%n]}}.String())
		}
	})
	// quadruples
	q := len(quad)
	c.Par(q*q, func(ij int) {
		fl := newFlight()
		defer fl.done()
		var st stats
		for k := range quad {
			for l := range quad {
				do(listCase{2, []bufSpec{quad[ij/q], quad[ij%q], quad[k], quad[l]}}, &st, true, fl)
			}
		}
		add(st)
	})
	// quadruples of 64-entry buffers (goal() = 48)
	nb := len(big)
	c.Par(nb*nb, func(ij int) {
		fl := newFlight()
		defer fl.done()
		var st stats
		for k := range big {
			for l := range big {
				do(listCase{ij % 3, []bufSpec{big[ij/nb], big[ij%nb], big[k], big[l]}}, &st, true, fl)
			}
		}
		add(st)
	})
}

func replay(c *lib.Ctx, raw json.RawMessage) {
	var lc listCase
	if err := json.Unmarshal(raw, &lc); err != nil {
		lib.Infra("bad case: %v", err)
	}
	var st stats
	if msg := runCase(lc, &st, true); msg != "" {
		c.Fail("", lc, "%s: %s", lc, msg)
	}
}

func main() {
	lib.Main(lib.Spec{
		ID:    "C11",
		Level: "exploration",
		Rule: "every ordered pair of buffer specs (6 key patterns x sizes {0,1,12,13,24,25,26,37,60} x 4 op mixes x insertion orders) x 3 initial presence lines, " +
			"every triple and quadruple of reduced alphabets (flat and nested merge); each buffer built by real Insert/Update/Delete, list merged by real Merge. " +
			"evaluations = buffer lists judged; a list is non-trivial (distinct by construction) when at least two of its buffers are non-empty",
		Assumptions: []string{
			"oracle: presence-semantics fold over raw operations with unique offsets (independent of ixbuf.Combine)",
			"only valid operation sequences are generated (add when absent, update/delete when present), as the overlay invariant requires",
			"chunk-size classes: goal() = 24 (summed size < 256) and 48 (four 64-entry buffers); the larger classes (>= 1024 entries) are not reached",
			"merged results are not mutated afterwards (the database never does)",
		},
		QuickBudget:    70,
		ThoroughBudget: 600,
		Run:            run,
		Replay:         replay,
	})
}
