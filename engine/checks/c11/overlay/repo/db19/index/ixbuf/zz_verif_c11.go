//go:build verif

package ixbuf

import "unsafe"

// Read-only accessors for the /verif C11 check (chunk structure).

// VerifChunks returns, per chunk, its length and the address of its first
// slot (to see which output chunks are input chunks passed through).
func (ib *ixbuf) VerifChunks() (lens []int, first []uintptr) {
	for _, c := range ib.chunks {
		lens = append(lens, len(c))
		if len(c) > 0 {
			first = append(first, uintptr(unsafe.Pointer(&c[0])))
		} else {
			first = append(first, 0)
		}
	}
	return
}
