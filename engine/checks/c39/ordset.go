package main

// util/ordset: ordered set of strings in a 2 level btree (128 x 128).
//
// Model: sorted slice of the keys whose Insert returned true.
// Contains(k) iff k is in it; AnyInRange(from, to) iff some key has
// from <= key <= to (false for from > to); Empty iff nothing was inserted.

import (
	"fmt"
	"sort"

	"github.com/apmckinlay/gsuneido/util/ordset"

	"verif/lib"
)

type keyModel struct{ keys []string } // sorted, unique

func (m *keyModel) insert(k string) {
	i := sort.SearchStrings(m.keys, k)
	if i < len(m.keys) && m.keys[i] == k {
		return
	}
	m.keys = append(m.keys, "")
	copy(m.keys[i+1:], m.keys[i:])
	m.keys[i] = k
}

func (m *keyModel) contains(k string) bool {
	i := sort.SearchStrings(m.keys, k)
	return i < len(m.keys) && m.keys[i] == k
}

func (m *keyModel) anyInRange(from, to string) bool {
	i := sort.SearchStrings(m.keys, from) // first key >= from
	return i < len(m.keys) && m.keys[i] <= to
}

var setKeys = []string{"", "b", "b\x00", "d", "f", "h"}
var setProbes = []string{"", "a", "b", "b\x00", "b\x00\x00", "c", "d", "e", "f", "g", "h", "i"}

func ordsetSeq(c *lib.Ctx, seq []int) {
	var set ordset.Set
	var m keyModel
	fail := func(format string, a ...any) {
		var s []string
		for _, o := range seq {
			s = append(s, fmt.Sprintf("%q", setKeys[o]))
		}
		c.Fail("", kase{Kind: "ordset-seq", Seq: append([]int{}, seq...)}, "ordset Insert %v: %s", s, fmt.Sprintf(format, a...))
	}
	if e := lib.Try(func() {
		if !set.Empty() {
			fail("a new set is not Empty()")
		}
		for i, o := range seq {
			if !set.Insert(setKeys[o]) {
				fail("insert %d refused", i)
				return
			}
			m.insert(setKeys[o])
		}
		if set.Empty() {
			fail("Empty() after inserts")
		}
		for _, p := range setProbes {
			if got, want := set.Contains(p), m.contains(p); got != want {
				fail("Contains(%q) = %v want %v", p, got, want)
				return
			}
			for _, q := range setProbes { // all pairs, also from > to
				if got, want := set.AnyInRange(p, q), m.anyInRange(p, q); got != want {
					fail("AnyInRange(%q, %q) = %v want %v (keys %q)", p, q, got, want, m.keys)
					return
				}
			}
		}
	}); e != nil {
		fail("panic: %s", lib.PanicText(e))
	}
}

// bulk: keys key(3i) for i in the given order; probes are all key(j), j in
// 0..3n+3, and key(j)+"\x00"; AnyInRange for every probe position and widths 0..4
// (also reversed). Model: a boolean array over the probe grid.
func ordsetBulk(c *lib.Ctx, family string, n int, ord string) (evals int) {
	var set ordset.Set
	limit := 3*n + 3
	np := 2*limit + 2
	probes := make([]string, np) // probes[2j] = key(j), probes[2j+1] = key(j)+"\x00"
	for j := 0; j <= limit; j++ {
		probes[2*j] = key(j)
		probes[2*j+1] = probes[2*j] + "\x00"
	}
	present := make([]bool, np)
	count := 0
	fail := func(format string, a ...any) {
		c.Fail("", kase{Kind: "ordset-bulk", Family: family, N: n, Order: ord}, "ordset bulk %s n=%d %s: %s", family, n, ord, fmt.Sprintf(format, a...))
	}
	refused := 0
	ok := true
	ins := func(j int) { // insert key(j)
		if !ok {
			return
		}
		evals++
		if set.Insert(probes[2*j]) {
			if !present[2*j] {
				present[2*j] = true
				count++
			}
			if count > btreeMaxCapacity {
				fail("holds %d keys, more than the capacity 128*128", count)
				ok = false
			}
			return
		}
		refused++
		if count < btreeMinCapacity {
			fail("Insert(%q) refused with only %d keys stored", probes[2*j], count)
			ok = false
		}
	}
	if e := lib.Try(func() {
		idx := order(ord, n)
		for _, i := range idx {
			ins(3 * i)
			if family == "dups" && i%3 == 0 {
				ins(3 * i) // existing key again
			}
		}
		if family == "dups" {
			for _, i := range idx {
				ins(3 * i)
			}
		}
		if n > btreeMaxCapacity && refused == 0 {
			fail("%d distinct keys were all accepted, capacity is 128*128", n)
		}
		// next[p] = smallest q >= p with present[q], or np
		next := make([]int, np+1)
		next[np] = np
		for p := np - 1; p >= 0; p-- {
			if present[p] {
				next[p] = p
			} else {
				next[p] = next[p+1]
			}
		}
		for p := 0; ok && p < np; p++ {
			evals++
			if got, want := set.Contains(probes[p]), present[p]; got != want {
				fail("Contains(%q) = %v want %v (%d keys stored, %d refused)", probes[p], got, want, count, refused)
				return
			}
			for w := 0; w <= 4 && p+w < np; w++ {
				evals += 2
				if got, want := set.AnyInRange(probes[p], probes[p+w]), next[p] <= p+w; got != want {
					fail("AnyInRange(%q, %q) = %v want %v (%d keys stored)", probes[p], probes[p+w], got, want, count)
					return
				}
				if w > 0 && set.AnyInRange(probes[p+w], probes[p]) {
					fail("AnyInRange(%q, %q) with from > to = true", probes[p+w], probes[p])
					return
				}
			}
		}
		// wide ranges
		any := count > 0
		for _, r := range []struct {
			from, to string
			want     bool
		}{{"", probes[0], present[0]}, {"", "", false}, {"", "\xff", any}, {probes[np-1], "\xff", false},
			{probes[0], probes[np-1], any}, {probes[np/2], probes[np-1], next[np/2] < np}} {
			evals++
			if got := set.AnyInRange(r.from, r.to); got != r.want {
				fail("AnyInRange(%q, %q) = %v want %v", r.from, r.to, got, r.want)
			}
		}
	}); e != nil {
		fail("panic: %s", lib.PanicText(e))
	}
	return evals
}

func runOrdset(c *lib.Ctx) {
	nops := len(setKeys)
	maxlen := lib.Pick(c, 5, 6)
	first := pow(nops, 2)
	c.Par(first, func(i int) {
		pre := unrank(nops, 2, i)
		if pre[1] == 0 {
			ordsetSeq(c, pre[:1])
		}
		n := 1
		ordsetSeq(c, pre)
		sequences(nops, maxlen-2, func(rest []int) {
			ordsetSeq(c, append(pre[:2:2], rest...))
			n++
		})
		c.Eval(n * (len(setProbes)*len(setProbes) + len(setProbes)))
		c.Nontrivial(n)
		c.Count("ordset_sequences", n)
	})
	type job struct {
		fam string
		n   int
		ord string
	}
	var jobs []job
	for _, fam := range []string{"keys", "dups"} {
		for _, n := range bulkSizes {
			for _, o := range orderNames {
				jobs = append(jobs, job{fam, n, o})
			}
		}
	}
	c.Par(len(jobs), func(i int) {
		j := jobs[i]
		ev := ordsetBulk(c, j.fam, j.n, j.ord)
		c.Eval(ev)
		c.Nontrivial(1)
		c.Count("ordset_bulk_operations", ev)
	})
	c.Sample(map[string]any{"utility": "ordset", "keys": []string{"b", "f"}, "AnyInRange(c,e)": false, "AnyInRange(c,f)": true})
}
