package main

// util/ranges: set of disjoint inclusive string ranges in a 2 level btree
// (nodeSize = 128 slots per leaf, 128 leaves).
//
// Model: sorted slice of disjoint closed intervals; Insert merges every
// interval that shares a point with the new one and returns the change of the
// number of intervals (what db19/check.go adds to its read count); Contains(v)
// iff some interval has from <= v <= to.

import (
	"fmt"
	"sort"

	"github.com/apmckinlay/gsuneido/util/ranges"

	"verif/lib"
)

type iv struct{ from, to string }

type ivModel struct{ ivs []iv }

// insert returns the change in the number of intervals
func (m *ivModel) insert(from, to string) int {
	var out []iv
	merged := iv{from, to}
	n := 0
	for _, x := range m.ivs {
		if x.to >= from && to >= x.from { // share a point
			merged.from = min(merged.from, x.from)
			merged.to = max(merged.to, x.to)
			n++
		} else {
			out = append(out, x)
		}
	}
	out = append(out, merged)
	sort.Slice(out, func(i, j int) bool { return out[i].from < out[j].from })
	m.ivs = out
	return 1 - n
}

func (m *ivModel) contains(v string) bool {
	for _, x := range m.ivs {
		if x.from <= v && v <= x.to {
			return true
		}
	}
	return false
}

// ---------------------------------------------------------------- short sequences

var rangeEnds = []string{"", "b", "b\x00", "d", "f", "h"}
var rangeProbes = []string{"", "a", "b", "b\x00", "b\x00\x00", "c", "d", "e", "f", "g", "h", "i"}
var rangeOps = func() []iv {
	var out []iv
	for i := range rangeEnds {
		for j := i; j < len(rangeEnds); j++ {
			out = append(out, iv{rangeEnds[i], rangeEnds[j]})
		}
	}
	return out
}()

func rangesSeq(c *lib.Ctx, seq []int) {
	var rs ranges.Ranges
	var m ivModel
	fail := func(format string, a ...any) {
		var s []string
		for _, o := range seq {
			s = append(s, fmt.Sprintf("Insert(%q,%q)", rangeOps[o].from, rangeOps[o].to))
		}
		c.Fail("", kase{Kind: "ranges-seq", Seq: append([]int{}, seq...)}, "ranges %v: %s", s, fmt.Sprintf(format, a...))
	}
	if e := lib.Try(func() {
		for i, o := range seq {
			r := rangeOps[o]
			got := rs.Insert(r.from, r.to)
			if want := m.insert(r.from, r.to); got != want {
				fail("insert %d returned %d, the number of ranges changed by %d (now %q)", i, got, want, m.ivs)
				return
			}
		}
		for _, p := range rangeProbes {
			if got, want := rs.Contains(p), m.contains(p); got != want {
				fail("Contains(%q) = %v want %v (ranges %q, tree %q)", p, got, want, m.ivs, rs.String())
				return
			}
		}
	}); e != nil {
		fail("panic: %s", lib.PanicText(e))
	}
}

// ---------------------------------------------------------------- bulk families

// Model for the bulk families: all range ends are key(j), probes are key(j)
// and key(j)+"\x00" (a string strictly between key(j) and key(j+1)), so the
// model is a boolean array over the grid  "" < key(0) < key(0)+"\x00" < key(1) < ...
// A maximal run of covered cells is one stored range (two ranges that do not
// share a point always have the uncovered cell key(j)+"\x00" between them).
type gridModel struct {
	covered []bool
	count   int // number of runs
}

func gridPos(j int) int { return 2*j + 2 } // cell of key(j); key(j)+"\x00" is the next cell; cell 0 is ""

// insert covers cells pa..pb and returns the change in the number of runs
func (m *gridModel) insert(pa, pb int) int {
	k := 0
	for i := pa; i <= pb; i++ { // runs that intersect pa..pb (count first, then cover)
		if m.covered[i] && (i == pa || !m.covered[i-1]) {
			k++
		}
	}
	for i := pa; i <= pb; i++ {
		m.covered[i] = true
	}
	// a run that continues after pb was counted already if it intersects; one
	// that starts right after pb does not merge (no shared point)
	m.count += 1 - k
	return 1 - k
}

const btreeMinCapacity = 4096      // 128 leaves, a split leaves at least 32 in a leaf
const btreeMaxCapacity = 128 * 128 // documented capacity

func rangesBulk(c *lib.Ctx, family string, n int, ord string) (evals int) {
	var rs ranges.Ranges
	limit := 3*n + 110
	m := gridModel{covered: make([]bool, 2*limit+8)}
	keys := make([]string, limit+1)
	keyz := make([]string, limit+1)
	for j := range keys {
		keys[j] = key(j)
		keyz[j] = keys[j] + "\x00"
	}
	fail := func(format string, a ...any) {
		c.Fail("", kase{Kind: "ranges-bulk", Family: family, N: n, Order: ord}, "ranges bulk %s n=%d %s: %s", family, n, ord, fmt.Sprintf(format, a...))
	}
	refused := 0
	ok := true
	// ins inserts [key(a), key(b)]; a == -1 stands for ""
	ins := func(a, b int) {
		if !ok {
			return
		}
		from, pa := "", 0
		if a >= 0 {
			from, pa = keys[a], gridPos(a)
		}
		to, pb := keys[b], gridPos(b)
		before := m.count
		got := rs.Insert(from, to)
		evals++
		if got == ranges.Full {
			refused++
			if before < btreeMinCapacity {
				fail("Insert(%q,%q) reported Full with only %d ranges stored", from, to, before)
				ok = false
			}
			return // not inserted: model unchanged
		}
		want := m.insert(pa, pb)
		if got != want {
			fail("Insert(%q,%q) returned %d, the number of ranges changed by %d (%d stored)", from, to, got, want, m.count)
			ok = false
		}
		if m.count > btreeMaxCapacity {
			fail("holds %d ranges, more than the capacity 128*128", m.count)
			ok = false
		}
	}
	probeAll := func() {
		if got := rs.Contains(""); got != m.covered[0] {
			fail("Contains(\"\") = %v", got)
			ok = false
		}
		for j := 0; ok && j <= limit; j++ {
			evals += 2
			if got, want := rs.Contains(keys[j]), m.covered[gridPos(j)]; got != want {
				fail("Contains(%q) = %v want %v (%d ranges stored, %d refused)", keys[j], got, want, m.count, refused)
				ok = false
			} else if got, want := rs.Contains(keyz[j]), m.covered[gridPos(j)+1]; got != want {
				fail("Contains(%q) = %v want %v (%d ranges stored, %d refused)", keyz[j], got, want, m.count, refused)
				ok = false
			}
		}
	}
	if e := lib.Try(func() {
		idx := order(ord, n)
		switch family {
		case "points": // [3i,3i]
			for _, i := range idx {
				ins(3*i, 3*i)
			}
		case "spans": // [3i,3i+1]
			for _, i := range idx {
				ins(3*i, 3*i+1)
			}
		case "chain": // [3i,3i+3]: neighbours share an end point
			for _, i := range idx {
				ins(3*i, 3*i+3)
			}
		case "bridge": // points, then ranges that swallow many of them, then more points
			for _, i := range idx {
				ins(3*i, 3*i)
			}
			probeAll()
			ins(3*(n/4)+1, 3*(n/2)-1) // ends in gaps
			ins(3*(n/2), 3*(n/2+n/8)) // ends on points
			probeAll()
			for _, i := range idx {
				if i%5 == 0 {
					ins(3*i, 3*i) // exists / swallowed
					ins(3*i+1, 3*i+2)
				}
			}
			ins(-1, 3*(n/8))
			ins(3*n-30, 3*n+100)
		default:
			lib.Infra("unknown family %s", family)
		}
		probeAll()
		if n > btreeMaxCapacity && family != "chain" && refused == 0 {
			fail("%d disjoint ranges were all accepted, capacity is 128*128", n)
		}
	}); e != nil {
		fail("panic: %s", lib.PanicText(e))
	}
	return evals
}

var bulkSizes = []int{1, 127, 128, 129, 130, 257, 1000, 4095, 4097, 12320, 12321, 16384, 16385}

func runRanges(c *lib.Ctx) {
	nops := len(rangeOps)
	maxlen := lib.Pick(c, 4, 5)
	// parallel over the first two operations
	first := pow(nops, 2)
	c.Par(first, func(i int) {
		pre := unrank(nops, 2, i)
		if pre[1] == 0 {
			rangesSeq(c, pre[:1]) // the length 1 sequences, once each
		}
		n := 1
		rangesSeq(c, pre)
		sequences(nops, maxlen-2, func(rest []int) {
			rangesSeq(c, append(pre[:2:2], rest...))
			n++
		})
		c.Eval(n)
		c.Nontrivial(n)
		c.Count("ranges_sequences", n)
	})
	type job struct {
		fam string
		n   int
		ord string
	}
	var jobs []job
	for _, fam := range []string{"points", "spans", "chain", "bridge"} {
		for _, n := range bulkSizes {
			for _, o := range orderNames {
				if fam == "bridge" && n < 100 {
					continue // the bridging ranges need room
				}
				jobs = append(jobs, job{fam, n, o})
			}
		}
	}
	c.Par(len(jobs), func(i int) {
		j := jobs[i]
		ev := rangesBulk(c, j.fam, j.n, j.ord)
		c.Eval(ev)
		c.Nontrivial(1)
		c.Count("ranges_bulk_operations", ev)
	})
	c.Sample(map[string]any{"utility": "ranges", "sequence": "Insert(b,d) Insert(f,h) Insert(d,f)", "model_increments": []int{1, 1, -1}})
}
