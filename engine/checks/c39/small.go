package main

// util/shmap, util/lrucache, util/cache, util/bloom, util/roaring.

import (
	"fmt"
	"runtime"
	"runtime/debug"
	"sort"

	"github.com/apmckinlay/gsuneido/util/bloom"
	"github.com/apmckinlay/gsuneido/util/cache"
	"github.com/apmckinlay/gsuneido/util/lrucache"
	"github.com/apmckinlay/gsuneido/util/roaring"
	"github.com/apmckinlay/gsuneido/util/shmap"

	"verif/lib"
)

// ================================================================ shmap
//
// Swiss-table style hash map: groups of 8 slots, 7 bit tags, tombstones,
// growth at 7/8 load. Model: Go map. The hash function is chosen by the check
// to force: everything in one group with one tag ("same"), one group with
// different tags ("tags"), different groups with the same tag ("groups"), or
// a spread ("mix"). Start states: keys 0..n-1 inserted, then a deletion
// pattern applied; then every sequence of <= 3 (4) operations over
// {Put, Del, GetInit} x {oldest, newest, two absent keys} + Clear.

var shHashes = map[string]func(k int) uint64{
	"same":   func(k int) uint64 { return 0x2a },
	"tags":   func(k int) uint64 { return uint64(k) & 0x7f },
	"groups": func(k int) uint64 { return uint64(k) << 7 },
	"mix":    func(k int) uint64 { return uint64(k) * 0x9E3779B97F4A7C15 },
}
var shHashNames = []string{"same", "tags", "groups", "mix"}
var shPrefill = []int{0, 1, 6, 7, 8, 9, 14, 15, 16, 17, 29}
var shDelPatterns = []string{"none", "evens", "first-half", "all-but-last"}

const shUniverse = 34 // keys 0..33

const (
	shPut = iota
	shDel
	shGetInit
)

// op o: kind = o / 4, key selector = o % 4 ; o == 12: Clear
const shNops = 13

func shmapSeq(c *lib.Ctx, hname string, n, delpat int, seq []int) {
	fail := func(format string, a ...any) {
		c.Fail("", kase{Kind: "shmap", Family: hname, N: n, Aux: delpat, Seq: append([]int{}, seq...)},
			"shmap hash=%s prefill=%d delete=%s ops=%v: %s", hname, n, shDelPatterns[delpat], seq, fmt.Sprintf(format, a...))
	}
	hfn := shHashes[hname]
	m := shmap.NewMapFuncs[int, int](hfn, func(x, y int) bool { return x == y })
	model := map[int]int{}
	serial := 1000
	if e := lib.Try(func() {
		for k := 0; k < n; k++ {
			m.Put(k, k+100)
			model[k] = k + 100
		}
		for k := 0; k < n; k++ {
			del := false
			switch shDelPatterns[delpat] {
			case "evens":
				del = k%2 == 0
			case "first-half":
				del = k < n/2
			case "all-but-last":
				del = k < n-1
			}
			if del {
				v, ok := m.Del(k)
				if !ok || v != model[k] {
					fail("prefill Del(%d) = (%d, %v)", k, v, ok)
					return
				}
				delete(model, k)
			}
		}
		// key selectors: oldest and newest surviving key, two absent keys
		keys := [4]int{0, n - 1, n, shUniverse - 1}
		if n == 0 {
			keys[1] = 1
		}
		for step, o := range seq {
			if o == 12 {
				m.Clear()
				model = map[int]int{}
				continue
			}
			k := keys[o%4]
			switch o / 4 {
			case shPut:
				serial++
				m.Put(k, serial)
				model[k] = serial
			case shDel:
				v, ok := m.Del(k)
				wv, wok := model[k]
				if ok != wok || v != wv {
					fail("step %d Del(%d) = (%d, %v) want (%d, %v)", step, k, v, ok, wv, wok)
					return
				}
				delete(model, k)
			case shGetInit:
				k2, existed := m.GetInit(k)
				_, wok := model[k]
				if existed != wok || k2 != k {
					fail("step %d GetInit(%d) = (%d, %v) want (%d, %v)", step, k, k2, existed, k, wok)
					return
				}
				if !wok {
					model[k] = 0
				}
			}
		}
		// observe everything
		if m.Size() != len(model) {
			fail("Size() = %d want %d", m.Size(), len(model))
			return
		}
		for k := 0; k < shUniverse; k++ {
			v, ok := m.Get(k)
			wv, wok := model[k]
			if ok != wok || v != wv || m.Has(k) != wok {
				fail("Get(%d) = (%d, %v) want (%d, %v)", k, v, ok, wv, wok)
				return
			}
		}
		seen := map[int]int{}
		it := m.Iter()
		for k, v, ok := it(); ok; k, v, ok = it() {
			if _, dup := seen[k]; dup {
				fail("Iter yields key %d twice", k)
				return
			}
			seen[k] = v
		}
		if len(seen) != len(model) {
			fail("Iter yields %d entries want %d", len(seen), len(model))
			return
		}
		for k, v := range seen {
			if model[k] != v {
				fail("Iter yields %d:%d want %d", k, v, model[k])
				return
			}
		}
		// a copy is independent
		cp := m.Copy()
		cp.Put(shUniverse+1, 1)
		cp.Del(keys[1])
		if m.Size() != len(model) || m.Has(shUniverse+1) {
			fail("changing a Copy changed the original")
		}
	}); e != nil {
		fail("panic: %s", lib.PanicText(e))
	}
}

func runShmap(c *lib.Ctx) {
	maxlen := lib.Pick(c, 3, 4)
	type st struct {
		h    string
		n, d int
	}
	var states []st
	for _, h := range shHashNames {
		for _, n := range shPrefill {
			for d := range shDelPatterns {
				states = append(states, st{h, n, d})
			}
		}
	}
	c.Par(len(states), func(i int) {
		s := states[i]
		cnt := 1
		shmapSeq(c, s.h, s.n, s.d, nil)
		sequences(shNops, maxlen, func(seq []int) {
			shmapSeq(c, s.h, s.n, s.d, seq)
			cnt++
		})
		c.Eval(cnt)
		c.Nontrivial(cnt)
		c.Count("shmap_sequences", cnt)
	})
	// growth far beyond one group, with deletes and re-inserts (tombstone reuse)
	for _, h := range shHashNames {
		m := shmap.NewMapFuncs[int, int](shHashes[h], func(x, y int) bool { return x == y })
		model := map[int]int{}
		bad := ""
		n := 3000
		if h == "same" {
			n = 300 // quadratic probing of one chain
		}
		if e := lib.Try(func() {
			for round := 0; round < 3 && bad == ""; round++ {
				for k := 0; k < n; k++ {
					m.Put(k, k*3+round)
					model[k] = k*3 + round
				}
				for k := round; k < n; k += 3 {
					m.Del(k)
					delete(model, k)
				}
				for k := 0; k < n+5; k++ {
					v, ok := m.Get(k)
					if wv, wok := model[k]; ok != wok || v != wv {
						bad = fmt.Sprintf("round %d Get(%d) = (%d,%v) want (%d,%v)", round, k, v, ok, wv, wok)
						break
					}
				}
				if m.Size() != len(model) {
					bad = fmt.Sprintf("round %d Size %d want %d", round, m.Size(), len(model))
				}
			}
		}); e != nil {
			bad = "panic: " + lib.PanicText(e)
		}
		if bad != "" {
			c.Fail("", kase{Kind: "shmap-bulk", Family: h}, "shmap bulk hash=%s: %s", h, bad)
		}
		c.Eval(3 * n)
		c.Nontrivial(1)
	}
	c.Sample(map[string]any{"utility": "shmap", "state": "hash=same prefill=9 delete=evens", "ops": "Put(oldest) Del(newest) GetInit(absent)"})
}

// ================================================================ lrucache
//
// Model: strict LRU map of the given capacity (most recent last). Put on an
// existing key sets its value (documented: "Put sets key to val").

type lkey int

func (k lkey) Hash() uint64         { return uint64(k) % 3 } // collisions
func (k lkey) Equal(other any) bool { o, ok := other.(lkey); return ok && o == k }

type lruModel struct {
	cap  int
	keys []int // least recent first
	vals map[int]int
}

func (m *lruModel) touch(k int) {
	for i, x := range m.keys {
		if x == k {
			m.keys = append(append(m.keys[:i:i], m.keys[i+1:]...), k)
			return
		}
	}
}

func (m *lruModel) get(k int) (int, bool) {
	v, ok := m.vals[k]
	if ok {
		m.touch(k)
	}
	return v, ok
}

func (m *lruModel) put(k, v int) {
	if _, ok := m.vals[k]; ok {
		m.vals[k] = v
		m.touch(k)
		return
	}
	if len(m.keys) >= m.cap {
		delete(m.vals, m.keys[0])
		m.keys = m.keys[1:]
	}
	m.keys = append(m.keys, k)
	m.vals[k] = v
}

// lruSeq: capacity from req (6 or 13), prefill = number of distinct keys put
// first (then Get of key 0 and 2 to make the recency order differ from the
// insertion order), then the sequence: op o < nk: Get(o); else Put(o-nk).
func lruSeq(c *lib.Ctx, req, prefill int, seq []int) {
	nk := lruKeys(req)
	fail := func(class, format string, a ...any) {
		var s []string
		for _, o := range seq {
			if o < nk {
				s = append(s, fmt.Sprintf("Get(%d)", o))
			} else {
				s = append(s, fmt.Sprintf("Put(%d)", o-nk))
			}
		}
		failc(c, class, kase{Kind: "lru", N: req, Aux: prefill, Seq: append([]int{}, seq...)},
			"lrucache capacity %d after putting keys 0..%d (and Get 0, 2), %v: %s", req, prefill-1, s, fmt.Sprintf(format, a...))
	}
	lc := lrucache.New[lkey, int](req)
	m := &lruModel{cap: req, vals: map[int]int{}}
	serial := 100
	putExisting := false // the sequence so far Put a key that was present
	if e := lib.Try(func() {
		for k := 0; k < prefill; k++ {
			serial++
			lc.Put(lkey(k), serial)
			m.put(k, serial)
		}
		for _, k := range []int{0, 2} {
			if k < prefill {
				v, ok := lc.Get(lkey(k))
				wv, wok := m.get(k)
				if ok != wok || v != wv {
					fail("", "prefill Get(%d) = (%d,%v) want (%d,%v)", k, v, ok, wv, wok)
					return
				}
			}
		}
		for step, o := range seq {
			if o < nk {
				v, ok := lc.Get(lkey(o))
				wv, wok := m.get(o)
				if ok != wok || (ok && v != wv) {
					class := ""
					if putExisting && !ok && wok {
						// precisely: after a Put of a key that was already cached,
						// a key that the LRU model still holds is reported missing
						class = "lrucache-put-existing-key-duplicates-entry"
					}
					fail(class, "step %d Get(%d) = (%d,%v), LRU model (%d,%v) [model keys least recent first: %v]", step, o, v, ok, wv, wok, m.keys)
					return
				}
			} else {
				k := o - nk
				if _, present := m.vals[k]; present {
					putExisting = true
				}
				serial++
				lc.Put(lkey(k), serial)
				m.put(k, serial)
			}
		}
		// final observation: every key (in a fixed order; Get changes recency
		// in both, identically)
		for k := 0; k < nk; k++ {
			v, ok := lc.Get(lkey(k))
			wv, wok := m.get(k)
			if ok != wok || (ok && v != wv) {
				class := ""
				if putExisting && !ok && wok {
					class = "lrucache-put-existing-key-duplicates-entry"
				}
				fail(class, "final Get(%d) = (%d,%v), LRU model (%d,%v)", k, v, ok, wv, wok)
				return
			}
		}
	}); e != nil {
		fail("", "panic: %s", lib.PanicText(e))
	}
}

func lruKeys(req int) int { return req + 2 } // key universe: capacity + 2

// lruCapacity: New(req) holds exactly the documented number of entries
func lruCapacity(c *lib.Ctx, req int) {
	want := 223
	for _, n := range []int{6, 13, 27, 55, 111, 223} {
		if req <= n {
			want = n
			break
		}
	}
	lc := lrucache.New[lkey, int](req)
	total := want + 40
	for k := 0; k < total; k++ {
		lc.Put(lkey(k), k)
	}
	held := 0
	for k := total - 1; k >= 0; k-- { // newest first so that Get does not disturb what is counted
		if v, ok := lc.Get(lkey(k)); ok {
			held++
			if v != k {
				c.Fail("", kase{Kind: "lru-cap", N: req}, "lrucache New(%d): Get(%d) = %d", req, k, v)
			}
		}
	}
	n := 0
	for range lc.Entries() {
		n++
	}
	if held != want || n != want {
		c.Fail("", kase{Kind: "lru-cap", N: req}, "lrucache New(%d) holds %d entries (Entries() %d) after %d distinct Puts, documented capacity %d", req, held, n, total, want)
	}
	hits, misses := lc.Stats()
	if hits != held || misses != total-held {
		c.Fail("", kase{Kind: "lru-cap", N: req}, "lrucache New(%d) Stats() = %d hits %d misses want %d, %d", req, hits, misses, held, total-held)
	}
	lc.Reset()
	if _, ok := lc.Get(lkey(total - 1)); ok {
		c.Fail("", kase{Kind: "lru-cap", N: req}, "lrucache New(%d): entry survives Reset", req)
	}
}

func runLru(c *lib.Ctx) {
	type st struct{ req, prefill int }
	var states []st
	for _, req := range []int{6, 13} {
		for _, p := range []int{0, 1, req - 1, req, req + 1} {
			states = append(states, st{req, p})
		}
	}
	c.Par(len(states), func(i int) {
		s := states[i]
		nops := 2 * lruKeys(s.req)
		maxlen := lib.Pick(c, 4, 5)
		if s.req == 13 {
			maxlen = lib.Pick(c, 3, 4)
		}
		cnt := 1
		lruSeq(c, s.req, s.prefill, nil)
		sequences(nops, maxlen, func(seq []int) {
			lruSeq(c, s.req, s.prefill, seq)
			cnt++
		})
		c.Eval(cnt)
		c.Nontrivial(cnt)
		c.Count("lrucache_sequences", cnt)
	})
	reqs := []int{-1, 0, 1, 5, 6, 7, 12, 13, 14, 26, 27, 28, 55, 56, 111, 112, 222, 223, 224, 1000}
	for _, r := range reqs {
		if e := lib.Try(func() { lruCapacity(c, r) }); e != nil {
			c.Fail("", kase{Kind: "lru-cap", N: r}, "lrucache New(%d): panic: %s", r, lib.PanicText(e))
		}
	}
	c.Eval(len(reqs))
	c.Nontrivial(len(reqs))
	c.Sample(map[string]any{"utility": "lrucache", "capacity": 6, "sequence": "Put 0..5, Get 0, Get 2, Put(6) evicts 1"})
}

// ================================================================ cache
//
// cache.Cache: 8 slots, a memo of the getter. Laws judged: Get(k) returns the
// value the getter produced at its most recent call for k; immediately
// repeating a Get does not call the getter; never more than 8 keys answer
// without a getter call.

func cacheSeq(c *lib.Ctx, prefill int, seq []int) {
	fail := func(format string, a ...any) {
		c.Fail("", kase{Kind: "cache", N: prefill, Seq: append([]int{}, seq...)}, "cache after Get of keys 0..%d, Get %v: %s", prefill-1, seq, fmt.Sprintf(format, a...))
	}
	calls := 0
	last := map[int]int{} // key -> value of the most recent getter call
	ch := cache.New(func(k int) int {
		calls++
		v := k*1000 + calls
		last[k] = v
		return v
	})
	get := func(k int) bool {
		before := calls
		v := ch.Get(k)
		if lv, called := last[k]; !called || v != lv {
			fail("Get(%d) = %d, the getter last returned %d for it (called for it: %v)", k, v, lv, called)
			return false
		}
		before2 := calls
		if v2 := ch.Get(k); v2 != v || calls != before2 {
			fail("repeating Get(%d) gave %d (getter calls %d) after %d", k, v2, calls-before2, v)
			return false
		}
		_ = before
		return true
	}
	if e := lib.Try(func() {
		for k := 0; k < prefill; k++ {
			if !get(k) {
				return
			}
		}
		for _, k := range seq {
			if !get(k) {
				return
			}
		}
		// at most 8 keys are answered from the cache
		hits := 0
		for k := 0; k < 11; k++ {
			before := calls
			// probing changes the cache, so probe a copy of its state: not
			// possible (unexported) - instead count hits during one sweep
			v := ch.Get(k)
			if v != last[k] {
				fail("final Get(%d) = %d want %d", k, v, last[k])
				return
			}
			if calls == before {
				hits++
			}
		}
		if hits > 8 {
			fail("%d keys answered without calling the getter, the cache has 8 slots", hits)
		}
	}); e != nil {
		fail("panic: %s", lib.PanicText(e))
	}
}

func runCache(c *lib.Ctx) {
	prefills := []int{0, 1, 7, 8, 9, 10}
	c.Par(len(prefills), func(i int) {
		cnt := 1
		cacheSeq(c, prefills[i], nil)
		sequences(11, lib.Pick(c, 4, 5), func(seq []int) {
			cacheSeq(c, prefills[i], seq)
			cnt++
		})
		c.Eval(cnt)
		c.Nontrivial(cnt)
		c.Count("cache_sequences", cnt)
	})
}

// ================================================================ bloom

var bloomHashes = []uint64{0, 1, 1<<32 - 1, 1 << 32, 1<<32 + 1, 1 << 63, 1<<64 - 1, 0xffffffff00000000, 0x00000001ffffffff, 0x123456789abcdef0}

// bloomCase: filter of m bits, k hashes; subset = bit mask over bloomHashes
func bloomCase(c *lib.Ctx, m, k, subset int) {
	fail := func(format string, a ...any) {
		c.Fail("", kase{Kind: "bloom", N: m, Aux: k, Aux2: subset}, "bloom m=%d k=%d subset %#b: %s", m, k, subset, fmt.Sprintf(format, a...))
	}
	if e := lib.Try(func() {
		b := bloom.New(m, k)
		for _, h := range bloomHashes {
			if b.Test(h) {
				fail("empty filter reports %#x", h)
				return
			}
		}
		for i, h := range bloomHashes {
			if subset&(1<<i) != 0 {
				b.Add(h)
			}
		}
		for i, h := range bloomHashes {
			if subset&(1<<i) != 0 && !b.Test(h) {
				fail("false negative for %#x", h)
				return
			}
		}
		if b.Size()*8 < m {
			fail("Size() = %d bytes for %d bits", b.Size(), m)
		}
	}); e != nil {
		fail("panic: %s", lib.PanicText(e))
	}
}

func runBloom(c *lib.Ctx) {
	ms := []int{1, 2, 63, 64, 65, 127, 128, 129, 1000}
	ks := []int{1, 2, 3, 7, 10}
	type job struct{ m, k int }
	var jobs []job
	for _, m := range ms {
		for _, k := range ks {
			jobs = append(jobs, job{m, k})
		}
	}
	nsub := 1 << len(bloomHashes)
	c.Par(len(jobs), func(i int) {
		for s := 0; s < nsub; s++ {
			bloomCase(c, jobs[i].m, jobs[i].k, s)
		}
		c.Eval(nsub)
		c.Nontrivial(nsub)
		c.Count("bloom_cases", nsub)
	})
	// recommended parameters: filters sized by Calc hold n items without false negatives
	for _, n := range []int{1, 10, 1000, 100000} {
		for _, p := range []float64{0.5, 0.1, 0.01, 0.0001} {
			m, k := bloom.Calc(n, p)
			if m < 1 || k < 1 {
				c.Fail("", kase{Kind: "bloom-calc", N: n}, "bloom.Calc(%d, %g) = m %d k %d", n, p, m, k)
				continue
			}
			b := bloom.New(m, k)
			h := uint64(88172645463325252)
			var hs []uint64
			for i := 0; i < n; i++ {
				h ^= h << 13
				h ^= h >> 7
				h ^= h << 17
				hs = append(hs, h)
				b.Add(h)
			}
			for _, h := range hs {
				if !b.Test(h) {
					c.Fail("", kase{Kind: "bloom-calc", N: n}, "bloom Calc(%d,%g): false negative for %#x", n, p, h)
					break
				}
			}
			c.Eval(n)
			c.Nontrivial(1)
		}
	}
}

// ================================================================ roaring
//
// Bitmap of 48 bit integers in containers of 64k values: sorted array up to
// 4096 values, then a bitmap. Model: Go map. Has is asked for every added
// value and for its neighbours (+-1, +-16, +-65536), which were not
// necessarily added.

var roarVals = []uint64{0, 1, 65535, 65536, 65537, 1<<32 - 1, 1<<48 - 1}

func roarNeighbours(x uint64) []uint64 {
	out := []uint64{x}
	for _, d := range []uint64{1, 15, 16, 17, 65535, 65536} {
		if x >= d {
			out = append(out, x-d)
		}
		if x+d < 1<<48 {
			out = append(out, x+d)
		}
	}
	return out
}

func roaringSeq(c *lib.Ctx, seq []int) {
	fail := func(format string, a ...any) {
		c.Fail("", kase{Kind: "roaring-seq", Seq: append([]int{}, seq...)}, "roaring Add %v: %s", seq, fmt.Sprintf(format, a...))
	}
	if e := lib.Try(func() {
		var b roaring.Bitmap
		model := map[uint64]bool{}
		for _, o := range seq {
			b.Add(roarVals[o])
			model[roarVals[o]] = true
		}
		for _, v := range roarVals {
			for _, x := range roarNeighbours(v) {
				if got := b.Has(x); got != model[x] {
					fail("Has(%d) = %v want %v", x, got, model[x])
					return
				}
			}
		}
	}); e != nil {
		fail("panic: %s", lib.PanicText(e))
	}
}

// roaringBulk: n values base + stride*i in the given order (all in one
// container when stride*n < 65536), then everything is probed.
func roaringBulk(c *lib.Ctx, n int, ord string, stride int) (evals int) {
	fail := func(class, format string, a ...any) {
		failc(c, class, kase{Kind: "roaring-bulk", N: n, Order: ord, Aux: stride}, "roaring bulk n=%d %s stride=%d: %s", n, ord, stride, fmt.Sprintf(format, a...))
	}
	if e := lib.Try(func() {
		// another bitmap of the process went through an array -> bitmap
		// conversion before (its array block is now in roaring's block pool)
		var other roaring.Bitmap
		for i := 0; i < 4097; i++ {
			other.Add(uint64(9)<<16 + uint64(5*i+1))
		}
		var b roaring.Bitmap
		model := map[uint64]bool{}
		base := uint64(3) << 16
		for _, i := range order(ord, n) {
			x := base + uint64(stride*i)
			b.Add(x)
			model[x] = true
			if i%97 == 0 {
				b.Add(x) // again
			}
		}
		// every value of the touched containers and one container on each side
		lo, hi := base-65536, base+uint64(stride*n)+65536
		for x := lo; x < hi; x++ {
			evals++
			if got := b.Has(x); got != model[x] {
				class := ""
				if got && !model[x] && n > 4096 {
					// precisely: a value that was never added is reported after an
					// array container was converted to a bitmap container
					class = "roaring-has-value-never-added-after-conversion"
				}
				fail(class, "Has(%d) = %v want %v (%d values added)", x, got, model[x], len(model))
				return
			}
		}
	}); e != nil {
		fail("", "panic: %s", lib.PanicText(e))
	}
	return evals
}

// roaringEnv runs f in a single goroutine on one P without garbage
// collection: roaring recycles blocks through a process wide sync.Pool, which
// then hands them back in a fixed order, so that a case always behaves the same.
func roaringEnv(f func()) {
	procs := runtime.GOMAXPROCS(1)
	defer runtime.GOMAXPROCS(procs)
	runtime.LockOSThread()
	defer runtime.UnlockOSThread()
	old := debug.SetGCPercent(-1)
	defer debug.SetGCPercent(old)
	f()
}

func runRoaring(c *lib.Ctx) {
	roaringEnv(func() { runRoaring1(c) })
}

func runRoaring1(c *lib.Ctx) {
	cnt := 0
	sequences(len(roarVals), lib.Pick(c, 4, 5), func(seq []int) {
		roaringSeq(c, seq)
		cnt++
	})
	c.Eval(cnt)
	c.Nontrivial(cnt)
	c.Count("roaring_sequences", cnt)
	sizes := []int{1, 2, 4095, 4096, 4097, 4098, 5000, 65536}
	var names []string
	for _, n := range sizes {
		for _, o := range orderNames {
			for _, stride := range []int{1, 3, 16} {
				if n*stride > 3*65536 {
					continue
				}
				ev := roaringBulk(c, n, o, stride)
				c.Eval(ev)
				c.Nontrivial(1)
				names = append(names, fmt.Sprint(n, o, stride))
			}
		}
	}
	sort.Strings(names)
	c.Count("roaring_bulk_families", len(names))
	c.Sample(map[string]any{"utility": "roaring", "family": "4097 values ascending stride 1: array container converted to bitmap", "probes": "all values of the container and its neighbours"})
}
