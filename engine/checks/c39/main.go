// C39 Ordered sets, range sets, sort lists, caches, bloom filter, bitmap and
// hash map behave as their abstract types.
//
// One file per utility; each enumerates (a) ALL short operation sequences over a
// small colliding alphabet and (b) bulk families that cross the real size
// constants of the implementation (nodeSize = 128 and 128*128 for ranges and
// ordset, blockSize = 4096 for sortlist, 4096 values per roaring container,
// groupSize = 8 / load 7 for shmap, 6/13 entries for lrucache, 8 for cache),
// and compares every observable result with a boring model (sorted slices of
// intervals / keys, Go maps, a recency list).
//
//	ranges.go   util/ranges   Insert (returned increment), Contains
//	ordset.go   util/ordset   Insert, Contains, AnyInRange, Empty
//	sortlist.go util/sortlist Builder Add/Finish/Sort/Iter, List.Iter Next/Prev/Seek/Rewind
//	small.go    util/bloom, util/roaring, util/shmap, util/lrucache, util/cache
package main

import (
	"encoding/json"
	"fmt"
	"sync"
	"time"

	"verif/lib"
)

// kase is the replayable description of one case
type kase struct {
	Kind string `json:"kind"`
	// short sequences: indexes into the op alphabet of the kind
	Seq []int `json:"seq,omitempty"`
	// bulk families
	Family string `json:"family,omitempty"`
	N      int    `json:"n,omitempty"`
	Order  string `json:"order,omitempty"`
	Aux    int    `json:"aux,omitempty"`
	Aux2   int    `json:"aux2,omitempty"`
}

// orders of inserting 0..n-1
var orderNames = []string{"ascending", "descending", "evens-then-odds", "inside-out", "outside-in", "stride-7"}

func order(name string, n int) []int {
	out := make([]int, 0, n)
	switch name {
	case "ascending":
		for i := 0; i < n; i++ {
			out = append(out, i)
		}
	case "descending":
		for i := n - 1; i >= 0; i-- {
			out = append(out, i)
		}
	case "evens-then-odds":
		for i := 0; i < n; i += 2 {
			out = append(out, i)
		}
		for i := 1; i < n; i += 2 {
			out = append(out, i)
		}
	case "inside-out":
		for d := 0; len(out) < n; d++ {
			if m := n/2 + d; m < n {
				out = append(out, m)
			}
			if m := n/2 - 1 - d; m >= 0 && len(out) < n {
				out = append(out, m)
			}
		}
	case "outside-in":
		for lo, hi := 0, n-1; lo <= hi; lo, hi = lo+1, hi-1 {
			out = append(out, lo)
			if hi != lo {
				out = append(out, hi)
			}
		}
	case "stride-7":
		// a permutation when gcd(stride, n) == 1: use the next stride coprime to n
		s := 7
		for gcd(s, n) != 1 {
			s++
		}
		for i, x := 0, 0; i < n; i, x = i+1, (x+s)%n {
			out = append(out, x)
		}
	default:
		lib.Infra("unknown order %q", name)
	}
	if len(out) != n {
		lib.Infra("order %s(%d) produced %d items", name, n, len(out))
	}
	return out
}

func gcd(a, b int) int {
	for b != 0 {
		a, b = b, a%b
	}
	return a
}

func key(i int) string { return fmt.Sprintf("%07d", i) }

// sequences enumerates all sequences over [0,nops) of length 1..maxlen
// (shortest first within a prefix subtree) and calls f with each.
func sequences(nops, maxlen int, f func(seq []int)) {
	var rec func(prefix []int)
	rec = func(prefix []int) {
		if len(prefix) > 0 {
			f(prefix)
		}
		if len(prefix) == maxlen {
			return
		}
		for o := 0; o < nops; o++ {
			rec(append(prefix[:len(prefix):len(prefix)], o))
		}
	}
	rec(nil)
}

func pow(b, e int) int {
	r := 1
	for ; e > 0; e-- {
		r *= b
	}
	return r
}

// nseq = number of sequences of length 1..maxlen
func nseq(nops, maxlen int) int {
	n := 0
	for l := 1; l <= maxlen; l++ {
		n += pow(nops, l)
	}
	return n
}

// unrank returns the sequence of exactly length l with the given rank
func unrank(nops, l, rank int) []int {
	seq := make([]int, l)
	for i := l - 1; i >= 0; i-- {
		seq[i] = rank % nops
		rank /= nops
	}
	return seq
}

func run(c *lib.Ctx) {
	parts := []struct {
		name string
		f    func(*lib.Ctx)
	}{{"ranges", runRanges}, {"ordset", runOrdset}, {"sortlist", runSortlist}, {"shmap", runShmap},
		{"cache", runCache}, {"bloom", runBloom},
		// the two utilities with classified defect candidates come last, so that
		// their reports (the run stops after 5) do not cut the others short;
		// roaring runs in a single goroutine (its block pool is process global)
		{"lrucache", runLru}, {"roaring", runRoaring}}
	walls := map[string]float64{}
	for _, p := range parts {
		t := time.Now()
		p.f(c)
		walls[p.name] = float64(int(time.Since(t).Seconds()*10)) / 10
	}
	c.Set("wall_seconds_per_utility", walls)
}

func replay(c *lib.Ctx, raw json.RawMessage) {
	var k kase
	if err := json.Unmarshal(raw, &k); err != nil {
		lib.Infra("bad case: %v", err)
	}
	switch k.Kind {
	case "ranges-seq":
		rangesSeq(c, k.Seq)
	case "ranges-bulk":
		rangesBulk(c, k.Family, k.N, k.Order)
	case "ordset-seq":
		ordsetSeq(c, k.Seq)
	case "ordset-bulk":
		ordsetBulk(c, k.Family, k.N, k.Order)
	case "sortlist":
		sortlistCase(c, k.N, k.Order, k.Aux != 0)
	case "sortlist-iter":
		sortlistIter(c, k.N, k.Seq)
	case "shmap":
		shmapSeq(c, k.Family, k.N, k.Aux, k.Seq)
	case "lru":
		lruSeq(c, k.N, k.Aux, k.Seq)
	case "lru-cap":
		lruCapacity(c, k.N)
	case "cache":
		cacheSeq(c, k.N, k.Seq)
	case "bloom":
		bloomCase(c, k.N, k.Aux, k.Aux2)
	case "roaring-seq":
		roaringSeq(c, k.Seq)
	case "roaring-bulk":
		roaringEnv(func() { roaringBulk(c, k.N, k.Order, k.Aux) })
	default:
		lib.Infra("unknown case kind %q", k.Kind)
	}
}

func main() {
	lib.Main(lib.Spec{
		ID:    "C39",
		Level: "exploration",
		Rule: "per utility: all operation sequences up to a length (quick / thorough) over a small colliding alphabet (ranges: <=4/5 inserts of the 21 ranges over 6 end points; ordset: <=5/6 inserts over 6 keys; sortlist iterator: <=4/5 ops over 9 ops on 9 list sizes; shmap: <=3/4 ops over 13 ops from 44 prefilled states x 4 hash functions; lrucache: <=4/5 (capacity 13: 3/4) ops over Get/Put of capacity+2 keys from 5 prefilled states; cache: <=4/5 Gets over 11 keys from 6 prefilled states; roaring: <=4/5 adds over 7 values; bloom: all subsets of 10 boundary hashes x 45 filters) " +
			"and bulk families crossing the real constants (1..16385 keys/ranges in 6 insertion orders x 4+2 families; sort lists of 0..16385/65537 elements in 7 patterns x 2 builders; roaring containers of 1..65536 values in 6 orders x 3 strides); every result is compared with a model; evaluations = operations judged; all cases distinct by construction",
		Assumptions: []string{
			"models: sorted slice of disjoint closed intervals (merge on overlap), sorted key slice, Go map, recency list; string order = byte order",
			"capacity: ranges/ordset may refuse (Full/false) only once they hold >= 4096 entries (128 leaves of >= 32) and must refuse beyond 128*128; what was refused is not in the model",
			"sortlist: output is a permutation of the input, ordered by the comparator; equal elements in any order; iterator end-of-file is sticky until Rewind/Seek",
			"lrucache judged as a strict LRU map for capacities 6 and 13 (the 'do not move the newest eighth' shortcut is an identity there); cache.Cache judged as a memo function with at most 8 entries (it evicts before full by design)",
			"bloom: no false negatives, nothing reported before the first Add; false positives are allowed",
			"verdict is for the enumerated alphabets, lengths and sizes only",
		},
		QuickBudget: 100, ThoroughBudget: 900,
		Run: run, Replay: replay,
	})
}

// failc reports a failure. Failures that carry a precise class (candidates
// for KNOWN_FINDINGS) are counted per class in the evidence; while a class is
// not a listed known finding only its first case is reported as a violation,
// so that one run shows every class (lib stops after 5 violations).
var classMu sync.Mutex
var classReported = map[string]bool{}

func failc(c *lib.Ctx, class string, cs any, format string, a ...any) {
	if class == "" {
		c.Fail("", cs, format, a...)
		return
	}
	c.Count("classified_failures:"+class, 1)
	classMu.Lock()
	defer classMu.Unlock()
	if classReported[class] {
		return
	}
	if known := c.Fail(class, cs, format, a...); !known {
		classReported[class] = true
	}
}
