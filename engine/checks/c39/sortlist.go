package main

// util/sortlist: list built in blocks of 4096 that are sorted and two-way
// merged (by a background goroutine), re-sortable, with a Seek/Next/Prev iterator.
//
// Elements are non-zero uint64: (sort key << 16 | unique id). The comparators
// look at parts of the element only, so there are many "equal" elements.
// Model: a Go slice sorted with sort.SliceStable; the result must be a
// permutation of the input and be ordered by the comparator.

import (
	"fmt"
	"sort"
	"strconv"

	"github.com/apmckinlay/gsuneido/util/sortlist"

	"verif/lib"
)

func isZero(x uint64) bool { return x == 0 }

// less1 orders by the high part, less2 by the low 4 bits of the high part then descending id
func k1(x uint64) uint64     { return x >> 16 }
func less1(x, y uint64) bool { return k1(x) < k1(y) }
func less2(x, y uint64) bool {
	if (x>>16)&15 != (y>>16)&15 {
		return (x>>16)&15 < (y>>16)&15
	}
	return x&0xffff > y&0xffff
}

var slPatterns = []string{"sorted", "reversed", "all-equal", "two-runs", "blocks-reversed", "scrambled", "few-keys"}

// slInput builds the input of a pattern: n elements, element i has id i+1
func slInput(pattern string, n int) []uint64 {
	out := make([]uint64, n)
	for i := range out {
		var k int
		switch pattern {
		case "sorted":
			k = i
		case "reversed":
			k = n - i
		case "all-equal":
			k = 7
		case "two-runs": // 0,2,4.. interleaved with 1,3,5.. as two ascending runs
			if i < n/2 {
				k = 2 * i
			} else {
				k = 2*(i-n/2) + 1
			}
		case "blocks-reversed": // ascending inside each block of 4096, blocks descending
			k = (n/4096-i/4096+1)*4096 + i%4096
		case "scrambled":
			k = int((uint64(i)*2654435761 + 12345) % 1000003)
		case "few-keys":
			k = (i * 7) % 5
		default:
			lib.Infra("unknown pattern %s", pattern)
		}
		out[i] = uint64(k+1)<<16 | uint64(i%65535+1)
	}
	return out
}

func drain(it func() uint64, limit int) []uint64 {
	var out []uint64
	for x := it(); x != 0; x = it() {
		out = append(out, x)
		if len(out) > limit {
			break
		}
	}
	return out
}

// judge: got must be a permutation of input ordered by less
func judge(got, input []uint64, less func(x, y uint64) bool) string {
	if len(got) != len(input) {
		return fmt.Sprintf("%d elements come out, %d went in", len(got), len(input))
	}
	for i := 1; i < len(got); i++ {
		if less(got[i], got[i-1]) {
			return fmt.Sprintf("out of order at %d: %#x after %#x", i, got[i], got[i-1])
		}
	}
	a := append([]uint64{}, got...)
	b := append([]uint64{}, input...)
	sort.Slice(a, func(i, j int) bool { return a[i] < a[j] })
	sort.Slice(b, func(i, j int) bool { return b[i] < b[j] })
	for i := range a {
		if a[i] != b[i] {
			return fmt.Sprintf("not a permutation of the input: %#x vs %#x at rank %d", a[i], b[i], i)
		}
	}
	return ""
}

func iterLess1(x uint64, key []string) bool {
	k, _ := strconv.Atoi(key[0])
	return k1(x) < uint64(k)
}

// sortlistCase: build (sorted or unsorted builder), Finish, iterate, re-sort, iterate
func sortlistCase(c *lib.Ctx, n int, pattern string, unsorted bool) (evals int) {
	fail := func(format string, a ...any) {
		aux := 0
		if unsorted {
			aux = 1
		}
		c.Fail("", kase{Kind: "sortlist", N: n, Order: pattern, Aux: aux}, "sortlist n=%d %s unsorted=%v: %s", n, pattern, unsorted, fmt.Sprintf(format, a...))
	}
	input := slInput(pattern, n)
	if e := lib.Try(func() {
		var b *sortlist.Builder[uint64]
		if unsorted {
			b = sortlist.NewUnsorted(isZero)
		} else {
			b = sortlist.NewSorting(isZero, less1)
		}
		for _, x := range input {
			b.Add(x)
		}
		list := b.Finish()
		got := drain(b.Iter(), n+10)
		evals++
		if unsorted {
			// no sorting: insertion order
			if len(got) != n {
				fail("unsorted builder: %d elements come out, %d went in", len(got), n)
				return
			}
			for i := range got {
				if got[i] != input[i] {
					fail("unsorted builder: element %d is %#x, added %#x", i, got[i], input[i])
					return
				}
			}
			b.Sort(less1)
			got = drain(b.Iter(), n+10)
			evals++
		}
		if msg := judge(got, input, less1); msg != "" {
			fail("after sorting by key: %s", msg)
			return
		}
		if !unsorted {
			// the List iterator sees the same sequence, forwards and backwards
			it := list.Iter(iterLess1)
			i := 0
			for it.Next(); !it.Eof(); it.Next() {
				if i >= n || it.Cur() != got[i] {
					fail("List.Iter forward: element %d differs", i)
					return
				}
				i++
			}
			if i != n {
				fail("List.Iter forward gave %d elements", i)
				return
			}
			it.Rewind()
			i = n - 1
			for it.Prev(); !it.Eof(); it.Prev() {
				if i < 0 || it.Cur() != got[i] {
					fail("List.Iter backward: element %d differs", i)
					return
				}
				i--
			}
			if i != -1 {
				fail("List.Iter backward stopped at %d", i)
				return
			}
			evals += 2
			// Seek to every key boundary of a sample of elements
			step := max(1, n/257)
			for j := 0; j < n; j += step {
				k := k1(got[j])
				for _, kk := range []uint64{k - 1, k, k + 1} {
					want := sort.Search(n, func(i int) bool { return k1(got[i]) >= kk })
					it.Seek([]string{strconv.FormatUint(kk, 10)})
					evals++
					if want == n {
						if !it.Eof() {
							fail("Seek(%d) should be at end", kk)
							return
						}
					} else if it.Eof() || it.Cur() != got[want] {
						fail("Seek(%d) is not at the first element with key >= %d (index %d)", kk, kk, want)
						return
					}
				}
			}
		}
		// re-sort with the other comparator, twice (a second Sort on sorted data)
		for round := 0; round < 2; round++ {
			b.Sort(less2)
			got = drain(b.Iter(), n+10)
			evals++
			if msg := judge(got, input, less2); msg != "" {
				fail("after Sort(second comparator) round %d: %s", round, msg)
				return
			}
		}
		b.Sort(less1)
		got = drain(b.Iter(), n+10)
		evals++
		if msg := judge(got, input, less1); msg != "" {
			fail("after sorting back by key: %s", msg)
		}
	}); e != nil {
		fail("panic: %s", lib.PanicText(e))
	}
	return evals
}

// iterator op sequences on a list of n elements with keys 10, 20, 30, ... (two elements per key)
const (
	itNext = iota
	itPrev
	itRewind
	itSeekBelow // key 5: before everything
	itSeekFirst // key 10
	itSeekMid   // key of the middle element
	itSeekGap   // between two keys
	itSeekLast  // last key
	itSeekAbove // beyond everything
	itNops
)

var itNames = []string{"Next", "Prev", "Rewind", "Seek(below)", "Seek(first)", "Seek(mid)", "Seek(gap)", "Seek(last)", "Seek(above)"}

func sortlistIter(c *lib.Ctx, n int, seq []int) {
	fail := func(format string, a ...any) {
		var s []string
		for _, o := range seq {
			s = append(s, itNames[o])
		}
		c.Fail("", kase{Kind: "sortlist-iter", N: n, Seq: append([]int{}, seq...)}, "sortlist iterator over %d elements, %v: %s", n, s, fmt.Sprintf(format, a...))
	}
	list, elems := iterList(n)
	if e := lib.Try(func() {
		it := list.Iter(iterLess1)
		// model: state rewound (-2) / eof (-1) / index
		const rew, eof = -2, -1
		pos := rew
		for step, o := range seq {
			seekKey := -1
			switch o {
			case itNext:
				switch {
				case pos == rew:
					pos = 0
				case pos != eof:
					pos++
				}
				if pos >= n {
					pos = eof
				}
				it.Next()
			case itPrev:
				switch {
				case pos == rew:
					pos = n - 1
				case pos != eof:
					pos--
				}
				if pos < 0 { // also covers rewound on an empty list
					pos = eof
				}
				it.Prev()
			case itRewind:
				pos = rew
				it.Rewind()
			case itSeekBelow:
				seekKey = 5
			case itSeekFirst:
				seekKey = 10
			case itSeekMid:
				seekKey = 10 * (n/4 + 1)
			case itSeekGap:
				seekKey = 10*(n/4+1) + 5
			case itSeekLast:
				seekKey = 10 * ((n-1)/2 + 1)
			case itSeekAbove:
				seekKey = 10*((n-1)/2+1) + 1
			}
			if seekKey >= 0 {
				pos = sort.Search(n, func(i int) bool { return k1(elems[i]) >= uint64(seekKey) })
				if pos >= n {
					pos = eof
				}
				it.Seek([]string{strconv.Itoa(seekKey)})
			}
			if pos == rew {
				continue // nothing observable until the next move
			}
			if it.Eof() != (pos == eof) {
				fail("after step %d Eof() = %v, model position %d", step, it.Eof(), pos)
				return
			}
			if pos >= 0 {
				if got := it.Cur(); got != elems[pos] {
					fail("after step %d Cur() = %#x want element %d = %#x", step, got, pos, elems[pos])
					return
				}
			}
		}
	}); e != nil {
		fail("panic: %s", lib.PanicText(e))
	}
}

var iterLists = map[int]struct {
	list  sortlist.List[uint64]
	elems []uint64
}{}

// iterList builds (once, before the parallel part) a sorted list of n elements, two per key 10,20,..
func iterList(n int) (sortlist.List[uint64], []uint64) {
	if x, ok := iterLists[n]; ok {
		return x.list, x.elems
	}
	b := sortlist.NewSorting(isZero, func(x, y uint64) bool { return x < y })
	elems := make([]uint64, n)
	for i := range elems {
		elems[i] = uint64(10*(i/2+1))<<16 | uint64(i%2+1)
	}
	for i := n - 1; i >= 0; i-- {
		b.Add(elems[i])
	}
	list := b.Finish()
	iterLists[n] = struct {
		list  sortlist.List[uint64]
		elems []uint64
	}{list, elems}
	return list, elems
}

func runSortlist(c *lib.Ctx) {
	sizes := []int{0, 1, 2, 3, 4095, 4096, 4097, 8191, 8192, 8193, 12288, 12289, 16384, 16385, 5*4096 + 7}
	if !c.Quick() {
		sizes = append(sizes, 7*4096, 7*4096+1, 8*4096-1, 8*4096, 8*4096+1, 13*4096+100, 16*4096, 16*4096+1)
	}
	type job struct {
		n        int
		pat      string
		unsorted bool
	}
	var jobs []job
	for _, n := range sizes {
		for _, p := range slPatterns {
			jobs = append(jobs, job{n, p, false}, job{n, p, true})
		}
	}
	c.Par(len(jobs), func(i int) {
		j := jobs[i]
		ev := sortlistCase(c, j.n, j.pat, j.unsorted)
		c.Eval(ev)
		c.Nontrivial(1)
		c.Count("sortlist_lists", 1)
	})
	// iterator sequences
	itSizes := []int{0, 1, 2, 3, 5, 4095, 4096, 4097, 8193}
	for _, n := range itSizes { // build before going parallel
		if e := lib.Try(func() { iterList(n) }); e != nil {
			c.Fail("", kase{Kind: "sortlist", N: n, Order: "reversed"}, "sortlist: building a list of %d elements panicked: %s", n, lib.PanicText(e))
			return
		}
	}
	maxlen := lib.Pick(c, 4, 5)
	for _, n := range itSizes {
		first := itNops
		c.Par(first, func(i int) {
			cnt := 1
			sortlistIter(c, n, []int{i})
			sequences(itNops, maxlen-1, func(rest []int) {
				sortlistIter(c, n, append([]int{i}, rest...))
				cnt++
			})
			c.Eval(cnt)
			c.Nontrivial(cnt)
			c.Count("sortlist_iterator_sequences", cnt)
		})
	}
	c.Sample(map[string]any{"utility": "sortlist", "list": "8193 elements, blocks-reversed", "check": "permutation + ordered, Seek/Next/Prev vs index model"})
}
