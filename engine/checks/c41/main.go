// C41 Unauthenticated clients cannot access data or gain access.
//
// Every sequence (to depth 2 quick / 3 thorough) over an alphabet of 79
// protocol requests is sent to the REAL server connection code
// (dbms.newServerConn, the command dispatch of dbmsserver.go, DbmsUnauth,
// auth.go) over an in-memory pipe with the real hello + TLS upgrade. The
// database has a users row, so new connections start unauthorized.
//
// Connections: B authenticates legitimately during setup (user hash over its
// nonce), sets session id "sessB", opens an update transaction with an
// uncommitted insert, a query and a cursor, obtains a token TB and a nonce NB.
// A and C are unauthenticated; the sequence is sent on A (a few token /
// foreign-nonce requests on C). Requests are written with an independent
// minimal implementation of the wire format (cspipe.RawClient), so handles of
// other sessions, wrong ids, truncated messages and invalid command bytes can
// be sent.
//
// Oracle = reference model of the property statement (model.go of this check
// is the function expect below): while a connection is unauthorized only
// Auth, Nonce, SessionId, LibGet, Libraries succeed and EndSession is
// accepted; every other request must be answered with an error (or the
// connection is closed for an invalid command byte); Auth returns true only
// for sha1(nonce+passhash) of an existing user over the connection's own
// current unused nonce, or for an unused token that was issued to an
// authorized connection; any Auth attempt uses up the nonce; a token works
// once. After the sequence: authorization of A and C (probed with a Size
// request) equals the model's, B is alive with its session id and can commit
// unless an AUTHORIZED connection killed it, and the database content, the
// schema and the open transactions are exactly as before unless a connection
// was legitimately authorized.
package main

import (
	"crypto/sha1"
	"encoding/json"
	"fmt"
	"sort"
	"strings"
	"time"

	"github.com/apmckinlay/gsuneido/core"
	"github.com/apmckinlay/gsuneido/db19"
	"github.com/apmckinlay/gsuneido/db19/index"
	"github.com/apmckinlay/gsuneido/db19/stor"
	"github.com/apmckinlay/gsuneido/dbms/commands"
	qry "github.com/apmckinlay/gsuneido/dbms/query"

	"verif/lib"
	"verif/model/cspipe"
)

const (
	user     = "bob"
	passhash = "0123456789abcdef0123456789abcdef" // what the users table holds
)

// authString is the documented credential: user \0 sha1(nonce passhash).
func authString(user, passhash, nonce string) string {
	h := sha1.Sum([]byte(nonce + passhash))
	return user + "\x00" + string(h[:])
}

// ---------------------------------------------------------------- requests

// req is one element of the alphabet.
type req struct {
	Name string // unique, readable
	Conn byte   // 'A' or 'C'
	Cmd  commands.Command
	// kind: how the model treats it
	//  "refuse"  must be refused while unauthorized
	//  "allow"   must succeed while unauthorized
	//  "zero"    may succeed while unauthorized but only with the constant 0
	//  "auth", "nonce", "token", "kill", "connections", "sessionid",
	//  "endsession", "badcmd"
	Kind string
	Arg  string // kind specific (auth shape, kill target, session id)
	// build appends the arguments; nil = no arguments
	build func(x *exec, m *cspipe.Msg)
	// postAuth: also sent on a connection the model considers authorized
	postAuth bool
}

func packObj(vals ...string) string {
	ob := &core.SuObject{}
	for _, v := range vals {
		ob.Add(core.SuStr(v))
	}
	return core.Pack(ob)
}

func dataRec() string {
	var rb core.RecordBuilder
	rb.Add(core.SuInt(5))
	rb.Add(core.SuStr("x"))
	return string(rb.Build())
}

func alphabet() []req {
	var rs []req
	add := func(name string, cmd commands.Command, kind string, build func(x *exec, m *cspipe.Msg)) *req {
		rs = append(rs, req{Name: name, Conn: 'A', Cmd: cmd, Kind: kind, build: build})
		return &rs[len(rs)-1]
	}
	refuse := func(name string, cmd commands.Command, build func(x *exec, m *cspipe.Msg)) {
		add(name, cmd, "refuse", build)
	}
	tnB := func(x *exec) int64 { return x.tnB }
	tn0 := func(x *exec) int64 { return 0 }
	for _, t := range []struct {
		n string
		f func(x *exec) int64
	}{{"tnB", tnB}, {"0", tn0}} {
		t := t
		refuse("Abort("+t.n+")", commands.Abort, func(x *exec, m *cspipe.Msg) { m.Int(t.f(x)) })
		refuse("Commit("+t.n+")", commands.Commit, func(x *exec, m *cspipe.Msg) { m.Int(t.f(x)) })
		refuse("Erase("+t.n+",data,100)", commands.Erase, func(x *exec, m *cspipe.Msg) { m.Int(t.f(x)).Str("data").Int(100) })
		refuse("Query("+t.n+",data)", commands.Query, func(x *exec, m *cspipe.Msg) { m.Int(t.f(x)).Str("data") })
		refuse("Action("+t.n+",delete data)", commands.Action, func(x *exec, m *cspipe.Msg) { m.Int(t.f(x)).Str("delete data") })
		refuse("Update("+t.n+",data,100,rec)", commands.Update, func(x *exec, m *cspipe.Msg) {
			m.Int(t.f(x)).Str("data").Int(100).Str(dataRec())
		})
		refuse("Asof("+t.n+",0)", commands.Asof, func(x *exec, m *cspipe.Msg) { m.Int(t.f(x)).Int(0) })
		refuse("GetOne(+,"+t.n+",data)", commands.GetOne, func(x *exec, m *cspipe.Msg) {
			m.Byte('+').Int(t.f(x)).Str(core.Pack(core.SuStr("data")))
		})
	}
	refuse("GetOne(1,0,users)", commands.GetOne, func(x *exec, m *cspipe.Msg) {
		m.Byte('1').Int(0).Str(core.Pack(core.SuStr("users")))
	})
	refuse("GetOne(badchar)", commands.GetOne, func(x *exec, m *cspipe.Msg) {
		m.Byte('x').Int(0).Str(core.Pack(core.SuStr("data")))
	})
	// ReadCount / WriteCount: with transaction 0 the server answers the constant 0
	refuse("ReadCount(tnB)", commands.ReadCount, func(x *exec, m *cspipe.Msg) { m.Int(x.tnB) })
	add("ReadCount(0)", commands.ReadCount, "zero", func(x *exec, m *cspipe.Msg) { m.Int(0) })
	refuse("WriteCount(tnB)", commands.WriteCount, func(x *exec, m *cspipe.Msg) { m.Int(x.tnB) })
	add("WriteCount(0)", commands.WriteCount, "zero", func(x *exec, m *cspipe.Msg) { m.Int(0) })
	add("Cursors", commands.Cursors, "zero", nil)

	refuse("Admin(create x)", commands.Admin, func(x *exec, m *cspipe.Msg) { m.Str("create x (a) key(a)") })
	refuse("Admin(drop data)", commands.Admin, func(x *exec, m *cspipe.Msg) { m.Str("drop data") })
	refuse("Admin(truncated message)", commands.Admin, nil)
	refuse("Check(false)", commands.Check, func(x *exec, m *cspipe.Msg) { m.Bool(false) })
	refuse("Close(qnB,q)", commands.Close, func(x *exec, m *cspipe.Msg) { m.Int(x.qnB).Byte('q') })
	refuse("Close(cnB,c)", commands.Close, func(x *exec, m *cspipe.Msg) { m.Int(x.cnB).Byte('c') })
	refuse("Close(0,x)", commands.Close, func(x *exec, m *cspipe.Msg) { m.Int(0).Byte('x') })
	refuse("Cursor(data)", commands.Cursor, func(x *exec, m *cspipe.Msg) { m.Str("data") })
	refuse("Cursor(users)", commands.Cursor, func(x *exec, m *cspipe.Msg) { m.Str("users") })
	refuse("Exec(Date)", commands.Exec, func(x *exec, m *cspipe.Msg) { m.Str(packObj("Date")) })
	refuse("Strategy(qnB,q)", commands.Strategy, func(x *exec, m *cspipe.Msg) { m.Int(x.qnB).Byte('q').Bool(false) })
	refuse("Final", commands.Final, nil)
	refuse("Get(+,0,qnB)", commands.Get, func(x *exec, m *cspipe.Msg) { m.Byte('+').Int(0).Int(x.qnB) })
	refuse("Get(+,tnB,cnB)", commands.Get, func(x *exec, m *cspipe.Msg) { m.Byte('+').Int(x.tnB).Int(x.cnB) })
	refuse("Header(qnB,q)", commands.Header, func(x *exec, m *cspipe.Msg) { m.Int(x.qnB).Byte('q') })
	refuse("Header(cnB,c)", commands.Header, func(x *exec, m *cspipe.Msg) { m.Int(x.cnB).Byte('c') })
	refuse("Info", commands.Info, nil)
	refuse("Keys(qnB,q)", commands.Keys, func(x *exec, m *cspipe.Msg) { m.Int(x.qnB).Byte('q') })
	refuse("Log(hello)", commands.Log, func(x *exec, m *cspipe.Msg) { m.Str("hello") })
	refuse("Order(qnB,q)", commands.Order, func(x *exec, m *cspipe.Msg) { m.Int(x.qnB).Byte('q') })
	refuse("Output(qnB,rec)", commands.Output, func(x *exec, m *cspipe.Msg) { m.Int(x.qnB).Str(dataRec()) })
	refuse("Rewind(qnB,q)", commands.Rewind, func(x *exec, m *cspipe.Msg) { m.Int(x.qnB).Byte('q') })
	refuse("Run(1+1)", commands.Run, func(x *exec, m *cspipe.Msg) { m.Str("1 + 1") })
	refuse("Timestamp", commands.Timestamp, nil)
	refuse("Transaction(read)", commands.Transaction, func(x *exec, m *cspipe.Msg) { m.Bool(false) })
	refuse("Transaction(update)", commands.Transaction, func(x *exec, m *cspipe.Msg) { m.Bool(true) })
	refuse("Transactions", commands.Transactions, nil)
	add("Size", commands.Size, "refuse", nil).postAuth = true

	add("LibGet(Foo)", commands.LibGet, "allow", func(x *exec, m *cspipe.Msg) { m.Str("Foo") })
	add("LibGet(Nonexistent)", commands.LibGet, "allow", func(x *exec, m *cspipe.Msg) { m.Str("Nonexistent") })
	add("Libraries", commands.Libraries, "allow", nil)
	for _, s := range []string{"", "sessA", "sessB"} {
		s := s
		r := add("SessionId("+s+")", commands.SessionId, "sessionid", func(x *exec, m *cspipe.Msg) { m.Str(s) })
		r.Arg, r.postAuth = s, true
	}
	add("Nonce", commands.Nonce, "nonce", nil).postAuth = true
	add("Token", commands.Token, "token", nil).postAuth = true
	add("Connections", commands.Connections, "connections", nil).postAuth = true
	for _, s := range []string{"sessB", "sessA", "nosuch"} {
		s := s
		r := add("Kill("+s+")", commands.Kill, "kill", func(x *exec, m *cspipe.Msg) { m.Str(s) })
		r.Arg, r.postAuth = s, true
	}
	for _, shape := range []string{"garbage", "empty", "hash-latest-nonce", "hash-first-nonce",
		"hash-nonce-of-B", "wrong-password", "unknown-user-empty-passhash", "user-without-passhash", "token-of-B", "token-obtained-by-A"} {
		r := add("Auth("+shape+")", commands.Auth, "auth", nil)
		r.Arg, r.postAuth = shape, true
	}
	add("EndSession", commands.EndSession, "endsession", nil).postAuth = true
	add("invalid-command-41", commands.Command(41), "badcmd", nil).postAuth = true
	add("invalid-command-255", commands.Command(255), "badcmd", nil)
	// the second unauthenticated connection
	for _, shape := range []string{"token-of-B", "token-obtained-by-A", "hash-nonce-of-A"} {
		r := add("C.Auth("+shape+")", commands.Auth, "auth", nil)
		r.Conn, r.Arg, r.postAuth = 'C', shape, true
	}
	rs = append(rs, req{Name: "C.Token", Conn: 'C', Cmd: commands.Token, Kind: "token", postAuth: true})
	return rs
}

// ---------------------------------------------------------------- model

// connModel is what the property lets us know about one client connection.
type connModel struct {
	auth        bool
	closed      bool
	nonces      []string // every nonce the connection was given, in order
	nonce       string   // the current unused nonce ("" = none)
	sid         uint32   // client side session number in use
	sessionName string   // last session id set on the current session ("" = default)
	// nameUnknown: an error may have ended the server side session (and with
	// it the session id); closedUnknown: a legitimate Kill named a session id
	// this connection may or may not still carry
	nameUnknown, closedUnknown bool
}

type tokenInfo struct {
	legit bool // issued to an authorized connection
	used  bool
}

type model struct {
	a, c       connModel
	tokens     map[string]*tokenInfo
	lastTokenA string // latest token connection A was given
	bAlive     bool
	everAuth   bool // some connection was legitimately authorized: content may change
}

func (m *model) conn(which byte) *connModel {
	if which == 'C' {
		return &m.c
	}
	return &m.a
}

func (m *model) key() string {
	toks := []string{}
	for _, t := range m.tokens {
		toks = append(toks, fmt.Sprint(t.legit, t.used))
	}
	sort.Strings(toks)
	ck := func(c *connModel) string {
		return fmt.Sprint(c.auth, c.closed, len(c.nonces), c.nonce != "", c.sessionName)
	}
	return ck(&m.a) + "|" + ck(&m.c) + "|" + strings.Join(toks, ",") + "|" + fmt.Sprint(m.bAlive, m.lastTokenA != "")
}

// ---------------------------------------------------------------- execution

// exec is one execution: a fresh database, server and connections.
type exec struct {
	db         *db19.Database
	srv        *cspipe.Server
	a, b, c    *cspipe.RawClient
	tnB        int64
	qnB, cnB   int64
	tokenB     string
	nonceB     string
	m          model
	snapshot0  string
	infraError string
	// notes: observations that are NOT violations of C41 (the property bounds
	// what an unauthorized connection can do from above; it does not promise
	// that the allowed requests succeed) but show the run is not vacuous
	notes map[string]int
}

func (x *exec) note(s string) {
	if x.notes == nil {
		x.notes = map[string]int{}
	}
	x.notes[s]++
}

type failure struct {
	class string
	msg   string
}

func (x *exec) client(which byte) *cspipe.RawClient {
	switch which {
	case 'B':
		return x.b
	case 'C':
		return x.c
	}
	return x.a
}

// call sends a request and reads the response. ok=false + err="" means an
// error response (text in msg).
type response struct {
	closed  bool
	ok      bool
	errText string
	r       cspipe.Reader
}

func (x *exec) call(cl *cspipe.RawClient, sid uint32, m *cspipe.Msg, wantResponse bool) response {
	if err := cl.Send(sid, m.B); err != nil {
		if err == cspipe.ErrHang {
			x.infraError = "write blocked: " + err.Error()
		}
		return response{closed: true}
	}
	if !wantResponse {
		return response{}
	}
	_, payload, err := cl.Recv()
	if err != nil {
		if err == cspipe.ErrHang {
			x.infraError = "no response to a request (hang)"
		}
		return response{closed: true}
	}
	rd := cspipe.Reader{B: payload}
	if rd.Bool() {
		return response{ok: true, r: rd}
	}
	return response{ok: false, errText: rd.Str()}
}

func must(x *exec, what string, r response) response {
	if r.closed || !r.ok {
		x.infraError = fmt.Sprintf("setup request %s failed: closed=%v err=%q", what, r.closed, r.errText)
	}
	return r
}

func newExec() *exec {
	x := &exec{}
	db := db19.CreateDb(stor.HeapStor(8192))
	db19.StartConcur(db, time.Hour)
	x.db = db
	adm := func(s string) { qry.DoAdmin(db, s, nil) }
	act := func(s string) {
		ut := db.NewUpdateTran()
		qry.DoAction(nil, ut, s)
		if r := ut.Complete(); r != "" {
			panic("setup commit failed: " + r)
		}
	}
	adm("create users (user, passhash) key(user)")
	act("insert { user: '" + user + "', passhash: '" + passhash + "' } into users")
	// an account without a password hash (created before its password is set, or
	// disabled by clearing the hash): sha1(nonce) needs no secret, nobody may log in as it
	act("insert { user: 'guest', passhash: '' } into users")
	adm("create stdlib (name, group, text, num, parent) key(name, group)")
	act("insert { name: 'Foo', group: -1, text: 'function () { 123 }', num: 1 } into stdlib")
	adm("create data (k, v) key(k)")
	act("insert { k: 1, v: 'one' } into data")
	act("insert { k: 2, v: 'two' } into data")
	x.srv = cspipe.NewServer(db)

	conn := func() *cspipe.RawClient {
		c, err := x.srv.Connect()
		if err != nil {
			x.infraError = "connect: " + err.Error()
			return &cspipe.RawClient{}
		}
		return &cspipe.RawClient{Conn: c}
	}
	x.b = conn()
	if x.infraError != "" {
		return x
	}
	// B authenticates the documented way
	r := must(x, "B.Nonce", x.call(x.b, 1, cspipe.Cmd(byte(commands.Nonce)), true))
	nb := r.r.Str()
	r = x.call(x.b, 1, cspipe.Cmd(byte(commands.Auth)).Str(authString(user, passhash, nb)), true)
	if r.closed {
		x.infraError = "connection closed during the legitimate authentication of B"
	} else if !r.ok {
		// e.g. "already authorized": then B can do the rest of the setup anyway
		// and the requests of A show the violation; otherwise the setup fails below
		x.note("setup: Auth of B answered with an error: " + r.errText)
	} else if !r.r.Bool() {
		x.infraError = "legitimate authentication of B returned false"
	}
	must(x, "B.SessionId", x.call(x.b, 1, cspipe.Cmd(byte(commands.SessionId)).Str("sessB"), true))
	r = must(x, "B.Transaction", x.call(x.b, 1, cspipe.Cmd(byte(commands.Transaction)).Bool(true), true))
	x.tnB = r.r.Int()
	must(x, "B.Action", x.call(x.b, 1, cspipe.Cmd(byte(commands.Action)).Int(x.tnB).Str("insert { k: 9, v: 'nine' } into data"), true))
	r = must(x, "B.Query", x.call(x.b, 1, cspipe.Cmd(byte(commands.Query)).Int(x.tnB).Str("data"), true))
	x.qnB = r.r.Int()
	r = must(x, "B.Cursor", x.call(x.b, 1, cspipe.Cmd(byte(commands.Cursor)).Str("data"), true))
	x.cnB = r.r.Int()
	r = must(x, "B.Token", x.call(x.b, 1, cspipe.Cmd(byte(commands.Token)), true))
	x.tokenB = r.r.Str()
	r = must(x, "B.Nonce2", x.call(x.b, 1, cspipe.Cmd(byte(commands.Nonce)), true))
	x.nonceB = r.r.Str()
	x.a = conn()
	x.c = conn()
	x.m = model{tokens: map[string]*tokenInfo{x.tokenB: {legit: true}}, bAlive: true}
	x.m.a.sid, x.m.c.sid = 1, 1
	if x.infraError == "" {
		x.snapshot0 = x.snapshot()
	}
	return x
}

func (x *exec) close() {
	if x.srv != nil {
		if err := x.srv.Shutdown(); err != nil && x.infraError == "" {
			x.infraError = err.Error()
		}
	}
	if e := lib.Try(func() { x.db.Close() }); e != nil && x.infraError == "" {
		x.infraError = "db.Close: " + lib.PanicText(e)
	}
}

// snapshot = committed content of every table + schema + open update
// transactions, read directly from the database (not through the server).
func (x *exec) snapshot() string {
	var sb strings.Builder
	st := x.db.GetState()
	var names []string
	for ts := range st.Meta.Tables() {
		names = append(names, ts.Table)
	}
	sort.Strings(names)
	rt := x.db.NewReadTran()
	for _, n := range names {
		sb.WriteString(x.db.Schema(n) + "\n")
		it := rt.IndexIter(n, 0)
		it.Range(index.Range{Org: "", End: "\xff\xff\xff\xff\xff\xff\xff\xff"})
		for it.Next(rt); !it.Eof(); it.Next(rt) {
			_, off := it.Cur()
			fmt.Fprintf(&sb, "  %q\n", string(rt.GetRecord(off)))
		}
	}
	fmt.Fprintf(&sb, "open update transactions: %v\n", x.db.Transactions())
	return sb.String()
}

// authArg resolves an Auth shape to the string sent.
func (x *exec) authArg(which byte, shape string) string {
	cm := x.m.conn(which)
	latest := func(c *connModel) string {
		if len(c.nonces) == 0 {
			return ""
		}
		return c.nonces[len(c.nonces)-1]
	}
	switch shape {
	case "garbage":
		return "bob\x00garbagegarbagegarbage"
	case "empty":
		return ""
	case "hash-latest-nonce":
		return authString(user, passhash, latest(cm))
	case "hash-first-nonce":
		if len(cm.nonces) == 0 {
			return authString(user, passhash, "")
		}
		return authString(user, passhash, cm.nonces[0])
	case "hash-nonce-of-B":
		return authString(user, passhash, x.nonceB)
	case "hash-nonce-of-A":
		return authString(user, passhash, latest(&x.m.a))
	case "wrong-password":
		return authString(user, "ffffffffffffffffffffffffffffffff", latest(cm))
	case "unknown-user-empty-passhash":
		// a user that is not in the users table; the "password hash" of nobody
		return authString("mallory", "", latest(cm))
	case "user-without-passhash":
		// a user that IS in the users table but has no password hash
		return authString("guest", "", latest(cm))
	case "token-of-B":
		return x.tokenB
	case "token-obtained-by-A":
		if x.m.lastTokenA == "" {
			return "no-token-obtained-yet"
		}
		return x.m.lastTokenA
	}
	panic("unknown auth shape " + shape)
}

// step sends one request of the alphabet and judges the response against the
// model, updating the model. Returns failures; diverged=true when the
// implementation left the model (a classified or unclassified failure that
// changes what follows), after which the sequence is not continued.
func (x *exec) step(rq *req) (fails []failure, diverged bool, skipped bool) {
	cm := x.m.conn(rq.Conn)
	cl := x.client(rq.Conn)
	fail := func(class, format string, a ...any) {
		fails = append(fails, failure{class, rq.Name + ": " + fmt.Sprintf(format, a...)})
	}
	if cm.auth && !rq.postAuth {
		return nil, false, true // not part of the property: the connection is legitimately authorized
	}
	msg := cspipe.Cmd(byte(rq.Cmd))
	var authStr string
	if rq.Kind == "auth" {
		authStr = x.authArg(rq.Conn, rq.Arg)
		msg.Str(authStr)
	} else if rq.build != nil {
		rq.build(x, msg)
	}
	wantResp := rq.Kind != "endsession"
	r := x.call(cl, cm.sid, msg, wantResp)
	if x.infraError != "" {
		return nil, true, false
	}
	if cm.closedUnknown {
		return nil, true, false // not judged further
	}
	if cm.closed {
		if !r.closed && wantResp { // (a write racing with the close may still be accepted)
			fail("", "got a response on a connection the server should have closed")
			return fails, true, false
		}
		return nil, false, false
	}
	if rq.Kind == "badcmd" {
		if !r.closed {
			fail("", "invalid command byte was answered (ok=%v %q) instead of closing the connection", r.ok, r.errText)
			return fails, true, false
		}
		cm.closed = true
		return nil, false, false
	}
	if rq.Kind == "endsession" {
		if r.closed {
			fail("", "connection closed on EndSession write")
			return fails, true, false
		}
		cm.sid++ // like the real client: a new session gets a new number
		cm.sessionName = ""
		return nil, false, false
	}
	if r.closed {
		// the only legitimate reasons were handled above (kill of the own
		// connection by an authorized connection is handled below)
		if rq.Kind == "kill" && cm.auth {
			// an authorized connection may kill, including itself
		} else if rq.Kind == "kill" {
			fail("unauth-kill", "Kill(%q) was executed for an unauthorized connection: it closed the connection itself", rq.Arg)
			return fails, true, false
		} else {
			fail("", "the server closed the connection instead of answering")
			return fails, true, false
		}
	}

	if cm.auth {
		// legitimately authorized: only the bookkeeping that later steps need
		switch rq.Kind {
		case "auth":
			if r.ok {
				fail("", "Auth on an authorized connection was accepted (result %v)", r.r.Bool())
			}
		case "token":
			if r.ok {
				t := r.r.Str()
				x.m.tokens[t] = &tokenInfo{legit: true}
				if rq.Conn == 'A' {
					x.m.lastTokenA = t
				}
			} else {
				fail("", "Token refused for an authorized connection: %s", r.errText)
			}
		case "nonce":
			if r.ok {
				n := r.r.Str()
				cm.nonces = append(cm.nonces, n)
				cm.nonce = n
			}
		case "kill":
			x.modelKill(rq.Arg)
		case "sessionid":
			if rq.Arg != "" {
				cm.sessionName = rq.Arg
			}
		}
		return fails, len(fails) > 0, false
	}

	// ---- the connection is unauthorized
	switch rq.Kind {
	case "refuse":
		if !r.ok && cm.sessionName != "" {
			cm.nameUnknown = true
		}
		if !r.ok {
			x.note("refused while unauthorized: " + commandName(rq.Cmd))
		}
		if r.ok {
			fail("", "request succeeded on an unauthorized connection (response %q)", string(r.r.B))
			diverged = true
		}
	case "zero":
		if r.ok {
			if v := r.r.Int(); v != 0 || len(r.r.B) != 0 || r.r.Bad {
				fail("", "answered %d (+%d bytes) on an unauthorized connection", v, len(r.r.B))
			}
		}
	case "allow":
		if !r.ok {
			x.note("allowed request refused (not a C41 violation): " + rq.Name)
		} else {
			x.note("allowed request answered while unauthorized: " + rq.Name)
		}
	case "sessionid":
		if !r.ok {
			x.note("allowed request refused (not a C41 violation): " + rq.Name)
		} else {
			got := r.r.Str()
			if rq.Arg != "" {
				cm.sessionName = rq.Arg
				if got != rq.Arg {
					fail("", "SessionId(%q) returned %q", rq.Arg, got)
				}
			}
		}
	case "nonce":
		if !r.ok {
			x.note("allowed request refused (not a C41 violation): " + rq.Name)
		} else {
			n := r.r.Str()
			if len(n) == 0 {
				fail("", "empty nonce")
			}
			for _, old := range cm.nonces {
				if old == n {
					fail("", "nonce repeated")
				}
			}
			if n == x.nonceB {
				fail("", "nonce equals the nonce of another connection")
			}
			cm.nonces = append(cm.nonces, n)
			cm.nonce = n
		}
	case "token":
		if r.ok {
			t := r.r.Str()
			x.m.tokens[t] = &tokenInfo{legit: false}
			if rq.Conn == 'A' {
				x.m.lastTokenA = t
			}
			fail("unauth-token", "a token was issued to an unauthorized connection")
			// not diverged yet: the model knows the token and refuses it below
		}
	case "connections":
		if r.ok {
			fail("unauth-connections", "the list of sessions was sent to an unauthorized connection (%d bytes)", len(r.r.B))
		}
	case "kill":
		if r.ok {
			n := r.r.Int()
			fail("unauth-kill", "Kill(%q) was executed for an unauthorized connection (killed %d)", rq.Arg, n)
			diverged = true // other connections may be gone now
		}
	case "auth":
		nonce := cm.nonce
		cm.nonce = "" // any attempt uses up the connection's nonce
		legit := false
		why := ""
		if nonce != "" && authStr == authString(user, passhash, nonce) {
			legit, why = true, "user hash over the connection's current nonce"
		}
		tok := x.m.tokens[authStr]
		if tok != nil && tok.legit && !tok.used {
			legit, why = true, "unused token issued to an authorized connection"
		}
		if tok != nil {
			defer func() { tok.used = true }()
		}
		if !r.ok {
			if legit {
				x.note("legitimate Auth answered with an error (not a C41 violation)")
			}
			break
		}
		result := r.r.Bool()
		switch {
		case result && !legit:
			class := ""
			switch {
			case tok != nil && !tok.legit:
				class = "unauth-token" // the token should never have been issued
			case rq.Arg == "unknown-user-empty-passhash":
				class = "auth-unknown-user"
			}
			fail(class, "Auth(%s) returned true without a valid credential (nonce current=%v, token=%+v)", rq.Arg, nonce != "", tok)
			diverged = true
		case !result && legit:
			x.note("legitimate Auth returned false (not a C41 violation): " + why)
		case result:
			x.note("legitimate Auth accepted: " + why)
			cm.auth = true
			x.m.everAuth = true
		default:
			x.note("illegitimate Auth refused: " + rq.Arg)
		}
	}
	return fails, diverged, false
}

// modelKill: an authorized connection kills every connection that has a
// session with that session id.
func (x *exec) modelKill(sid string) {
	if sid == "sessB" {
		x.m.bAlive = false
	}
	for _, cm := range []*connModel{&x.m.a, &x.m.c} {
		if !cm.closed && cm.sessionName != "" && cm.sessionName == sid {
			if cm.nameUnknown {
				cm.closedUnknown = true
			} else {
				cm.closed = true
			}
		}
	}
}

// finish probes the end state.
func (x *exec) finish(hadClass string) (fails []failure) {
	fail := func(class, format string, a ...any) {
		fails = append(fails, failure{class, "end of sequence: " + fmt.Sprintf(format, a...)})
	}
	for _, which := range []byte{'A', 'C'} {
		cm := x.m.conn(which)
		if cm.closed || cm.closedUnknown {
			continue
		}
		r := x.call(x.client(which), cm.sid+100, cspipe.Cmd(byte(commands.Size)), true)
		if x.infraError != "" {
			return
		}
		if r.closed {
			fail(hadClass, "connection %c is closed but nothing legitimate closed it", which)
			continue
		}
		if r.ok != cm.auth {
			fail(hadClass, "connection %c: authorized=%v (Size request ok=%v %q) but the model says %v", which, r.ok, r.ok, r.errText, cm.auth)
		}
	}
	if !x.m.everAuth {
		if s := x.snapshot(); s != x.snapshot0 {
			fail(hadClass, "database content / schema / open transactions changed although no connection was authorized:\n%s\nbefore:\n%s", s, x.snapshot0)
		}
	}
	// B
	r := x.call(x.b, 1, cspipe.Cmd(byte(commands.SessionId)).Str(""), true)
	if x.infraError != "" {
		return
	}
	if x.m.bAlive {
		if r.closed || !r.ok {
			fail(hadClass, "the authenticated session B was disturbed: closed=%v err=%q", r.closed, r.errText)
		} else if got := r.r.Str(); got != "sessB" {
			fail(hadClass, "session id of B is %q", got)
		} else if !x.m.everAuth {
			r = x.call(x.b, 1, cspipe.Cmd(byte(commands.Commit)).Int(x.tnB), true)
			if r.closed || !r.ok || !r.r.Bool() {
				fail(hadClass, "B's open transaction could not commit: closed=%v err=%q", r.closed, r.errText)
			}
		}
	} else if !r.closed {
		fail("", "B was killed by an authorized connection but still answers")
	}
	return
}

// ---------------------------------------------------------------- driver

// representatives of the refused / tolerated / allowed requests in the core alphabet
var coreRefused = map[string]bool{
	"Admin(create x)": true, "Admin(truncated message)": true, "Transaction(update)": true,
	"GetOne(1,0,users)": true, "Abort(tnB)": true, "Action(tnB,delete data)": true, "Log(hello)": true,
	"Run(1+1)": true, "Cursors": true, "LibGet(Foo)": true, "Size": true, "Close(qnB,q)": true,
}

// canonical minimal witnesses of the classified failure classes
var witnesses = map[string][]string{
	"unauth-token":       {"Token", "Auth(token-obtained-by-A)"},
	"unauth-kill":        {"Kill(sessB)"},
	"unauth-connections": {"Connections"},
	"auth-unknown-user":  {"Nonce", "Auth(unknown-user-empty-passhash)"},
}

type caseT struct {
	Seq []string `json:"sequence"` // request names
}

type outcome struct {
	notes    map[string]int
	fails    []failure
	executed int  // requests sent and judged
	diverged bool // stop extending this prefix
	lastSkip bool // the last request was not applicable (authorized connection)
	stateKey string
}

func runSeq(alpha map[string]*req, seq []string) outcome {
	var out outcome
	x := newExec()
	defer func() {
		x.close()
		if x.infraError != "" {
			lib.Infra("C41 sequence %v: %s", seq, x.infraError)
		}
	}()
	if x.infraError != "" {
		return out
	}
	class := ""
	for i, name := range seq {
		rq := alpha[name]
		if rq == nil {
			lib.Infra("unknown request %q", name)
		}
		fails, div, skipped := x.step(rq)
		if x.infraError != "" {
			return out
		}
		out.lastSkip = skipped && i == len(seq)-1
		if !skipped {
			out.executed++
		}
		out.fails = append(out.fails, fails...)
		for _, f := range fails {
			if f.class != "" && class == "" {
				class = f.class
			}
		}
		if div {
			out.diverged = true
			break
		}
	}
	if !out.diverged {
		out.fails = append(out.fails, x.finish(class)...)
		if x.infraError != "" {
			return out
		}
	}
	out.stateKey = x.m.key()
	out.notes = x.notes
	return out
}

func commandName(c commands.Command) string { return c.String() }

func run(c *lib.Ctx) {
	cspipe.Init()
	alpha := alphabet()
	byName := map[string]*req{}
	var names []string
	for i := range alpha {
		if byName[alpha[i].Name] != nil {
			lib.Infra("duplicate request name %s", alpha[i].Name)
		}
		byName[alpha[i].Name] = &alpha[i]
		names = append(names, alpha[i].Name)
	}
	depth := lib.Pick(c, 2, 3)
	var coreNames []string
	for _, n := range names {
		rq := byName[n]
		if (rq.Kind != "refuse" && rq.Kind != "zero" && rq.Kind != "allow") || coreRefused[n] {
			coreNames = append(coreNames, n)
		}
	}
	c.Set("core_alphabet(levels before the last at depth 3)", coreNames)
	c.Set("alphabet", names)
	c.Set("alphabet_size", len(names))
	c.Set("depth", depth)
	states := map[string]bool{}
	// Classified failures (known-finding classes) occur in thousands of
	// sequences and in every worker shard. Each class has a canonical minimal
	// witness; every shard runs the witnesses first, shard 0 reports them. A
	// classified failure elsewhere is only counted, unless its witness did NOT
	// fail (then the class predicate is suspect and the case is reported).
	witnessFails := map[string]bool{}
	for class, w := range witnesses {
		o := runSeq(byName, w)
		var msgs []string
		for _, f := range o.fails {
			if f.class == class {
				witnessFails[class] = true
				msgs = append(msgs, f.msg)
			}
		}
		if c.Shard == 0 && len(msgs) > 0 {
			c.Fail(class, caseT{Seq: w}, "sequence %s: %s", strings.Join(w, " ; "), strings.Join(msgs, " | "))
		}
	}
	var dfs func(prefix []string)
	dfs = func(prefix []string) {
		if c.Expired() {
			return
		}
		o := runSeq(byName, prefix)
		c.Eval(1)
		c.Transition(o.executed)
		c.TraceValidated(o.executed)
		c.Nontrivial(1)
		for k, v := range o.notes {
			c.Count(k, v)
		}
		if !states[o.stateKey] {
			states[o.stateKey] = true
			c.Distinct("model state " + o.stateKey)
			if c.Shard == 0 {
				c.State(1) // lower bound: distinct model states seen by worker shard 0
			}
		}
		for _, f := range o.fails {
			if f.class != "" {
				c.Count("class:"+f.class, 1)
				if witnessFails[f.class] {
					continue
				}
			}
			c.Fail(f.class, caseT{Seq: prefix}, "sequence %s: %s", strings.Join(prefix, " ; "), f.msg)
		}
		if len(o.fails) == 0 && c.NSamples() < 3 && len(prefix) == depth && c.Shard == 0 {
			c.Sample(map[string]any{"sequence": prefix, "model_state_after": o.stateKey, "verdict": "as the model demands"})
		}
		if o.diverged {
			c.Count("prefixes not extended after a failure", 1)
			return
		}
		if o.lastSkip {
			c.Count("prefixes not extended: request not applicable to an authorized connection", 1)
			return
		}
		if len(prefix) == depth {
			return
		}
		// The last request of a sequence ranges over the whole alphabet. At
		// depth 3 the requests before it range over the core alphabet: every
		// request that can change the authorization state (Auth shapes, Nonce,
		// Token, Kill, Connections, SessionId, EndSession, invalid command)
		// plus one representative of each kind of refused request.
		next := names
		if depth > 2 && len(prefix)+1 < depth {
			next = coreNames
		}
		for _, n := range next {
			dfs(append(append([]string(nil), prefix...), n))
		}
	}
	// shard on the first request
	first := names
	if depth > 2 {
		first = coreNames
	}
	for i, n := range first {
		if i%c.NShards != c.Shard {
			continue
		}
		dfs([]string{n})
	}
	if depth == 2 {
		// quick tier: additionally every sequence of depth 3 over the requests that
		// touch the authorization state itself (Nonce, Token, all Auth shapes):
		// nonce / token reuse after a failed attempt needs three requests
		var authNames []string
		for _, n := range names {
			if strings.HasPrefix(n, "Auth(") || n == "Nonce" || n == "Token" {
				authNames = append(authNames, n)
			}
		}
		c.Set("auth_alphabet(depth 3 in the quick tier)", authNames)
		k := 0
		for _, a := range authNames {
			for _, b := range authNames {
				for _, d := range authNames {
					k++
					if k%c.NShards != c.Shard || c.Expired() {
						continue
					}
					seq := []string{a, b, d}
					o := runSeq(byName, seq)
					c.Eval(1)
					c.Transition(o.executed)
					c.TraceValidated(o.executed)
					c.Nontrivial(1)
					for _, f := range o.fails {
						if f.class != "" && witnessFails[f.class] {
							c.Count("class:"+f.class, 1)
							continue
						}
						c.Fail(f.class, caseT{Seq: seq}, "sequence %s: %s", strings.Join(seq, " ; "), f.msg)
					}
				}
			}
		}
	}
	if c.Expired() {
		c.Cap("budget reached before all sequences of depth %d were run", depth)
	}
}

func replay(c *lib.Ctx, raw json.RawMessage) {
	cspipe.Init()
	var cs caseT
	if err := json.Unmarshal(raw, &cs); err != nil {
		lib.Infra("bad case: %v", err)
	}
	alpha := alphabet()
	byName := map[string]*req{}
	for i := range alpha {
		byName[alpha[i].Name] = &alpha[i]
	}
	o := runSeq(byName, cs.Seq)
	for _, f := range o.fails {
		c.Fail(f.class, cs, "sequence %s: %s", strings.Join(cs.Seq, " ; "), f.msg)
	}
}

func main() {
	lib.Main(lib.Spec{
		ID:    "C41",
		Level: "model_checking",
		Rule: "all sequences up to the depth bound over the request alphabet (every protocol command with 1-3 argument shapes incl. handles of another session, " +
			"9 Auth shapes, requests on a second unauthenticated connection), each on a fresh server + database; evaluations = sequences executed " +
			"(distinct by construction, every one contains at least one judged request on an unauthorized connection); transitions = requests sent and judged; " +
			"states = distinct reference-model states reached",
		Assumptions: []string{
			"the real newServerConn / doRequest / cmd* / DbmsUnauth / auth.go code runs over net.Pipe + TLS; TCP accept loop, rate limiters (auth throttle disabled) and the minute-based expiry of nonces/tokens are not exercised",
			"Cursors, ReadCount(0), WriteCount(0) are tolerated when they answer the constant 0 (no data, no state)",
			"any Auth attempt uses up the connection's nonce (documented as single use)",
			"requests other than Auth/Token/Kill/Connections/SessionId/Nonce/Size/EndSession are not sent on a connection the model considers legitimately authorized",
		},
		Procs:          16,
		ProcMaxProcs:   1,
		QuickBudget:    80,
		ThoroughBudget: 840,
		Run:            run,
		Replay:         replay,
	})
}
