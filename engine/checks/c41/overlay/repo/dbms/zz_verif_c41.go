//go:build verif

package dbms

// Added by /verif (check C41) through the build overlay; adds exported entry
// points only, changes nothing.

import (
	"crypto/tls"
	"net"
	"sync"

	"github.com/apmckinlay/gsuneido/dbms/mux"
	"golang.org/x/time/rate"
)

var verifWorkersOnce sync.Once

// VerifServeConn runs the real server side of one client connection
// (newServerConn: hello, TLS upgrade, DbmsUnauth wrapping, mux reader with the
// real worker pool and command dispatch) on conn. It returns when the
// connection ends.
func VerifServeConn(dbms *DbmsLocal, conn net.Conn) {
	verifWorkersOnce.Do(func() { workers = mux.NewWorkers(doRequest) })
	cert, err := tls.X509KeyPair(ServerCert, ServerKey)
	if err != nil {
		panic(err)
	}
	newServerConn(dbms, conn, &tls.Config{Certificates: []tls.Certificate{cert}})
}

// VerifNoAuthDelay removes the 4 per second wall-clock throttle on
// authentication attempts (it only delays, it never refuses).
func VerifNoAuthDelay() {
	authLimiter = rate.NewLimiter(rate.Inf, 1)
}
