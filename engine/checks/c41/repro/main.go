// Standalone reproduction of the C41 findings: an unauthenticated connection
// to the real server connection code (database with a users row).
//
//	cd /verif && ./check C41 quick >/dev/null; cd engine &&
//	GOFLAGS=-mod=mod GOPROXY=off go run -tags verif -overlay /verif/build/c41/overlay.json ./checks/c41/repro
package main

import (
	"crypto/sha1"
	"fmt"
	"time"

	"github.com/apmckinlay/gsuneido/db19"
	"github.com/apmckinlay/gsuneido/db19/stor"
	"github.com/apmckinlay/gsuneido/dbms/commands"
	qry "github.com/apmckinlay/gsuneido/dbms/query"

	"verif/model/cspipe"
)

func call(c *cspipe.RawClient, m *cspipe.Msg) (bool, cspipe.Reader, string) {
	if err := c.Send(1, m.B); err != nil {
		return false, cspipe.Reader{}, "connection closed"
	}
	_, p, err := c.Recv()
	if err != nil {
		return false, cspipe.Reader{}, "connection closed"
	}
	r := cspipe.Reader{B: p}
	if r.Bool() {
		return true, r, ""
	}
	return false, r, r.Str()
}

func main() {
	db := db19.CreateDb(stor.HeapStor(8192))
	db19.StartConcur(db, time.Hour)
	qry.DoAdmin(db, "create users (user, passhash) key(user)", nil)
	ut := db.NewUpdateTran()
	qry.DoAction(nil, ut, "insert { user: 'bob', passhash: 'secret-hash' } into users")
	ut.Complete()
	srv := cspipe.NewServer(db)
	conn := func() *cspipe.RawClient {
		c, err := srv.Connect()
		if err != nil {
			panic(err)
		}
		return &cspipe.RawClient{Conn: c}
	}
	size := func(c *cspipe.RawClient) string {
		ok, _, e := call(c, cspipe.Cmd(byte(commands.Size)))
		if ok {
			return "AUTHORIZED (Size answered)"
		}
		return "refused: " + e
	}

	// a legitimate session to be disturbed
	b := conn()
	_, r, _ := call(b, cspipe.Cmd(byte(commands.Nonce)))
	nonce := r.Str()
	h := sha1.Sum([]byte(nonce + "secret-hash"))
	call(b, cspipe.Cmd(byte(commands.Auth)).Str("bob\x00"+string(h[:])))
	call(b, cspipe.Cmd(byte(commands.SessionId)).Str("bob@desk"))

	fmt.Println("1. unauth-token: Token then Auth(token) on an unauthenticated connection")
	a := conn()
	fmt.Println("   before:", size(a))
	ok, r, e := call(a, cspipe.Cmd(byte(commands.Token)))
	fmt.Println("   Token ->", ok, e)
	tok := r.Str()
	ok, r, e = call(a, cspipe.Cmd(byte(commands.Auth)).Str(tok))
	fmt.Println("   Auth(token) ->", ok, r.Bool(), e)
	fmt.Println("   after:", size(a))

	fmt.Println("2. auth-unknown-user: Nonce then Auth('mallory' \\0 sha1(nonce)) - mallory is not in users")
	a = conn()
	_, r, _ = call(a, cspipe.Cmd(byte(commands.Nonce)))
	n := r.Str()
	h = sha1.Sum([]byte(n))
	ok, r, e = call(a, cspipe.Cmd(byte(commands.Auth)).Str("mallory\x00"+string(h[:])))
	fmt.Println("   Auth ->", ok, r.Bool(), e)
	fmt.Println("   after:", size(a))

	fmt.Println("3. unauth-connections / unauth-kill on an unauthenticated connection")
	a = conn()
	ok, r, e = call(a, cspipe.Cmd(byte(commands.Connections)))
	fmt.Printf("   Connections -> %v %q %s\n", ok, string(r.B), e)
	ok, r, e = call(a, cspipe.Cmd(byte(commands.Kill)).Str("bob@desk"))
	fmt.Println("   Kill(bob@desk) ->", ok, "killed", r.Int(), e)
	_, _, e = call(b, cspipe.Cmd(byte(commands.SessionId)).Str(""))
	fmt.Println("   bob's session now:", e)
}
