// C32 The lexer and parser are total and faithful to the source.
//
// Enumerated (bounded-exhaustive, simplest first), every input going to
//
//	L  the language lexer  (lexer.NewLexer, Next() until Eof)
//	Q  the query lexer     (lexer.NewQueryLexer)
//	C  compile.Constant(src)                       – constant / class / function parser + codegen
//	F  compile.Constant("function(){\n"+src+"\n}")  – statement and expression parser + codegen
//	K  compile.Checked(th, same function text)     – the parser with the checking aspects
//	P  query.ParseQuery(src, testTran)             – query parser
//	W  query.ParseQuery("table where "+src, …)     – expression parser under the query lexer/aspects
//
//	(1) all byte strings of length <= 2 and all byte strings of length 3
//	    (quick: length 3 over a 64 byte boundary alphabet, thorough: all 256^3)
//	(2) all strings of length <= 3 (thorough 4) over a 44 symbol token alphabet and
//	    of length 4 (thorough 5) over its 25 symbol core
//	    (brackets, quotes, # . .. ? : ; , = =~ - _ @ $ numbers, identifiers,
//	    keywords, comment starts, newline, FF, NUL)
//	(3) for 40 stdlib .ss files of <= 2 KB (every k-th in path order): every
//	    prefix and every single-byte deletion
//	(4) a few deep nestings (unbalanced brackets, unary chains) of depth 250
//
// Oracle (what the property states, nothing more):
//   - every call returns or panics with a *reported* error (a string / SuExcept
//     / non-runtime error value). A Go runtime.Error (index out of range, nil
//     dereference, …) or an internal assertion ("ASSERT FAILED", "should not
//     reach here") is not a reported syntax error => violation. A case that
//     does not finish in 60 s (work of microseconds) is a hang => violation.
//   - lexer: the first token starts at 0, token positions strictly increase,
//     the Eof token is at len(src) – i.e. the spans [Pos_i, Pos_i+1) tile the
//     input; for the tokens whose Text is defined as the source text
//     (whitespace, newline, comment, punctuation/operators, keywords,
//     identifiers) Text must equal the span, for numbers the span without '_'.
//
// Process-global state (core.Global name table, 65535 entries, overflow is
// fatal) => sub-process sharding (Procs) with interleaved work items; the
// number of global names used is reported and the shard stops with a cap
// before the table can fill.
package main

import (
	"encoding/hex"
	"encoding/json"
	"fmt"
	"os"
	"path/filepath"
	"regexp"
	"runtime/debug"
	"sort"
	"strings"
	"sync/atomic"
	"time"

	_ "github.com/apmckinlay/gsuneido/builtin"
	"github.com/apmckinlay/gsuneido/compile"
	"github.com/apmckinlay/gsuneido/compile/lexer"
	tok "github.com/apmckinlay/gsuneido/compile/tokens"
	"github.com/apmckinlay/gsuneido/core"
	"github.com/apmckinlay/gsuneido/dbms/query"

	"verif/lib"
)

type failCase struct {
	API string `json:"api"`
	Hex string `json:"src_hex"`
	Src string `json:"src_quoted"` // for the reader only
}

func mkCase(api, src string) failCase {
	return failCase{api, hex.EncodeToString([]byte(src)), fmt.Sprintf("%q", src)}
}

// ---------------------------------------------------------------- lexer oracle

// lexCheck tokenises src completely and checks the position/tiling rules.
// Returns the number of tokens before Eof and "" or a description of the
// first broken rule.
func lexCheck(src string, isQuery bool) (int, string) {
	var lxr *lexer.Lexer
	if isQuery {
		lxr = lexer.NewQueryLexer(src)
	} else {
		lxr = lexer.NewLexer(src)
	}
	var items []lexer.Item
	for {
		it := lxr.Next()
		items = append(items, it)
		if it.Token == tok.Eof {
			break
		}
		if len(items) > len(src)+1 {
			return len(items), fmt.Sprintf("more tokens (%d) than input bytes (%d): positions cannot be strictly increasing", len(items), len(src))
		}
	}
	n := len(items) - 1
	if int(items[n].Pos) != len(src) {
		return n, fmt.Sprintf("Eof token at %d but input length is %d", items[n].Pos, len(src))
	}
	if items[0].Pos != 0 {
		return n, fmt.Sprintf("first token at %d, not 0", items[0].Pos)
	}
	for i := 0; i < n; i++ {
		it := items[i]
		next := int(items[i+1].Pos)
		if next <= int(it.Pos) {
			return n, fmt.Sprintf("token %d (%v) at %d is followed by a token at %d: positions do not strictly increase", i, it.Token, it.Pos, next)
		}
		span := src[it.Pos:next]
		switch {
		case it.Token == tok.Error, it.Token == tok.String:
			// Text is a message / the decoded value
		case it.Token == tok.Symbol:
			if it.Text != span[1:] {
				return n, fmt.Sprintf("symbol token text %q but source span is %q", it.Text, span)
			}
		case it.Token == tok.Number:
			if it.Text != strings.ReplaceAll(span, "_", "") {
				return n, fmt.Sprintf("number token text %q but source span is %q", it.Text, span)
			}
		case it.Token == tok.Identifier && span == "_":
			// documented special case: "_" is the unused variable
		default:
			if it.Text != span {
				return n, fmt.Sprintf("token %v text %q but its source span [%d,%d) is %q", it.Token, it.Text, it.Pos, next, span)
			}
		}
	}
	return n, ""
}

// ---------------------------------------------------------------- totality oracle

// errKind normalises a reported error text for the distinct-outcome count:
// digits dropped, cut at 40 bytes.
func errKind(s string) string {
	b := make([]byte, 0, 40)
	for i := 0; i < len(s) && len(b) < 40; i++ {
		if s[i] < '0' || s[i] > '9' {
			b = append(b, s[i])
		}
	}
	return string(b)
}

// the messages of util/assert (possibly behind the compiler's "compile error @N " prefix)
var rxAssert = regexp.MustCompile(`^((compile|syntax) error @-?\d+ )*(ASSERT FAILED|assert failed: )`)

// classify a recovered panic value: ok (reported error) or a violation text
func classify(e any) (reported bool, kind string) {
	if e == nil {
		return true, "ok"
	}
	if lib.IsRuntimeError(e) {
		return false, "Go runtime error: " + lib.PanicText(e)
	}
	txt := lib.PanicText(e)
	switch e.(type) {
	case string, core.SuStr, *core.SuExcept, error:
	default:
		return false, fmt.Sprintf("panic with unexpected Go type %T: %s", e, txt)
	}
	if rxAssert.MatchString(txt) {
		return false, "internal assertion instead of a reported syntax error: " + txt
	}
	return true, txt
}

type runner struct {
	c    *lib.Ctx
	th   *core.Thread
	tran query.QueryTran
	cur  atomic.Pointer[string] // input being processed (for the hang watchdog)
	seq  atomic.Int64

	accepted   map[string]int
	kinds      map[string]bool
	nontrivial int
	evals      int
}

func newRunner(c *lib.Ctx) *runner {
	return &runner{c: c, th: &core.Thread{}, tran: query.VerifTestTran(),
		accepted: map[string]int{}, kinds: map[string]bool{}}
}

// try is lib.Try plus the stack of the panic (printed with VERIF_TRACE=1, e.g. on --replay)
func try(f func()) (e any) {
	defer func() {
		if e = recover(); e != nil && os.Getenv("VERIF_TRACE") != "" {
			fmt.Fprintf(os.Stderr, "panic: %v\n%s\n", e, debug.Stack())
		}
	}()
	f()
	return nil
}

// Precisely classified defect candidate: a class or function constant in a
// query where-expression makes ast.Constant.CanEvalRaw do an unchecked
// a.Val.(Packable) type assertion (compile/ast/expr.go).
const classUnpackable = "query-where-unpackable-constant"

// Precisely classified defect candidate: constant folding of `c1 % 0`,
// `c1 << -n`, `c1 >> -n` runs core.OpMod/OpLeftShift/OpRightShift, which
// have no operand check, at compile time: the compiler raises a Go runtime
// error (logged by gSuneido as an internal ERROR) instead of a reported error.
const classFoldIntOp = "compile-fold-mod-shift-go-runtime-error"

// Precisely classified defect candidate: a class member whose name is the
// empty string (class { "": … }) makes Parser.privatizeDef evaluate name[0]
// (compile/constant.go) => index out of range.
const classEmptyMemberName = "class-member-empty-name-index-out-of-range"

// Precisely classified defect candidate: ast.RangeLen.Columns (compile/ast/
// expr.go) dereferences From and Len without the nil checks that
// RangeTo.Columns has; x[::], x[::n], x[i::] in a query where-expression.
const classRangeLenNil = "query-rangelen-columns-nil-deref"

var rxEmptyMemberName = regexp.MustCompile("\\{[^{]*(\"\"|''|``)\\s*:")

func failClass(c *lib.Ctx, class string, cs any, format string, a ...any) {
	for _, ig := range strings.Split(os.Getenv("VERIF_DEV_IGNORE"), ",") {
		if ig == class && class != "" {
			c.Count("dev_ignored:"+class, 1)
			return
		}
	}
	c.Fail(class, cs, format, a...)
}

func (r *runner) call(api, src string, f func()) {
	e := try(f)
	ok, kind := classify(e)
	if !ok {
		class := ""
		if (api == "where" || api == "query") && lib.IsRuntimeError(e) &&
			strings.Contains(kind, "is not core.Packable: missing method Pack") {
			class = classUnpackable
		}
		if lib.IsRuntimeError(e) && (strings.HasSuffix(kind, "runtime error: integer divide by zero") && strings.Contains(src, "%") ||
			strings.HasSuffix(kind, "runtime error: negative shift amount") && (strings.Contains(src, "<<") || strings.Contains(src, ">>"))) {
			class = classFoldIntOp
		}
		if lib.IsRuntimeError(e) && strings.HasSuffix(kind, "runtime error: index out of range [0] with length 0") &&
			rxEmptyMemberName.MatchString(src) {
			class = classEmptyMemberName
		}
		if (api == "where" || api == "query") && lib.IsRuntimeError(e) && strings.Contains(src, "::") &&
			strings.HasSuffix(kind, "invalid memory address or nil pointer dereference") {
			class = classRangeLenNil
		}
		failClass(r.c, class, mkCase(api, src), "%s on input %q: %s", api, src, kind)
		return
	}
	if e == nil {
		r.accepted[api]++
	} else {
		// distinct reported error kinds (digits removed)
		r.kinds[api+":"+errKind(kind)] = true
	}
}

// flush hands the locally collected counters to lib (once, at the end)
func (r *runner) flush() {
	for api, n := range r.accepted {
		r.c.Count("accepted:"+api, n)
	}
	for k := range r.kinds {
		r.c.Distinct(k)
	}
	r.c.Nontrivial(r.nontrivial)
	r.c.Eval(r.evals)
	r.accepted, r.kinds, r.nontrivial, r.evals = map[string]int{}, map[string]bool{}, 0, 0
}

const funcPre = "function(){\n"
const funcPost = "\n}"

// one judges a single input text through all entry points
func (r *runner) one(src string) {
	r.cur.Store(&src)
	r.seq.Add(1)
	for _, q := range []bool{false, true} {
		api := "lexer"
		if q {
			api = "querylexer"
		}
		var n int
		var bad string
		e := lib.Try(func() { n, bad = lexCheck(src, q) })
		if ok, kind := classify(e); !ok || e != nil {
			if e != nil && ok {
				kind = "lexer panicked (the lexer reports errors as Error tokens): " + kind
			}
			r.c.Fail("", mkCase(api, src), "%s on input %q: %s", api, src, kind)
		} else if bad != "" {
			r.c.Fail("", mkCase(api, src), "%s on input %q: %s", api, src, bad)
		}
		if !q && n >= 2 {
			r.nontrivial++
		}
	}
	r.call("constant", src, func() { compile.Constant(src) })
	fsrc := funcPre + src + funcPost
	r.call("function", src, func() { compile.Constant(fsrc) })
	r.call("checked", src, func() { compile.Checked(r.th, fsrc) })
	r.call("query", src, func() { query.ParseQuery(src, r.tran, nil) })
	r.call("where", src, func() { query.ParseQuery("table where "+src, r.tran, nil) })
	r.evals += 7
}

// ---------------------------------------------------------------- input spaces

// 64 byte boundary alphabet for the quick tier's length-3 byte strings
var quickBytes = []byte("\x00\x01\t\n\r \x7f\x80\xff!\"#$%&'()*+,-./0189:;<=>?@AZ[\\]^_`az{|}~eExX" + "_bf")

func dedupe(b []byte) []byte {
	var seen [256]bool
	var out []byte
	for _, x := range b {
		if !seen[x] {
			seen[x] = true
			out = append(out, x)
		}
	}
	return out
}

var tokenAlphabet = []string{
	"(", ")", "[", "]", "{", "}", `"`, "'", "`", "#", ".", "..", "?", ":", "::", ";", ",", "=", "=~",
	"-", "_", "@", "$", "1", "1e", ".5e+", "0x", "x", "X",
	"if ", "else ", "function ", "class ", "while ", "for ", "in ", "return ", "try ", "catch ",
	"/*", "//", "\n", "\xff", "\x00",
}

// valid statements / expressions / queries (tokens separated by one space) for
// the token-level mutations of part (2b)
var mutTemplates = []string{
	"a , b = f ( )",
	"a , b , c = f ( x , y )",
	"x = a ? b : c",
	"x = a . b [ 1 .. 2 ]",
	"x [ 0 ] = y . z ( a : 1 , b : )",
	"f ( @ args )",
	"f ( x , : y , z : 3 )",
	"x = function ( a , b = 1 , @ c ) { return a }",
	"b = { | x , y | x + y }",
	"if a is b { x = 1 } else { x = 2 }",
	"switch x { case 1 , 2 : y = 1 case 3 : y = 2 default : y = 3 }",
	"try f ( ) catch ( e , \"p\" ) g ( e )",
	"for x in y { continue }",
	"for i , x in y { break }",
	"for ( i = 0 ; i < 9 ; ++ i ) f ( i )",
	"for i in 0 .. 9 { }",
	"forever { break }",
	"do x ++ while x < 9",
	"while x -- > 0 { }",
	"return a , b",
	"return",
	"throw \"x\" $ y",
	"x $= y ; x += 1 ; x <<= 2",
	"x = a in ( 1 , 2 ) or b not in ( 3 )",
	"x = not a and b isnt c",
	"x = # ( 1 , a : 2 , ( 3 ) )",
	"x = # { a : 1 , b : }",
	"x = # 20200101.1234",
	"x = class : X { F ( a ) { . f = a } G : 1 }",
	"x = new X ( 1 )",
	"super . F ( x )",
	"x = . a . b ( ) . c",
	"x = X { a : 1 }",
	"x = a =~ \"b\" ? c : d",
	"x = - a * ~ b % c",
	"x = a [ :: 2 ] $ b [ 1 :: ]",
	"x = function ( ) { } ( )",
	"x = _y",
	"x = a is true or b is false",
	"table where a = 1 and b in ( 2 , 3 )",
	"table join by ( a ) table2 project a , b",
	"table extend x = a + 1 , y rename a to z sort reverse z",
	"table summarize a , total b , max c",
	"( table union table2 ) minus table3 intersect table4",
	"table leftjoin table2 times table3",
	"table where a =~ \"x\" remove b",
	"insert { a : 1 } into table",
	"update table set a = 1",
	"delete table where a is 1",
}

var mutTokens = []string{
	"(", ")", "[", "]", "{", "}", ",", ".", "..", ":", "::", ";", "=", "?", "|", "@", "#", "-", "1", "\"s\"", "x", "X", "in", "function", "class", "\n",
}

// core alphabet for the longest token strings
var coreAlphabet = []string{
	"(", ")", "[", "]", "{", "}", `"`, "'", "#", ".", "..", "?", ":", "::", ";", ",", "=", "-",
	"1", "x", "X", "function ", "class ", "in ", "\n",
}

func pow(b, e int) int {
	r := 1
	for ; e > 0; e-- {
		r *= b
	}
	return r
}

// nth string of length l over alphabet (as index digits)
func nthBytes(alpha []byte, l, idx int) string {
	b := make([]byte, l)
	for k := l - 1; k >= 0; k-- {
		b[k] = alpha[idx%len(alpha)]
		idx /= len(alpha)
	}
	return string(b)
}

func nthTokens(alpha []string, l, idx int) string {
	parts := make([]string, l)
	for k := l - 1; k >= 0; k-- {
		parts[k] = alpha[idx%len(alpha)]
		idx /= len(alpha)
	}
	return strings.Join(parts, "")
}

func stdlibFiles(n int) []string {
	var all []string
	filepath.Walk("/repo/stdlib", func(p string, info os.FileInfo, err error) error {
		if err == nil && !info.IsDir() && strings.HasSuffix(p, ".ss") && info.Size() <= 2048 && info.Size() >= 200 {
			all = append(all, p)
		}
		return nil
	})
	sort.Strings(all)
	if len(all) <= n {
		return all
	}
	var out []string
	for i := 0; i < n; i++ {
		out = append(out, all[i*len(all)/n])
	}
	return out
}

// ---------------------------------------------------------------- run

func nGlobals() int {
	if v := core.InfoStr("core.nGlobal"); v != nil {
		if n, ok := v.ToInt(); ok {
			return n
		}
	}
	return -1
}

func run(c *lib.Ctx) {
	debug.SetMaxStack(512 << 20)
	quickBytes = dedupe(quickBytes)
	r := newRunner(c)
	done := make(chan struct{})
	go func() {
		defer close(done)
		defer func() {
			if e := recover(); e != nil {
				lib.Infra("panic escaped the C32 worker: %v\n%s", e, debug.Stack())
			}
		}()
		r.work()
	}()
	// hang watchdog: the worker goroutine publishes a sequence number per input
	last, lastChange := int64(-1), time.Now()
	for {
		select {
		case <-done:
			return
		case <-time.After(time.Second):
		}
		if s := r.seq.Load(); s != last {
			last, lastChange = s, time.Now()
		} else if time.Since(lastChange) > 60*time.Second {
			src := "?"
			if p := r.cur.Load(); p != nil {
				src = *p
			}
			c.Fail("", mkCase("hang", src), "input %q did not finish within 60 s: lexer/parser hang", src)
			return
		}
	}
}

func (r *runner) work() {
	c := r.c
	defer r.flush()
	mine := func(i int) bool { return i%c.NShards == c.Shard }
	item := 0
	stop := func() bool {
		if item%4096 == 0 {
			if c.Expired() {
				return true
			}
			if n := nGlobals(); n > 55000 {
				c.Cap("global name table nearly full (%d names) in shard %d", n, c.Shard)
				return true
			}
		}
		return false
	}
	// (1) byte strings
	full := make([]byte, 256)
	for i := range full {
		full[i] = byte(i)
	}
	type bspace struct {
		alpha []byte
		l     int
	}
	spaces := []bspace{{full, 0}, {full, 1}, {full, 2}, {lib.Pick(c, quickBytes, full), 3}}
	for _, sp := range spaces {
		n := pow(len(sp.alpha), sp.l)
		for i := 0; i < n; i++ {
			item++
			if !mine(item) {
				continue
			}
			if stop() {
				return
			}
			r.one(nthBytes(sp.alpha, sp.l, i))
		}
	}
	c.Set("byte_strings", fmt.Sprintf("all of length<=2, length 3 over %d bytes", len(spaces[3].alpha)))
	// (2) token strings: all up to length fullLen over the full alphabet,
	// then length fullLen+1 over the core alphabet
	fullLen := lib.Pick(c, 3, 4)
	type tspace struct {
		alpha []string
		l     int
	}
	var tspaces []tspace
	for l := 1; l <= fullLen; l++ {
		tspaces = append(tspaces, tspace{tokenAlphabet, l})
	}
	tspaces = append(tspaces, tspace{coreAlphabet, fullLen + 1})
	for _, sp := range tspaces {
		n := pow(len(sp.alpha), sp.l)
		for i := 0; i < n; i++ {
			item++
			if !mine(item) {
				continue
			}
			if stop() {
				return
			}
			src := nthTokens(sp.alpha, sp.l, i)
			r.one(src)
			if sp.l == 3 && i%10007 == 7 {
				c.Sample(map[string]string{"input": fmt.Sprintf("%q", src), "outcome": r.describe(src)})
			}
		}
	}
	c.Set("token_strings", fmt.Sprintf("all of length<=%d over %d symbols, length %d over %d core symbols",
		fullLen, len(tokenAlphabet), fullLen+1, len(coreAlphabet)))
	// (2b) token-level mutations of valid statements and expressions: every
	// single deletion, replacement and insertion (thorough: also every pair of
	// replacements) with a 26 token alphabet - inputs that are one slip away from
	// valid code reach the parser's deeper paths (multiple assignment, switch,
	// try, for-in, class members, ranges, named arguments, query operators) that
	// short token strings cannot
	nmut := 0
	for _, t := range mutTemplates {
		toks := strings.Split(t, " ")
		item++
		if mine(item) {
			r.one(strings.Join(toks, " "))
		}
		emit := func(v []string) {
			item++
			if !mine(item) || c.Expired() {
				return
			}
			nmut++
			r.one(strings.Join(v, " "))
		}
		for i := range toks {
			emit(append(append([]string{}, toks[:i]...), toks[i+1:]...))
			for _, m := range mutTokens {
				if m != toks[i] {
					v := append([]string{}, toks...)
					v[i] = m
					emit(v)
				}
			}
		}
		for i := 0; i <= len(toks); i++ {
			for _, m := range mutTokens {
				v := append(append(append([]string{}, toks[:i]...), m), toks[i:]...)
				emit(v)
			}
		}
		if !c.Quick() {
			for i := range toks {
				for j := i + 1; j < len(toks); j++ {
					for _, m := range mutTokens {
						for _, m2 := range mutTokens {
							v := append([]string{}, toks...)
							v[i], v[j] = m, m2
							emit(v)
						}
					}
				}
			}
		}
		if c.Expired() {
			return
		}
	}
	c.Set("statement_mutations", fmt.Sprintf("%d templates, %d mutation tokens", len(mutTemplates), len(mutTokens)))
	// (3) stdlib files: every prefix and every single-byte deletion
	files := stdlibFiles(40)
	c.Set("stdlib_files", len(files))
	for _, f := range files {
		b, err := os.ReadFile(f)
		if err != nil {
			lib.Infra("read %s: %v", f, err)
		}
		src := string(b)
		item++
		if mine(item) {
			// the unmodified file must compile: guards against a vacuous part (3)
			if e := lib.Try(func() { compile.NamedConstant("stdlib", "X", src, nil) }); e != nil {
				c.Count("stdlib_file_does_not_compile_unmodified", 1)
			} else {
				c.Count("stdlib_file_compiles", 1)
			}
		}
		for i := 0; i <= len(src); i++ {
			item++
			if !mine(item) {
				continue
			}
			if stop() {
				return
			}
			r.one(src[:i])
			if i < len(src) {
				r.one(src[:i] + src[i+1:])
			}
		}
	}
	// (4) deep nestings
	for _, unit := range []string{"(", "[", "{", "#(", "-", "not ", "function(){", "x(", "x[", "x.", "if x ", "1+", "x?", "class{a:"} {
		item++
		if !mine(item) {
			continue
		}
		r.one(strings.Repeat(unit, 250))
		r.one(strings.Repeat(unit, 250) + "1")
	}
	c.Set("globals_used_shard0", nGlobals())
}

func (r *runner) describe(src string) string {
	var out []string
	e := lib.Try(func() { compile.Constant(funcPre + src + funcPost) })
	if e == nil {
		out = append(out, "function: compiles")
	} else {
		out = append(out, "function: "+lib.PanicText(e))
	}
	e = lib.Try(func() { query.ParseQuery("table where "+src, r.tran, nil) })
	if e == nil {
		out = append(out, "where: parses")
	} else {
		out = append(out, "where: "+lib.PanicText(e))
	}
	return strings.Join(out, " | ")
}

func replay(c *lib.Ctx, raw json.RawMessage) {
	var fc failCase
	if err := json.Unmarshal(raw, &fc); err != nil {
		lib.Infra("bad case: %v", err)
	}
	b, err := hex.DecodeString(fc.Hex)
	if err != nil {
		lib.Infra("bad case: %v", err)
	}
	r := newRunner(c)
	r.one(string(b))
	r.flush()
}

func main() {
	lib.Main(lib.Spec{
		ID:    "C32",
		Level: "exploration",
		Rule: "every input text of the enumerated spaces (byte strings, token-alphabet strings, stdlib file prefixes and single-byte deletions, deep nestings) through " +
			"language lexer, query lexer, Constant, function compile, Checked, ParseQuery, ParseQuery(where); evaluations = entry-point calls judged; " +
			"an input (distinct by construction) is non-trivial when it lexes to >= 2 tokens; plus distinct reported error kinds per entry point",
		Assumptions: []string{
			"a reported error is a panic with a string / SuExcept / non-runtime error value; runtime.Error and internal assertion texts are violations",
			"hang detection: 60 s watchdog per input (inputs need microseconds)",
			"stack exhaustion would kill a worker process and surface as an infrastructure error, not as a violation (inputs are <= 2 KB or depth 250, so it is not expected)",
			"query parsing uses the repo's hard coded test schema transaction (testTran) through an overlay accessor",
		},
		QuickBudget:    150,
		ThoroughBudget: 1500,
		Procs:          16,
		Run:            run,
		Replay:         replay,
	})
}
