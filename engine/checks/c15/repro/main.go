//go:build ignore

// Standalone reproduction of the three C15 defect candidates at Database level.
// Run: cd /verif/engine && GOFLAGS=-mod=mod GOPROXY=off go run -overlay /verif/build/c15/overlay.json checks/c15/repro/main.go
// (the overlay only supplies the dummy dbms certificates; run ./check C15 once to generate it)
package main

import (
	"fmt"
	"time"

	"github.com/apmckinlay/gsuneido/db19"
	"github.com/apmckinlay/gsuneido/db19/meta/schema"
	"github.com/apmckinlay/gsuneido/db19/stor"
)

func sch(t string) *schema.Schema {
	return &schema.Schema{Table: t, Columns: []string{"a"},
		Indexes: []schema.Index{{Mode: 'k', Columns: []string{"a"}}}}
}

func tables(db *db19.Database) (s []string) {
	for ts := range db.GetState().Meta.Tables() {
		s = append(s, ts.Table)
	}
	return
}

func tablesOf(st *db19.DbState) (s []string) {
	for ts := range st.Meta.Tables() {
		s = append(s, ts.Table)
	}
	return
}

// reopen reads the last persisted state back from storage (what OpenDb does)
func reopen(st *stor.Stor, off uint64) (s []string, err any) {
	defer func() { err = recover() }()
	return tablesOf(db19.ReadState(st, off)), nil
}

func main() {
	// 1. the only table of a database is dropped: it is back after reopen
	st := stor.HeapStor(64 * 1024)
	db := db19.CreateDb(st)
	db19.StartConcur(db, time.Hour)
	db.Create(sch("t"))
	db.Persist()
	db.Drop("t")
	off := db.Persist().Off
	fmt.Println("1. before reopen:", tables(db))
	t2, err := reopen(st, off)
	fmt.Println("1. after reopen: ", t2, err)

	// 2. create tmp, drop t, rename tmp to t, drop t: database cannot be opened
	st = stor.HeapStor(64 * 1024)
	db = db19.CreateDb(st)
	db.CheckerSync()
	db.Create(sch("t"))
	db.Create(sch("other"))
	db.PersistSync()
	db.PersistSync()
	db.Create(sch("tmp"))
	db.Drop("t")
	db.RenameTable("tmp", "t")
	db.Drop("t")
	db.PersistSync()
	fmt.Println("2. before reopen:", tables(db))
	t2, err = reopen(st, db.GetState().Off)
	fmt.Println("2. after reopen: ", t2, err)

	// 3. Meta.Drop compares the SCHEMA entry's created stamp with the INFO clock:
	// the table info of a dropped table is back after reopen
	st = stor.HeapStor(64 * 1024)
	db = db19.CreateDb(st)
	db19.StartConcur(db, time.Hour)
	db.AddView("v", "t1")
	db.Persist()
	db.Create(sch("t1"))
	db.Persist()
	db.Create(sch("t2"))
	db.Persist()
	db.Drop("t2")
	off = db.Persist().Off
	rs := db19.ReadState(st, off)
	fmt.Println("3. tables after reopen:", tablesOf(rs), " info of dropped t2 present:", rs.Meta.GetRoInfo("t2") != nil)
}
