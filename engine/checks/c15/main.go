// C15 Metadata tables behave as persistent maps and survive persist cycles.
//
// Three explicit-state searches on the REAL objects, each against a plain map
// model; every transition is executed on the implementation:
//
//	A. hamt.Hamt as a persistent map. Keys with table-driven hashes (three keys
//	   with identical hash = overflow node below the 7 bitmap levels, keys that
//	   collide on the first 5 / 10 / 30 hash bits, distinct keys). A transition
//	   is one "transaction": Mutable(), one or two Put/Delete, Freeze(). BFS to
//	   closure, de-duplicated on (model, node shape). Oracle: Get of every key
//	   and All() equal the model on the new version; Delete reports presence;
//	   the parent version is unchanged (contents and shape); at the end EVERY
//	   version ever produced is validated again (older versions are never
//	   affected by later changes).
//	B. hamt.Chain persist cycles. Events Put / PutTombstone / Delete (only of a
//	   never-written item, as Meta.Drop does) / WriteChain / reopen = ReadChain
//	   of the last returned offset. Oracle: the live entries (present and not a
//	   tombstone) equal the model after every event; after every WriteChain a
//	   probe ReadChain of the returned offset yields exactly the live entries;
//	   a reopen yields exactly the entries live at the last write; WriteChain
//	   leaves its receiver unchanged; checksums are accepted. De-duplicated on
//	   (in-memory entries with lastMod, Clock, Ages, decoded content of every
//	   chunk of the chain). Plus long scripted walks that drive the chain to
//	   maxChain (flattening) in every tier.
//	C. meta.Meta: Create (PutNew) / Drop / RenameTable / AddView / drop view /
//	   schema-only change (TouchTable) / info-only change (meta.Apply, what a
//	   data persist does) / Write / reopen = ReadMeta. Oracle: Tables(), Infos(),
//	   GetRoSchema, GetRoInfo, GetView equal the model after every event and on
//	   the Meta re-read from the offsets returned by Write.
package main

import (
	"encoding/json"
	"fmt"
	"os"
	"sort"
	"strings"
	"sync"
	"sync/atomic"
	"time"

	"github.com/apmckinlay/gsuneido/db19/index"
	"github.com/apmckinlay/gsuneido/db19/index/btree"
	"github.com/apmckinlay/gsuneido/db19/meta"
	"github.com/apmckinlay/gsuneido/db19/meta/schema"
	"github.com/apmckinlay/gsuneido/db19/stor"
	"github.com/apmckinlay/gsuneido/util/cksum"
	"github.com/apmckinlay/gsuneido/util/hamt"

	"verif/lib"
)

// ------------------------------------------------------------------ item

// item is the harness element type. Hash is table driven.
type item struct {
	key, val int
	tomb     bool
	lastMod  int
	created  int // clock at which the entry first appeared, -1 = unknown
}

// hashTab: keys 0..9 have identical hashes: inserted in order, 0..6 occupy the
// seven bitmap levels (5 hash bits each, 35 bits) and 7,8,9 land in the
// overflow node below them; key 10 / 11 collide with them on the first 5 / 30
// bits only; key 12 has its own root slot.
var hashTab = []uint64{0, 0, 0, 0, 0, 0, 0, 0, 0, 0, 1 << 5, 1 << 30, 1}

// activeA are the keys the search puts and deletes (1..5 stay present: they
// are the middle of the collision chain, moved only by pullUp).
var activeA = []int{0, 6, 7, 8, 9, 10, 11, 12}
var sameHashActive = map[int]bool{0: true, 6: true, 7: true, 8: true, 9: true}

func (it *item) Key() int           { return it.key }
func (*item) Hash(k int) uint64     { return hashTab[k] }
func (it *item) Cksum() uint32      { return uint32(1000*it.key + it.val + 7) }
func (it *item) StorSize() int      { return 3 }
func (it *item) IsTomb() bool       { return it.tomb }
func (it *item) LastMod() int       { return it.lastMod }
func (it *item) SetLastMod(mod int) { it.lastMod = mod }
func (it *item) Write(w *stor.Writer) {
	t := 0
	if it.tomb {
		t = 1
	}
	w.Put1(it.key).Put1(it.val).Put1(t)
}

func readItem(_ *stor.Stor, r *stor.Reader) *item {
	return &item{key: r.Get1(), val: r.Get1(), tomb: r.Get1() == 1, created: -1}
}

type Hamt = hamt.Hamt[int, *item]
type Chain = hamt.Chain[int, *item]

// ================================================================== part A

type opA struct {
	Kind byte `json:"kind"` // 'p' put, 'd' delete
	K    int  `json:"k"`
	V    int  `json:"v,omitempty"`
}

func (o opA) String() string {
	if o.Kind == 'p' {
		return fmt.Sprintf("Put(%d=%d)", o.K, o.V)
	}
	return fmt.Sprintf("Delete(%d)", o.K)
}

const nKeysA = 13

type stateA struct {
	h     Hamt
	model [nKeysA]int8
	shape string
	path  [][]opA
}

// viewA reads the whole map through Get and All.
func viewA(h Hamt) (m [nKeysA]int8, msg string) {
	var viaAll [nKeysA]int8
	n := 0
	for it := range h.All() {
		n++
		if it.key < 0 || it.key >= nKeysA {
			return m, fmt.Sprintf("All() yields unknown key %d", it.key)
		}
		if viaAll[it.key] != 0 {
			return m, fmt.Sprintf("All() yields key %d twice", it.key)
		}
		viaAll[it.key] = int8(it.val)
		if n > 100 {
			return m, "All() does not terminate"
		}
	}
	for k := 0; k < nKeysA; k++ {
		it, ok := h.Get(k)
		if ok {
			if it.key != k {
				return m, fmt.Sprintf("Get(%d) returns the item of key %d", k, it.key)
			}
			m[k] = int8(it.val)
		}
	}
	if m != viaAll {
		return m, fmt.Sprintf("Get gives %v but All() gives %v", m, viaAll)
	}
	return m, ""
}

type failA struct {
	Part string  `json:"part"`
	Path [][]opA `json:"path"`
}

func applyTxA(c *lib.Ctx, parent *stateA, tx []opA) (child *stateA, msg string) {
	model := parent.model
	var h Hamt
	if e := lib.Try(func() {
		mu := parent.h.Mutable()
		for _, o := range tx {
			switch o.Kind {
			case 'p':
				mu.Put(&item{key: o.K, val: o.V, created: -1})
				model[o.K] = int8(o.V)
			case 'd':
				found := mu.Delete(o.K)
				if found != (model[o.K] != 0) {
					msg = fmt.Sprintf("%v returned %v but the key was present=%v", o, found, model[o.K] != 0)
				}
				model[o.K] = 0
			}
			// the mutable version is readable mid-transaction
			if got, m2 := viewA(mu); m2 != "" || got != model {
				if msg == "" {
					msg = fmt.Sprintf("inside the transaction after %v: map is %v, model %v %s", o, got, model, m2)
				}
			}
		}
		h = mu.Freeze()
	}); e != nil {
		return nil, "panic: " + lib.PanicText(e)
	}
	if msg != "" {
		return nil, msg
	}
	got, m2 := viewA(h)
	if m2 != "" {
		return nil, "new version: " + m2
	}
	if got != model {
		return nil, fmt.Sprintf("new version holds %v, model %v", got, model)
	}
	// parent untouched
	pgot, m2 := viewA(parent.h)
	if m2 != "" || pgot != parent.model || parent.h.VerifShape() != parent.shape {
		return nil, fmt.Sprintf("the OLDER version changed: now %v (shape %s), was %v (shape %s) %s",
			pgot, parent.h.VerifShape(), parent.model, parent.shape, m2)
	}
	path := append(append([][]opA(nil), parent.path...), tx)
	return &stateA{h: h, model: model, shape: h.VerifShape(), path: path}, ""
}

// txsA: every single Put(k,1) / Put(k,2) / Delete(k) of an active key, and every
// two-operation transaction over Put(k,1) / Delete(k) (quick: both keys in the
// collision chain; thorough: all active keys).
func txsA(c *lib.Ctx) [][]opA {
	var txs [][]opA
	var ops []opA
	for _, k := range activeA {
		txs = append(txs, []opA{{'p', k, 1}}, []opA{{'p', k, 2}}, []opA{{'d', k, 0}})
		if !c.Quick() || sameHashActive[k] {
			ops = append(ops, opA{'p', k, 1}, opA{'d', k, 0})
		}
	}
	for _, a := range ops {
		for _, b := range ops {
			if a != b {
				txs = append(txs, []opA{a, b})
			}
		}
	}
	return txs
}

var initTxA = []opA{{'p', 0, 1}, {'p', 1, 1}, {'p', 2, 1}, {'p', 3, 1}, {'p', 4, 1}, {'p', 5, 1}, {'p', 6, 1}}

func presenceKey(m [nKeysA]int8, shape string) string {
	b := make([]byte, 0, nKeysA+len(shape))
	for _, v := range m {
		if v != 0 {
			b = append(b, '1')
		} else {
			b = append(b, '0')
		}
	}
	return string(append(b, shape...))
}

func partA(c *lib.Ctx) {
	txs := txsA(c)
	empty := &stateA{h: Hamt{}}
	empty.shape = empty.h.VerifShape()
	root, msg := applyTxA(c, empty, initTxA)
	if msg != "" {
		c.Fail("", failA{"A", [][]opA{initTxA}}, "hamt: initial transaction %v: %s", initTxA, msg)
		return
	}
	vis := map[string]bool{presenceKey(root.model, root.shape): true}
	all := []*stateA{empty, root}
	frontier := []*stateA{root}
	var mu sync.Mutex
	depth := 0
	maxStates := lib.Pick(c, 150_000, 3_000_000)
	complete := true
	overflow2, levels7 := 0, 0
	for len(frontier) > 0 && complete {
		depth++
		var next []*stateA
		ok := c.Par(len(frontier), func(i int) {
			p := frontier[i]
			for _, tx := range txs {
				if c.Stopped() {
					return
				}
				child, msg := applyTxA(c, p, tx)
				c.Eval(1)
				c.Transition(1)
				c.TraceValidated(1)
				if msg != "" {
					path := append(append([][]opA(nil), p.path...), tx)
					c.Fail("", failA{"A", path}, "hamt: after transactions %v: %s", path, msg)
					continue
				}
				key := presenceKey(child.model, child.shape)
				mu.Lock()
				if !vis[key] {
					vis[key] = true
					next = append(next, child)
					all = append(all, child)
					// an overflow node is a node without bitmaps
					if i := strings.Index(child.shape, "(0/0:"); i >= 0 {
						if strings.Count(child.shape[i:], ",") >= 2 {
							overflow2++
						}
					}
					if strings.Count(child.shape, "(") >= 7 {
						levels7++
					}
				}
				mu.Unlock()
			}
		})
		c.State(len(next))
		c.Nontrivial(len(next))
		sort.Slice(next, func(i, j int) bool { return fmt.Sprint(next[i].path) < fmt.Sprint(next[j].path) })
		frontier = next
		if !ok {
			complete = false
		}
		if len(all) > maxStates && len(frontier) > 0 {
			c.Cap("part A: stopped at %d states (cap %d) after depth %d", len(all), maxStates, depth)
			complete = false
		}
	}
	if complete {
		c.Note("part A (hamt): state space CLOSED: %d states (presence x node shape), depth %d, %d transactions per state", len(all), depth, len(txs))
	} else {
		c.Note("part A (hamt): %d states, depth %d, %d transactions per state (not closed)", len(all), depth, len(txs))
	}
	c.Count("A_states_with_overflow_node_of_2_or_3_items", overflow2)
	c.Count("A_states_with_7_or_more_nodes", levels7)
	// final sweep: every version ever produced still equals its model
	for _, s := range all {
		got, msg := viewA(s.h)
		if msg != "" || got != s.model || s.h.VerifShape() != s.shape {
			c.Fail("", failA{"A", s.path}, "hamt: version reached by %v was changed by later transactions on other versions: now %v, model %v %s",
				s.path, got, s.model, msg)
			break
		}
	}
	c.Count("A_versions_revalidated_at_end", len(all))
	if len(all) > 3 {
		s := all[len(all)/2]
		c.Sample(map[string]any{"part": "A", "path": fmt.Sprint(s.path), "model": fmt.Sprint(s.model), "shape": s.shape})
	}
}

func replayA(c *lib.Ctx, path [][]opA) {
	s := &stateA{h: Hamt{}}
	s.shape = s.h.VerifShape()
	for i, tx := range path {
		child, msg := applyTxA(c, s, tx)
		if msg != "" {
			c.Fail("", failA{"A", path[:i+1]}, "hamt: after transactions %v: %s", path[:i+1], msg)
			return
		}
		s = child
	}
}

// ================================================================== part B

type evB struct {
	Kind byte `json:"kind"` // 'p' put(toggle value), 't' tombstone, 'd' delete, 'w' write, 'r' reopen
	K    int  `json:"k"`
}

func (e evB) String() string {
	switch e.Kind {
	case 'p':
		return fmt.Sprintf("Put(%d)", e.K)
	case 't':
		return fmt.Sprintf("Tomb(%d)", e.K)
	case 'd':
		return fmt.Sprintf("Delete(%d)", e.K)
	case 'w':
		return "Write"
	}
	return "Reopen"
}

const nKeysB = 3

type stateB struct {
	c         Chain
	lastOff   uint64
	live      [nKeysB]int8
	persisted [nKeysB]int8
	path      []evB
}

func liveB(h Hamt) (m [nKeysB]int8, msg string) {
	seen := map[int]bool{}
	var viaAll [nKeysB]int8
	for it := range h.All() {
		if it.key < 0 || it.key >= nKeysB || seen[it.key] {
			return m, fmt.Sprintf("All() yields key %d unexpectedly/twice", it.key)
		}
		seen[it.key] = true
		if !it.tomb {
			viaAll[it.key] = int8(it.val)
		}
	}
	for k := 0; k < nKeysB; k++ {
		if it, ok := h.Get(k); ok && !it.tomb {
			m[k] = int8(it.val)
		}
	}
	if m != viaAll {
		return m, fmt.Sprintf("Get gives %v but All() gives %v", m, viaAll)
	}
	return m, ""
}

// chunkDesc decodes the stored chunks of a chain (harness item format) for
// the de-duplication key.
func chunkDesc(st *stor.Stor, offs []uint64) string {
	var sb strings.Builder
	for _, off := range offs {
		buf := st.Data(off)
		size := stor.NewReader(buf).Get3()
		r := stor.NewReader(buf[3+5+4 : size-cksum.Len])
		sb.WriteString("[")
		for r.Remaining() > 0 {
			fmt.Fprintf(&sb, "%d=%d/%d ", r.Get1(), r.Get1(), r.Get1())
		}
		sb.WriteString("]")
	}
	return sb.String()
}

func (s *stateB) key(st *stor.Stor) string {
	var sb strings.Builder
	fmt.Fprintf(&sb, "%d %v %v|", s.c.Clock, s.c.Ages, s.persisted)
	for k := 0; k < nKeysB; k++ {
		if it, ok := s.c.Get(k); ok {
			fmt.Fprintf(&sb, "%d:%d/%v/%d/%v ", k, it.val, it.tomb, it.lastMod, it.created == s.c.Clock)
		}
	}
	sb.WriteString(chunkDesc(st, s.c.Offs))
	return sb.String()
}

type failB struct {
	Part string `json:"part"`
	Path []evB  `json:"path"`
}

const classNothingWritten = "writechain-writes-nothing-when-no-live-item-remains"

// enabledB lists the events possible in s.
func enabledB(s *stateB, nkeys, maxClock int) []evB {
	var evs []evB
	for k := 0; k < nkeys; k++ {
		evs = append(evs, evB{'p', k})
		if it, ok := s.c.Get(k); ok && !it.tomb {
			evs = append(evs, evB{'t', k})
			// Delete without tombstone is only legal for an item that was
			// never written: created in the current clock period
			if it.created >= 0 && it.created == s.c.Clock {
				evs = append(evs, evB{'d', k})
			}
		}
	}
	if s.c.Clock < maxClock {
		evs = append(evs, evB{'w', 0})
	}
	evs = append(evs, evB{'r', 0})
	return evs
}

type statsB struct {
	maxChain, flattenMax, merges, tombsWritten, nothingWritten int
}

// stepB executes one event; returns the successor, a failure class and text.
func stepB(st *stor.Stor, s *stateB, e evB, sb *statsB) (n *stateB, class, msg string) {
	n = &stateB{c: s.c, lastOff: s.lastOff, live: s.live, persisted: s.persisted,
		path: append(append([]evB(nil), s.path...), e)}
	put := func(it *item) {
		mu := n.c.Hamt.Mutable()
		mu.Put(it)
		n.c.Hamt = mu.Freeze()
	}
	if ex := lib.Try(func() {
		switch e.Kind {
		case 'p':
			v := int(3 - s.live[e.K])
			if s.live[e.K] == 0 {
				v = 1
			}
			created := -1
			if old, ok := s.c.Get(e.K); !ok {
				created = s.c.Clock
			} else if !old.tomb {
				created = old.created
			}
			put(&item{key: e.K, val: v, lastMod: s.c.Clock, created: created})
			n.live[e.K] = int8(v)
		case 't':
			put(&item{key: e.K, tomb: true, lastMod: s.c.Clock, created: -1})
			n.live[e.K] = 0
		case 'd':
			mu := n.c.Hamt.Mutable()
			if !mu.Delete(e.K) {
				msg = "Delete of a present key returned false"
			}
			n.c.Hamt = mu.Freeze()
			n.live[e.K] = 0
		case 'w':
			before := s.c
			off, c2 := s.c.WriteChain(st)
			n.c, n.lastOff, n.persisted = c2, off, s.live
			// receiver unchanged
			if before.Clock != s.c.Clock || fmt.Sprint(before.Offs, before.Ages) != fmt.Sprint(s.c.Offs, s.c.Ages) {
				msg = "WriteChain modified its receiver"
				return
			}
			if len(c2.Offs) > 0 && c2.Offs[len(c2.Offs)-1] != off || len(c2.Offs) == 0 && off != 0 {
				msg = fmt.Sprintf("WriteChain returned offset %d but the chain ends with %v", off, c2.Offs)
				return
			}
			no := len(s.c.Offs)
			sb.maxChain = max(sb.maxChain, len(c2.Offs))
			if off == s.lastOff {
				sb.nothingWritten++
			} else if len(c2.Offs) > 0 {
				if no >= hamt.VerifMaxChain {
					sb.flattenMax++
				} else if len(c2.Offs) <= no {
					sb.merges++
				}
				if strings.Contains(chunkDesc(st, c2.Offs[len(c2.Offs)-1:]), "/1 ") {
					sb.tombsWritten++
				}
			}
			// probe: what a reopen would see now
			rc := hamt.ReadChain(st, off, readItem)
			got, m2 := liveB(rc.Hamt)
			if m2 != "" {
				msg = "re-read chain: " + m2
			} else if got != s.live {
				msg = fmt.Sprintf("WriteChain then ReadChain(%d) yields live entries %v, the live entries are %v (chain %v -> %v, clock %d)",
					off, got, s.live, s.c.Offs, c2.Offs, s.c.Clock)
				if s.live == ([nKeysB]int8{}) && off == s.lastOff && off != 0 {
					class = classNothingWritten
				}
			}
		case 'r':
			rc := hamt.ReadChain(st, s.lastOff, readItem)
			n.c = rc
			n.live = s.persisted
		}
	}); ex != nil {
		return nil, "", "panic: " + lib.PanicText(ex)
	}
	if msg != "" {
		return nil, class, msg
	}
	got, m2 := liveB(n.c.Hamt)
	if m2 != "" {
		return nil, "", m2
	}
	if got != n.live {
		return nil, "", fmt.Sprintf("live entries are %v, model %v", got, n.live)
	}
	// older version untouched
	if pg, m2 := liveB(s.c.Hamt); m2 != "" || pg != s.live {
		return nil, "", fmt.Sprintf("the previous version changed: %v, model %v %s", pg, s.live, m2)
	}
	return n, "", ""
}

var classOnce sync.Map

// failClassified reports a classified failure once per run and counts the rest.
func failClassified(c *lib.Ctx, class string, cs any, f string, a ...any) {
	if class != "" {
		c.Count("failures_class_"+class, 1)
		if _, dup := classOnce.LoadOrStore(class, true); dup {
			return
		}
		// development aid for mutant runs: VERIF_TREAT_AS_KNOWN=class,class
		// only counts these classes (as a KNOWN_FINDINGS entry would)
		if strings.Contains(","+os.Getenv("VERIF_TREAT_AS_KNOWN")+",", ","+class+",") {
			return
		}
	}
	c.Fail(class, cs, f, a...)
}

func addStatsB(c *lib.Ctx, sb *statsB) {
	c.Count("B_writes_merging_older_chunks", sb.merges)
	c.Count("B_writes_flattening_at_maxChain", sb.flattenMax)
	c.Count("B_chunks_written_with_tombstones", sb.tombsWritten)
	c.Count("B_writes_with_nothing_to_write", sb.nothingWritten)
}

type candB struct {
	key, path string
	n         *stateB
}

type candC struct {
	key, path string
	n         *stateC
}

func partB(c *lib.Ctx, nkeys, maxClock, maxDepth, maxStates int, share time.Duration) {
	dl := time.Now().Add(share)
	var timeUp atomic.Bool
	st := stor.HeapStor(64 * 1024)
	st.Alloc(1)
	root := &stateB{}
	vis := map[string]bool{root.key(st): true}
	frontier := []*stateB{root}
	var mu sync.Mutex
	depth, nstates := 0, 1
	complete := true
	maxChainSeen := 0
	for len(frontier) > 0 && complete && depth < maxDepth {
		depth++
		var next []*stateB
		var cands []candB
		ok := c.Par(len(frontier), func(i int) {
			var sb statsB
			p := frontier[i]
			if timeUp.Load() || i%64 == 0 && time.Now().After(dl) {
				timeUp.Store(true)
				return
			}
			for _, e := range enabledB(p, nkeys, maxClock) {
				if c.Stopped() {
					return
				}
				n, class, msg := stepB(st, p, e, &sb)
				c.Eval(1)
				c.Transition(1)
				c.TraceValidated(1)
				if msg != "" {
					path := append(append([]evB(nil), p.path...), e)
					failClassified(c, class, failB{"B", path}, "chain: after %v: %s", path, msg)
					continue // the successor of a failed step is not explored
				}
				key := n.key(st)
				mu.Lock()
				if !vis[key] {
					cands = append(cands, candB{key, fmt.Sprint(n.path), n})
				}
				mu.Unlock()
			}
			mu.Lock()
			maxChainSeen = max(maxChainSeen, sb.maxChain)
			mu.Unlock()
			addStatsB(c, &sb)
		})
		// deterministic choice of the representative of every new state
		sort.Slice(cands, func(i, j int) bool {
			if cands[i].key != cands[j].key {
				return cands[i].key < cands[j].key
			}
			return cands[i].path < cands[j].path
		})
		for _, cd := range cands {
			if !vis[cd.key] {
				vis[cd.key] = true
				next = append(next, cd.n)
				nstates++
			}
		}
		c.State(len(next))
		c.Nontrivial(len(next))
		sort.Slice(next, func(i, j int) bool { return fmt.Sprint(next[i].path) < fmt.Sprint(next[j].path) })
		frontier = next
		if !ok {
			complete = false
		}
		if timeUp.Load() {
			c.Cap("part B: its share of the time budget (%v) ended inside depth %d", share, depth)
			complete = false
		} else if nstates > maxStates && len(frontier) > 0 {
			c.Cap("part B: stopped at %d states (cap %d) after depth %d", nstates, maxStates, depth)
			complete = false
		}
	}
	if complete && len(frontier) > 0 {
		c.Note("part B (chain, %d keys, clock <= %d): every event sequence of length <= %d explored: %d states (%d at the last depth, not expanded)",
			nkeys, maxClock, depth, nstates, len(frontier))
	} else if complete {
		c.Note("part B (chain, %d keys, clock <= %d): state space CLOSED: %d states, depth %d", nkeys, maxClock, nstates, depth)
	} else {
		c.Note("part B (chain, %d keys, clock <= %d): %d states, depth %d (not closed)", nkeys, maxClock, nstates, depth)
	}
	c.Set("B_longest_chain_in_search", maxChainSeen)
}

// walksB: long scripted event patterns (repeated) that reach maxChain.
func walksB(c *lib.Ctx) {
	pats := [][]evB{
		{{'p', 0}, {'w', 0}, {'r', 0}},
		{{'p', 0}, {'w', 0}, {'p', 1}, {'w', 0}, {'r', 0}},
		{{'p', 0}, {'w', 0}, {'t', 0}, {'w', 0}, {'r', 0}, {'p', 1}, {'w', 0}, {'r', 0}},
		{{'p', 0}, {'p', 1}, {'w', 0}, {'r', 0}, {'t', 1}, {'w', 0}, {'r', 0}, {'p', 2}, {'w', 0}, {'r', 0}},
		{{'p', 2}, {'w', 0}},
		{{'p', 0}, {'w', 0}, {'p', 1}, {'d', 1}, {'w', 0}, {'r', 0}, {'p', 1}, {'w', 0}, {'t', 1}, {'w', 0}, {'r', 0}},
		{{'p', 0}, {'p', 1}, {'p', 2}, {'w', 0}, {'r', 0}, {'t', 0}, {'w', 0}, {'r', 0}, {'t', 1}, {'w', 0}, {'r', 0}, {'p', 0}, {'w', 0}, {'r', 0}},
	}
	maxLen := 0
	for pi, pat := range pats {
		st := stor.HeapStor(64 * 1024)
		st.Alloc(1)
		s := &stateB{}
		var sb statsB
		for i := 0; i < 200; i++ {
			e := pat[i%len(pat)]
			ok := false
			for _, en := range enabledB(s, nKeysB, 1<<30) {
				if en == e {
					ok = true
				}
			}
			if !ok {
				continue
			}
			n, class, msg := stepB(st, s, e, &sb)
			c.Eval(1)
			c.Transition(1)
			c.TraceValidated(1)
			if msg != "" {
				path := append(append([]evB(nil), s.path...), e)
				failClassified(c, class, failB{"B", path}, "chain walk %d: after %v: %s", pi, path, msg)
				break
			}
			s = n
		}
		maxLen = max(maxLen, sb.maxChain)
		addStatsB(c, &sb)
		c.Nontrivial(1)
	}
	c.Set("B_longest_chain_in_walks", maxLen)
}

func replayB(c *lib.Ctx, path []evB) {
	st := stor.HeapStor(64 * 1024)
	st.Alloc(1)
	s := &stateB{}
	var sb statsB
	for i, e := range path {
		n, class, msg := stepB(st, s, e, &sb)
		if msg != "" {
			c.Fail(class, failB{"B", path[:i+1]}, "chain: after %v: %s", path[:i+1], msg)
			return
		}
		s = n
	}
}

// ================================================================== part C

type evC struct {
	Kind string `json:"kind"`
	A    string `json:"a,omitempty"`
	B    string `json:"b,omitempty"`
}

func (e evC) String() string {
	switch {
	case e.B != "":
		return fmt.Sprintf("%s(%s,%s)", e.Kind, e.A, e.B)
	case e.A != "":
		return fmt.Sprintf("%s(%s)", e.Kind, e.A)
	}
	return e.Kind
}

var tablesC = []string{"t1", "t2"}

const viewC = "v"

type modelC struct {
	tables [2]bool
	view   bool
}

type stateC struct {
	m               *meta.Meta
	so, io          uint64
	live, persisted modelC
	f3              [2]bool // a Drop of table i decided "no info tombstone" from the schema's created stamp
	f4pend          [2]bool // RenameTable gave name i (which has stored history) the fresh created stamp of its source
	f4              [2]bool // ... and name i was then dropped (its stored history is no longer hidden by a tombstone)
	path            []evC
}

type touchInfo struct{ table string }

func (t touchInfo) Table() string                                  { return t.table }
func (t touchInfo) Apply1(*meta.Info)                              {}
func (t touchInfo) Apply2(ov *index.Overlay, _ int) *index.Overlay { return ov }

func newTable(st *stor.Stor, name string) (*meta.Schema, *meta.Info) {
	ts := &meta.Schema{Schema: schema.Schema{Table: name, Columns: []string{"a", "b"},
		Indexes: []schema.Index{{Mode: 'k', Columns: []string{"a"}}}}}
	ts.SetupIndexes()
	ti := meta.NewInfo(name, []*index.Overlay{index.OverlayFor(btree.CreateBtree(st))}, 0, 0)
	return ts, ti
}

func tidx(name string) int {
	if name == "t1" {
		return 0
	}
	return 1
}

// viewC reads everything the property talks about from a Meta.
func observeC(m *meta.Meta) (mc modelC, infos [2]bool, msg string) {
	if e := lib.Try(func() {
		seen := map[string]bool{}
		for ts := range m.Tables() {
			if seen[ts.Table] || (ts.Table != "t1" && ts.Table != "t2") {
				msg = "Tables() yields " + ts.Table + " unexpectedly/twice"
			}
			seen[ts.Table] = true
		}
		iseen := map[string]bool{}
		for ti := range m.Infos() {
			if iseen[ti.Table] || (ti.Table != "t1" && ti.Table != "t2") {
				msg = "Infos() yields " + ti.Table + " unexpectedly/twice"
			}
			iseen[ti.Table] = true
		}
		for i, t := range tablesC {
			mc.tables[i] = m.GetRoSchema(t) != nil
			infos[i] = m.GetRoInfo(t) != nil
			if mc.tables[i] != seen[t] && msg == "" {
				msg = fmt.Sprintf("GetRoSchema(%s) present=%v but Tables() lists it=%v", t, mc.tables[i], seen[t])
			}
			if infos[i] != iseen[t] && msg == "" {
				msg = fmt.Sprintf("GetRoInfo(%s) present=%v but Infos() lists it=%v", t, infos[i], iseen[t])
			}
		}
		mc.view = m.GetView(viewC) != ""
		nv := 0
		for name := range m.Views() {
			nv++
			if name != viewC {
				msg = "Views() yields " + name
			}
		}
		if (nv == 1) != mc.view && msg == "" {
			msg = fmt.Sprintf("GetView present=%v but Views() yields %d views", mc.view, nv)
		}
	}); e != nil {
		msg = "panic: " + lib.PanicText(e)
	}
	return
}

func (mc modelC) String() string {
	var s []string
	for i, t := range tablesC {
		if mc.tables[i] {
			s = append(s, t)
		}
	}
	if mc.view {
		s = append(s, "view "+viewC)
	}
	return "{" + strings.Join(s, ",") + "}"
}

const classF3 = "drop-skips-info-tombstone-using-schema-created-stamp"
const classRename = "rename-copies-created-stamp-onto-name-with-stored-history"

// observe + compare an observed Meta against a model (no classification).
func compareC(what string, m *meta.Meta, want modelC) (msg string) {
	got, infos, m2 := observeC(m)
	if m2 != "" {
		return what + ": " + m2
	}
	if got == want && infos == want.tables {
		return ""
	}
	return fmt.Sprintf("%s: schema shows %v, table infos %v; expected %v", what, got, infos, want)
}

// judgeWrite re-reads the Meta written by a Write event (before = state in
// which Write was issued, after = its successor) and classifies a mismatch.
// The three classes are the precisely characterised defect candidates:
//   - classNothingWritten: the chain's live set is empty and WriteChain kept
//     the old chain (returned the previous offset);
//   - classRename: a resurrected name (or a checksum panic) after RenameTable
//     gave a name with stored history the "created in this period" stamp of
//     its never-written source, and the name was then dropped;
//   - classF3: a resurrected table info (or a checksum panic) after Meta.Drop
//     compared the SCHEMA entry's created stamp with the INFO clock.
func judgeWrite(st *stor.Stor, before, after *stateC) (class, msg string) {
	want := before.live
	var rm *meta.Meta
	if e := lib.Try(func() { rm = meta.ReadMeta(st, after.so, after.io) }); e != nil {
		msg = fmt.Sprintf("Write then ReadMeta(%d,%d) panicked: %s", after.so, after.io, lib.PanicText(e))
		if strings.Contains(msg, "checksum mismatch") {
			switch {
			case after.f4 != [2]bool{}:
				class = classRename
			case after.f3 != [2]bool{}:
				class = classF3
			}
		}
		return
	}
	got, infos, m2 := observeC(rm)
	if m2 != "" {
		return "", "re-read Meta: " + m2
	}
	if got == want && infos == want.tables {
		return "", ""
	}
	msg = fmt.Sprintf("Write then ReadMeta(%d,%d): schema shows %v, table infos %v; the live entries are %v",
		after.so, after.io, got, infos, want)
	part := func(gotT [2]bool, gotView, wantView bool, emptyWant, nothingWritten bool, allowF3 bool) (string, bool) {
		bad := gotT != want.tables || gotView != wantView
		if !bad {
			return "", true
		}
		for i := range gotT { // only resurrections are classified
			if want.tables[i] && !gotT[i] {
				return "", false
			}
		}
		if wantView && !gotView {
			return "", false
		}
		if emptyWant && nothingWritten {
			return classNothingWritten, true
		}
		if gotView != wantView {
			return "", false
		}
		allF4, allF3 := true, true
		for i := range gotT {
			if gotT[i] && !want.tables[i] {
				allF4 = allF4 && after.f4[i]
				allF3 = allF3 && after.f3[i]
			}
		}
		switch {
		case allF4:
			return classRename, true
		case allF3 && allowF3:
			return classF3, true
		}
		return "", false
	}
	c1, ok1 := part(got.tables, got.view, want.view, want == modelC{}, after.so == before.so, false)
	c2, ok2 := part(infos, want.view, want.view, want.tables == [2]bool{}, after.io == before.io, true)
	if !ok1 || !ok2 {
		return "", msg
	}
	if c1 != "" {
		return c1, msg
	}
	return c2, msg
}

func hasEntries(m *meta.Meta, name string) (inSchema, inInfo bool) {
	m.VerifSchemaEntries(func(n string, _ bool, _ int) { inSchema = inSchema || n == name })
	m.VerifInfoEntries(func(n string, _ bool, _ int) { inInfo = inInfo || n == name })
	return
}

func (s *stateC) key() string {
	var sb strings.Builder
	sc, ic, sn, in := s.m.VerifClocks()
	fmt.Fprintf(&sb, "%d %d %d %d %v %v %v %v|", sc, ic, sn, in, s.persisted, s.f3, s.f4, s.f4pend)
	var ents []string
	s.m.VerifSchemaEntries(func(n string, tomb bool, lm int) { ents = append(ents, fmt.Sprintf("s:%s/%v/%d", n, tomb, lm)) })
	s.m.VerifInfoEntries(func(n string, tomb bool, lm int) { ents = append(ents, fmt.Sprintf("i:%s/%v/%d", n, tomb, lm)) })
	sa, ia := s.m.VerifAges()
	ents = append(ents, fmt.Sprint("ages", sa, ia))
	for _, t := range tablesC {
		if a, b, ok := s.m.VerifCreated(t); ok {
			ents = append(ents, fmt.Sprintf("c:%s/%v/%v", t, a != 0 && a == sc, b != 0 && b == ic))
		}
	}
	sort.Strings(ents)
	sb.WriteString(strings.Join(ents, " "))
	return sb.String()
}

// persistedView describes what a reopen would see (part of the dedup key:
// it summarises the content of the stored chunks).
func persistedView(st *stor.Stor, s *stateC) string {
	var ents []string
	if e := lib.Try(func() {
		rm := meta.ReadMeta(st, s.so, s.io)
		rm.VerifSchemaEntries(func(n string, tomb bool, lm int) { ents = append(ents, fmt.Sprintf("s:%s/%v/%d", n, tomb, lm)) })
		rm.VerifInfoEntries(func(n string, tomb bool, lm int) { ents = append(ents, fmt.Sprintf("i:%s/%v/%d", n, tomb, lm)) })
	}); e != nil {
		return "panic"
	}
	sort.Strings(ents)
	return strings.Join(ents, " ")
}

func enabledC(s *stateC, maxClock int) []evC {
	var evs []evC
	for i, t := range tablesC {
		if !s.live.tables[i] {
			evs = append(evs, evC{Kind: "Create", A: t})
		} else {
			evs = append(evs, evC{Kind: "Drop", A: t}, evC{Kind: "TouchSchema", A: t}, evC{Kind: "TouchInfo", A: t})
			if !s.live.tables[1-i] {
				evs = append(evs, evC{Kind: "Rename", A: t, B: tablesC[1-i]})
			}
		}
	}
	if s.live.view {
		evs = append(evs, evC{Kind: "DropView"})
	} else {
		evs = append(evs, evC{Kind: "AddView"})
	}
	sc, ic, _, _ := s.m.VerifClocks()
	if sc < maxClock && ic < maxClock {
		evs = append(evs, evC{Kind: "Write"})
	}
	evs = append(evs, evC{Kind: "Reopen"})
	return evs
}

func stepC(st *stor.Stor, s *stateC, e evC) (n *stateC, class, msg string) {
	n = &stateC{m: s.m, so: s.so, io: s.io, live: s.live, persisted: s.persisted, f3: s.f3, f4: s.f4, f4pend: s.f4pend,
		path: append(append([]evC(nil), s.path...), e)}
	if ex := lib.Try(func() {
		switch e.Kind {
		case "Create":
			ts, ti := newTable(st, e.A)
			n.m = s.m.PutNew(ts, ti, &ts.Schema)
			n.live.tables[tidx(e.A)] = true
			n.f4pend[tidx(e.A)] = false
		case "Drop":
			if s.f4pend[tidx(e.A)] {
				n.f4[tidx(e.A)], n.f4pend[tidx(e.A)] = true, false
			}
			sc, ic, _, _ := s.m.VerifClocks()
			if a, b, ok := s.m.VerifCreated(e.A); ok {
				// Meta.Drop's decision for the info entry, as coded (schema
				// stamp against the info clock) vs as intended (info stamp)
				coded := a != 0 && a == ic
				intended := b != 0 && b == ic
				_ = sc
				if coded && !intended {
					n.f3[tidx(e.A)] = true
				}
			}
			n.m = s.m.Drop(e.A)
			if n.m == nil {
				msg = "Drop of an existing table returned nil"
				return
			}
			n.live.tables[tidx(e.A)] = false
		case "Rename":
			sc, ic, _, _ := s.m.VerifClocks()
			if a, b, ok := s.m.VerifCreated(e.A); ok {
				inS, inI := hasEntries(s.m, e.B)
				n.f4pend[tidx(e.B)] = a != 0 && a == sc && inS || b != 0 && b == ic && inI
			}
			n.f4pend[tidx(e.A)] = false
			n.m = s.m.RenameTable(e.A, e.B)
			n.live.tables[tidx(e.A)] = false
			n.live.tables[tidx(e.B)] = true
		case "AddView":
			n.m = s.m.AddView(viewC, "t1")
			n.live.view = true
		case "DropView":
			n.m = s.m.Drop(viewC)
			n.live.view = false
		case "TouchSchema":
			n.m = s.m.TouchTable(e.A)
		case "TouchInfo":
			cp := *s.m
			meta.Apply(&cp, []touchInfo{{e.A}})
			n.m = &cp
		case "Write":
			cp := *s.m
			n.so, n.io = cp.Write(st)
			n.m = &cp
			n.persisted = s.live
			class, msg = judgeWrite(st, s, n)
			if _, _, sn, in := n.m.VerifClocks(); msg == "" && sn <= 1 && in <= 1 {
				// both chains flattened to a single chunk: no stale chunk is left
				n.f3, n.f4 = [2]bool{}, [2]bool{}
			}
		case "Reopen":
			n.m = meta.ReadMeta(st, s.so, s.io)
			n.live = s.persisted
			n.f3, n.f4, n.f4pend = [2]bool{}, [2]bool{}, [2]bool{}
		}
	}); ex != nil {
		return nil, "", "panic: " + lib.PanicText(ex)
	}
	if msg != "" {
		return nil, class, msg
	}
	if msg = compareC("after the event", n.m, n.live); msg != "" {
		return nil, "", msg
	}
	if msg = compareC("the PREVIOUS Meta value after the event", s.m, s.live); msg != "" {
		return nil, "", msg
	}
	return n, "", ""
}

type failC struct {
	Part string `json:"part"`
	Path []evC  `json:"path"`
}

func partC(c *lib.Ctx, maxClock, maxDepth, maxStates int, share time.Duration) {
	dl := time.Now().Add(share)
	var timeUp atomic.Bool
	st := stor.HeapStor(64 * 1024)
	st.Alloc(1)
	root := &stateC{m: &meta.Meta{}}
	vis := map[string]bool{root.key() + "#" + persistedView(st, root): true}
	frontier := []*stateC{root}
	var mu sync.Mutex
	depth, nstates := 0, 1
	complete := true
	var maxS, maxI int
	for len(frontier) > 0 && complete && depth < maxDepth {
		depth++
		var next []*stateC
		var cands []candC
		ok := c.Par(len(frontier), func(i int) {
			p := frontier[i]
			if timeUp.Load() || i%64 == 0 && time.Now().After(dl) {
				timeUp.Store(true)
				return
			}
			for _, e := range enabledC(p, maxClock) {
				if c.Stopped() {
					return
				}
				n, class, msg := stepC(st, p, e)
				c.Eval(1)
				c.Transition(1)
				c.TraceValidated(1)
				if msg != "" {
					path := append(append([]evC(nil), p.path...), e)
					failClassified(c, class, failC{"C", path}, "meta: after %v: %s", path, msg)
					continue
				}
				key := n.key() + "#" + persistedView(st, n)
				_, _, sn, in := n.m.VerifClocks()
				mu.Lock()
				maxS, maxI = max(maxS, sn), max(maxI, in)
				if !vis[key] {
					cands = append(cands, candC{key, fmt.Sprint(n.path), n})
				}
				mu.Unlock()
			}
		})
		sort.Slice(cands, func(i, j int) bool {
			if cands[i].key != cands[j].key {
				return cands[i].key < cands[j].key
			}
			return cands[i].path < cands[j].path
		})
		for _, cd := range cands {
			if !vis[cd.key] {
				vis[cd.key] = true
				next = append(next, cd.n)
				nstates++
			}
		}
		c.State(len(next))
		c.Nontrivial(len(next))
		sort.Slice(next, func(i, j int) bool { return fmt.Sprint(next[i].path) < fmt.Sprint(next[j].path) })
		frontier = next
		if !ok {
			complete = false
		}
		if timeUp.Load() {
			c.Cap("part C: its share of the time budget (%v) ended inside depth %d", share, depth)
			complete = false
		} else if nstates > maxStates && len(frontier) > 0 {
			c.Cap("part C: stopped at %d states (cap %d) after depth %d", nstates, maxStates, depth)
			complete = false
		}
	}
	if complete && len(frontier) > 0 {
		c.Note("part C (meta, clocks <= %d): every event sequence of length <= %d explored: %d states (%d at the last depth, not expanded)",
			maxClock, depth, nstates, len(frontier))
	} else if complete {
		c.Note("part C (meta, clocks <= %d): state space CLOSED: %d states, depth %d", maxClock, nstates, depth)
	} else {
		c.Note("part C (meta, clocks <= %d): %d states, depth %d (not closed)", maxClock, nstates, depth)
	}
	c.Set("C_longest_schema_chain", maxS)
	c.Set("C_longest_info_chain", maxI)
}

func replayC(c *lib.Ctx, path []evC) {
	st := stor.HeapStor(64 * 1024)
	st.Alloc(1)
	s := &stateC{m: &meta.Meta{}}
	for i, e := range path {
		n, class, msg := stepC(st, s, e)
		if msg != "" {
			c.Fail(class, failC{"C", path[:i+1]}, "meta: after %v: %s", path[:i+1], msg)
			return
		}
		s = n
	}
}

// ================================================================== main

func run(c *lib.Ctx) {
	t0 := time.Now()
	lap := func(what string) {
		c.Note("%s took %.1fs", what, time.Since(t0).Seconds())
		t0 = time.Now()
	}
	partA(c)
	lap("part A")
	walksB(c)
	sec := func(q, t int) time.Duration { return time.Duration(lib.Pick(c, q, t)) * time.Second }
	partB(c, 2, lib.Pick(c, 6, 10), lib.Pick(c, 13, 17), lib.Pick(c, 400_000, 3_000_000), sec(25, 150))
	lap("part B (2 keys)")
	if !c.Quick() {
		partB(c, 3, 6, 14, 1_500_000, sec(0, 130))
		lap("part B (3 keys)")
	}
	partC(c, lib.Pick(c, 4, 6), lib.Pick(c, 10, 14), lib.Pick(c, 200_000, 2_000_000), sec(25, 250))
	lap("part C")
}

func replay(c *lib.Ctx, raw json.RawMessage) {
	var hdr struct {
		Part string `json:"part"`
	}
	if err := json.Unmarshal(raw, &hdr); err != nil {
		lib.Infra("bad case: %v", err)
	}
	switch hdr.Part {
	case "A":
		var f failA
		json.Unmarshal(raw, &f)
		replayA(c, f.Path)
	case "B":
		var f failB
		json.Unmarshal(raw, &f)
		replayB(c, f.Path)
	case "C":
		var f failC
		json.Unmarshal(raw, &f)
		replayC(c, f.Path)
	default:
		lib.Infra("unknown part %q", hdr.Part)
	}
}

func main() {
	lib.Main(lib.Spec{
		ID:    "C15",
		Level: "model_checking",
		Rule: "three BFS on real objects: (A) hamt.Hamt versions under transactions of 1-2 Put/Delete on 8 keys with engineered hash collisions, " +
			"(B) hamt.Chain under Put/tombstone/Delete/WriteChain/ReadChain with bounded clock plus long scripted walks, " +
			"(C) meta.Meta under create/drop/rename/view/schema-only/info-only changes with Write/ReadMeta. states = distinct (model, implementation shape) " +
			"pairs; evaluations = transitions executed and judged; every state is non-trivial and distinct by construction",
		Assumptions: []string{
			"reference models: fixed-size maps; live entry = present and not a tombstone",
			"hash function is table driven (test item type) to force collisions and the overflow node; Meta uses the real Schema/Info items",
			"Delete without a tombstone is only issued for an item that was never written (what Meta.Drop intends)",
			"part B/C states are de-duplicated on in-memory entries + clocks + ages + (B) decoded chunk contents / (C) the re-read view of the stored chain",
			"the successor of a failing transition is not explored",
			"bounded clocks (persist counts between reopens) as stated in the notes",
		},
		QuickBudget:    70,
		ThoroughBudget: 600,
		Run:            run,
		Replay:         replay,
	})
}
