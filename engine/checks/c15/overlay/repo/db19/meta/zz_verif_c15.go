//go:build verif

package meta

// Read-only accessors for the /verif C15 check.

// VerifClocks returns the persist clocks and chain lengths of the schema and
// info tables.
func (m *Meta) VerifClocks() (schemaClock, infoClock, schemaChain, infoChain int) {
	return m.schema.Clock, m.info.Clock, len(m.schema.Offs), len(m.info.Offs)
}

// VerifCreated returns the "created" clock stamps Meta.Drop consults for a
// table (ok false if either entry is missing).
func (m *Meta) VerifCreated(table string) (schemaCreated, infoCreated int, ok bool) {
	ts, ok1 := m.schema.Get(table)
	ti, ok2 := m.info.Get(table)
	if !ok1 || !ok2 {
		return 0, 0, false
	}
	return ts.created, ti.created, true
}

// VerifInfoEntries / VerifSchemaEntries list the raw hamt entries
// (name, tombstone?, lastMod) of the in-memory tables.
func (m *Meta) VerifInfoEntries(fn func(name string, tomb bool, lastMod int)) {
	for ti := range m.info.All() {
		fn(ti.Table, ti.IsTomb(), ti.lastMod)
	}
}

func (m *Meta) VerifSchemaEntries(fn func(name string, tomb bool, lastMod int)) {
	for ts := range m.schema.All() {
		fn(ts.Table, ts.IsTomb(), ts.lastMod)
	}
}

// VerifAges returns the chunk ages of both chains.
func (m *Meta) VerifAges() (schemaAges, infoAges []int) {
	return m.schema.Ages, m.info.Ages
}
