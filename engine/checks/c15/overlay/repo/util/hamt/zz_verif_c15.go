//go:build verif

package hamt

import (
	"fmt"
	"strings"
)

// VerifShape renders the node structure of a Hamt (bitmaps, item keys in
// slot order, children) for the /verif C15 check. Read-only.
func (ht Hamt[K, E]) VerifShape() string {
	var sb strings.Builder
	var rec func(nd *node[K, E])
	rec = func(nd *node[K, E]) {
		if nd == nil {
			sb.WriteString("nil")
			return
		}
		fmt.Fprintf(&sb, "(%x/%x:", nd.bmVal, nd.bmPtr)
		for i := range nd.vals {
			fmt.Fprintf(&sb, "%v,", nd.vals[i].Key())
		}
		for _, p := range nd.ptrs {
			rec(p)
		}
		sb.WriteString(")")
	}
	rec(ht.root)
	return sb.String()
}

// VerifMaxChain is the chain length at which WriteChain flattens.
const VerifMaxChain = maxChain
