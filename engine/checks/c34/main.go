// C34 Timestamps are unique and increasing.
//
// The real server side (db19.Timestamp, db19.ticker) and the real client side
// (core Thread.Timestamp with its local batching, tsExpire) run under the
// controlled scheduler with a virtual clock: db19/timestamp.go, core/thread.go
// and core/sudate.go have their sync/time imports and go statements rewritten.
// Threads: the server ticker, 1-2 direct server callers, 1-2 threads of one
// client process (whose Dbms().Timestamp() is the server function), the
// client's expiry goroutine, and a clock thread that may step the wall clock.
// Every schedule within the preemption bound, including early firing of the
// 1 s timers (ticker, expiry) as environment events, is executed from a set of
// start milliseconds around the batching threshold and second boundaries.
//
// Oracle: all timestamps handed out (date + extra byte) are pairwise distinct,
// each caller's sequence is strictly increasing, every value a client returns
// lies in the range reserved by one of its fetches, and - covering "any number
// of clients" - the ranges reserved by ALL server responses under the
// documented batching rule (ms < 500: the next 5 ms; otherwise the 255 extra
// values of that ms) are pairwise disjoint.
package main

import (
	"encoding/json"
	"fmt"
	"sort"
	"strings"

	"github.com/apmckinlay/gsuneido/core"
	"github.com/apmckinlay/gsuneido/db19"
	"github.com/apmckinlay/gsuneido/verifshim/vsched"

	"verif/lib"
	"verif/sched"
)

type scen struct {
	name     string
	startMs  int   // millisecond part of the server's first timestamp
	direct   []int // calls per direct server caller
	client   []int // calls per client thread (one client process)
	clock    []int64
	bound    int
	timerBud int
}

type fakeDbms struct {
	core.IDbms
	x *exec
}

func (f *fakeDbms) Unwrap() core.IDbms { return f }

func (f *fakeDbms) Timestamp() core.SuDate {
	ts := db19.Timestamp()
	f.x.fetched = append(f.x.fetched, ts)
	f.x.server = append(f.x.server, ts)
	return ts
}

type exec struct {
	sc      *scen
	server  []core.SuDate  // every server response, in issue order
	fetched []core.SuDate  // responses given to the client process
	seqs    [][]core.Value // per caller thread: values received, in order
	names   []string
}

func (x *exec) Main() {
	vsched.NoPreempt(true)
	core.VerifResetClientTs()
	db19.VerifSetTimestamp(core.Now().WithoutMs().Plus(0, 0, 0, 0, 0, 0, x.sc.startMs))
	db19.VerifStartTicker()
	vsched.Settle()
	vsched.NoPreempt(false)
	add := func(name string) int {
		x.seqs = append(x.seqs, nil)
		x.names = append(x.names, name)
		return len(x.seqs) - 1
	}
	for i, n := range x.sc.direct {
		id := add(fmt.Sprintf("direct%d", i))
		n := n
		vsched.GoNamed(x.names[id], false, func() {
			for j := 0; j < n; j++ {
				ts := db19.Timestamp()
				x.server = append(x.server, ts)
				x.seqs[id] = append(x.seqs[id], ts)
			}
		})
	}
	dbms := &fakeDbms{x: x}
	for i, n := range x.sc.client {
		id := add(fmt.Sprintf("client-thread%d", i))
		n := n
		vsched.GoNamed(x.names[id], false, func() {
			th := core.NewThread(nil)
			th.SetDbms(dbms)
			for j := 0; j < n; j++ {
				x.seqs[id] = append(x.seqs[id], th.Timestamp())
			}
		})
	}
	if len(x.sc.clock) > 0 {
		vsched.GoNamed("clock", false, func() {
			for _, d := range x.sc.clock {
				vsched.Yield()
				vsched.AdvanceMs(d)
			}
		})
	}
}

func (x *exec) Monitor() {}

type iv struct {
	lo, hi int64 // unix ms, inclusive
	extra  bool  // single ms using extra bytes
	s      string
}

func (x *exec) Finish(out vsched.Outcome) (string, *sched.Failure) {
	var sb strings.Builder
	for i, s := range x.seqs {
		fmt.Fprintf(&sb, "%s:", x.names[i])
		for _, v := range s {
			fmt.Fprintf(&sb, " %v", v)
		}
		sb.WriteString("; ")
	}
	obs := sb.String()
	fail := func(format string, a ...any) (string, *sched.Failure) {
		return obs, &sched.Failure{Msg: fmt.Sprintf(format, a...) + " [" + obs + "]"}
	}
	if out.Status != "ok" {
		return fail("execution ended with %s: %s", out.Status, out.Detail)
	}
	// (1) pairwise distinct, (2) per caller strictly increasing
	seen := map[string]string{}
	for i, s := range x.seqs {
		for j, v := range s {
			k := fmt.Sprintf("%d/%d", core.VerifDate(v).UnixMilli(), core.VerifExtra(v))
			if who, dup := seen[k]; dup {
				return fail("timestamp %v handed out twice (%s and %s)", v, who, x.names[i])
			}
			seen[k] = x.names[i]
			if j > 0 && s[j-1].Compare(v) >= 0 {
				return fail("%s received %v after %v: not increasing", x.names[i], v, s[j-1])
			}
		}
	}
	// (3) reserved ranges of all server responses pairwise disjoint
	var ivs []iv
	for _, ts := range x.server {
		ms := ts.UnixMilli()
		if ts.Millisecond() < core.TsThreshold {
			ivs = append(ivs, iv{ms, ms + core.TsInitialBatch - 1, false, ts.String()})
		} else {
			ivs = append(ivs, iv{ms, ms, true, ts.String()})
		}
	}
	sort.Slice(ivs, func(i, j int) bool { return ivs[i].lo < ivs[j].lo })
	for i := 1; i < len(ivs); i++ {
		if ivs[i].lo <= ivs[i-1].hi {
			return fail("server responses %s and %s reserve overlapping ranges for their clients", ivs[i-1].s, ivs[i].s)
		}
	}
	// (4) client values lie inside a range fetched by the client process
	for i, s := range x.seqs {
		if !strings.HasPrefix(x.names[i], "client") {
			continue
		}
		for _, v := range s {
			d, e := core.VerifDate(v).UnixMilli(), core.VerifExtra(v)
			ok := false
			for _, f := range x.fetched {
				fm := f.UnixMilli()
				if f.Millisecond() < core.TsThreshold {
					if e == 0 && d >= fm && d <= fm+core.TsInitialBatch-1 {
						ok = true
					}
				} else if d == fm && e <= 255 {
					ok = true
				}
			}
			if !ok {
				return fail("client returned %v which is outside every range it fetched from the server", v)
			}
		}
	}
	return obs, nil
}

func scenarios(c *lib.Ctx) []*scen {
	var out []*scen
	starts := []int{0, 496, 499, 500, 990, 999}
	if c.Quick() {
		starts = []int{0, 497, 500, 995}
	}
	for _, ms := range starts {
		out = append(out,
			&scen{name: fmt.Sprintf("ms%03d/1direct+2clientthreads", ms), startMs: ms, direct: []int{3}, client: []int{4, 3}},
			&scen{name: fmt.Sprintf("ms%03d/2direct+1clientthread+clock", ms), startMs: ms, direct: []int{3, 2}, client: []int{7}, clock: []int64{1, -2500}},
		)
	}
	for _, s := range out {
		s.bound = lib.Pick(c, 2, 3)
		s.timerBud = 2
	}
	return out
}

func build(c *lib.Ctx) []*sched.Scenario {
	var out []*sched.Scenario
	for _, s := range scenarios(c) {
		s := s
		out = append(out, &sched.Scenario{Name: s.name, MaxBound: s.bound, TimerBudget: s.timerBud, MaxSteps: 20000,
			NoStmtYield: true,
			StartMs:     1_705_312_800_000, // a whole second
			New:         func() sched.Execution { return &exec{sc: s} }})
	}
	// statement granularity: a scheduling point before every statement of
	// db19/timestamp.go and of Thread.Timestamp / tsExpire, not only at their lock
	// operations - a missing or too short critical section is then an explorable
	// interleaving as well (smaller bound)
	for _, s := range scenarios(c) {
		s := s
		out = append(out, &sched.Scenario{Name: s.name + "/stmt", MaxBound: lib.Pick(c, 1, 2), TimerBudget: s.timerBud, MaxSteps: 60000,
			StartMs: 1_705_312_800_000,
			New:     func() sched.Execution { return &exec{sc: s} }})
	}
	return out
}

func run(c *lib.Ctx) {
	scs := build(c)
	c.Set("scenarios", len(scs))
	shard, n := c.Shard, c.NShards
	c.Shard, c.NShards = 0, 1
	for i, sc := range scs {
		if i%n != shard {
			continue
		}
		if c.Expired() {
			c.Cap("scenario %s not started", sc.Name)
			continue
		}
		sched.Explore(c, sc)
	}
}

func replay(c *lib.Ctx, raw json.RawMessage) { sched.Replay(c, build(c), raw) }

func main() {
	lib.Main(lib.Spec{
		ID:    "C34",
		Level: "exploration",
		Rule: "every schedule (lock granularity) within the preemption bound of the server ticker, direct server callers, two threads of a batching client, the client's expiry goroutine and a clock-stepping thread, with up to 2 early timer firings, from 4 (quick) / 6 (thorough) start milliseconds; " +
			"evaluations = complete executions; distinct = distinct (scenario, per-caller timestamp sequences) outcomes",
		Assumptions: []string{
			"sync.Mutex and time are replaced by the scheduler's models; virtual clock starts on a whole second; timers fire only as environment events (budget 2) or when every thread is blocked",
			"one client process runs the real batching code; further clients are covered by checking that the ranges the documented batching rule reserves for ALL server responses are pairwise disjoint",
			"clock steps: +1 ms and -2.5 s in the clock scenarios",
		},
		QuickBudget: 90, ThoroughBudget: 900,
		Procs: 16,
		Run:   run, Replay: replay,
	})
}
