//go:build verif

package core

import "github.com/apmckinlay/gsuneido/verifshim/vsync"

// VerifResetClientTs resets the client-side timestamp batching globals to
// their process-start values (a fresh client process).
func VerifResetClientTs() {
	tsLock = vsync.Mutex{} // a fresh lock: see db19.VerifSetTimestamp
	tsCount, tsLimit, tsLast = 0, 0, SuDate{}
}

// VerifExtra returns the extra byte of a timestamp value (0 for a plain date).
func VerifExtra(v Value) int {
	if t, ok := v.(SuTimestamp); ok {
		return int(t.extra)
	}
	return 0
}

// VerifDate returns the date part of a date or timestamp value.
func VerifDate(v Value) SuDate {
	switch t := v.(type) {
	case SuTimestamp:
		return t.SuDate
	case SuDate:
		return t
	}
	panic("not a date")
}
