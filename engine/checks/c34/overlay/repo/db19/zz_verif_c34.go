//go:build verif

package db19

import (
	. "github.com/apmckinlay/gsuneido/core"
	"github.com/apmckinlay/gsuneido/verifshim/vsched"
)

// VerifSetTimestamp sets the server's next timestamp (start-value alphabet of
// the C34 harness); called before any thread uses timestamps.
func VerifSetTimestamp(d SuDate) { timestamp = d }

// VerifStartTicker starts the real ticker goroutine without resetting the
// timestamp the way StartTimestamps does.
func VerifStartTicker() { vsched.Go(ticker) }
