//go:build verif

package db19

import (
	. "github.com/apmckinlay/gsuneido/core"
	"github.com/apmckinlay/gsuneido/verifshim/vsched"
	"github.com/apmckinlay/gsuneido/verifshim/vsync"
)

// VerifSetTimestamp sets the server's next timestamp (start-value alphabet of
// the C34 harness); called before any thread uses timestamps.
// The lock is a package global: an execution can end while the (daemon) ticker
// is parked inside its critical section at a statement-level scheduling point,
// so every execution starts with a fresh one.
func VerifSetTimestamp(d SuDate) {
	tsLock = vsync.Mutex{}
	timestamp = d
}

// VerifStartTicker starts the real ticker goroutine without resetting the
// timestamp the way StartTimestamps does.
func VerifStartTicker() { vsched.Go(ticker) }
