package main

import (
	"fmt"

	_ "github.com/apmckinlay/gsuneido/builtin"
	"github.com/apmckinlay/gsuneido/compile"
	. "github.com/apmckinlay/gsuneido/core"
)

func try(f func()) (e any) {
	defer func() { e = recover() }()
	f()
	return nil
}

func run(src string) {
	th := &Thread{}
	var v Value
	e := try(func() { v = th.Call(compile.Constant(src)) })
	fmt.Println(v, e)
}

func main() {
	run(`function() { a = { x = 1; b = { x }; b }; c = { try x catch ; x = 5; x }; b1 = a(); c(); b1() }`)
	run(`function() { a = { x = 1; b = { x }; b }; c = { |x| x }; b1 = a(); c(7); b1() }`)
	run(`function() { a = { |x| b = { x }; b }; c = { x = 5 }; b1 = a(1); c(); b1() }`)
	run(`function() { a = { |x| b = { x }; b }; c = { |x| x }; b1 = a(1); c(7); b1() }`)
	run(`function() { a = { |x| b = { x }; b }; c = { |x| d = { x }; d }; b1 = a(1); d1 = c(7); Object(b1(), d1()) }`)
	run(`function() { a = { |x| b = { x }; b }; b1 = a(1); b2 = a(2); Object(b1(), b2()) }`)
	fn := compile.Constant(`function() { a = { x = 1; b = { x }; b }; c = { |x| x }; b1 = a(); c(7); b1() }`)
	_ = fn
}
