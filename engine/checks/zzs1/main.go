package main

import (
	"fmt"

	_ "github.com/apmckinlay/gsuneido/builtin"
	"github.com/apmckinlay/gsuneido/compile"
	. "github.com/apmckinlay/gsuneido/core"
	"github.com/apmckinlay/gsuneido/dbms/query"
)

func try(f func()) (e any) {
	defer func() { e = recover() }()
	f()
	return nil
}

func main() {
	th := &Thread{}
	tran := query.VerifTestTran()
	r := NewSuRecord()
	r.Add(IntVal(1))
	r.Set(SuStr("a"), IntVal(2))
	fmt.Println(Display(th, r))
	v := compile.Constant(Display(th, r))
	fmt.Printf("%T %v %v\n", v, v.Equal(r), r.Equal(v))
	for _, src := range []string{`"abc`, `"abc\n`, `'a\'`, "`abc", `"a\"`, `"\`, `"a\x4`, `"a\\`} {
		var v Value
		e := try(func() { v = compile.Constant(src) })
		fmt.Printf("%-10q constant: %v %v\n", src, v, e)
		e = try(func() { v = compile.Constant("function(){ x = " + src) })
		fmt.Printf("%-10q function: %v %v\n", src, v, e)
		var q query.Query
		e = try(func() { q = query.ParseQuery("table where a is "+src, tran, nil) })
		fmt.Printf("%-10q query: %v %v\n", src, q, e)
	}
	ob := &SuObject{}
	ob.Set(SuStr("default"), True)
	ob.Set(SuStr("function"), IntVal(1))
	ob.Set(SuStr("true"), IntVal(1))
	ob.Set(True, IntVal(1))
	ob.Set(SuStr("a?"), IntVal(1))
	d := DateFromLiteral("20200101.123456789012")
	ob.Set(d, d)
	s := Display(th, ob)
	fmt.Println(s)
	e := try(func() { v = compile.Constant(s) })
	fmt.Println(v, e, v != nil && v.Equal(ob))
}
