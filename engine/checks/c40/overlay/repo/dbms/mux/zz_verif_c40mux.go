//go:build verif

package mux

// VerifRead waits for and returns the next complete response of the session.
func (cs *ClientSession) VerifRead() []byte { return cs.read() }

// VerifBufSize is the write-buffer size (request size alphabet of C40).
const VerifBufSize = bufSize
