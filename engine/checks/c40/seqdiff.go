// C40 part (b): sequential differential check.
//
// Every sequence (bounded depth, on top of a few handle-opening prefixes) over
// an alphabet of IDbms / ITran / IQuery / ICursor operations is executed in
// lockstep on two identical fresh heap databases:
//
//	L: directly on dbms.DbmsLocal
//	R: on a DbmsClient session  <->  real server connection code
//	   (newServerConn, mux, worker pool, command dispatch) over net.Pipe + TLS
//
// Oracle: after every operation the two results are equal (values, rows with
// their offsets and table, headers, or the error text with the documented
// " (from server)" suffix removed), and at the end the committed content and
// schema of the two databases are equal. The L side IS the reference
// ("performing it directly on the database"); the harness adds no model of
// its own except the normalisation of values that legitimately differ
// (random nonce/token: length only; timestamp: type only; transaction numbers:
// count only).
package main

import (
	"encoding/json"
	"fmt"
	"hash/crc32"
	"sort"
	"strings"
	"time"

	"github.com/apmckinlay/gsuneido/core"
	"github.com/apmckinlay/gsuneido/db19"
	"github.com/apmckinlay/gsuneido/db19/index"
	"github.com/apmckinlay/gsuneido/db19/stor"
	"github.com/apmckinlay/gsuneido/dbms"
	qry "github.com/apmckinlay/gsuneido/dbms/query"

	"verif/lib"
	"verif/model/cspipe"
)

// side is one of the two executions.
type side struct {
	name   string
	db     *db19.Database
	dbms   core.IDbms
	th     *core.Thread
	T      core.ITran
	Q      core.IQuery
	C      core.ICursor
	off    uint64 // offset + table of the last row a Get returned
	offTbl string
	srv    *cspipe.Server // client-server side only
}

// opDef is one element of the alphabet. run returns the normalised result.
type opDef struct {
	Name string
	// handles needed ("T" any transaction, "U" update transaction, "Q", "C",
	// "off" a row offset from an earlier Get) and required to be absent ("!T")
	Needs []string
	Mut   bool // changes handles or data (used to prune the deepest level)
	run   func(s *side) string
}

func fmtVal(v core.Value) string {
	if v == nil {
		return "nil"
	}
	return v.Type().String() + ":" + v.String()
}

func fmtRow(row core.Row, hdr *core.Header, tbl string) string {
	if row == nil {
		return "no row"
	}
	cols := append([]string(nil), hdr.Columns...)
	sort.Strings(cols)
	var sb strings.Builder
	fmt.Fprintf(&sb, "table=%q off=%d", tbl, row[0].Off)
	for _, c := range cols {
		v := row.GetRaw(hdr, c)
		if len(v) > 64 {
			fmt.Fprintf(&sb, " %s=%q...(%d bytes, crc %08x)", c, v[:16], len(v), crc32.ChecksumIEEE([]byte(v)))
		} else {
			fmt.Fprintf(&sb, " %s=%q", c, v)
		}
	}
	return sb.String()
}

// fmtGet: QueryEmpty? (Any) and QueryStrategy1 (Strat) return a dummy row;
// what matters is whether there is one, and the string.
func fmtGet(row core.Row, hdr *core.Header, tbl string, dir core.Dir) string {
	if row == nil {
		return "no row" // (the string that comes with "no row" has no meaning)
	}
	if dir == core.Any || dir == core.Strat {
		return fmt.Sprintf("exists %q", tbl)
	}
	return fmtRow(row, hdr, tbl)
}

func fmtHdr(hdr *core.Header) string {
	cols := append([]string(nil), hdr.Columns...)
	sort.Strings(cols)
	return "columns " + strings.Join(cols, ",")
}

func rec(k int, v string) core.Record {
	var rb core.RecordBuilder
	rb.Add(core.SuInt(k))
	rb.Add(core.SuStr(v))
	return rb.Build()
}

func qobj(table string, k int) core.Value {
	ob := core.SuObjectOf(core.SuStr(table))
	ob.Set(core.SuStr("k"), core.SuInt(k))
	return ob
}

func alphabet() []opDef {
	var ops []opDef
	add := func(name string, mut bool, needs string, run func(s *side) string) {
		var n []string
		if needs != "" {
			n = strings.Split(needs, ",")
		}
		ops = append(ops, opDef{Name: name, Needs: n, Mut: mut, run: run})
	}
	// ---- another client misbehaves: a second connection sends a request with an
	// invalid command byte (any client can, authenticated or not). The server
	// answers/closes that connection; it must not affect THIS session's later
	// requests (the worker pool and its buffers are shared between connections).
	add("other connection sends an invalid command", true, "", func(s *side) string {
		if s.srv == nil {
			return "ok"
		}
		conn, err := s.srv.Connect()
		if err != nil {
			return "ERR connect: " + err.Error()
		}
		rc := &cspipe.RawClient{Conn: conn}
		if err := rc.Send(1, []byte{0xfe, 1, 2, 3}); err != nil {
			return "ERR send: " + err.Error()
		}
		rc.Recv() // an error reply or the connection being closed: both are fine
		return "ok"
	})
	// ---- IDbms
	for _, a := range []string{"create t2 (a, b) key(a)", "drop data", "drop nosuch", "alter data create (c)",
		"create data (k) key(k)"} {
		a := a
		// A schema change of a table that an open update transaction has used
		// aborts that transaction ("conflict with exclusive") asynchronously in
		// the checker goroutine: WHEN the transaction notices is a race inside
		// db19 (on either side), not a client-server matter. Such schema
		// changes are therefore not issued while an update transaction is open.
		needs := ""
		if strings.Contains(a, "data") {
			needs = "!U"
		}
		add("Admin("+a+")", true, needs, func(s *side) string { s.dbms.Admin(a, nil); return "ok" })
	}
	add("Check", false, "", func(s *side) string { return s.dbms.Check(false) })
	// documented difference (Database.Cursors: "only works client-server, always 0 standalone"): executed, value not compared
	add("Cursors", false, "", func(s *side) string { s.dbms.Cursors(); return "number" })
	add("Final", false, "", func(s *side) string { return fmt.Sprint(s.dbms.Final()) })
	add("Info", false, "", func(s *side) string { return fmtVal(s.dbms.Info()) })
	add("Libraries", false, "", func(s *side) string { return fmt.Sprint(s.dbms.Libraries()) })
	add("LibGet(Foo)", false, "", func(s *side) string { return fmt.Sprintf("%q", s.dbms.LibGet("Foo")) })
	add("LibGet(Nope)", false, "", func(s *side) string { return fmt.Sprintf("%q", s.dbms.LibGet("Nope")) })
	add("Log", false, "", func(s *side) string { s.dbms.Log("c40"); return "ok" })
	add("Nonce", false, "", func(s *side) string { return fmt.Sprint("length ", len(s.dbms.Nonce(s.th))) })
	add("Token", false, "", func(s *side) string { return fmt.Sprint("length ", len(s.dbms.Token())) })
	add("Size", false, "", func(s *side) string { return fmt.Sprint(s.dbms.Size()) })
	add("Timestamp", false, "", func(s *side) string { return s.dbms.Timestamp().Type().String() })
	add("Transactions", false, "", func(s *side) string { return fmt.Sprint("count ", s.dbms.Transactions().Size()) })
	add("Schema(data)", false, "", func(s *side) string { return s.dbms.Schema("data") })
	add("Schema(nosuch)", false, "", func(s *side) string { return s.dbms.Schema("nosuch") })
	add("SessionId()", false, "", func(s *side) string { return s.dbms.SessionId(s.th, "") })
	add("SessionId(abc)", true, "", func(s *side) string { return s.dbms.SessionId(s.th, "abc") })
	type getShape struct {
		n   string
		q   func() core.Value
		dir core.Dir
	}
	gets := []getShape{
		{"data sort k,Next", func() core.Value { return core.SuObjectOf(core.SuStr("data sort k")) }, core.Next},
		{"data sort k,Prev", func() core.Value { return core.SuObjectOf(core.SuStr("data sort k")) }, core.Prev},
		{"data,Next", func() core.Value { return core.SuObjectOf(core.SuStr("data")) }, core.Next},
		{"data where k is 1,Strat", func() core.Value { return core.SuObjectOf(core.SuStr("data where k is 1")) }, core.Strat},
		{"{data k:99},Any", func() core.Value { return qobj("data", 99) }, core.Any},
		{"data sort v,Next", func() core.Value { return core.SuObjectOf(core.SuStr("data sort v")) }, core.Next},
		{"data where k is 1,Only", func() core.Value { return core.SuObjectOf(core.SuStr("data where k is 1")) }, core.Only},
		{"data,Only", func() core.Value { return core.SuObjectOf(core.SuStr("data")) }, core.Only},
		{"data where k is 99,Only", func() core.Value { return core.SuObjectOf(core.SuStr("data where k is 99")) }, core.Only},
		{"{data k:2},Only", func() core.Value { return qobj("data", 2) }, core.Only},
		{"data,Any", func() core.Value { return core.SuObjectOf(core.SuStr("data")) }, core.Any},
		{"nosuch,Next", func() core.Value { return core.SuObjectOf(core.SuStr("nosuch")) }, core.Next},
		{"data extend x = k + 1 sort k,Next", func() core.Value { return core.SuObjectOf(core.SuStr("data extend x = k + 1 sort k")) }, core.Next},
		{"data join other sort k,Prev", func() core.Value { return core.SuObjectOf(core.SuStr("data join other sort k")) }, core.Prev},
		{"wide sort k,Next", func() core.Value { return core.SuObjectOf(core.SuStr("wide sort k")) }, core.Next},
		{"wide sort k,Prev", func() core.Value { return core.SuObjectOf(core.SuStr("wide sort k")) }, core.Prev},
		{"{wide k:1},Only", func() core.Value { return qobj("wide", 1) }, core.Only},
	}
	for _, g := range gets {
		g := g
		add("Get("+g.n+")", false, "", func(s *side) string {
			row, hdr, tbl := s.dbms.Get(s.th, g.q(), g.dir)
			return fmtGet(row, hdr, tbl, g.dir)
		})
		add("T.Get("+g.n+")", false, "T", func(s *side) string {
			row, hdr, tbl := s.T.Get(s.th, g.q(), g.dir)
			return fmtGet(row, hdr, tbl, g.dir)
		})
	}
	add("Exec(Max 3 7)", false, "", func(s *side) string {
		return fmtVal(s.dbms.Exec(s.th, core.SuObjectOf(core.SuStr("Max"), core.SuInt(3), core.SuInt(7))))
	})
	add("Exec(Nosuch)", false, "", func(s *side) string {
		return fmtVal(s.dbms.Exec(s.th, core.SuObjectOf(core.SuStr("Nosuch"))))
	})
	for _, code := range []string{"1 + 2", "throw 'boom'", "Object(1, a: 'x')", "Query1('data', k: 1)", "Foo()", "Nosuch()", "1 +"} {
		code := code
		add("Run("+code+")", false, "", func(s *side) string { return fmtVal(s.dbms.Run(s.th, code)) })
	}
	add("Transaction(read)", true, "!T", func(s *side) string {
		s.T = s.dbms.Transaction(false)
		return "ok " + s.T.String()[:2]
	})
	add("Transaction(update)", true, "!T", func(s *side) string {
		s.T = s.dbms.Transaction(true)
		return "ok " + s.T.String()[:2]
	})
	add("Cursor(data sort k)", true, "!C", func(s *side) string { s.C = s.dbms.Cursor("data sort k", nil); return "ok" })
	add("Cursor(nosuch)", true, "!C", func(s *side) string { s.C = s.dbms.Cursor("nosuch", nil); return "ok" })
	// ---- ITran
	add("T.Complete", true, "T", func(s *side) string { r := s.T.Complete(); s.T, s.Q = nil, nil; return "result " + r })
	add("T.Abort", true, "T", func(s *side) string { r := s.T.Abort(); s.T, s.Q = nil, nil; return "result " + r })
	for _, q := range []string{"data sort k", "data where k > 1", "nosuch", "data extend x = k + 1", "data join other", "other", "wide sort k"} {
		q := q
		add("T.Query("+q+")", true, "T,!Q", func(s *side) string { s.Q = s.T.Query(q, nil); return "ok" })
	}
	for _, a := range []string{"insert { k: 3, v: 'three' } into data", "insert { k: 1, v: 'dup' } into data",
		"update data where k is 2 set v = 'TWO'", "delete data where k is 2", "delete data", "insert into", "update other set z = 1"} {
		a := a
		add("T.Action("+a+")", true, "T", func(s *side) string { return fmt.Sprint(s.T.Action(s.th, a)) })
	}
	add("T.Delete(off)", true, "U,off", func(s *side) string { s.T.Delete(s.th, s.offTbl, s.off); return "ok" })
	add("T.Update(off,k=7)", true, "U,off", func(s *side) string {
		return fmt.Sprint(s.T.Update(s.th, s.offTbl, s.off, rec(7, "seven")))
	})
	add("T.Update(off,k=1)", true, "U,off", func(s *side) string {
		return fmt.Sprint(s.T.Update(s.th, s.offTbl, s.off, rec(1, "uno")))
	})
	add("T.ReadCount", false, "T", func(s *side) string { return fmt.Sprint(s.T.ReadCount()) })
	add("T.WriteCount", false, "T", func(s *side) string { return fmt.Sprint(s.T.WriteCount()) })
	add("T.Asof(0)", false, "T", func(s *side) string { return fmt.Sprint(s.T.Asof(0)) })
	// ---- IQuery
	for _, d := range []core.Dir{core.Next, core.Prev} {
		d := d
		add("Q.Get("+string(rune(d))+")", true, "Q", func(s *side) string {
			row, tbl := s.Q.Get(s.th, d)
			if row != nil && tbl != "" {
				s.off, s.offTbl = row[0].Off, tbl
			}
			return fmtRow(row, s.Q.Header(), tbl)
		})
		add("C.Get("+string(rune(d))+")", true, "C,T", func(s *side) string {
			row, tbl := s.C.Get(s.th, s.T, d)
			return fmtRow(row, s.C.Header(), tbl)
		})
	}
	add("Q.Header", false, "Q", func(s *side) string { return fmtHdr(s.Q.Header()) })
	add("Q.Keys", false, "Q", func(s *side) string { return fmt.Sprint(s.Q.Keys()) })
	add("Q.Order", false, "Q", func(s *side) string { return fmt.Sprint(s.Q.Order()) })
	add("Q.Rewind", true, "Q", func(s *side) string { s.Q.Rewind(); return "ok" })
	add("Q.Strategy", false, "Q", func(s *side) string { return s.Q.Strategy(false) })
	add("Q.Output(k=5)", true, "Q", func(s *side) string { s.Q.Output(s.th, rec(5, "five")); return "ok" })
	add("Q.Output(k=1)", true, "Q", func(s *side) string { s.Q.Output(s.th, rec(1, "dup")); return "ok" })
	add("Q.Close", true, "Q", func(s *side) string { s.Q.Close(); s.Q = nil; return "ok" })
	add("C.Header", false, "C", func(s *side) string { return fmtHdr(s.C.Header()) })
	add("C.Keys", false, "C", func(s *side) string { return fmt.Sprint(s.C.Keys()) })
	add("C.Rewind", true, "C", func(s *side) string { s.C.Rewind(); return "ok" })
	add("C.Close", true, "C", func(s *side) string { s.C.Close(); s.C = nil; return "ok" })
	return ops
}

// applicable reports whether op can be expressed with the handles s holds.
func (s *side) applicable(op *opDef) bool {
	for _, n := range op.Needs {
		switch n {
		case "T":
			if s.T == nil {
				return false
			}
		case "!T":
			if s.T != nil {
				return false
			}
		case "U":
			if s.T == nil || !strings.HasPrefix(s.T.String(), "ut") {
				return false
			}
		case "!U":
			if s.T != nil && strings.HasPrefix(s.T.String(), "ut") {
				return false
			}
		case "Q":
			if s.Q == nil {
				return false
			}
		case "!Q":
			if s.Q != nil {
				return false
			}
		case "C":
			if s.C == nil {
				return false
			}
		case "!C":
			if s.C != nil {
				return false
			}
		case "off":
			if s.offTbl == "" {
				return false
			}
		}
	}
	return true
}

func errText(e any) string {
	if t, ok := e.(interface{ ToStr() (string, bool) }); ok {
		if s, ok := t.ToStr(); ok {
			return s
		}
	}
	return fmt.Sprint(e)
}

// do runs op on s in its own goroutine: a panic becomes "ERR: text", a
// core.Fatal (which ends the goroutine in this harness) "FATAL: text", no
// answer within the i/o timeout is a hang (infrastructure error).
func (s *side) do(op *opDef) (res string, hang bool) {
	done := make(chan string, 1)
	go func() {
		finished := false
		defer func() {
			if !finished {
				f, _ := cspipe.LastFatal.Load().(string)
				done <- "FATAL: " + strings.TrimSpace(f)
			}
		}()
		var r string
		e := lib.Try(func() { r = op.run(s) })
		if e != nil {
			r = "ERR: " + strings.TrimSuffix(errText(e), " (from server)")
		}
		finished = true
		done <- r
	}()
	select {
	case r := <-done:
		return r, false
	case <-time.After(cspipe.IOTimeout):
		return "", true
	}
}

func setupDb() *db19.Database {
	db := db19.CreateDb(stor.HeapStor(32 * 1024))
	db19.StartConcur(db, time.Hour)
	adm := func(s string) { qry.DoAdmin(db, s, nil) }
	act := func(s string) {
		ut := db.NewUpdateTran()
		qry.DoAction(nil, ut, s)
		if r := ut.Complete(); r != "" {
			panic("setup commit failed: " + r)
		}
	}
	adm("create stdlib (name, group, text, num, parent) key(name, group)")
	act("insert { name: 'Foo', group: -1, text: 'function () { return 123 }', num: 1 } into stdlib")
	adm("create data (k, v) key(k)")
	act("insert { k: 1, v: 'one' } into data")
	act("insert { k: 2, v: 'two' } into data")
	adm("create other (k, z) key(k)")
	act("insert { k: 2, z: 'zwei' } into other")
	// a table with a dropped column whose old data is still in a large record
	// (the server strips such data from records of 16 KB and more) and in a
	// small one
	adm("create wide (k, gone, v, w) key(k)")
	act("insert { k: 1, gone: '" + strings.Repeat("g", 12000) + "', v: '" + strings.Repeat("v", 6000) + "', w: 'w1' } into wide")
	act("insert { k: 2, gone: 'small', v: 'v2', w: 'w2' } into wide")
	adm("alter wide drop (gone)")
	return db
}

// content = committed rows and schema of every table.
func content(db *db19.Database) string {
	var sb strings.Builder
	st := db.GetState()
	var names []string
	for ts := range st.Meta.Tables() {
		names = append(names, ts.Table)
	}
	sort.Strings(names)
	rt := db.NewReadTran()
	for _, n := range names {
		sb.WriteString(db.Schema(n) + "\n")
		it := rt.IndexIter(n, 0)
		it.Range(index.Range{Org: "", End: "\xff\xff\xff\xff\xff\xff\xff\xff"})
		for it.Next(rt); !it.Eof(); it.Next(rt) {
			_, off := it.Cur()
			fmt.Fprintf(&sb, "  %q\n", string(rt.GetRecord(off)))
		}
	}
	return sb.String()
}

// failure classes of known differences (computed from the operation and both results)
func classify(op string, l, r string) string {
	switch op {
	case "T.ReadCount", "T.WriteCount":
		// dbmsserver.go cmdReadCount/cmdWriteCount answer 0 ("TODO")
		if r == "0" && l != "0" && !strings.HasPrefix(l, "ERR") {
			return "readcount-writecount-not-implemented-by-server"
		}
	}
	return ""
}

type diffCase struct {
	Seq []string `json:"sequence"`
}

type diffResult struct {
	fails    []failure
	executed int
	skipped  bool     // the last op was not applicable
	trace    []string // op => result (of L)
	erred    bool     // the last op returned an error on L
}

type failure struct {
	class, msg string
}

// runDiff executes seq in lockstep on both sides.
func runDiff(byName map[string]*opDef, seq []string) (res diffResult) {
	dbL, dbR := setupDb(), setupDb()
	local := dbms.NewDbmsLocal(dbL)
	srv := cspipe.NewServer(dbR)
	infra := ""
	defer func() {
		if err := srv.Shutdown(); err != nil && infra == "" {
			infra = err.Error()
		}
		dbL.Close()
		dbR.Close()
		if infra != "" {
			lib.Infra("C40 sequence %v: %s", seq, infra)
		}
	}()
	conn, err := srv.Connect()
	if err != nil {
		infra = "connect: " + err.Error()
		return
	}
	client := dbms.NewDbmsClient(conn)
	L := &side{name: "local", db: dbL, dbms: local, th: core.NewThread(nil)}
	L.th.SetDbms(local)
	R := &side{name: "client-server", db: dbR, dbms: client.NewSession(), th: core.NewThread(nil), srv: srv}
	R.th.SetDbms(R.dbms)
	// the default session id differs by design (thread name locally, client
	// address on the server): both sides start from an explicitly set one
	L.dbms.SessionId(L.th, "c40")
	if e := lib.Try(func() { R.dbms.SessionId(R.th, "c40") }); e != nil {
		// the very first request of a fresh connection failed: the server kept
		// state from an earlier connection (workers and their buffers are shared)
		res.fails = append(res.fails, failure{"", fmt.Sprintf(
			"the first request (SessionId) of a fresh client connection failed: %v", e)})
		return
	}
	for i, name := range seq {
		op := byName[name]
		if op == nil {
			infra = "unknown operation " + name
			return
		}
		if !L.applicable(op) || !R.applicable(op) {
			if L.applicable(op) != R.applicable(op) {
				res.fails = append(res.fails, failure{"", fmt.Sprintf("%s: handle state differs between the sides", name)})
			}
			res.skipped = i == len(seq)-1
			return
		}
		l, hang := L.do(op)
		if hang {
			infra = "local side hung in " + name
			return
		}
		r, hang := R.do(op)
		if hang {
			infra = "client-server side hung in " + name + " (no response)"
			return
		}
		res.executed++
		res.trace = append(res.trace, name+" => "+l)
		res.erred = strings.HasPrefix(l, "ERR")
		if l != r {
			res.fails = append(res.fails, failure{classify(name, l, r),
				fmt.Sprintf("%s: local %q, client-server %q", name, l, r)})
			return // the sides have diverged
		}
		if strings.HasPrefix(r, "FATAL") {
			return
		}
	}
	// leave transactions open (uncommitted work must not show)
	if cl, cr := content(dbL), content(dbR); cl != cr {
		res.fails = append(res.fails, failure{"", fmt.Sprintf("final database content differs:\nlocal:\n%s\nclient-server:\n%s", cl, cr)})
	}
	return
}

// the operations used for the first two of three levels
var mutCore = map[string]bool{
	"Admin(create t2 (a, b) key(a))": true, "Admin(drop data)": true, "Transaction(read)": true, "Transaction(update)": true,
	"Cursor(data sort k)": true, "T.Complete": true, "T.Abort": true, "T.Query(data sort k)": true, "T.Query(data join other)": true,
	"T.Action(insert { k: 3, v: 'three' } into data)": true, "T.Action(update data where k is 2 set v = 'TWO')": true,
	"T.Action(delete data where k is 2)": true, "T.Delete(off)": true, "T.Update(off,k=7)": true, "Q.Get(+)": true, "Q.Get(-)": true,
	"Q.Rewind": true, "Q.Output(k=5)": true, "Q.Close": true, "C.Get(+)": true, "SessionId(abc)": true,
}

// canonical witnesses of the classified differences
var witnesses = map[string][]string{
	"readcount-writecount-not-implemented-by-server": {"Transaction(update)", "T.Query(data sort k)", "Q.Get(+)", "T.ReadCount"},
}

// prefixes open the handles the deeper operations need.
var prefixes = [][]string{
	{},
	{"Transaction(update)"},
	{"Transaction(read)"},
	{"Transaction(update)", "T.Query(data sort k)", "Q.Get(+)"},
	{"Transaction(read)", "Cursor(data sort k)", "C.Get(+)"},
	{"Transaction(update)", "T.Action(insert { k: 3, v: 'three' } into data)"},
}

// seqdiff is the scenario group "sequential differential".
func seqdiff(c *lib.Ctx) {
	cspipe.Init()
	ops := alphabet()
	byName := map[string]*opDef{}
	var names, mutNames []string
	for i := range ops {
		if byName[ops[i].Name] != nil {
			lib.Infra("duplicate operation name %s", ops[i].Name)
		}
		byName[ops[i].Name] = &ops[i]
		names = append(names, ops[i].Name)
		if ops[i].Mut {
			mutNames = append(mutNames, ops[i].Name)
		}
	}
	depth := lib.Pick(c, 2, 3) // levels on top of a prefix
	c.Set("seqdiff_alphabet", names)
	c.Set("seqdiff_alphabet_size", len(names))
	c.Set("seqdiff_depth_on_top_of_prefix", depth)
	c.Set("seqdiff_prefixes", prefixes)
	// A classified (known) difference occurs in hundreds of sequences and in
	// every worker shard: its canonical witness is run first by every shard and
	// reported by shard 0; other occurrences are only counted, unless the
	// witness did not show the difference.
	witnessFails := map[string]bool{}
	for class, w := range witnesses {
		o := runDiff(byName, w)
		for _, f := range o.fails {
			if f.class == class {
				witnessFails[class] = true
				if c.Shard == 0 {
					c.Fail(class, diffCase{Seq: w}, "sequence %s: %s", strings.Join(w, " ; "), f.msg)
				}
				break
			}
		}
	}
	// levels[i] = the operations tried at position i (on top of a prefix). The
	// last level is always the whole alphabet; the levels before it range over
	// operations that change handles or data (the others cannot influence what
	// follows): all of them for two levels, a core subset for three levels.
	var dfs func(seq []string, levels [][]string, at int)
	dfs = func(seq []string, levels [][]string, at int) {
		if c.Expired() {
			return
		}
		o := runDiff(byName, seq)
		if o.skipped {
			c.Count("seqdiff: sequences whose last operation is not applicable (no such handle)", 1)
			return
		}
		c.Eval(1)
		c.Nontrivial(1)
		c.Count("seqdiff: operations executed on both sides and compared", o.executed)
		if len(o.trace) > 0 {
			last := o.trace[len(o.trace)-1]
			c.Distinct("result " + last)
			c.Count("seqdiff: results of the last operation that are errors", b2i(o.erred))
		}
		for _, f := range o.fails {
			if f.class != "" {
				c.Count("class:"+f.class, 1)
				if witnessFails[f.class] {
					continue
				}
			}
			c.Fail(f.class, diffCase{Seq: seq}, "sequence %s: %s", strings.Join(seq, " ; "), f.msg)
		}
		if len(o.fails) == 0 && c.NSamples() < 3 && at == len(levels) && c.Shard == 0 && len(seq) > 2 {
			c.Sample(map[string]any{"operations => result on both sides": o.trace})
		}
		if len(o.fails) > 0 || at == len(levels) {
			return
		}
		for _, n := range levels[at] {
			dfs(append(append([]string(nil), seq...), n), levels, at+1)
		}
	}
	var coreNames []string
	for _, n := range mutNames {
		if mutCore[n] {
			coreNames = append(coreNames, n)
		}
	}
	plans := [][][]string{{mutNames, names}}
	if !c.Quick() {
		plans = append(plans, [][]string{coreNames, coreNames, names})
		c.Set("seqdiff_core_operations(first two of three levels)", coreNames)
	}
	// shard on (plan, prefix, first operation)
	item := 0
	for pi, levels := range plans {
		for _, p := range prefixes {
			if c.Shard == 0 && len(p) > 0 && pi == 0 {
				// the prefix itself
				o := runDiff(byName, p)
				for _, f := range o.fails {
					c.Fail(f.class, diffCase{Seq: p}, "prefix %s: %s", strings.Join(p, " ; "), f.msg)
				}
			}
			for _, n := range levels[0] {
				item++
				if item%c.NShards != c.Shard {
					continue
				}
				dfs(append(append([]string(nil), p...), n), levels, 1)
			}
		}
	}
	if c.Expired() {
		c.Cap("seqdiff: budget reached before all sequences were run")
	}
}

func b2i(b bool) int {
	if b {
		return 1
	}
	return 0
}

func seqdiffReplay(c *lib.Ctx, raw json.RawMessage) {
	cspipe.Init()
	var cs diffCase
	if err := json.Unmarshal(raw, &cs); err != nil {
		lib.Infra("bad case: %v", err)
	}
	ops := alphabet()
	byName := map[string]*opDef{}
	for i := range ops {
		byName[ops[i].Name] = &ops[i]
	}
	if len(cs.Seq) == 1 && cs.Seq[0] == "*" {
		// debugging aid: every non-mutating operation after every prefix
		for _, p := range prefixes {
			for i := range ops {
				if ops[i].Mut {
					continue
				}
				o := runDiff(byName, append(append([]string(nil), p...), ops[i].Name))
				if !o.skipped && len(o.trace) > 0 {
					fmt.Println(len(p), o.trace[len(o.trace)-1], o.fails)
				}
			}
		}
		return
	}
	o := runDiff(byName, cs.Seq)
	for _, t := range o.trace {
		fmt.Println("  ", t)
	}
	for _, f := range o.fails {
		c.Fail(f.class, cs, "sequence %s: %s", strings.Join(cs.Seq, " ; "), f.msg)
	}
}
