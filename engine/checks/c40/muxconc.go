// C40 (a): the multiplexer under the controlled scheduler.
//
// dbms/mux/mux.go and workers.go (sync, sync/atomic, time imports, channel
// operations, go statements and select rewritten) run over an in-memory duplex
// whose Read returns an environment-chosen fragment (everything available by
// default; 1 byte or "up to the 9-byte header boundary" as deviations). 2-3
// client sessions on ONE connection send 1-2 requests of boundary sizes; the
// server side is the real reader + Workers pool with an echo-with-tag handler.
// Every schedule within the deviation bound (preemptions + short reads) is run.
//
// Oracle: every session receives exactly its own responses, complete and in
// request order; nothing is left over; no deadlock, no panic.
package main

import (
	"bytes"
	"fmt"
	"io"
	"log"
	"strings"

	"github.com/apmckinlay/gsuneido/core"
	"github.com/apmckinlay/gsuneido/dbms/mux"
	"github.com/apmckinlay/gsuneido/verifshim/vsched"

	"verif/lib"
	"verif/sched"
)

func init() {
	// core.Fatal must be observable: the injected exit hook panics
	core.Exit = func(code int) { panic(fmt.Sprintf("core.Fatal: process exit %d requested", code)) }
	log.SetOutput(io.Discard)
}

// half is one direction of the in-memory connection.
type half struct {
	buf    []byte
	closed bool
}

type endpoint struct {
	in, out *half
	name    string
}

func (e *endpoint) Read(p []byte) (int, error) {
	vsched.WaitUntil("pipe-read", func() bool { return len(e.in.buf) > 0 || e.in.closed })
	if len(e.in.buf) == 0 {
		return 0, io.EOF
	}
	n := len(e.in.buf)
	if n > len(p) {
		n = len(p)
	}
	// fragmentation: default = everything that fits; deviations: 1 byte, or
	// up to the header boundary
	opts := []int{n}
	if n > 1 {
		opts = append(opts, 1)
	}
	if n > mux.HeaderSize {
		opts = append(opts, mux.HeaderSize)
	}
	if len(opts) > 1 {
		n = opts[vsched.ChooseDeviation(len(opts), e.name+"-fragment")]
	}
	copy(p, e.in.buf[:n])
	e.in.buf = e.in.buf[n:]
	return n, nil
}

func (e *endpoint) Write(p []byte) (int, error) {
	vsched.Yield()
	if e.out.closed {
		return 0, io.ErrClosedPipe
	}
	e.out.buf = append(e.out.buf, p...)
	return len(p), nil
}

func (e *endpoint) Close() error {
	e.in.closed = true
	e.out.closed = true
	return nil
}

type muxScen struct {
	name     string
	sessions [][]int // request sizes per session
	bound    int
	delay    bool // delay bounding (every non-default scheduling choice costs)
}

type muxExec struct {
	sc    *muxScen
	got   [][]string // per session: digest of each response
	order []string   // completion order across sessions
	want  [][]string
	extra string
}

func payload(session, req, size int) []byte {
	b := make([]byte, size)
	for i := range b {
		b[i] = byte('a' + (session*7+req*3+i)%26)
	}
	return b
}

func digest(b []byte) string {
	if len(b) <= 24 {
		return fmt.Sprintf("%d:%s", len(b), b)
	}
	var h uint32 = 2166136261
	for _, c := range b {
		h = (h ^ uint32(c)) * 16777619
	}
	return fmt.Sprintf("%d:%s..%08x", len(b), b[:12], h)
}

func (x *muxExec) Main() {
	vsched.NoPreempt(true)
	c2s, s2c := &half{}, &half{}
	clientEnd := &endpoint{in: s2c, out: c2s, name: "client"}
	serverEnd := &endpoint{in: c2s, out: s2c, name: "server"}
	cc := mux.NewClientConn(clientEnd)
	workers := mux.NewWorkers(func(wb *mux.WriteBuf, _ *core.Thread, id uint64, data []byte) {
		tag := fmt.Sprintf("<%d>", uint32(id))
		wb.Write([]byte(tag)).Write(bytes.ToUpper(data)).EndMsg()
	})
	sc := mux.NewServerConn(serverEnd)
	vsched.GoNamed("server-reader", true, func() { sc.Run(workers.Submit) })
	x.got = make([][]string, len(x.sc.sessions))
	x.want = make([][]string, len(x.sc.sessions))
	sessions := make([]*mux.ClientSession, len(x.sc.sessions))
	for i := range sessions {
		sessions[i] = cc.NewClientSession()
	}
	vsched.Settle()
	vsched.NoPreempt(false)
	for i, sizes := range x.sc.sessions {
		i, sizes := i, sizes
		vsched.GoNamed(fmt.Sprintf("session%d", i), false, func() {
			s := sessions[i]
			for r, size := range sizes {
				p := payload(i, r, size)
				// two writes per request so that small + large parts mix
				half := len(p) / 3
				s.Write(p[:half])
				s.WriteString(string(p[half:]))
				s.EndMsg()
				tag := fmt.Sprintf("<%d>", s.Id())
				x.want[i] = append(x.want[i], digest(append([]byte(tag), bytes.ToUpper(p)...)))
				x.got[i] = append(x.got[i], digest(s.VerifRead()))
				x.order = append(x.order, fmt.Sprintf("s%d.%d", i, r))
			}
		})
	}
}

func (x *muxExec) Monitor() {}

func (x *muxExec) Finish(out vsched.Outcome) (string, *sched.Failure) {
	var sb strings.Builder
	for i := range x.got {
		fmt.Fprintf(&sb, "s%d%v ", i, x.got[i])
	}
	fmt.Fprintf(&sb, "order=%v", x.order)
	obs := sb.String()
	if out.Status != "ok" {
		return obs, &sched.Failure{Msg: fmt.Sprintf("execution ended with %s: %s [%s]", out.Status, out.Detail, obs)}
	}
	for i := range x.want {
		if strings.Join(x.got[i], "|") != strings.Join(x.want[i], "|") {
			return obs, &sched.Failure{Msg: fmt.Sprintf("session %d received %v, expected %v", i, x.got[i], x.want[i])}
		}
	}
	return obs, nil
}

func muxScenarios(c *lib.Ctx) []*sched.Scenario {
	B := mux.VerifBufSize
	var scs []*muxScen
	add := func(name string, bound int, sessions ...[]int) {
		scs = append(scs, &muxScen{name: "mux/" + name, sessions: sessions, bound: bound})
	}
	add("2x1-small", lib.Pick(c, 2, 3), []int{1}, []int{2})
	add("2x1-boundary", lib.Pick(c, 1, 3), []int{B - mux.HeaderSize - 1}, []int{B - mux.HeaderSize})
	add("2x1-over-buffer", lib.Pick(c, 1, 3), []int{B + 1}, []int{2*B + 5})
	add("2x2-mixed", lib.Pick(c, 1, 2), []int{3, B + 1}, []int{B, 2})
	add("3x1-mixed", lib.Pick(c, 2, 2), []int{5}, []int{B + 1}, []int{1})
	if c.Quick() {
		scs[len(scs)-1].delay = true // 3 sessions: delay bounding in the quick tier
		scs[len(scs)-2].delay = true // 2 sessions x 2 requests: likewise
		scs[len(scs)-2].bound = 2
	} else {
		scs[len(scs)-1].bound = 1
		add("2x1-huge", 2, []int{70000}, []int{7})
		add("3x2-small", 3, []int{1, 2}, []int{3, 4}, []int{5, 6})
		scs[len(scs)-1].delay = true // millions of schedules without any preemption: delay bounding
	}
	var out []*sched.Scenario
	for _, s := range scs {
		s := s
		fc := 0
		if s.delay {
			fc = 1
		}
		out = append(out, &sched.Scenario{Name: s.name, MaxBound: s.bound, MaxSteps: 40000, FreeCost: fc,
			New: func() sched.Execution { return &muxExec{sc: s} }})
	}
	return out
}
