// C40 Client-server access behaves like local access.
//
// Scenario groups:
//   - seqdiff (seqdiff.go): sequential differential half (b) - operation
//     sequences executed directly on DbmsLocal and through DbmsClient <-> the
//     real server connection code over an in-memory pipe, results compared.
//   - (a) the concurrent mux half is added by a separate scenario group.
package main

import (
	"encoding/json"
	"strings"

	_ "github.com/apmckinlay/gsuneido/builtin" // Exec / Run / Database.Schema need the builtins

	"verif/lib"
	"verif/sched"
)

func run(c *lib.Ctx) {
	// (a) the multiplexer under the controlled scheduler (muxconc.go)
	// (thorough tier: at most 60% of the budget, so that part (b) is not starved;
	// the scenarios share it fairly)
	restore := func() {}
	if !c.Quick() {
		restore = c.Slice(0.6)
	}
	sched.ExploreAll(c, muxScenarios(c))
	restore()
	// (b) sequential differential local vs client-server (seqdiff.go)
	seqdiff(c)
}

func replay(c *lib.Ctx, raw json.RawMessage) {
	var probe struct {
		Scenario string `json:"scenario"`
	}
	if json.Unmarshal(raw, &probe) == nil && strings.HasPrefix(probe.Scenario, "mux/") {
		sched.Replay(c, muxScenarios(c), raw)
		return
	}
	seqdiffReplay(c, raw)
}

func main() {
	lib.Main(lib.Spec{
		ID:    "C40",
		Level: "exploration",
		Rule: "mux: every schedule (lock/atomic/channel/pipe-read granularity) within the deviation bound (preemptions + short reads of 1 byte or up to the 9 byte header) of 2-3 client sessions on one connection sending 1-2 requests of boundary sizes through the real mux reader, writer and worker pool; " +
			"seqdiff: every operation sequence on top of 6 handle-opening prefixes over the IDbms/ITran/IQuery/ICursor alphabet (100 operations): " +
			"2 levels = (operations that change handles or data) x (all); thorough adds 3 levels = (core changing operations)^2 x (all); " +
			"executed in lockstep on DbmsLocal and on DbmsClient<->real server connection over net.Pipe+TLS with identical fresh databases; " +
			"an evaluation = one sequence whose last operation is applicable (distinct by construction)",
		Assumptions: []string{
			"the local execution is the reference; only nonce/token (length), timestamp (type) and transaction numbers (count) are normalised, and the documented ' (from server)' suffix is removed from error texts",
			"operations that exist only client-server or only locally by design are excluded: Connections, Kill, Use, Unuse, DisableTrigger, Auth, Dump, Load",
			"handles are not used after their transaction ended (the language layer prevents it)",
			"schema changes of a table are not issued while an update transaction is open: the moment that transaction notices its abort (conflict with exclusive) is a race inside db19 on either side",
			"seqdiff is one session, sequential; fragmentation and concurrent sessions are the mux scenario group, where dbms/mux/mux.go, workers.go and util/atomics run under the controlled scheduler over an in-memory duplex (outside a controlled execution the shim falls back to the real primitives, so seqdiff runs with real goroutines)",
		},
		Procs:          16,
		ProcMaxProcs:   1,
		QuickBudget:    110,
		ThoroughBudget: 840,
		Run:            run,
		Replay:         replay,
	})
}
