// C21 Schema changes keep metadata consistent.
//
// Explicit-state breadth-first search over sequences of admin REQUEST STRINGS
// (through query.DoAdmin, so the admin parser is included) and a few data
// transactions, on a real db19 database (in-memory store, real
// checker/merger pipeline). Alphabet: valid and invalid create / ensure /
// alter create|drop|rename / rename / view / drop requests over the tables
// a, b (foreign key into a, block and cascade variants) and c (self
// referencing foreign key), with rows present. Successor = replay of the
// shortest path on a fresh database + one event; states are deduplicated on
// the canonical state of the reference model (dbmodel).
//
// Oracle after every transition (reference model = verif/model/dbmodel):
//   - the request succeeds exactly when the model says it must, and a refused
//     request leaves everything unchanged;
//   - every table has a key, every index refers to existing columns;
//   - foreign-key links agree with the model in both directions (Fk and
//     FkToHere, with correct positions IIndex, modes, columns);
//   - Database.Schema text equals the model's, and the re-parsable schema text
//     parses back (admin parser) to the same definition;
//   - rows read through EVERY index are the model's rows, ordered by the index,
//     Info nrows/size agree with the data;
//   - differential: after close + reopen (metadata re-read, linkFkeys) the same
//     comparison holds again, and Database.Check (quick and full) passes.
package main

import (
	"encoding/json"
	"slices"
	"strings"

	"verif/lib"
	"verif/model/dbmodel"
	"verif/model/dbmodel/drive"
)

type M = map[string]string

func ix(mode byte, cols string, fk ...any) dbmodel.Index {
	x := dbmodel.Index{Mode: mode}
	if cols != "" {
		x.Cols = strings.Split(cols, ",")
	} else {
		x.Cols = []string{}
	}
	if len(fk) > 0 {
		x.FkTable = fk[0].(string)
		if len(fk) > 1 && fk[1].(string) != "" {
			x.FkCols = strings.Split(fk[1].(string), ",")
		}
		if len(fk) > 2 {
			x.FkMode = fk[2].(int)
		}
	}
	return x
}

func req(kind, table, cols string, idx ...dbmodel.Index) drive.Event {
	r := dbmodel.Req{Kind: kind, Table: table, Idx: idx}
	if cols == "-" {
		r.NoCols = true
	} else if cols != "" {
		r.Cols = strings.Split(cols, ",")
	}
	return drive.Admin(r)
}

func colRename(table string, pairs ...string) drive.Event {
	r := dbmodel.Req{Kind: "alter_rename", Table: table}
	for i := 0; i+1 < len(pairs); i += 2 {
		r.From = append(r.From, pairs[i])
		r.To = append(r.To, pairs[i+1])
	}
	return drive.Admin(r)
}

func tblRename(from, to string) drive.Event {
	return drive.Admin(dbmodel.Req{Kind: "rename", From: []string{from}, To: []string{to}})
}

func view(name, def string) drive.Event {
	return drive.Admin(dbmodel.Req{Kind: "view", Table: name, Def: def})
}

func drop(name string) drive.Event { return drive.Admin(dbmodel.Req{Kind: "drop", Table: name}) }

func ins(table string, rows ...M) drive.Event {
	var ops []dbmodel.RowOp
	for _, r := range rows {
		ops = append(ops, dbmodel.RowOp{Kind: "insert", Table: table, Row: r})
	}
	return drive.Tx(ops...)
}

// alphabet returns the event alphabet. The quick tier uses the core subset.
func alphabet(thorough bool) []drive.Event {
	evs := []drive.Event{
		// creates: plain, with a foreign key (block), self referencing
		// (the droppable plain index comes first so that dropping it shifts the
		// position of the key / of the foreign key index: IIndex bookkeeping)
		req("create", "a", "k,x,y", ix('i', "x"), ix('k', "k")),
		req("create", "b", "k,ak,z", ix('i', "z"), ix('k', "k"), ix('i', "ak", "a", "k")),
		req("create", "c", "k,p", ix('k', "k"), ix('i', "p", "c", "k")),
		// data
		ins("a", M{"k": "1", "x": "p", "y": "1"}, M{"k": "2", "x": "p"}),
		ins("b", M{"k": "1", "ak": "1"}, M{"k": "2"}),
		// ensure: add column + index / existing index with a different definition
		req("ensure", "a", "x,w", ix('i', "w")),
		req("ensure", "b", "k,ak", ix('k', "k"), ix('u', "ak")),
		req("ensure", "a", "-", ix('k', "x")), // key over a column with duplicates when rows exist
		// alter create: column + unique index, a foreign key to the self referencing table, a key over fk column
		req("alter_create", "a", "v", ix('u', "v")),
		req("alter_create", "a", "-", ix('i', "y", "c", "k")),
		req("alter_create", "b", "-", ix('k', "ak")),
		// alter drop: index, key (used by foreign key / last key / best key), columns
		req("alter_drop", "a", "-", ix('i', "x")),
		req("alter_drop", "a", "-", ix('k', "k")),
		req("alter_drop", "a", "y"),
		req("alter_drop", "b", "-", ix('i', "ak")),
		req("alter_drop", "b", "-", ix('i', "z")),
		// alter rename: fk target column, fk source column, self reference, to an existing column
		colRename("a", "k", "id"),
		colRename("b", "ak", "aid"),
		colRename("c", "k", "id"),
		colRename("a", "x", "y"),
		// rename table: referenced table, referencing table, self referencing table
		tblRename("a", "d"),
		tblRename("b", "e"),
		tblRename("c", "f"),
		// views
		view("v", "a join b"),
		view("a", "b"),
		drop("v"),
		// drops
		drop("a"),
		drop("b"),
		drop("c"),
		// system table
		drop("tables"),
		// persist: a table created and dropped between two persists takes the
		// "never persisted, no tombstone" path of Meta.Drop
		drive.Persist(),
	}
	if thorough {
		evs = append(evs,
			req("create", "b", "k,ak", ix('k', "k"), ix('i', "ak", "a", "k", dbmodel.Cascade)),
			req("create", "a", "k,x", ix('i', "x")), // no key
			req("create", "indexes", "k", ix('k', "k")),
			req("create", "d", "k,K2", ix('k', "k"), ix('u', "k,k")), // weird but legal? duplicate column in an index
			ins("c", M{"k": "1"}, M{"k": "2", "p": "1"}),
			drive.Tx(dbmodel.RowOp{Kind: "delete", Table: "a", Row: M{"k": "1"}}),
			req("alter_drop", "a", "x"),
			req("alter_drop", "a", "q"),
			req("alter_create", "a", "x"),
			req("alter_create", "c", "-", ix('i', "k,p")),
			req("ensure", "c", "k,p,q", ix('k', "k"), ix('i', "p", "c", "k"), ix('i', "q", "a", "k", dbmodel.CascadeUpdate)),
			colRename("a", "x", "t", "y", "x"),
			tblRename("e", "b"),
			tblRename("a", "b"),
			view("tables", "a"),
		)
	}
	return evs
}

// absStep is the abstract persistence state that the search distinguishes in
// addition to the model state: "" before the first persist, afterwards "P:" +
// the sorted names of the tables created since the last persist.
func absStep(abs string, ev drive.Event, before, after *dbmodel.DB) string {
	if ev.Kind == "persist" {
		return "P:"
	}
	if abs == "" || ev.Kind != "admin" || before == after {
		return abs
	}
	var fresh []string
	if abs != "P:" {
		fresh = strings.Split(abs[2:], ",")
	}
	r := ev.Req
	switch r.Kind {
	case "create":
		fresh = append(fresh, r.Table)
	case "ensure":
		if before.Tables[r.Table] == nil {
			fresh = append(fresh, r.Table)
		}
	case "drop":
		fresh = slices.DeleteFunc(fresh, func(t string) bool { return t == r.Table })
	case "rename":
		for i, t := range fresh {
			if t == r.From[0] {
				fresh[i] = r.To[0]
			}
		}
	}
	slices.Sort(fresh)
	return "P:" + strings.Join(fresh, ",")
}

type failCase struct {
	Events []drive.Event `json:"events"`
	Text   []string      `json:"text"`
}

// judge: the full oracle on the state reached after the last event.
func judge(s *drive.Sys, path []drive.Event, changed bool) []drive.Violation {
	last := path[len(path)-1]
	var vs []drive.Violation
	add := func(where string, ds []string) {
		for _, d := range ds {
			vs = append(vs, drive.Violation{Msg: where + ": " + d})
		}
	}
	o := drive.Observe(s.DB)
	before := o.Text()
	add("after "+last.String(), drive.CompareObs(o, s.M, drive.CompareOpts{}))
	add("after "+last.String(), drive.Reparse(o, s.M))
	if !changed {
		// a refused (or no-op) request: the live comparison above shows that
		// nothing changed; the reopen differential was done when this state
		// was first reached
		add("after "+last.String(), s.CheckDb())
		return vs
	}
	// differential: close + reopen re-links the foreign keys from the stored
	// schema; it must give the same picture as the incremental bookkeeping
	if m := s.Apply(drive.Reopen()); m != "" {
		vs = append(vs, drive.Violation{Msg: m})
		return vs
	}
	o2 := drive.Observe(s.DB)
	add("after "+last.String()+" and close+reopen", drive.CompareObs(o2, s.M, drive.CompareOpts{}))
	if after := o2.Text(); after != before {
		vs = append(vs, drive.Violation{Msg: "after " + last.String() +
			": the database reads differently after close+reopen:\nbefore:\n" + before + "after:\n" + after})
	}
	add("after "+last.String()+" and close+reopen", s.CheckDb())
	return vs
}

func run(c *lib.Ctx) {
	defer drive.Quiet()()
	evs := alphabet(!c.Quick())
	depth := lib.Pick(c, 4, 5)
	seedDepth := lib.Pick(c, 3, 4)
	c.Set("alphabet", drive.EventsText(evs))
	c.Set("alphabet_size", len(evs))
	c.Set("max_depth_from_empty", depth)
	c.Set("max_depth_from_seed", seedDepth)
	fail := func(v drive.Violation, path []drive.Event) {
		c.Fail(v.Class, failCase{Events: path, Text: drive.EventsText(path)}, "%s\n  history: %s",
			v.Msg, strings.Join(drive.EventsText(path), " ; "))
	}
	// 1. from the empty database
	x := &drive.Explorer{C: c, Events: evs, MaxDepth: depth, New: drive.NewHeap, Abs: absStep, Judge: judge, Fail: fail}
	x.Run(nil)
	// 2. from a populated, fully linked database (non-initial seed): a, b -> a,
	// self referencing c, rows in all three, a view
	seed := []drive.Event{evs[0], evs[1], evs[2], evs[3], evs[4],
		ins("c", M{"k": "1"}, M{"k": "2", "p": "1"}), view("v", "a join b")}
	c.Set("seed", drive.EventsText(seed))
	x2 := &drive.Explorer{C: c, Events: evs, MaxDepth: seedDepth, New: drive.NewHeap, Abs: absStep, Judge: judge, Fail: fail}
	x2.Run(seed)
	if c.Shard == 0 {
		c.Set("bfs_states_from_empty", x.States)
		c.Set("bfs_transitions_from_empty", x.Transitions)
		c.Set("bfs_states_from_seed", x2.States)
		c.Set("bfs_transitions_from_seed", x2.Transitions)
	}
	if c.Shard == 0 {
		// a sample: the state reached by a typical path
		h := []drive.Event{evs[0], evs[1], evs[3], evs[4], evs[15]}
		s, _, _ := drive.Replay(drive.NewHeap, h)
		c.Sample(map[string]any{"history": drive.EventsText(h),
			"schema_a": s.DB.Schema("a"), "schema_b": s.DB.Schema("b"), "model": s.M.Canon()})
		s.Close()
	}
}

func replay(c *lib.Ctx, raw json.RawMessage) {
	var fc failCase
	if err := json.Unmarshal(raw, &fc); err != nil {
		lib.Infra("bad case: %v", err)
	}
	s, bad, msg := drive.Replay(drive.NewHeap, fc.Events)
	defer s.Close()
	if bad >= 0 {
		c.Fail("", fc, "%s", msg)
		return
	}
	if len(fc.Events) == 0 {
		return
	}
	for _, v := range judge(s, fc.Events, true) {
		c.Fail(v.Class, fc, "%s", v.Msg)
	}
}

func main() {
	lib.Main(lib.Spec{
		ID:    "C21",
		Level: "model_checking",
		Rule: "BFS over sequences of admin request strings (+ data transactions) of the alphabet, every transition executed on a fresh real database by replaying the shortest path; " +
			"evaluations = transitions executed and judged; distinct = canonical reference-model states reached (hashed)",
		Assumptions: []string{
			"reference model verif/model/dbmodel (written from suneidoc Database/Administration + Foreign Keys and the anchored code for refusal conditions) is the oracle",
			"values are short strings; index order is checked on the index columns only",
			"bounded to the request alphabet and depth reported in coverage",
		},
		QuickBudget: 70, ThoroughBudget: 800,
		Procs: 16,
		Run:   run, Replay: replay,
	})
}
