// C20 Dump, load and compact preserve the logical database.
//
// Source databases = every state of a model-side breadth-first search over
// histories (create / ensure / alter drop|rename / view / drop, inserts,
// updates, deletes on tables a, b -> a (foreign key), c (self referencing))
// plus fixed "feature" databases (dropped columns => "-" placeholders,
// trailing empty fields, a 70 KB field, foreign keys into and out of the same
// table, views, empty table, recursive foreign key, key(), unique index with
// several empty values, many dead record versions). Every source database is
// built for real in a database FILE (mmap store, real checker/merger pipeline)
// by replaying its shortest history, closed, and then for each one:
//
//	DumpDatabase -> LoadDatabase        compare, CheckDatabase(full), dump again: byte-identical
//	Compact (on a copy)                 compare, CheckDatabase(full)
//	DumpTable -> LoadTable (each table) compare that table (tables with foreign keys: refused, documented)
//
// "compare" = the resulting database, opened from its file, shows the reference
// model's logical state: same tables, columns without the dropped-column
// placeholders, derived columns, the same indexes/keys/foreign keys (any
// index order after load), links re-established in both directions, the same
// rows through every index, info nrows/size consistent, same views.
//
// Negative cases (the dump file is edited/spliced by the harness, which
// knows the simple dump format): a schema line that declares a key, or a
// unique index, over a column with duplicate values => LoadDatabase and
// LoadTable must refuse; a table section whose foreign key values have no
// target row => load accepts it (documented: foreign key data is not
// re-checked) and the rows are all there.
package main

import (
	"bytes"
	"encoding/binary"
	"encoding/json"
	"fmt"
	"os"
	"path/filepath"
	"runtime"
	"sort"
	"strings"

	"github.com/apmckinlay/gsuneido/core"
	"github.com/apmckinlay/gsuneido/db19"
	"github.com/apmckinlay/gsuneido/db19/stor"
	"github.com/apmckinlay/gsuneido/db19/tools"

	"verif/lib"
	"verif/model/dbmodel"
	"verif/model/dbmodel/drive"
)

type M = map[string]string

func ix(mode byte, cols string, fk ...any) dbmodel.Index {
	x := dbmodel.Index{Mode: mode, Cols: []string{}}
	if cols != "" {
		x.Cols = strings.Split(cols, ",")
	}
	if len(fk) > 0 {
		x.FkTable = fk[0].(string)
		if len(fk) > 1 && fk[1].(string) != "" {
			x.FkCols = strings.Split(fk[1].(string), ",")
		}
		if len(fk) > 2 {
			x.FkMode = fk[2].(int)
		}
	}
	return x
}

func req(kind, table, cols string, idx ...dbmodel.Index) drive.Event {
	r := dbmodel.Req{Kind: kind, Table: table, Idx: idx}
	if cols == "-" {
		r.NoCols = true
	} else if cols != "" {
		r.Cols = strings.Split(cols, ",")
	}
	return drive.Admin(r)
}

func colRename(table, from, to string) drive.Event {
	return drive.Admin(dbmodel.Req{Kind: "alter_rename", Table: table, From: []string{from}, To: []string{to}})
}

func view(name, def string) drive.Event {
	return drive.Admin(dbmodel.Req{Kind: "view", Table: name, Def: def})
}

func drop(name string) drive.Event { return drive.Admin(dbmodel.Req{Kind: "drop", Table: name}) }

func ins(table string, rows ...M) drive.Event {
	var ops []dbmodel.RowOp
	for _, r := range rows {
		ops = append(ops, dbmodel.RowOp{Kind: "insert", Table: table, Row: r})
	}
	return drive.Tx(ops...)
}

func del(table string, key M) drive.Event {
	return drive.Tx(dbmodel.RowOp{Kind: "delete", Table: table, Row: key})
}

func upd(table string, key, set M) drive.Event {
	return drive.Tx(dbmodel.RowOp{Kind: "update", Table: table, Row: key, Set: set})
}

func alphabet(thorough bool) []drive.Event {
	evs := []drive.Event{
		req("create", "a", "k,x,y", ix('i', "x"), ix('k', "k")),
		req("create", "b", "k,ak,v", ix('k', "k"), ix('i', "ak", "a", "k")),
		ins("a", M{"k": "1", "x": "p", "y": "q"}, M{"k": "2", "x": "p"}, M{"k": "3", "y": "r"}),
		ins("b", M{"k": "1", "ak": "1", "v": "w"}, M{"k": "2"}),
		req("alter_drop", "a", "y"),                  // trailing column dropped
		req("alter_drop", "a", "x", ix('i', "x")),    // middle column dropped (with its index)
		req("ensure", "a", "z", ix('u', "z")),        // new column + unique index (all values empty)
		colRename("a", "k", "id"),                    // fk target column renamed
		upd("a", M{"k": "2"}, M{"y": "s", "x": "o"}), // new record version
		del("b", M{"k": "1"}),
		view("v", "a join b"),
		drop("b"),
	}
	if thorough {
		evs = append(evs,
			req("create", "c", "k,p", ix('k', "k"), ix('i', "p", "c", "k")),
			ins("c", M{"k": "1"}, M{"k": "2", "p": "1"}),
			req("alter_create", "a", "w", ix('k', "k,w")),
			req("alter_drop", "b", "v"),
			del("a", M{"k": "3"}),
			drop("v"),
		)
	}
	return evs
}

func long(n int) string { return strings.Repeat("0123456789", n/10) }

// features: fixed histories for the feature databases.
func features() map[string][]drive.Event {
	return map[string][]drive.Event{
		"dropped-columns": {
			req("create", "t", "k,a,b,c,d", ix('k', "k"), ix('i', "d")),
			ins("t", M{"k": "1", "a": "A", "b": "B", "c": "C", "d": "D"}, M{"k": "2", "b": "B2"}, M{"k": "3", "c": "C3", "d": "D3"}),
			req("alter_drop", "t", "b"),
			req("alter_drop", "t", "c"),
			ins("t", M{"k": "4", "a": "A4"}),
			req("alter_create", "t", "e"),
			ins("t", M{"k": "5", "e": "E5"}),
		},
		"trailing-empty-fields": {
			req("create", "t", "k,a,b,c", ix('k', "k"), ix('i', "b,c")),
			ins("t", M{"k": "1"}, M{"k": "2", "a": "x"}, M{"k": "3", "c": "z"}, M{"a": "only-a"}),
			upd("t", M{"k": "3"}, M{"c": ""}),
		},
		"large-field": {
			req("create", "t", "k,big,after", ix('k', "k"), ix('i', "after")),
			ins("t", M{"k": "1", "big": long(70000), "after": "x"}, M{"k": "2", "big": long(300)}, M{"k": "3", "big": long(70000)}),
		},
		"fkeys-both-directions": {
			req("create", "top", "id,n", ix('k', "id")),
			req("create", "mid", "id,top_id,n", ix('k', "id"), ix('i', "top_id", "top", "id", dbmodel.Cascade)),
			req("create", "low", "id,mid_id", ix('k', "id"), ix('i', "mid_id", "mid", "id"), ix('i', "id,mid_id", "top", "id", dbmodel.CascadeUpdate)),
			ins("top", M{"id": "1"}, M{"id": "2"}),
			ins("mid", M{"id": "1", "top_id": "1"}, M{"id": "2", "top_id": "1"}, M{"id": "3"}),
			ins("low", M{"id": "1", "mid_id": "2"}, M{"id": "2"}),
			view("vw", "top join mid"),
		},
		"recursive-fkey": {
			req("create", "emp", "id,boss,name", ix('k', "id"), ix('i', "boss", "emp", "id")),
			ins("emp", M{"id": "1", "name": "root"}),
			ins("emp", M{"id": "2", "boss": "1"}, M{"id": "3", "boss": "2"}),
			colRename("emp", "id", "eid"),
		},
		"views-and-empty": {
			req("create", "empty", "k,a", ix('k', "k"), ix('u', "a")),
			view("v1", "empty"),
			view("empty", "v1 where a is 1"),
		},
		"only-views": {
			view("v1", "tables"),
			view("v2", "columns join indexes"),
		},
		"nothing": {},
		"key-empty-and-unique": {
			req("create", "one", "a,b", ix('k', "")),
			ins("one", M{"a": "x", "b": "y"}),
			req("create", "u", "k,a,b,Rule", ix('k', "k"), ix('u', "a"), ix('u', "a,b"), ix('i', "b,a")),
			ins("u", M{"k": "1"}, M{"k": "2"}, M{"k": "3", "a": "x"}, M{"k": "4", "a": "y", "b": "x"}, M{"k": "5", "b": "y"}),
		},
		"dead-versions": {
			req("create", "t", "k,n", ix('k', "k"), ix('i', "n")),
			ins("t", M{"k": "1", "n": "a"}, M{"k": "2", "n": "a"}, M{"k": "3", "n": "b"}),
			upd("t", M{"k": "1"}, M{"n": "c"}), upd("t", M{"k": "1"}, M{"n": "d"}), upd("t", M{"k": "2"}, M{"k": "9"}),
			del("t", M{"k": "3"}), ins("t", M{"k": "3", "n": "again"}),
			drive.Persist(), upd("t", M{"k": "9"}, M{"n": "z"}), drive.Reopen(), del("t", M{"k": "1"}),
		},
	}
}

// ---------------------------------------------------------------- file plumbing

var scratch string

func setupScratch() {
	scratch = fmt.Sprintf("/dev/shm/verif-c20-%d", os.Getpid())
	os.RemoveAll(scratch)
	if err := os.MkdirAll(scratch, 0o755); err != nil {
		lib.Infra("scratch: %v", err)
	}
}

// touchBak pre-creates <file>.bak: system.RenameBak retries os.Remove of a
// missing .bak for ~0.3 s otherwise.
func touchBak(file string) {
	os.WriteFile(file+".bak", nil, 0o644)
}

// touchBoth also pre-creates the target itself: RenameBak first renames the
// existing target to .bak and retries (sleeping) when there is none.
func touchBoth(file string) {
	os.WriteFile(file, nil, 0o644)
	touchBak(file)
}

func copyFile(from, to string) {
	b, err := os.ReadFile(from)
	if err != nil {
		lib.Infra("copy: %v", err)
	}
	if err := os.WriteFile(to, b, 0o644); err != nil {
		lib.Infra("copy: %v", err)
	}
}

var fatalMsg string

// observeFile opens a database file read-only (with the quick check) and
// reads everything.
func observeFile(file string) (*drive.Obs, error) {
	db, err := db19.OpenDb(file, stor.Read, true)
	if err != nil {
		return nil, err
	}
	defer db.Close()
	return drive.Observe(db), nil
}

type srcCase struct {
	Name   string        `json:"name"`
	Events []drive.Event `json:"events"`
	Text   []string      `json:"text"`
}

// ---------------------------------------------------------------- dump format (harness side)

// dumpSection is one "====== schema\n" + records section of a dump file.
type dumpSection struct {
	Schema  string
	Records [][]byte
}

func parseDump(b []byte) (header string, secs []dumpSection, err error) {
	i := bytes.IndexByte(b, '\n')
	if i < 0 {
		return "", nil, fmt.Errorf("no header")
	}
	header = string(b[:i+1])
	b = b[i+1:]
	for len(b) > 0 {
		if !bytes.HasPrefix(b, []byte("====== ")) {
			return "", nil, fmt.Errorf("bad section start")
		}
		j := bytes.IndexByte(b, '\n')
		sec := dumpSection{Schema: string(b[7:j])}
		b = b[j+1:]
		for {
			if len(b) < 4 {
				return "", nil, fmt.Errorf("truncated")
			}
			n := int(binary.BigEndian.Uint32(b))
			b = b[4:]
			if n == 0 {
				break
			}
			sec.Records = append(sec.Records, b[:n])
			b = b[n:]
		}
		secs = append(secs, sec)
	}
	return header, secs, nil
}

func writeDump(file, header string, secs []dumpSection) {
	var buf bytes.Buffer
	buf.WriteString(header)
	for _, s := range secs {
		buf.WriteString("====== " + s.Schema + "\n")
		for _, r := range s.Records {
			var n [4]byte
			binary.BigEndian.PutUint32(n[:], uint32(len(r)))
			buf.Write(n[:])
			buf.Write(r)
		}
		buf.Write([]byte{0, 0, 0, 0})
	}
	if err := os.WriteFile(file, buf.Bytes(), 0o644); err != nil {
		lib.Infra("write dump: %v", err)
	}
}

// ---------------------------------------------------------------- the check of one source database

type checker struct {
	c    *lib.Ctx
	n    int
	fail func(class string, sc srcCase, format string, a ...any)
}

func hasFk(t *dbmodel.Table) bool {
	for _, ix := range t.Idx {
		if ix.FkTable != "" {
			return true
		}
	}
	return false
}

// build replays the history on a fresh database file and closes it.
func build(dir string, evs []drive.Event) (*dbmodel.DB, string, string) {
	file := filepath.Join(dir, "src.db")
	s, bad, msg := drive.Replay(func() *drive.Sys {
		s, err := drive.NewFile(file)
		if err != nil {
			lib.Infra("create %s: %v", file, err)
		}
		return s
	}, evs)
	s.Close()
	if bad >= 0 {
		return nil, file, msg
	}
	return s.M, file, ""
}

func (ck *checker) source(sc srcCase) {
	c := ck.c
	ck.n++
	dir := filepath.Join(scratch, fmt.Sprint("s", ck.n))
	os.MkdirAll(dir, 0o755)
	defer os.RemoveAll(dir)
	if err := os.Chdir(dir); err != nil { // Compact/LoadDatabase create their temp files in "."
		lib.Infra("chdir: %v", err)
	}
	defer os.Chdir(scratch)
	fail := func(format string, a ...any) { ck.fail("", sc, format, a...) }

	m, src, msg := build(dir, sc.Events)
	if msg != "" {
		fail("building the source database: %s", msg)
		return
	}
	c.Eval(1)
	squeezedAny := drive.CompareOpts{Squeezed: true, AnyIndexOrder: true}
	squeezed := drive.CompareOpts{Squeezed: true}

	// sanity: the source file itself shows the model (clean close + reopen, on a real file)
	if o, err := observeFile(src); err != nil {
		fail("source database does not open: %v", err)
		return
	} else if d := drive.CompareObs(o, m, drive.CompareOpts{}); len(d) > 0 {
		fail("source database file after clean close: %s", strings.Join(d, "; "))
		return
	}

	// 1. dump -> load
	dump := filepath.Join(dir, "dump.su")
	touchBoth(dump)
	nT, nV, err := tools.DumpDatabase(src, dump)
	c.Transition(1)
	c.TraceValidated(1)
	if err != nil {
		fail("DumpDatabase: %v", err)
		return
	}
	if nT != len(m.Tables) || nV != len(m.Views) {
		fail("DumpDatabase reports %d tables %d views, model %d %d", nT, nV, len(m.Tables), len(m.Views))
	}
	loaded := filepath.Join(dir, "loaded.db")
	touchBoth(loaded)
	nT, nV, err = tools.LoadDatabase(dump, loaded, "", "")
	c.Transition(1)
	c.TraceValidated(1)
	if err != nil {
		fail("LoadDatabase of an unedited dump: %v", err)
	} else {
		if nT != len(m.Tables) || nV != len(m.Views) {
			fail("LoadDatabase reports %d tables %d views, model %d %d", nT, nV, len(m.Tables), len(m.Views))
		}
		if o, err := observeFile(loaded); err != nil {
			fail("loaded database does not open: %v", err)
		} else if d := drive.CompareObs(o, m, squeezedAny); len(d) > 0 {
			fail("after dump + load: %s", strings.Join(d, "; "))
		}
		if err := db19.CheckDatabase(loaded, true); err != nil {
			fail("CheckDatabase(full) of the loaded database: %v", err)
		}
		// dumping the loaded database gives the same bytes
		dump2 := filepath.Join(dir, "dump2.su")
		touchBoth(dump2)
		if _, _, err := tools.DumpDatabase(loaded, dump2); err != nil {
			fail("DumpDatabase of the loaded database: %v", err)
		} else {
			b1, _ := os.ReadFile(dump)
			b2, _ := os.ReadFile(dump2)
			if !bytes.Equal(b1, b2) {
				fail("dump of the loaded database differs from the dump it was loaded from (%d vs %d bytes)", len(b2), len(b1))
			}
		}
	}

	// 2. compact (on a copy)
	comp := filepath.Join(dir, "comp.db")
	copyFile(src, comp)
	touchBak(comp)
	fatalMsg = ""
	cT, cV, oldSize, newSize, err := tools.Compact(comp)
	c.Transition(1)
	c.TraceValidated(1)
	if err != nil || fatalMsg != "" {
		fail("Compact: %v %s", err, fatalMsg)
	} else {
		if cT != len(m.Tables) || cV != len(m.Views) {
			fail("Compact reports %d tables %d views, model %d %d", cT, cV, len(m.Tables), len(m.Views))
		}
		if o, err := observeFile(comp); err != nil {
			fail("compacted database does not open: %v", err)
		} else if d := drive.CompareObs(o, m, squeezed); len(d) > 0 {
			fail("after compact: %s", strings.Join(d, "; "))
		}
		if err := db19.CheckDatabase(comp, true); err != nil {
			fail("CheckDatabase(full) of the compacted database: %v", err)
		}
		c.Count("compact_bytes_before", int(oldSize))
		c.Count("compact_bytes_after", int(newSize))
	}

	// 3. single tables
	for _, tn := range m.TableNames() {
		mt := m.Tables[tn]
		tfile := filepath.Join(dir, tn+".su")
		touchBoth(tfile)
		n, err := tools.DumpTable(src, tn, tfile)
		c.Transition(1)
		c.TraceValidated(1)
		if err != nil {
			fail("DumpTable %s: %v", tn, err)
			continue
		}
		if n != len(mt.Rows) {
			fail("DumpTable %s reports %d records, model %d", tn, n, len(mt.Rows))
		}
		single := filepath.Join(dir, "single_"+tn+".db")
		n, err = tools.LoadTable(tn, single) // reads <table>.su from "."
		c.Transition(1)
		c.TraceValidated(1)
		if hasFk(mt) {
			// deliberately refused: "can't load single table with foreign keys"
			if err == nil {
				fail("LoadTable %s (table with foreign keys) succeeded", tn)
			} else {
				c.Count("single_table_loads_refused_for_fkeys", 1)
			}
			continue
		}
		if err != nil {
			fail("LoadTable %s: %v", tn, err)
			continue
		}
		if n != len(mt.Rows) {
			fail("LoadTable %s reports %d records, model %d", tn, n, len(mt.Rows))
		}
		only := dbmodel.New()
		only.Tables[tn] = mt
		if o, err := observeFile(single); err != nil {
			fail("database with the loaded table %s does not open: %v", tn, err)
		} else if d := drive.CompareObs(o, only, squeezedAny); len(d) > 0 {
			fail("after DumpTable + LoadTable %s: %s", tn, strings.Join(d, "; "))
		}
		if err := db19.CheckDatabase(single, true); err != nil {
			fail("CheckDatabase(full) after LoadTable %s: %v", tn, err)
		}
	}
	if ck.c.NSamples() < 3 && len(m.Tables) > 1 {
		b, _ := os.ReadFile(dump)
		_, secs, _ := parseDump(b)
		var lines []string
		for _, s := range secs {
			lines = append(lines, fmt.Sprintf("%s [%d records]", s.Schema, len(s.Records)))
		}
		c.Sample(map[string]any{"source": sc.Name, "history": sc.Text, "dump_sections": lines})
	}
}

// negative: edited dumps.
func (ck *checker) negative() {
	c := ck.c
	dir := filepath.Join(scratch, "neg")
	os.MkdirAll(dir, 0o755)
	defer os.RemoveAll(dir)
	os.Chdir(dir)
	defer os.Chdir(scratch)
	evs := []drive.Event{
		req("create", "a", "k,x,y", ix('k', "k"), ix('i', "x")),
		req("create", "b", "k,ak", ix('k', "k"), ix('i', "ak", "a", "k")),
		ins("a", M{"k": "1", "x": "p", "y": "q"}, M{"k": "2", "x": "p"}, M{"k": "3"}, M{"k": "4"}),
		ins("b", M{"k": "1", "ak": "1"}, M{"k": "2", "ak": "2"}, M{"k": "3"}),
	}
	sc := srcCase{Name: "negative", Events: evs, Text: drive.EventsText(evs)}
	fail := func(format string, a ...any) { ck.fail("", sc, format, a...) }
	m, src, msg := build(dir, evs)
	if msg != "" {
		fail("building: %s", msg)
		return
	}
	dump := filepath.Join(dir, "dump.su")
	touchBoth(dump)
	if _, _, err := tools.DumpDatabase(src, dump); err != nil {
		fail("DumpDatabase: %v", err)
		return
	}
	b, _ := os.ReadFile(dump)
	header, secs, err := parseDump(b)
	if err != nil {
		lib.Infra("harness cannot parse the dump: %v", err)
	}
	find := func(prefix string) int {
		for i, s := range secs {
			if strings.HasPrefix(s.Schema, prefix+" ") {
				return i
			}
		}
		lib.Infra("no section %s in dump", prefix)
		return -1
	}
	ai, bi := find("a"), find("b")
	type neg struct {
		name, table, old, new string
		refuse                bool
	}
	cases := []neg{
		// x has the duplicate value p; y has one value and otherwise empty
		{"key over duplicates", "a", "index(x)", "key(x)", true},
		{"unique index over duplicates", "a", "index(x)", "index unique(x)", true},
		{"plain index stays fine (control)", "a", "index(x)", "index(x,y)", false},
		{"key over a column with two empty values", "a", "index(x)", "key(y)", true},
		{"unique index over a column with several empty values", "a", "index(x)", "index unique(y)", false},
	}
	for _, nc := range cases {
		ed := append([]dumpSection(nil), secs...)
		if !strings.Contains(ed[ai].Schema, nc.old) {
			lib.Infra("dump schema line %q has no %q", ed[ai].Schema, nc.old)
		}
		ed[ai].Schema = strings.Replace(ed[ai].Schema, nc.old, nc.new, 1)
		f := filepath.Join(dir, "edited.su")
		writeDump(f, header, ed)
		out := filepath.Join(dir, "neg.db")
		touchBoth(out)
		_, _, err := tools.LoadDatabase(f, out, "", "")
		c.Eval(1)
		c.Transition(1)
		c.TraceValidated(1)
		c.Distinct("neg-db-" + nc.name)
		if nc.refuse && err == nil {
			fail("LoadDatabase accepted a dump whose schema line says %q (%s)", ed[ai].Schema, nc.name)
		}
		if !nc.refuse && err != nil {
			fail("LoadDatabase refused %q (%s): %v", ed[ai].Schema, nc.name, err)
		}
		// single table form: the file starts with the header and the table's section without the table name
		tf := filepath.Join(dir, "a.su")
		one := ed[ai]
		one.Schema = strings.TrimPrefix(one.Schema, "a ")
		writeDump(tf, header, []dumpSection{one})
		sdb := filepath.Join(dir, "negsingle.db")
		os.Remove(sdb)
		_, err = tools.LoadTable("a", sdb)
		c.Eval(1)
		c.Transition(1)
		c.TraceValidated(1)
		c.Distinct("neg-table-" + nc.name)
		if nc.refuse && err == nil {
			fail("LoadTable accepted a table dump whose schema line says %q (%s)", one.Schema, nc.name)
		}
		if !nc.refuse && err != nil {
			fail("LoadTable refused %q (%s): %v", one.Schema, nc.name, err)
		}
	}
	// foreign key data without a target: drop the rows k=1 and k=2 from a's section
	ed := append([]dumpSection(nil), secs...)
	var keep [][]byte
	for _, r := range ed[ai].Records {
		k := core.Record(string(r)).GetStr(colPos(ed[ai].Schema, "k"))
		if k != "1" && k != "2" {
			keep = append(keep, r)
		}
	}
	ed[ai].Records = keep
	f := filepath.Join(dir, "fk.su")
	writeDump(f, header, ed)
	out := filepath.Join(dir, "fk.db")
	touchBoth(out)
	_, _, err = tools.LoadDatabase(f, out, "", "")
	c.Eval(1)
	c.Transition(1)
	c.TraceValidated(1)
	c.Distinct("neg-fk")
	if err != nil {
		fail("LoadDatabase refused a dump whose foreign key values have no target row (documented as not checked): %v", err)
	} else {
		m2 := m.Clone()
		var rows []dbmodel.Row
		for _, r := range m2.Tables["a"].Rows {
			if r["k"] != "1" && r["k"] != "2" {
				rows = append(rows, r)
			}
		}
		m2.Tables["a"].Rows = rows
		if o, err := observeFile(out); err != nil {
			fail("database loaded from the foreign key dump does not open: %v", err)
		} else if d := drive.CompareObs(o, m2, drive.CompareOpts{Squeezed: true, AnyIndexOrder: true}); len(d) > 0 {
			fail("after loading the foreign key dump: %s", strings.Join(d, "; "))
		}
	}
	_ = bi
}

// colPos: position of a column in a dump schema line "t (c1,c2,...) ...".
func colPos(schema, col string) int {
	i, j := strings.Index(schema, "("), strings.Index(schema, ")")
	for n, c := range strings.Split(schema[i+1:j], ",") {
		if c == col {
			return n
		}
	}
	lib.Infra("column %s not in %q", col, schema)
	return -1
}

func sources(c *lib.Ctx) []srcCase {
	var out []srcCase
	fs := features()
	var names []string
	for n := range fs {
		names = append(names, n)
	}
	sort.Strings(names)
	for _, n := range names {
		out = append(out, srcCase{Name: "feature " + n, Events: fs[n], Text: drive.EventsText(fs[n])})
	}
	depth := lib.Pick(c, 5, 7)
	for i, st := range drive.EnumerateStates(alphabet(!c.Quick()), nil, depth) {
		out = append(out, srcCase{Name: fmt.Sprint("bfs state ", i), Events: st.Path, Text: drive.EventsText(st.Path)})
	}
	return out
}

func initGlobals() {
	drive.Init()
	// compactTable reports a failure through core.Fatal from a worker
	// goroutine; make that observable instead of exiting the process
	core.Exit = func(int) {
		fatalMsg = "core.Fatal called"
		runtime.Goexit()
	}
}

func run(c *lib.Ctx) {
	defer drive.Quiet()()
	initGlobals()
	setupScratch()
	defer os.RemoveAll(scratch)
	os.Chdir(scratch)
	srcs := sources(c)
	ck := &checker{c: c}
	ck.fail = func(class string, sc srcCase, format string, a ...any) {
		c.Fail(class, sc, "%s: %s\n  history: %s", sc.Name, fmt.Sprintf(format, a...), strings.Join(sc.Text, " ; "))
	}
	if c.Shard == 0 {
		c.Set("source_databases", len(srcs))
		c.Set("bfs_depth", lib.Pick(c, 5, 7))
		c.Set("alphabet", drive.EventsText(alphabet(!c.Quick())))
		c.State(len(srcs))
		ck.negative()
	}
	for i, sc := range srcs {
		if i%c.NShards != c.Shard {
			continue
		}
		if c.Expired() {
			c.Cap("stopped after %d of %d source databases", i, len(srcs))
			break
		}
		c.Distinct(strings.Join(sc.Text, ";"))
		ck.source(sc)
	}
}

func replay(c *lib.Ctx, raw json.RawMessage) {
	defer drive.Quiet()()
	initGlobals()
	setupScratch()
	defer os.RemoveAll(scratch)
	os.Chdir(scratch)
	var sc srcCase
	if err := json.Unmarshal(raw, &sc); err != nil {
		lib.Infra("bad case: %v", err)
	}
	ck := &checker{c: c}
	ck.fail = func(class string, sc srcCase, format string, a ...any) {
		c.Fail(class, sc, "%s: %s", sc.Name, fmt.Sprintf(format, a...))
	}
	if sc.Name == "negative" {
		ck.negative()
		return
	}
	ck.source(sc)
}

func main() {
	lib.Main(lib.Spec{
		ID:    "C20",
		Level: "model_checking",
		Rule: "states = source databases (every model state of a BFS over histories + fixed feature databases), each built for real in a database file; " +
			"transitions = tool runs (dump, load, compact, table dump, table load, edited-dump loads) executed on the real files and judged against the reference model; " +
			"evaluations = source databases processed + negative cases; distinct = distinct source histories / negative cases",
		Assumptions: []string{
			"reference model verif/model/dbmodel is the oracle for the logical content; dropped-column placeholders may disappear, index order may change after load",
			"the harness parses/edits the dump format itself (header line, '====== schema' lines, 4-byte length prefixed records)",
			"single-table load of a table with foreign keys is refused by design (tools/load.go tableSchema)",
			"encrypted dumps (publicKey) are not covered",
		},
		QuickBudget: 70, ThoroughBudget: 600,
		Procs: 16,
		Run:   run, Replay: replay,
	})
}
