// Standalone reproductions of the C08 findings, through the query layer
// (admin requests and actions, as an application would issue them).
//
//	cd /verif && ./check C08 quick >/dev/null; cd engine &&
//	GOFLAGS=-mod=mod GOPROXY=off go run -tags verif -overlay /verif/build/c08/overlay.json ./checks/c08/repro
package main

import (
	"fmt"
	"io"
	"log"
	"time"

	"github.com/apmckinlay/gsuneido/db19"
	"github.com/apmckinlay/gsuneido/db19/stor"
	_ "github.com/apmckinlay/gsuneido/dbms" // wires MakeSuTran
	qry "github.com/apmckinlay/gsuneido/dbms/query"
)

type dbx struct{ *db19.Database }

func newDb() dbx {
	db := db19.CreateDb(stor.HeapStor(8192))
	db19.StartConcur(db, time.Hour)
	return dbx{db}
}

func (d dbx) adm(s string) { qry.DoAdmin(d.Database, s, nil) }

func (d dbx) act(s string) {
	func() {
		defer func() {
			if e := recover(); e != nil {
				fmt.Printf("    %-55s => ERROR %v\n", s, e)
			}
		}()
		ut := d.NewUpdateTran()
		n := qry.DoAction(nil, ut, s)
		if r := ut.Complete(); r != "" {
			fmt.Printf("    %-55s => commit failed: %s\n", s, r)
			return
		}
		fmt.Printf("    %-55s => ok (%d)\n", s, n)
	}()
}

func (d dbx) check() {
	if err := d.Check(true); err != nil {
		fmt.Println("    Database.Check(full)  => ", err)
	} else {
		fmt.Println("    Database.Check(full)  =>  ok")
	}
}

func main() {
	log.SetOutput(io.Discard)

	fmt.Println("F2 delete-target-under-cascade-update: the delete must be refused")
	d := newDb()
	d.adm("create cust (id, name) key(id)")
	d.adm("create hist (n, id) key(n) index(id) in cust cascade update")
	d.act("insert { id: 1, name: 'fred' } into cust")
	d.act("insert { n: 1, id: 1 } into hist")
	d.act("delete cust where id is 1")
	d.check()

	fmt.Println("update-fk-to-own-old-key: the update must be refused (no row 1 afterwards)")
	d = newDb()
	d.adm("create r (id, parent) key(id) index(parent) in r(id)")
	d.act("insert { id: 1 } into r")
	d.act("update r where id is 1 set id = 2, parent = 1")
	d.check()

	fmt.Println("cascade-delete-cycle: the delete must remove the row (it cascades to itself)")
	d = newDb()
	d.adm("create r (id, parent) key(id) index(parent) in r(id) cascade")
	d.act("insert { id: 1 } into r")
	d.act("update r where id is 1 set parent = 1")
	d.act("delete r where id is 1")
	d.check()

	fmt.Println("update-key-of-self-referencing-row-cascade: the update must give (2, '')")
	d = newDb()
	d.adm("create r (id, parent) key(id) index(parent) in r(id) cascade")
	d.act("insert { id: 1 } into r")
	d.act("update r where id is 1 set parent = 1")
	d.act("update r where id is 1 set id = 2, parent = ''")
	d.check()

	fmt.Println("side finding: Check(full) false alarm for a composite foreign key with an empty last field")
	d = newDb()
	d.adm("create p (a, b) key(a, b)")
	d.adm("create c (k, a, b) key(k) index(a, b) in p")
	d.act("insert { a: 'x' } into p")
	d.act("insert { k: 1, a: 'x' } into c")
	d.check()

	fmt.Println("observation: key change of a target row with an EMPTY key cascades to every source row with an empty foreign key (delete does not)")
	d = newDb()
	d.adm("create p (pk, d) key(pk)")
	d.adm("create c (ck, fk) key(ck) index(fk) in p(pk) cascade")
	d.act("insert { d: 1 } into p")
	d.act("insert { ck: 1 } into c")
	d.act("update p set pk = 'a'")
	rt := d.NewReadTran()
	q := qry.ParseQuery("c", rt, nil)
	q, _, _ = qry.Setup(q, qry.ReadMode, rt)
	row := q.Get(nil, '+')
	fmt.Printf("    c now holds fk = %q\n", row.GetRaw(q.Header(), "fk"))
}
