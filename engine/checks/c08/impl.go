// The implementation side: a real db19.Database on a heap stor with the
// synchronous checker (no goroutines). One transaction = NewUpdateTran, the
// operations through UpdateTran.Output / Delete / Update (the code that
// enforces foreign keys: db19/tran.go), then CommitMerge.
package main

import (
	"fmt"
	"strings"

	"github.com/apmckinlay/gsuneido/core"
	"github.com/apmckinlay/gsuneido/db19"
	"github.com/apmckinlay/gsuneido/db19/index"
	"github.com/apmckinlay/gsuneido/db19/stor"
	qry "github.com/apmckinlay/gsuneido/dbms/query"

	"verif/lib"
)

// the widest possible index range (ixkey.Min .. ixkey.Max written out)
var allRange = index.Range{Org: "", End: "\xff\xff\xff\xff\xff\xff\xff\xff"}

type impl struct {
	sc *schemaDef
	db *db19.Database
}

func newImpl(sc *schemaDef) *impl {
	db := db19.CreateDb(stor.HeapStor(8192))
	db.CheckerSync()
	for i := range sc.Tables {
		qry.DoAdmin(db, sc.Tables[i].Admin, nil)
	}
	return &impl{sc: sc, db: db}
}

func mkrec(r row) core.Record {
	var rb core.RecordBuilder
	for _, v := range r {
		rb.AddRaw(v)
	}
	return rb.Trim().Build()
}

// findRow returns the offset of the row equal to r by scanning index 0 inside
// the transaction (so it sees the transaction's own changes); 0 if absent.
func (im *impl) findRow(ut *db19.UpdateTran, t int, r row) uint64 {
	td := &im.sc.Tables[t]
	it := index.NewOverIter(td.Name, 0)
	it.Range(allRange)
	for it.Next(ut); !it.Eof(); it.Next(ut) {
		_, off := it.Cur()
		rec := ut.GetRecord(off)
		same := true
		for c := range td.Cols {
			if rec.GetRaw(c) != r[c] {
				same = false
				break
			}
		}
		if same {
			return off
		}
	}
	return 0
}

// opResult is the observable outcome of one operation.
type opResult struct {
	Err     string // "" = no error
	Runtime bool   // a Go runtime error or failed assertion (never a legitimate refusal)
	Missing bool   // the row to delete/update was not found (harness desync)
}

// txnResult of one transaction.
type txnResult struct {
	Ops       []opResult
	Committed bool   // false: the implementation aborted the transaction
	AbortMsg  string // the message of the liveness probe when aborted
	// CommitPanic: committing / merging the transaction panicked (in production
	// the merge runs in a background goroutine and ends the process)
	CommitPanic string
}

func (im *impl) runTxn(ops []op) txnResult {
	var res txnResult
	ut := im.db.NewUpdateTran()
	// liveness probe through the public API: any read on an ended
	// transaction panics ("transaction aborted ..." / "already ended")
	alive := func() bool {
		if e := lib.Try(func() { ut.Read(im.sc.Tables[0].Name, 0, "", "") }); e != nil {
			res.AbortMsg = lib.PanicText(e)
			return false
		}
		return true
	}
	for _, o := range ops {
		var r opResult
		name := im.sc.Tables[o.T].Name
		e := lib.Try(func() {
			switch o.Kind {
			case "insert":
				ut.Output(nil, name, mkrec(o.New))
			case "delete":
				off := im.findRow(ut, o.T, o.Old)
				if off == 0 {
					r.Missing = true
					return
				}
				ut.Delete(nil, name, off)
			case "update":
				off := im.findRow(ut, o.T, o.Old)
				if off == 0 {
					r.Missing = true
					return
				}
				ut.Update(nil, name, off, mkrec(o.New))
			}
		})
		if e != nil {
			r.Err = lib.PanicText(e)
			if r.Err == "" {
				r.Err = fmt.Sprint(e)
			}
			r.Runtime = lib.IsRuntimeError(e) || strings.Contains(r.Err, "ASSERT FAILED") ||
				strings.Contains(r.Err, "assert failed")
		}
		res.Ops = append(res.Ops, r)
		if r.Err != "" && !alive() {
			// the failed operation aborted the transaction: the remaining
			// operations are not issued (they would run on a dead transaction)
			ut.Abort()
			return res
		}
	}
	if !alive() {
		ut.Abort()
		return res
	}
	if e := lib.Try(func() { im.db.CommitMerge(ut) }); e != nil {
		res.CommitPanic = lib.PanicText(e)
		if res.CommitPanic == "" {
			res.CommitPanic = fmt.Sprint(e)
		}
		return res
	}
	res.Committed = true
	return res
}

// read returns the committed content of every table (through index 0).
func (im *impl) read() mstate {
	rt := im.db.NewReadTran()
	st := make(mstate, len(im.sc.Tables))
	for t := range im.sc.Tables {
		td := &im.sc.Tables[t]
		it := rt.IndexIter(td.Name, 0)
		it.Range(allRange)
		for it.Next(rt); !it.Eof(); it.Next(rt) {
			_, off := it.Cur()
			rec := rt.GetRecord(off)
			r := make(row, len(td.Cols))
			for c := range td.Cols {
				r[c] = rec.GetRaw(c)
			}
			st[t] = append(st[t], r)
		}
	}
	st.sortRows()
	return st
}

// persistAndCheck writes the state (index layers merged into the btrees) and
// runs the database's own full check. Returns its complaint or "".
func (im *impl) persistAndCheck() string {
	var msg string
	e := lib.Try(func() {
		im.db.PersistSync()
		if err := im.db.Check(true); err != nil {
			msg = err.Error()
		}
	})
	if e != nil {
		return "persist/check panicked: " + lib.PanicText(e)
	}
	return msg
}

func showVal(s string) string {
	if s == "" {
		return `""`
	}
	return fmt.Sprintf("%q", s)
}

func showRow(r row) string {
	parts := make([]string, len(r))
	for i, v := range r {
		parts[i] = showVal(v)
	}
	return "(" + strings.Join(parts, ",") + ")"
}

func (sc *schemaDef) showState(st mstate) string {
	var sb strings.Builder
	for t := range sc.Tables {
		sb.WriteString(sc.Tables[t].Name + "{")
		for i, r := range st[t] {
			if i > 0 {
				sb.WriteString(" ")
			}
			sb.WriteString(showRow(r))
		}
		sb.WriteString("} ")
	}
	return sb.String()
}

func (sc *schemaDef) showOp(o op) string {
	n := sc.Tables[o.T].Name
	switch o.Kind {
	case "insert":
		return "insert " + showRow(o.New) + " into " + n
	case "delete":
		return "delete " + showRow(o.Old) + " from " + n
	}
	return "update " + n + " " + showRow(o.Old) + " -> " + showRow(o.New)
}
