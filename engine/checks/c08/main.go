// C08 Foreign key rules hold in every committed state (sequential half).
//
// Explicit-state breadth-first search. A state is the content of the tables of
// one foreign key configuration (reference model, see model.go). A transition
// is one committed transaction holding one operation (insert / update / delete
// of one row of the source or the target table, values from a boundary
// alphabet: empty value, zero bytes, values that are byte-prefixes of each
// other, composite keys with empty fields). Successors are produced by
// replaying the shortest path on a fresh real db19 database (heap stor,
// synchronous checker, no goroutines) plus the new transaction. A second
// scenario group runs every ordered PAIR of operations inside one transaction
// from every state of the first levels (the second operation sees the first's
// uncommitted effects; a refused operation is skipped and the rest commits).
//
// Oracle (model.go = the documented behaviour): the error / no error outcome
// of every operation, the committed content of every table after every
// transaction, the foreign key invariant on the content read back from the
// implementation, and the database's own full check after persisting at the
// end of every path.
package main

import (
	"encoding/json"
	"fmt"
	"io"
	"log"
	"os"
	"strings"
	"sync"
	"sync/atomic"

	"github.com/apmckinlay/gsuneido/core"
	"github.com/apmckinlay/gsuneido/db19"

	"verif/lib"
)

// ---------------------------------------------------------------- alphabets

func pstr(s string) string { return string(rune(core.PackString)) + s }

var (
	vE   = ""                       // empty value ("" packs to "")
	vA   = pstr("a")                // "a"
	vA0  = pstr("a\x00")            // "a\0": zero byte, and "a" is a byte prefix of it
	vA00 = pstr("a\x00\x00")        // two zero bytes (= the composite separator)
	v0   = pstr("\x00")             // "\0"
	vX   = pstr("x")                // data value
	i1   = core.Pack(core.SuInt(1)) // numbers
	i2   = core.Pack(core.SuInt(2))
	i3   = core.Pack(core.SuInt(3))
)

func cross(lists ...[]string) []row {
	out := []row{{}}
	for _, l := range lists {
		var next []row
		for _, r := range out {
			for _, v := range l {
				next = append(next, append(append(row(nil), r...), v))
			}
		}
		out = next
	}
	return out
}

// config = schema + row alphabets per table.
type config struct {
	sc   *schemaDef
	Rows [][]row // every row an update may produce
	Ins  [][]row // rows that inserts use
	// depth = number of BFS levels (transactions); pairDepth = pairs of
	// operations in one transaction are tried from states up to this level
	depth, pairDepth int
	// cycleFails counts classCycle failures: each costs seconds (the
	// implementation recurses 10000 levels deep before giving up), so after
	// the first one further predicted cases of that class are skipped (counted)
	cycleFails atomic.Int32
}

// skipCycle reports whether txn contains a cascading delete through a
// reference cycle and that class already failed in this configuration.
func (cf *config) skipCycle(st mstate, txn []op) bool {
	if cf.cycleFails.Load() < 1 {
		return false
	}
	for _, o := range txn {
		var v verdict
		st, v = cf.sc.apply(st, o, reading{})
		if o.Kind == "delete" && v.Cycle && !v.Refuse {
			return true
		}
	}
	return false
}

func (cf *config) noteFails(fails []failure) {
	for _, f := range fails {
		if f.class == classCycle {
			cf.cycleFails.Add(1)
			return
		}
	}
}

func configs(c *lib.Ctx) []*config {
	q := c.Quick()
	var out []*config
	add := func(cf *config, qd, td, qp, tp int) {
		cf.depth = lib.Pick(c, qd, td)
		cf.pairDepth = lib.Pick(c, qp, tp)
		out = append(out, cf)
	}
	modes := []string{modeBlock, modeCascade, modeCascadeUpdate}
	sfx := func(m string) string {
		if m == modeBlock {
			return ""
		}
		return " " + m
	}
	for _, m := range modes {
		// 1. single column key; the source index (fk,ck) is an encoded
		// composite, the target key is not
		vals := []string{vE, vA, vA0, v0}
		cks := []string{vE, i1}
		if !q {
			vals = []string{vE, i1, vA, vA0, vA00, v0}
			cks = []string{vE, i1, i2}
		}
		sc := &schemaDef{Name: "single/" + m, Tables: []tableDef{
			{Name: "p", Cols: []string{"pk", "d"}, Keys: [][]int{{0}},
				Admin: "create p (pk, d) key(pk)"},
			{Name: "c", Cols: []string{"ck", "fk"}, Keys: [][]int{{0}},
				Fks:   []fkDef{{Cols: []int{1}, To: 0, ToCols: []int{0}, Mode: m}},
				Admin: "create c (ck, fk) key(ck) index(fk) in p(pk)" + sfx(m)},
		}}
		add(&config{sc: sc,
			Rows: [][]row{cross(vals, []string{vE, vX}), cross(cks, vals)},
			Ins:  [][]row{cross(vals, []string{vE}), cross(cks, vals)}}, 4, 6, 2, 2)
	}
	for _, m := range modes {
		// 2. composite key with empty fields and zero bytes; the source columns
		// are in a different order than the index
		tuples := []row{{vE, vE}, {vA, vE}, {vE, vA}, {vA0, vA}, {vA, v0}}
		if !q {
			tuples = cross([]string{vE, vA, vA0}, []string{vE, vA, v0})
		}
		var prow, pins, crow []row
		for _, t := range tuples {
			pins = append(pins, row{t[0], t[1], vE})
			prow = append(prow, row{t[0], t[1], vE}, row{t[0], t[1], vX})
			for _, ck := range []string{i1, i2} {
				crow = append(crow, row{t[1], ck, t[0]}) // c(fk2, ck, fk)
			}
		}
		sc := &schemaDef{Name: "composite/" + m, Tables: []tableDef{
			{Name: "p", Cols: []string{"pk", "pk2", "d"}, Keys: [][]int{{0, 1}},
				Admin: "create p (pk, pk2, d) key(pk, pk2)"},
			{Name: "c", Cols: []string{"fk2", "ck", "fk"}, Keys: [][]int{{1}},
				Fks:   []fkDef{{Cols: []int{2, 0}, To: 0, ToCols: []int{0, 1}, Mode: m}},
				Admin: "create c (fk2, ck, fk) key(ck) index(fk, fk2) in p(pk, pk2)" + sfx(m)},
		}}
		add(&config{sc: sc, Rows: [][]row{prow, crow}, Ins: [][]row{pins, crow}}, 3, 5, 1, 2)
	}
	for _, m := range modes {
		// 3. the foreign key is a prefix of a longer source index
		vals := []string{vE, vA, vA0}
		sc := &schemaDef{Name: "prefix/" + m, Tables: []tableDef{
			{Name: "p", Cols: []string{"pk"}, Keys: [][]int{{0}},
				Admin: "create p (pk) key(pk)"},
			{Name: "c", Cols: []string{"ck", "fk", "x"}, Keys: [][]int{{0}},
				Fks:   []fkDef{{Cols: []int{1}, To: 0, ToCols: []int{0}, Mode: m}},
				Admin: "create c (ck, fk, x) key(ck) index(fk, x) in p(pk)" + sfx(m)},
		}}
		crow := cross([]string{i1, i2}, vals, []string{vE, v0})
		add(&config{sc: sc, Rows: [][]row{cross(vals), crow}, Ins: [][]row{cross(vals), crow}}, 4, 6, 1, 2)
	}
	for _, m := range modes {
		// 4. recursive table (rows reference rows of the same table; self
		// references and cycles arise through updates)
		ids := []string{i1, i2}
		if !q {
			ids = []string{i1, i2, i3}
		}
		rows := cross(ids, append([]string{vE}, ids...))
		sc := &schemaDef{Name: "recursive/" + m, Tables: []tableDef{
			{Name: "r", Cols: []string{"id", "parent"}, Keys: [][]int{{0}},
				Fks:   []fkDef{{Cols: []int{1}, To: 0, ToCols: []int{0}, Mode: m}},
				Admin: "create r (id, parent) key(id) index(parent) in r(id)" + sfx(m)},
		}}
		add(&config{sc: sc, Rows: [][]row{rows}, Ins: [][]row{rows}}, 5, 8, 2, 3)
		// 4b. the same table with the foreign key index declared BEFORE the key it
		// refers to (the index numbers of source and target are the other way round)
		sc2 := &schemaDef{Name: "recursive-index-first/" + m, Tables: []tableDef{
			{Name: "r", Cols: []string{"id", "parent"}, Keys: [][]int{{0}},
				Fks:   []fkDef{{Cols: []int{1}, To: 0, ToCols: []int{0}, Mode: m}},
				Admin: "create r (id, parent) index(parent) in r(id)" + sfx(m) + " key(id)"},
		}}
		add(&config{sc: sc2, Rows: [][]row{rows}, Ins: [][]row{rows}}, 4, 7, 2, 3)
	}
	for _, m := range modes {
		// 5. chain p <- c <- g: deletes cascade from p to c; what happens to g
		// depends on the second key (transitive cascade / nested refusal)
		vals := []string{i1, i2}
		sc := &schemaDef{Name: "chain-delete/cascade," + m, Tables: []tableDef{
			{Name: "p", Cols: []string{"pk"}, Keys: [][]int{{0}},
				Admin: "create p (pk) key(pk)"},
			{Name: "c", Cols: []string{"ck", "fk"}, Keys: [][]int{{0}},
				Fks:   []fkDef{{Cols: []int{1}, To: 0, ToCols: []int{0}, Mode: modeCascade}},
				Admin: "create c (ck, fk) key(ck) index(fk) in p(pk) cascade"},
			{Name: "g", Cols: []string{"gk", "gfk"}, Keys: [][]int{{0}},
				Fks:   []fkDef{{Cols: []int{1}, To: 1, ToCols: []int{0}, Mode: m}},
				Admin: "create g (gk, gfk) key(gk) index(gfk) in c(ck)" + sfx(m)},
		}}
		crow := cross(vals, append([]string{vE}, vals...))
		grow := cross([]string{i1}, append([]string{vE}, vals...))
		add(&config{sc: sc, Rows: [][]row{cross(vals), crow, grow},
			Ins: [][]row{cross(vals), crow, grow}}, 4, 6, 1, 2)
	}
	for _, m := range modes {
		// 6. chain where the foreign key of c is c's key, so that a key change
		// of p cascades into a key change of c and on into g
		vals := []string{i1, i2}
		sc := &schemaDef{Name: "chain-update/cascade," + m, Tables: []tableDef{
			{Name: "p", Cols: []string{"pk"}, Keys: [][]int{{0}},
				Admin: "create p (pk) key(pk)"},
			{Name: "c", Cols: []string{"fk", "x"}, Keys: [][]int{{0}},
				Fks:   []fkDef{{Cols: []int{0}, To: 0, ToCols: []int{0}, Mode: modeCascade}},
				Admin: "create c (fk, x) key(fk) in p(pk) cascade"},
			{Name: "g", Cols: []string{"gk", "gfk"}, Keys: [][]int{{0}},
				Fks:   []fkDef{{Cols: []int{1}, To: 1, ToCols: []int{0}, Mode: m}},
				Admin: "create g (gk, gfk) key(gk) index(gfk) in c(fk)" + sfx(m)},
		}}
		crow := cross(append([]string{vE}, vals...), []string{vE, vX})
		cins := cross(append([]string{vE}, vals...), []string{vE})
		grow := cross([]string{i1}, append([]string{vE}, vals...))
		add(&config{sc: sc, Rows: [][]row{cross(vals), crow, grow},
			Ins: [][]row{cross(vals), cins, grow}}, 4, 6, 1, 2)
	}
	for _, m := range modes {
		// 7. the foreign key is itself a single column KEY of the source table:
		// its index keys are not encoded, so values with zero bytes (one being a
		// byte prefix of the other, a 0,0 pair inside) meet the range scans raw
		vals := []string{vE, vA, vA0, vA00}
		sc := &schemaDef{Name: "key-as-fk/" + m, Tables: []tableDef{
			{Name: "p", Cols: []string{"pk"}, Keys: [][]int{{0}},
				Admin: "create p (pk) key(pk)"},
			{Name: "c", Cols: []string{"fk", "x"}, Keys: [][]int{{0}},
				Fks:   []fkDef{{Cols: []int{0}, To: 0, ToCols: []int{0}, Mode: m}},
				Admin: "create c (fk, x) key(fk) in p(pk)" + sfx(m)},
		}}
		add(&config{sc: sc, Rows: [][]row{cross(vals), cross(vals, []string{vE, vX})},
			Ins: [][]row{cross(vals), cross(vals, []string{vE})}}, 4, 6, 2, 2)
	}
	for _, m := range modes {
		// 8. the foreign key is a UNIQUE index (any number of empty values,
		// which are stored with the key columns appended)
		vals := []string{vE, vA, vA0}
		sc := &schemaDef{Name: "unique-index-fk/" + m, Tables: []tableDef{
			{Name: "p", Cols: []string{"pk"}, Keys: [][]int{{0}},
				Admin: "create p (pk) key(pk)"},
			{Name: "c", Cols: []string{"ck", "fk"}, Keys: [][]int{{0}}, Uniques: [][]int{{1}},
				Fks:   []fkDef{{Cols: []int{1}, To: 0, ToCols: []int{0}, Mode: m}},
				Admin: "create c (ck, fk) key(ck) index unique(fk) in p(pk)" + sfx(m)},
		}}
		crow := cross([]string{vE, i1, i2}, vals)
		add(&config{sc: sc, Rows: [][]row{cross(vals), crow}, Ins: [][]row{cross(vals), crow}}, 4, 6, 1, 2)
	}
	for _, ms := range [][2]string{{modeBlock, modeBlock}, {modeCascade, modeBlock}, {modeBlock, modeCascade}, {modeCascadeUpdate, modeBlock}} {
		// 9. TWO source tables on one target key: one through an encoded index
		// (index(fk) has the key appended), one through its own single column KEY
		// (un-encoded index keys); the target's FkToHere list is walked in creation
		// order, so state carried from one entry to the next (e.g. an encoded copy
		// of the key) meets the other kind of index. Zero-byte values make the
		// encoded and the raw key differ. Both creation orders.
		for _, order := range []string{"index-first", "key-first"} {
			vals := []string{vA, vA0, v0}
			c1 := tableDef{Name: "c1", Cols: []string{"ck", "fk"}, Keys: [][]int{{0}},
				Fks:   []fkDef{{Cols: []int{1}, To: 0, ToCols: []int{0}, Mode: ms[0]}},
				Admin: "create c1 (ck, fk) key(ck) index(fk) in p(pk)" + sfx(ms[0])}
			c2 := tableDef{Name: "c2", Cols: []string{"fk", "x"}, Keys: [][]int{{0}},
				Fks:   []fkDef{{Cols: []int{0}, To: 0, ToCols: []int{0}, Mode: ms[1]}},
				Admin: "create c2 (fk, x) key(fk) in p(pk)" + sfx(ms[1])}
			c1rows := cross([]string{i1}, append([]string{vE}, vals...))
			c2rows := cross(vals, []string{vE})
			tables := []tableDef{{Name: "p", Cols: []string{"pk"}, Keys: [][]int{{0}},
				Admin: "create p (pk) key(pk)"}, c1, c2}
			rows := [][]row{cross(vals), c1rows, c2rows}
			if order == "key-first" {
				tables = []tableDef{tables[0], c2, c1}
				rows = [][]row{rows[0], c2rows, c1rows}
			}
			sc := &schemaDef{Name: "two-sources/" + ms[0] + "," + ms[1] + "/" + order, Tables: tables}
			add(&config{sc: sc, Rows: rows, Ins: rows}, 3, 4, 0, 1)
		}
	}
	return out
}

// events enumerates every operation of the alphabet that is applicable in st.
func (cf *config) events(st mstate) []op {
	var out []op
	for t := range cf.sc.Tables {
		for _, r := range cf.Ins[t] {
			out = append(out, op{Kind: "insert", T: t, New: r})
		}
		for _, old := range st[t] {
			out = append(out, op{Kind: "delete", T: t, Old: old})
			for _, r := range cf.Rows[t] {
				if !r.eq(old) {
					out = append(out, op{Kind: "update", T: t, Old: old, New: r})
				}
			}
		}
	}
	return out
}

// ---------------------------------------------------------------- judging

// failure classes of known findings (computed by the oracle, see judge)
const (
	// F2: the model refuses the DELETE of a target row only because a source
	// row references it through a "cascade update" key, and the
	// implementation performed the delete.
	classF2 = "delete-target-under-cascade-update"
	// the model performs a cascading delete whose closure contains a
	// reference cycle (self reference or longer) and the implementation
	// refused it with "too many writes".
	classCycle = "cascade-delete-cycle"
	// the model refuses an UPDATE of a row of a recursive table only because
	// its new foreign key names the row's own old key, which the same update
	// changes (no matching row afterwards), and the implementation accepted it.
	classSelfOld = "update-fk-to-own-old-key"
	// an UPDATE changes the key of a row of a recursive table that references
	// itself through a key that cascades updates; the model replaces the row by
	// the new record; the implementation refuses with an internal error or
	// leaves inconsistent indexes behind.
	classSelfCascade = "update-key-of-self-referencing-row-cascade"
)

type caseT struct {
	Config string `json:"config"`
	Path   [][]op `json:"path"` // committed transactions leading to the state
	Txn    []op   `json:"txn"`  // the transaction under test
}

type failure struct {
	class string
	msg   string
}

type judged struct {
	fails     []failure
	next      mstate // model state after the transaction
	expand    bool   // implementation and model agree: next may be explored further
	engaged   bool   // some operation needed a foreign key decision
	ambiguous bool
	outcome   string // summary for the distinct-outcome set
	// emptyKeyReadings > 1: the open point of the documentation (does an empty
	// foreign key match a target row with an empty key) changes the expected
	// result; emptyMatched lists the operations for which the implementation
	// behaved as if it does
	emptyKeyReadings int
	emptyMatched     []string
	checkFalseAlarm  bool // Database.Check(full) complained about a satisfied foreign key
}

// runCase replays path on a fresh database, runs txn and judges it. before is
// the model state the path leads to (nil in replay mode: the content read
// from the implementation is used, every prefix having been judged before).
func runCase(cf *config, path [][]op, before mstate, txn []op) judged {
	sc := cf.sc
	im := newImpl(sc)
	for _, tx := range path {
		im.runTxn(tx)
	}
	got := im.read()
	if before == nil {
		before = got
	} else if got.key() != before.key() {
		// every prefix was judged when it was first explored, so this is
		// nondeterminism of the harness or the implementation, not a verdict
		lib.Infra("C08 %s: replay of an already validated path diverged: got %s want %s",
			sc.Name, sc.showState(got), sc.showState(before))
	}
	return judge(cf, im, before, txn)
}

// expectation = what the model demands for a transaction under one assignment
// of readings (see model.go: reading) to its operations.
type expectation struct {
	verdicts []verdict
	final    mstate
	readings []reading
}

// expectations returns the distinct expectations over all assignments of the
// open reading to the operations of txn (1 if the reading never matters).
func expectations(sc *schemaDef, before mstate, txn []op) []expectation {
	var out []expectation
	seen := map[string]bool{}
	// two bits per operation: the reading of the empty-key question, and how
	// an operation whose outcome the documentation leaves open (verdict
	// Ambiguous) is resolved: applied as the model computes it, or refused
	for mask := 0; mask < 1<<(2*len(txn)); mask++ {
		e := expectation{final: before}
		sig := ""
		for i, o := range txn {
			rd := reading{emptyMatches: mask>>(2*i)&1 == 1}
			asRefused := mask>>(2*i+1)&1 == 1
			next, v := sc.apply(e.final, o, rd)
			if v.Ambiguous && asRefused {
				v.refuse("open")
				next = e.final
			}
			e.final = next
			e.verdicts = append(e.verdicts, v)
			e.readings = append(e.readings, rd)
			sig += fmt.Sprintf("%v|%s|", v.Refuse, e.final.key())
		}
		if !seen[sig] {
			seen[sig] = true
			out = append(out, e)
		}
	}
	return out
}

// evaluate compares what the implementation did with one expectation.
// known = class of a classified mismatch ("-" = unclassified mismatch).
func evaluate(sc *schemaDef, e expectation, before mstate, txn []op, res txnResult, after mstate) (fails []failure, known string, ambiguous, selfCasc bool) {
	fail := func(class, format string, a ...any) {
		fails = append(fails, failure{class, fmt.Sprintf(format, a...)})
	}
	anyErr := false
	for i, o := range txn {
		if i >= len(res.Ops) {
			break // not issued: an earlier operation aborted the transaction
		}
		r, v := res.Ops[i], e.verdicts[i]
		refused := r.Err != ""
		anyErr = anyErr || refused
		ambiguous = ambiguous || v.Ambiguous
		if known != "" {
			break
		}
		selfCasc = selfCasc || (v.SelfCascade && o.Kind == "update")
		switch {
		case r.Missing && v.NoRow:
			// the first operation of the transaction removed or changed the row
		case r.Missing != v.NoRow:
			fail("", "%s: row found=%v inside the transaction but the model says found=%v (effects of an earlier operation differ)",
				sc.showOp(o), !r.Missing, !v.NoRow)
			known = "-"
		case r.Runtime:
			fail("", "%s: runtime error / failed assertion: %s", sc.showOp(o), r.Err)
		case refused && !v.Refuse:
			if o.Kind == "delete" && v.Cycle && strings.Contains(r.Err, "too many writes") {
				known = classCycle
			} else if o.Kind == "update" && v.SelfCascade {
				known = classSelfCascade
			}
			fail(known, "%s must succeed (%d rows cascade) but was refused: %s", sc.showOp(o), v.Cascaded, r.Err)
			if known == "" {
				known = "-"
			}
		case !refused && v.Refuse:
			if o.Kind == "delete" && v.only("fk-block-cu") {
				known = classF2
			} else if o.Kind == "update" && v.only("fk-source") && v.SelfOldKey {
				known = classSelfOld
			}
			fail(known, "%s must be refused (%s) but succeeded", sc.showOp(o), v.reasonList())
			if known == "" {
				known = "-"
			}
		}
	}
	want := e.final
	if !res.Committed {
		want = before
		if !anyErr {
			fail("", "transaction was aborted (%s) although no operation reported an error", res.AbortMsg)
		}
	}
	if after.key() != want.key() && known == "" && len(fails) == 0 {
		cl := ""
		if selfCasc {
			cl = classSelfCascade
		}
		fail(cl, "committed content differs from the model: got %s want %s", sc.showState(after), sc.showState(want))
	}
	return
}

func judge(cf *config, im *impl, before mstate, txn []op) judged {
	sc := cf.sc
	var j judged
	exps := expectations(sc, before, txn)
	res := im.runTxn(txn)
	if res.CommitPanic != "" {
		// the database is unusable from here on (state published, merge failed)
		j.fails = []failure{{msg: "committing the transaction panicked in commit/merge (every operation had been accepted): " + res.CommitPanic}}
		j.outcome = "commit-panic"
		return j
	}
	after := im.read()
	if os.Getenv("C08_DEBUG") != "" {
		fmt.Printf("DEBUG ops=%+v committed=%v abort=%q after=%s\n", res.Ops, res.Committed, res.AbortMsg, sc.showState(after))
	}

	// the implementation must satisfy one of the expectations completely;
	// if it satisfies none, the failures against the first (an empty foreign
	// key never matches) are reported
	var chosen expectation
	var known string
	var selfCasc bool
	// (if it satisfies none completely, the expectation that leaves the fewest
	// unclassified failures is the one reported)
	best := [2]int{1 << 30, 1 << 30}
	for _, e := range exps {
		fails, k, amb, sca := evaluate(sc, e, before, txn, res, after)
		score := [2]int{0, len(fails)}
		for _, f := range fails {
			if f.class == "" {
				score[0]++
			}
		}
		if score[0] < best[0] || score[0] == best[0] && score[1] < best[1] {
			best = score
			chosen, known, j.fails, j.ambiguous, selfCasc = e, k, fails, amb, sca
		}
		if len(fails) == 0 {
			break
		}
	}
	j.emptyKeyReadings = len(exps)
	if len(exps) > 1 && len(j.fails) == 0 {
		for i, rd := range chosen.readings {
			if rd.emptyMatches {
				j.emptyMatched = append(j.emptyMatched, txn[i].Kind)
			}
		}
	}
	j.next = chosen.final
	var outc []string
	for i, o := range txn {
		v := chosen.verdicts[i]
		j.engaged = j.engaged || v.FkEngaged
		if i >= len(res.Ops) {
			outc = append(outc, "not issued (transaction aborted)")
			continue
		}
		outc = append(outc, fmt.Sprintf("%s/%s:refused=%v:%s:cascaded=%d", o.Kind, sc.Tables[o.T].Name,
			res.Ops[i].Err != "", v.reasonList(), v.Cascaded))
	}
	j.outcome = strings.Join(outc, ";")
	want := chosen.final
	if !res.Committed {
		want = before
	}
	j.expand = after.key() == want.key() && res.Committed && known == "" && len(j.fails) == 0
	fail := func(class, format string, a ...any) {
		j.fails = append(j.fails, failure{class, fmt.Sprintf(format, a...)})
	}
	cl := ""
	if known == classF2 || known == classSelfOld || known == classSelfCascade {
		cl = known // the dangling rows are the direct consequence of that operation
	} else if known == "" && selfCasc {
		cl = classSelfCascade
	}
	if inv := sc.invariant(after); inv != "" {
		fail(cl, "committed state violates a foreign key or key: %s; content %s", inv, sc.showState(after))
	}
	inv := sc.invariant(after)
	if msg := im.persistAndCheck(); msg != "" && strings.Contains(msg, "foreign key not found") && inv == "" {
		// Side finding, not a C08 verdict: the content read back satisfies every
		// foreign key, but Database.Check(full) truncates the source index key
		// without trimming trailing empty fields (ixkey.TruncFunc), so a
		// composite foreign key with an empty last field is never "found".
		j.checkFalseAlarm = true
	} else if msg != "" {
		fail(cl, "the database's own full check fails after the transaction: %s", msg)
	} else if after2 := im.read(); after2.key() != after.key() {
		fail("", "content changed by persisting: before %s after %s", sc.showState(after), sc.showState(after2))
	}
	return j
}

// ---------------------------------------------------------------- search

var reported sync.Map // class -> true: one VIOLATION / KNOWN-FINDING case per classified class (all are counted)

func report(c *lib.Ctx, cf *config, path [][]op, txn []op, fails []failure) {
	for _, f := range fails {
		cs := caseT{Config: cf.sc.Name, Path: path, Txn: txn}
		msg := fmt.Sprintf("[%s] after %s: transaction {%s}: %s", cf.sc.Name, showPath(cf.sc, path),
			showPath(cf.sc, [][]op{txn}), f.msg)
		if f.class != "" {
			c.Count("class:"+f.class, 1)
			c.Count("class:"+f.class+" in "+cf.sc.Name, 1)
			if _, dup := reported.LoadOrStore(f.class, true); dup {
				continue
			}
		}
		c.Fail(f.class, cs, "%s", msg)
	}
}

func showPath(sc *schemaDef, path [][]op) string {
	if len(path) == 0 {
		return "(empty database)"
	}
	var parts []string
	for _, tx := range path {
		var ops []string
		for _, o := range tx {
			ops = append(ops, sc.showOp(o))
		}
		parts = append(parts, strings.Join(ops, " + "))
	}
	return strings.Join(parts, "; ")
}

type node struct {
	st   mstate
	path [][]op
}

type succ struct {
	st  mstate
	txn []op
}

func explore(c *lib.Ctx, cf *config) {
	sc := cf.sc
	visited := map[string]bool{}
	start := make(mstate, len(sc.Tables))
	visited[start.key()] = true
	frontier := []node{{st: start}}
	states, closed := 1, false
	for level := 0; level < cf.depth && len(frontier) > 0 && !c.Expired(); level++ {
		results := make([][]succ, len(frontier))
		done := c.Par(len(frontier), func(i int) {
			n := frontier[i]
			evs := cf.events(n.st)
			for _, e := range evs {
				if c.Stopped() || c.Expired() {
					return
				}
				txn := []op{e}
				if cf.skipCycle(n.st, txn) {
					c.Count("skipped: further cases of class "+classCycle, 1)
					continue
				}
				j := runCase(cf, n.path, n.st, txn)
				cf.noteFails(j.fails)
				tally(c, cf, j, 1)
				if len(j.fails) > 0 {
					report(c, cf, n.path, txn, j.fails)
				}
				if j.expand && j.next.key() != n.st.key() {
					results[i] = append(results[i], succ{j.next, txn})
				}
				if c.NSamples() < 2 && j.engaged && len(n.path) >= 2 {
					c.Sample(map[string]string{"config": sc.Name, "state": sc.showState(n.st),
						"transaction": showPath(sc, [][]op{txn}), "outcome": j.outcome})
				}
			}
			// pairs of operations inside one transaction
			if level < cf.pairDepth {
				for _, e1 := range evs {
					mid, _ := sc.apply(n.st, e1, reading{})
					for _, e2 := range cf.events(mid) {
						if c.Stopped() || c.Expired() {
							return
						}
						txn := []op{e1, e2}
						if cf.skipCycle(n.st, txn) {
							c.Count("skipped: further cases of class "+classCycle, 1)
							continue
						}
						j := runCase(cf, n.path, n.st, txn)
						cf.noteFails(j.fails)
						tally(c, cf, j, 2)
						if len(j.fails) > 0 {
							report(c, cf, n.path, txn, j.fails)
						}
					}
				}
			}
		})
		if !done {
			c.Cap("%s: level %d not completed", sc.Name, level)
			return
		}
		var next []node
		for i, rs := range results {
			for _, s := range rs {
				k := s.st.key()
				if visited[k] {
					continue
				}
				visited[k] = true
				p := append(append([][]op(nil), frontier[i].path...), s.txn)
				next = append(next, node{st: s.st, path: p})
			}
		}
		states += len(next)
		frontier = next
		if len(frontier) == 0 {
			closed = true
		}
	}
	c.State(states)
	c.Count("states:"+sc.Name, states)
	if closed {
		c.Count("configs_closed(fixpoint reached)", 1)
	} else {
		c.Count("configs_cut_at_depth", 1)
	}
}

func tally(c *lib.Ctx, cf *config, j judged, nops int) {
	c.Eval(1)
	c.Transition(1)
	c.TraceValidated(1)
	if j.engaged {
		c.Nontrivial(1)
	}
	if j.ambiguous {
		c.Count("ambiguous_by_documentation(self reference)", 1)
	}
	if nops == 2 {
		c.Count("two_operation_transactions", 1)
	}
	if j.checkFalseAlarm {
		c.Count("side finding: Database.Check(full) reports 'foreign key not found' for a satisfied composite foreign key with empty trailing field", 1)
	}
	if j.emptyKeyReadings > 1 {
		c.Count("empty-key target with empty-fk sources: outcome depends on the reading of the documentation", 1)
		if len(j.fails) == 0 {
			c.Count("  ... implementation behaved as 'empty matches empty' for: "+strings.Join(j.emptyMatched, "+"), 1)
		}
	}
	// distinct outcome shapes, to expose vacuity
	mode := cf.sc.Name
	if i := strings.Index(mode, "/"); i >= 0 {
		mode = mode[i+1:]
	}
	if nops == 1 {
		c.Count("outcome "+mode+" "+j.outcome, 1)
	}
	c.Distinct(mode + " " + j.outcome)
}

func run(c *lib.Ctx) {
	log.SetOutput(io.Discard) // "database corruption detected" etc.
	// triggers are looked up on every write; there are none
	db19.MakeSuTran = func(ut *db19.UpdateTran) *core.SuTran { return core.NewSuTran(nil, true) }
	cfs := configs(c)
	var names []string
	for _, cf := range cfs {
		names = append(names, fmt.Sprintf("%s(depth %d, pairs to level %d)", cf.sc.Name, cf.depth, cf.pairDepth))
	}
	c.Set("configurations", names)
	for _, cf := range cfs {
		if c.Expired() {
			c.Cap("configuration %s not started", cf.sc.Name)
			continue
		}
		explore(c, cf)
	}
}

func replay(c *lib.Ctx, raw json.RawMessage) {
	log.SetOutput(io.Discard)
	db19.MakeSuTran = func(ut *db19.UpdateTran) *core.SuTran { return core.NewSuTran(nil, true) }
	var cs caseT
	if err := json.Unmarshal(raw, &cs); err != nil {
		lib.Infra("bad case: %v", err)
	}
	c.Tier = "thorough"
	for _, cf := range configs(c) {
		if cf.sc.Name != cs.Config {
			continue
		}
		j := runCase(cf, cs.Path, nil, cs.Txn)
		for _, f := range j.fails {
			c.Fail(f.class, cs, "[%s] after %s: transaction {%s}: %s", cf.sc.Name, showPath(cf.sc, cs.Path),
				showPath(cf.sc, [][]op{cs.Txn}), f.msg)
		}
		return
	}
	lib.Infra("unknown configuration %q", cs.Config)
}

func main() {
	lib.Main(lib.Spec{
		ID:    "C08",
		Level: "model_checking",
		Rule: "BFS over table contents of 24 foreign key configurations (block / cascade / cascade update x single, composite, prefix-of-index, " +
			"recursive, two chains, key as foreign key, unique index as foreign key); transition = one committed transaction with one operation (all inserts/updates/deletes of the row alphabet) " +
			"plus all ordered pairs of operations in one transaction from the first levels; every transition executed on a fresh db19 database by " +
			"replaying the path; distinct by construction = (state, transaction) pairs; non-trivial = a foreign key decision was needed " +
			"(non-empty foreign key on a source row or a target row with matching source rows)",
		Assumptions: []string{
			"the reference model is suneidoc/Database/Foreign Keys.md: non-empty fk must match; delete/update of a target with matching sources refused unless the key cascades that change; cascades are transitive; a refused operation changes nothing",
			"where the documentation leaves the outcome open both readings are accepted and the search follows the implementation: (1) does an EMPTY foreign key match a target row with an empty key, (2) a row of a recursive table that references its own new key or is the only blocker of its own change",
			"an operation that fails may abort the transaction (then nothing of the transaction is committed and the remaining operations are not issued) or leave it usable (then it must have had no effect)",
			"sequential only (synchronous checker, CommitMerge after every transaction); the concurrent half of C08 is a separate scenario",
			"states are merged on table content only (index layer shape differs by path)",
			"cascading deletes through a reference cycle are executed once per configuration and skipped afterwards if that case fails (each takes seconds)",
		},
		QuickBudget:    75,
		ThoroughBudget: 840,
		Run:            run,
		Replay:         replay,
	})
}
