// Reference model of suneidoc/Database/Foreign Keys.md (plus key uniqueness,
// which the events also exercise). Plain Go: tables are slices of rows, rows
// are slices of raw field strings, "matching" is tuple equality.
//
// Documented rules implemented here, nothing else:
//   - a source row whose foreign key fields are not all empty must have a
//     target row with equal key fields (insert and update of a source row are
//     refused otherwise; an all-empty foreign key is always allowed);
//   - removing a target row is refused if there are matching source rows,
//     unless the foreign key is "cascade" (then the matching source rows are
//     removed with it, transitively);
//   - changing the key of a target row is refused if there are matching source
//     rows, unless the foreign key is "cascade" or "cascade update" (then the
//     matching source rows get the new key values, transitively);
//   - keys are unique.
//
// A refused operation changes nothing.
package main

import (
	"encoding/json"
	"sort"
	"strconv"
	"strings"
)

// foreign key modes (the model's own constants)
const (
	modeBlock         = "block"
	modeCascade       = "cascade"
	modeCascadeUpdate = "cascade update"
)

func cascadesDeletes(mode string) bool { return mode == modeCascade }
func cascadesUpdates(mode string) bool { return mode == modeCascade || mode == modeCascadeUpdate }

type fkDef struct {
	Cols   []int  // columns of the source table
	To     int    // index of the target table
	ToCols []int  // columns of the target table (one of its keys)
	Mode   string // modeBlock | modeCascade | modeCascadeUpdate
}

type tableDef struct {
	Name string
	Cols []string
	Keys [][]int // every key of the table; Keys[0] is index 0 in the schema
	// Uniques are unique indexes: like keys, except that any number of rows
	// may have all of these columns empty
	Uniques [][]int
	Fks     []fkDef
	Admin   string // the create statement handed to the implementation
}

type schemaDef struct {
	Name   string
	Tables []tableDef
}

// reading selects how the one point the documentation leaves open is read:
// does a source row with an EMPTY foreign key "match" a target row whose key
// is empty? ("Empty foreign keys are allowed even if the target table does not
// have a matching row" can be read either way.) emptyMatches=false: an empty
// foreign key never matches; true: it matches the target row with the empty
// key, so that row's delete / key change blocks or cascades like any other.
type reading struct{ emptyMatches bool }

type row []string

// rows hold raw bytes: written to replay files as Go-quoted strings
func (r row) MarshalJSON() ([]byte, error) {
	q := make([]string, len(r))
	for i, v := range r {
		q[i] = strconv.Quote(v)
	}
	return json.Marshal(q)
}

func (r *row) UnmarshalJSON(b []byte) error {
	var q []string
	if err := json.Unmarshal(b, &q); err != nil {
		return err
	}
	*r = make(row, len(q))
	for i, v := range q {
		u, err := strconv.Unquote(v)
		if err != nil {
			return err
		}
		(*r)[i] = u
	}
	return nil
}

func (r row) key() string { return strings.Join(r, "\x1f") }

func (r row) eq(o row) bool {
	if len(r) != len(o) {
		return false
	}
	for i := range r {
		if r[i] != o[i] {
			return false
		}
	}
	return true
}

func tuple(r row, cols []int) string {
	parts := make([]string, len(cols))
	for i, c := range cols {
		parts[i] = r[c]
	}
	return strings.Join(parts, "\x1f")
}

func allEmpty(r row, cols []int) bool {
	for _, c := range cols {
		if r[c] != "" {
			return false
		}
	}
	return true
}

// mstate is the content of every table; rows are kept sorted so that the
// canonical key is independent of the path.
type mstate [][]row

func (st mstate) clone() mstate {
	n := make(mstate, len(st))
	for i, t := range st {
		n[i] = append([]row(nil), t...)
	}
	return n
}

func (st mstate) sortRows() {
	for _, t := range st {
		sort.Slice(t, func(i, j int) bool { return t[i].key() < t[j].key() })
	}
}

func (st mstate) key() string {
	var sb strings.Builder
	for _, t := range st {
		sb.WriteString("\x1d")
		for _, r := range t {
			sb.WriteString(r.key())
			sb.WriteString("\x1e")
		}
	}
	return sb.String()
}

func (st mstate) find(t int, r row) int {
	for i, x := range st[t] {
		if x.eq(r) {
			return i
		}
	}
	return -1
}

// op is one insert / delete / update of one row.
type op struct {
	Kind string `json:"kind"` // "insert" | "delete" | "update"
	T    int    `json:"table"`
	Old  row    `json:"old,omitempty"`
	New  row    `json:"new,omitempty"`
}

// verdict is what the documentation demands for one operation.
type verdict struct {
	Refuse bool
	// Reasons: set of "dup" (key uniqueness), "fk-source" (source row without
	// matching target), "fk-block" (target with matching sources under a
	// blocking key), "fk-block-cu" (DELETE of a target with matching sources
	// under "cascade update", which does not cascade deletes).
	Reasons map[string]bool
	// Ambiguous: the documentation does not determine the outcome (a row that
	// references itself is both the changed target and a matching source).
	// Refusal is accepted as well as the model's result.
	Ambiguous bool
	// Cycle: the cascade-delete closure met a row twice (self reference or a
	// reference cycle in a recursive table).
	Cycle bool
	// FkEngaged: the operation needed a foreign key decision (non-empty
	// foreign key on a source row, or a target row with matching sources).
	FkEngaged bool
	Cascaded  int  // number of rows changed by cascading
	NoRow     bool // the row to delete / update does not exist
	// SelfOldKey: an update of a row of a recursive table whose new foreign
	// key equals the row's own OLD key while the key changes
	SelfOldKey bool
	// SelfCascade: an update changes the key of a row that references itself
	// through a key that cascades updates
	SelfCascade bool
}

func (v *verdict) refuse(reason string) {
	v.Refuse = true
	if v.Reasons == nil {
		v.Reasons = map[string]bool{}
	}
	v.Reasons[reason] = true
}

func (v *verdict) reasonList() string {
	var rs []string
	for r := range v.Reasons {
		rs = append(rs, r)
	}
	sort.Strings(rs)
	return strings.Join(rs, "+")
}

func (v *verdict) only(reason string) bool {
	return v.Refuse && len(v.Reasons) == 1 && v.Reasons[reason]
}

// apply returns the state after o and the verdict. st is not modified.
func (sc *schemaDef) apply(st mstate, o op, rd reading) (mstate, verdict) {
	var v verdict
	if o.Kind != "insert" && st.find(o.T, o.Old) < 0 {
		v.NoRow = true // nothing to delete / update (only inside two-operation transactions)
		return st, v
	}
	w := st.clone()
	switch o.Kind {
	case "insert":
		sc.insert(w, o.T, o.New, &v)
	case "delete":
		sc.delete(w, o.T, o.Old, rd, &v)
	case "update":
		sc.update(w, o.T, o.Old, o.New, true, rd, &v)
	}
	if v.Refuse {
		return st, v
	}
	w.sortRows()
	return w, v
}

func (sc *schemaDef) dupKey(w mstate, t int, r row, except row) bool {
	check := func(k []int) bool {
		kt := tuple(r, k)
		for _, x := range w[t] {
			if except != nil && x.eq(except) {
				continue
			}
			if tuple(x, k) == kt {
				return true
			}
		}
		return false
	}
	for _, k := range sc.Tables[t].Keys {
		if check(k) {
			return true
		}
	}
	for _, k := range sc.Tables[t].Uniques {
		if !allEmpty(r, k) && check(k) {
			return true
		}
	}
	return false
}

func (sc *schemaDef) hasTarget(w mstate, f fkDef, r row) bool {
	want := tuple(r, f.Cols)
	for _, x := range w[f.To] {
		if tuple(x, f.ToCols) == want {
			return true
		}
	}
	return false
}

func (sc *schemaDef) insert(w mstate, t int, r row, v *verdict) {
	if sc.dupKey(w, t, r, nil) {
		v.refuse("dup")
	}
	for _, f := range sc.Tables[t].Fks {
		if allEmpty(r, f.Cols) {
			continue
		}
		v.FkEngaged = true
		if !sc.hasTarget(w, f, r) {
			v.refuse("fk-source")
		}
	}
	if !v.Refuse {
		w[t] = append(w[t], r)
	}
}

type rowRef struct {
	t int
	k string
}

// delete removes r and, through cascading keys, every matching source row
// (transitive closure). Anything in the closure that is referenced through a
// key that does not cascade deletes refuses the whole operation.
func (sc *schemaDef) delete(w mstate, t int, r row, rd reading, v *verdict) {
	closure := map[rowRef]bool{}
	onStack := map[rowRef]bool{}
	type blocker struct {
		ref  rowRef
		mode string
	}
	var blockers []blocker
	var visit func(t int, r row)
	visit = func(t int, r row) {
		ref := rowRef{t, r.key()}
		if closure[ref] {
			if onStack[ref] {
				v.Cycle = true
			}
			return
		}
		closure[ref] = true
		onStack[ref] = true
		defer delete(onStack, ref)
		for s := range sc.Tables {
			for _, f := range sc.Tables[s].Fks {
				if f.To != t || (allEmpty(r, f.ToCols) && !rd.emptyMatches) {
					continue
				}
				kt := tuple(r, f.ToCols)
				for _, q := range w[s] {
					if tuple(q, f.Cols) != kt {
						continue
					}
					v.FkEngaged = true
					if cascadesDeletes(f.Mode) {
						visit(s, q)
					} else {
						blockers = append(blockers, blocker{rowRef{s, q.key()}, f.Mode})
					}
				}
			}
		}
	}
	visit(t, r)
	for _, b := range blockers {
		if closure[b.ref] {
			// the blocking source row is itself being removed: not determined
			// by the documentation
			v.Ambiguous = true
			continue
		}
		if b.mode == modeCascadeUpdate {
			v.refuse("fk-block-cu")
		} else {
			v.refuse("fk-block")
		}
	}
	if v.Refuse {
		return
	}
	v.Cascaded = len(closure) - 1
	for s := range w {
		kept := w[s][:0:0]
		for _, q := range w[s] {
			if !closure[rowRef{s, q.key()}] {
				kept = append(kept, q)
			}
		}
		w[s] = kept
	}
}

// update replaces old by nw. top is false for updates done by cascading (no
// source-side check: the new foreign key value is the new target key).
func (sc *schemaDef) update(w mstate, t int, old, nw row, top bool, rd reading, v *verdict) {
	if old.eq(nw) {
		return
	}
	td := &sc.Tables[t]
	// key uniqueness
	uniq := func(k []int) {
		if tuple(old, k) == tuple(nw, k) {
			return
		}
		kt := tuple(nw, k)
		for _, x := range w[t] {
			if !x.eq(old) && tuple(x, k) == kt {
				v.refuse("dup")
			}
		}
	}
	for _, k := range td.Keys {
		uniq(k)
	}
	for _, k := range td.Uniques {
		if !allEmpty(nw, k) {
			uniq(k)
		}
	}
	// as a source row: the NEW row must have a matching target in the
	// resulting table content
	if top {
		for _, f := range td.Fks {
			if allEmpty(nw, f.Cols) {
				continue
			}
			v.FkEngaged = true
			want := tuple(nw, f.Cols)
			found := false
			for _, x := range w[f.To] {
				if tuple(x, f.ToCols) == want && !(f.To == t && x.eq(old)) {
					found = true
				}
			}
			if !found && f.To == t {
				keyChanges := tuple(old, f.ToCols) != tuple(nw, f.ToCols)
				switch {
				case tuple(nw, f.ToCols) == want && !keyChanges:
					found = true // references itself, its key stays
				case tuple(nw, f.ToCols) == want:
					// references its own NEW key: a match exists only after
					// the update; the documentation does not say which counts
					v.Ambiguous = true
					found = true
				case tuple(old, f.ToCols) == want:
					// references the key this very update gives up: no match
					// in the result
					v.SelfOldKey = true
				}
			}
			if !found {
				v.refuse("fk-source")
			}
		}
	}
	// as a target row
	type casc struct {
		s     int
		q, nq row
	}
	var cascades []casc
	selfBlock := false
	for s := range sc.Tables {
		for _, f := range sc.Tables[s].Fks {
			if f.To != t || (allEmpty(old, f.ToCols) && !rd.emptyMatches) {
				continue
			}
			okt, nkt := tuple(old, f.ToCols), tuple(nw, f.ToCols)
			if okt == nkt {
				continue
			}
			for _, q := range w[s] {
				if tuple(q, f.Cols) != okt {
					continue
				}
				v.FkEngaged = true
				if s == t && q.eq(old) {
					// The row references itself. It is replaced by the new
					// record as given (whose own foreign key was judged
					// above); there is no other row to cascade to or to be
					// blocked by.
					if cascadesUpdates(f.Mode) {
						v.SelfCascade = true
					} else {
						selfBlock = true
					}
					continue
				}
				if !cascadesUpdates(f.Mode) {
					v.refuse("fk-block")
					continue
				}
				nq := append(row(nil), q...)
				for i, c := range f.Cols {
					nq[c] = nw[f.ToCols[i]]
				}
				cascades = append(cascades, casc{s, q, nq})
			}
		}
	}
	if v.Refuse {
		return
	}
	if selfBlock {
		// literally "there are matching source rows" (the row itself), but the
		// update removes that very reference: left open
		v.Ambiguous = true
	}
	i := w.find(t, old)
	if i < 0 {
		panic("model: update of a row that does not exist")
	}
	w[t][i] = nw
	for _, c := range cascades {
		v.Cascaded++
		sc.update(w, c.s, c.q, c.nq, false, rd, v)
		if v.Refuse {
			return
		}
	}
}

// invariant returns a description of the first foreign key or key violation
// in st ("" if none). Used on the state READ BACK from the implementation.
func (sc *schemaDef) invariant(st mstate) string {
	for t := range sc.Tables {
		for _, k := range sc.Tables[t].Keys {
			seen := map[string]bool{}
			for _, r := range st[t] {
				kt := tuple(r, k)
				if seen[kt] {
					return "duplicate key in " + sc.Tables[t].Name
				}
				seen[kt] = true
			}
		}
		for _, k := range sc.Tables[t].Uniques {
			seen := map[string]bool{}
			for _, r := range st[t] {
				if allEmpty(r, k) {
					continue
				}
				kt := tuple(r, k)
				if seen[kt] {
					return "duplicate unique index value in " + sc.Tables[t].Name
				}
				seen[kt] = true
			}
		}
		for _, f := range sc.Tables[t].Fks {
			for _, r := range st[t] {
				if allEmpty(r, f.Cols) {
					continue
				}
				if !sc.hasTarget(st, f, r) {
					return "row " + showRow(r) + " of " + sc.Tables[t].Name +
						" has no matching row in " + sc.Tables[f.To].Name
				}
			}
		}
	}
	return ""
}
