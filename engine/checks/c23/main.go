// C23 Query access operations honour their contracts.
//
// Enumerated: the query / content / plan space of C22 (all queries of depth
// <= 1, a positional subset of depth 2 in the quick tier; modes read, update,
// cursor; requirements none, order and group on every reported index prefix,
// unique on every key index and on key + one more column; optimizer decisions
// through the knobs and the randomBest seam) and for every distinct prepared
// strategy:
//
//   - every call string over {Rewind, Get(Next), Get(Prev)} of length L
//     (L = 4 quick, 5 thorough), each started from a Rewind;
//   - under a unique requirement: Lookup with the values of every row, with
//     each column replaced by an absent value, and with one extra column
//     (matching and not matching);
//   - under an order / group requirement: Select on all columns (order: also
//     on every proper prefix) with every present value combination, with an
//     absent value, with an extra column; read forwards right after the
//     Select (it must rewind), backwards, and Select(nil) afterwards;
//   - Keys() and Fixed() of the query as parsed and as optimized.
//
// Oracle: a cursor model over the row list F returned by a full forward read
// of the same prepared query: reading backwards gives F reversed; a walk
// moves an index over F, returns nothing beyond either end and then sticks
// until Rewind; Lookup returns the unique row of F that matches (or nothing);
// Select restricts the walk to the sub-list of F that matches and is undone
// by Select(nil); every reported key is unique over F, every reported fixed
// value list contains the column's value in every row of F; F is ordered
// (order) / grouped (group) on the required columns. F itself is compared with
// the relational model by C22, not here.
package main

import (
	"encoding/json"
	"fmt"
	"os"
	"sort"
	"strings"

	_ "github.com/apmckinlay/gsuneido/builtin"
	"github.com/apmckinlay/gsuneido/core"
	qry "github.com/apmckinlay/gsuneido/dbms/query"

	"verif/checks/c22/qh"
	"verif/checks/c22/qm"
	"verif/lib"
)

// ClassSelectExtra: Select with sels that contain, besides the required
// columns, a column outside the requirement ("it is ok for sels to contain
// extra columns, they will be ignored" - query.go) panics "Sels.Get can't
// find <col>" (or the assertion in selEnd that some index column has a value): Times.Select forwards the part for its second source although
// that was set up without a requirement, and Where.Select no longer recognises
// that its fixed values satisfy the select and forwards it to a table read by
// another index.
const ClassSelectExtra = "select-with-extra-column-panics"

// ClassSemiRevSelect: a reversed semijoin (source2 is iterated, source1 probed;
// chosen when source1 is a single row) passes the by-column part of a Select /
// Lookup that is consistent with its requirement on to source2, which was
// optimized without any requirement and is read by an index that does not
// start with those columns: panic "Sels.Get can't find <col>". Seen with
// 't3 where e is 2 semijoin t4' (e a unique index) selected / looked up by b.
const ClassSemiRevSelect = "reversed-semijoin-select-reaches-unprepared-source2"

type failCase struct {
	Variant string      `json:"variant"`
	Text    string      `json:"query"`
	Q       *qm.Q       `json:"ast"`
	Plan    qh.PlanCase `json:"plan"`
	What    string      `json:"what"`
}

type checker struct {
	c      *lib.Ctx
	envs   map[string]*qh.Env
	walks  []string
	sample int
}

func newChecker(c *lib.Ctx) *checker {
	ck := &checker{c: c, envs: map[string]*qh.Env{}}
	for name, m := range qm.Variants() {
		ck.envs[name] = qh.NewEnv(name, m)
	}
	// all call strings of length L over N P R
	L := lib.Pick(c, 4, 5)
	var gen func(prefix string)
	gen = func(prefix string) {
		if len(prefix) == L {
			ck.walks = append(ck.walks, prefix)
			return
		}
		for _, op := range "NPR" {
			gen(prefix + string(op))
		}
	}
	gen("")
	return ck
}

var triage *os.File

func (ck *checker) fail(env *qh.Env, q *qm.Q, pc qh.PlanCase, what, format string, a ...any) {
	msg := fmt.Sprintf(format, a...)
	class := env.Classify(q)
	if class == "" {
		class = qh.ClassifyPanic(msg)
	}
	if class == "" && what == "select-extra" &&
		(strings.Contains(msg, "panic: Sels.Get can't find") || strings.Contains(msg, "panic: ASSERT FAILED")) {
		class = ClassSelectExtra
	}
	if class == "" && strings.Contains(msg, "panic: Sels.Get can't find") && strings.Contains(msg, "semijoin-rev") &&
		what != "select-extra" {
		class = ClassSemiRevSelect
	}
	if triage != nil {
		fmt.Fprintf(triage, "[%s:%s] %s | db=%s | %s | %s\n", what, class, q.Text(), env.Name, pc, msg)
		return
	}
	if class != "" && os.Getenv("VERIF_DEV_KNOWN") != "" {
		ck.c.Count("dev_known:"+class, 1)
		return
	}
	ck.c.Fail(class, failCase{Variant: env.Name, Text: q.Text(), Q: q, Plan: pc, What: what},
		"[%s] %s | db=%s | %s | %s", what, q.Text(), env.Name, pc, msg)
}

var (
	kNone = qh.Knobs{}
	kFuzz = qh.Knobs{NoJoinRev: true, NoTempIdx: true}
	kBig  = qh.Knobs{Stats: "big"}
	kSkew = qh.Knobs{Stats: "skewB"}
)

func (ck *checker) effort(q *qm.Q, mode qry.Mode, r qh.Req) qh.Effort {
	var ef qh.Effort
	if ck.c.Quick() {
		ef = qh.Effort{MinCost: []qh.Knobs{kNone, kFuzz, kBig}, Seam: []qh.Knobs{kNone}, Bound: 1, MaxRuns: 12}
		if mode != qry.ReadMode {
			ef = qh.Effort{MinCost: []qh.Knobs{kNone, kFuzz}, Seam: []qh.Knobs{kNone}, Bound: 0}
		}
	} else {
		ef = qh.Effort{MinCost: []qh.Knobs{kNone, kFuzz, kBig, kSkew}, Seam: []qh.Knobs{kNone, kFuzz}, Bound: 1, MaxRuns: 30}
	}
	if qm.Count1(q) {
		ef.MinCost = []qh.Knobs{kNone, kFuzz}
		ef.Seam = []qh.Knobs{kNone}
	}
	return ef
}

func reqs(pq qry.Query, isSort bool, allCols []string) []qh.Req {
	out := []qh.Req{{Use: "none"}}
	if isSort {
		return out
	}
	seen := map[string]bool{}
	add := func(r qh.Req) {
		if len(r.Cols) == 0 {
			return
		}
		k := r.String()
		if !seen[k] {
			seen[k] = true
			out = append(out, r)
		}
	}
	idxs := pq.Indexes()
	if len(idxs) == 1 && len(idxs[0]) == 0 {
		return out
	}
	for _, ix := range idxs {
		for n := 1; n <= len(ix); n++ {
			add(qh.Req{Use: "order", Cols: ix[:n]})
		}
		add(qh.Req{Use: "group", Cols: ix})
		for _, key := range pq.Keys() {
			if qh.SameCols(ix, key) {
				add(qh.Req{Use: "unique", Cols: ix})
				// a superset of the key: one more column
				for _, c := range allCols {
					if !has(ix, c) {
						add(qh.Req{Use: "unique", Cols: append(append([]string(nil), ix...), c)})
						break
					}
				}
			}
		}
	}
	return out
}

func has(list []string, s string) bool {
	for _, x := range list {
		if x == s {
			return true
		}
	}
	return false
}

func rowKey(row []qm.Val) string {
	var sb strings.Builder
	for _, v := range row {
		sb.WriteString(v.Lit())
		sb.WriteByte(',')
	}
	return sb.String()
}

func keysOf(rows [][]qm.Val) []string {
	out := make([]string, len(rows))
	for i, r := range rows {
		out[i] = rowKey(r)
	}
	return out
}

// session wraps one prepared query.
type session struct {
	p    *qh.Prepared
	th   *core.Thread
	cols []string
}

// get performs one Get and returns the row's text ("" for none).
func (s *session) get(dir core.Dir) (string, error) {
	row := s.p.Q.Get(s.th, dir)
	if row == nil {
		return "", nil
	}
	vals, err := qh.RowVals(s.p.Q.Header(), row, s.cols, s.th)
	if err != nil {
		return "", err
	}
	return rowKey(vals), nil
}

// readSeq reads to the end in one direction (optionally after a Rewind) and
// checks that two more reads return nothing.
func (s *session) readSeq(dir core.Dir, rewind bool) ([]string, error) {
	if rewind {
		s.p.Q.Rewind()
	}
	var out []string
	for {
		k, err := s.get(dir)
		if err != nil {
			return out, err
		}
		if k == "" {
			break
		}
		out = append(out, k)
		if len(out) > 5000 {
			return out, fmt.Errorf("does not terminate")
		}
	}
	for i := 0; i < 2; i++ {
		if k, _ := s.get(dir); k != "" {
			return out, fmt.Errorf("a row (%s) after the end: does not stick", k)
		}
	}
	return out, nil
}

func reversed(list []string) []string {
	out := make([]string, len(list))
	for i, x := range list {
		out[len(list)-1-i] = x
	}
	return out
}

func equalSeq(a, b []string) bool {
	if len(a) != len(b) {
		return false
	}
	for i := range a {
		if a[i] != b[i] {
			return false
		}
	}
	return true
}

// walk runs one call string on the real query and on the cursor model.
func (s *session) walk(calls string, F []string) string {
	s.p.Q.Rewind()
	const rewound, eof = -1, -2
	pos := rewound
	for i, op := range calls {
		if op == 'R' {
			s.p.Q.Rewind()
			pos = rewound
			continue
		}
		dir := core.Next
		if op == 'P' {
			dir = core.Prev
		}
		want := ""
		switch {
		case pos == eof:
		case pos == rewound && dir == core.Next:
			pos = 0
		case pos == rewound:
			pos = len(F) - 1
		case dir == core.Next:
			pos++
		default:
			pos--
		}
		if pos != eof {
			if pos < 0 || pos >= len(F) {
				pos = eof
			} else {
				want = F[pos]
			}
		}
		got, err := s.get(dir)
		if err != nil {
			return err.Error()
		}
		if got != want {
			return fmt.Sprintf("call string %s step %d (%c): got %q, cursor model %q", calls, i+1, op, got, want)
		}
	}
	return ""
}

func try(f func() string) (msg string) {
	defer func() {
		if r := recover(); r != nil {
			msg = fmt.Sprintf("panic: %v", r)
			if os.Getenv("VERIF_STACK") != "" {
				panic(r)
			}
		}
	}()
	return f()
}

// checkPlan judges one prepared strategy.
func (ck *checker) checkPlan(env *qh.Env, q *qm.Q, pq qry.Query, pc qh.PlanCase, p *qh.Prepared, cols []string) {
	c := ck.c
	s := &session{p: p, th: env.Th, cols: cols}
	var Fk []string
	var F [][]qm.Val
	if m := try(func() string {
		rows, err := p.ReadAll(env.Th, core.Next)
		if err != nil {
			return err.Error()
		}
		var e2 error
		if F, e2 = qh.Rows(p, rows, cols, env.Th); e2 != nil {
			return e2.Error()
		}
		Fk = keysOf(F)
		return ""
	}); m != "" {
		ck.fail(env, q, pc, "read", "%s; strategy: %s", m, p.Strategy)
		return
	}
	c.Eval(1)
	// backwards = forwards reversed
	if m := try(func() string {
		B, err := s.readSeq(core.Prev, true)
		if err != nil {
			return err.Error()
		}
		if !equalSeq(B, reversed(Fk)) {
			return fmt.Sprintf("reading backwards gives %v, forwards gave %v", B, Fk)
		}
		return ""
	}); m != "" {
		ck.fail(env, q, pc, "backwards", "%s; strategy: %s", m, p.Strategy)
		return
	}
	c.Eval(1)
	// cursor walks
	for _, w := range ck.walks {
		if m := try(func() string { return s.walk(w, Fk) }); m != "" {
			ck.fail(env, q, pc, "walk", "%s; strategy: %s", m, p.Strategy)
			return
		}
	}
	c.Eval(len(ck.walks))
	colIdx := func(name string) int {
		for i, cn := range cols {
			if cn == name {
				return i
			}
		}
		return -1
	}
	// order / group
	if pc.Req.Use == "order" || pc.Req.Use == "group" {
		idx := make([]int, len(pc.Req.Cols))
		for i, cn := range pc.Req.Cols {
			idx[i] = colIdx(cn)
		}
		sub := func(r []qm.Val) string {
			var sb strings.Builder
			for _, j := range idx {
				sb.WriteString(r[j].Lit() + ",")
			}
			return sb.String()
		}
		if pc.Req.Use == "order" {
			for i := 1; i < len(F); i++ {
				for _, j := range idx {
					cmp := qm.CmpStored(F[i-1][j], F[i][j])
					if cmp > 0 {
						ck.fail(env, q, pc, "order", "rows %d,%d not in the required order %v: %s then %s; strategy: %s",
							i-1, i, pc.Req.Cols, Fk[i-1], Fk[i], p.Strategy)
						return
					}
					if cmp < 0 {
						break
					}
				}
			}
		} else {
			closed := map[string]bool{}
			for i := range F {
				g := sub(F[i])
				if i > 0 && sub(F[i-1]) != g {
					closed[sub(F[i-1])] = true
				}
				if closed[g] {
					ck.fail(env, q, pc, "group", "rows with equal %v are not adjacent (row %d: %s); strategy: %s",
						pc.Req.Cols, i, Fk[i], p.Strategy)
					return
				}
			}
		}
		c.Eval(1)
	}
	// keys and fixed, as parsed and as optimized
	for _, src := range []struct {
		name string
		q    qry.Query
	}{{"parsed", pq}, {"optimized", p.Q}} {
		for _, key := range src.q.Keys() {
			seen := map[string]int{}
			for i, r := range F {
				var sb strings.Builder
				ok := true
				for _, kc := range key {
					j := colIdx(kc)
					if j < 0 {
						ok = false
						break
					}
					sb.WriteString(r[j].Lit() + ",")
				}
				if !ok {
					ck.fail(env, q, pc, "keys", "%s query reports key %v with a column that is not a column of the result %v", src.name, key, cols)
					return
				}
				if j, dup := seen[sb.String()]; dup {
					ck.fail(env, q, pc, "keys", "%s query reports key %v but rows %s and %s agree on it; strategy: %s",
						src.name, key, Fk[j], Fk[i], p.Strategy)
					return
				}
				seen[sb.String()] = i
			}
		}
		for _, fx := range src.q.Fixed() {
			col, vals := qry.VerifFix(fx)
			j := colIdx(col)
			if j < 0 {
				continue // a fixed column that was projected away is not observable
			}
			for i, r := range F {
				raw := qh.Pack(r[j])
				if r[j].IsEmpty() {
					raw = ""
				}
				if !has(vals, raw) {
					var vs []string
					for _, v := range vals {
						if mv, err := qh.ToVal(v); err == nil {
							vs = append(vs, mv.Lit())
						}
					}
					ck.fail(env, q, pc, "fixed", "%s query reports %s fixed to %v but row %s has %s; strategy: %s",
						src.name, col, vs, Fk[i], r[j].Lit(), p.Strategy)
					return
				}
			}
		}
		c.Eval(1)
	}
	sels := func(names []string, vals []qm.Val) qry.Sels {
		var out qry.Sels
		for i, n := range names {
			raw := qh.Pack(vals[i])
			if vals[i].IsEmpty() {
				raw = ""
			}
			out = append(out, qry.NewSel(n, raw))
		}
		return out
	}
	absent := func(cn string) qm.Val {
		// a value of the column's kind that no row has
		j := colIdx(cn)
		for _, r := range F {
			if r[j].K == qm.KStr && !r[j].IsEmpty() {
				return qm.Str("zz")
			}
		}
		return qm.Int(987)
	}
	matching := func(names []string, vals []qm.Val) []int {
		var out []int
		for i, r := range F {
			ok := true
			for k, n := range names {
				if r[colIdx(n)] != vals[k] {
					ok = false
				}
			}
			if ok {
				out = append(out, i)
			}
		}
		return out
	}
	extraCol := ""
	for _, cn := range cols {
		if !has(pc.Req.Cols, cn) {
			extraCol = cn
			break
		}
	}
	valsOf := func(r []qm.Val, names []string) []qm.Val {
		out := make([]qm.Val, len(names))
		for i, n := range names {
			out[i] = r[colIdx(n)]
		}
		return out
	}
	if pc.Req.Use == "unique" {
		rc := pc.Req.Cols
		lookup := func(names []string, vals []qm.Val, strict bool) string {
			return try(func() string {
				row := p.Q.Lookup(env.Th, sels(names, vals))
				got := ""
				if row != nil {
					rv, err := qh.RowVals(p.Q.Header(), row, cols, env.Th)
					if err != nil {
						return err.Error()
					}
					got = rowKey(rv)
				}
				m := matching(names, vals) // all sels
				if len(m) > 1 {
					return "" // not unique on the required columns: reported as a key violation
				}
				want := ""
				if len(m) == 1 {
					want = Fk[m[0]]
				}
				// Only an index within the required columns is looked up; the
				// other columns of the sels are "extra": ignored, for the caller
				// to compare. So when no row matches all sels the result may
				// also be the row that matches them on a reported key.
				alt := want
				if want == "" && got != "" {
					for _, key := range p.Q.Keys() {
						inNames := true
						for _, kc := range key {
							if !has(names, kc) {
								inNames = false
							}
						}
						if !inNames {
							continue
						}
						var kv []qm.Val
						for _, kc := range key {
							for i, n := range names {
								if n == kc {
									kv = append(kv, vals[i])
								}
							}
						}
						if mk := matching(key, kv); len(mk) == 1 && Fk[mk[0]] == got {
							alt = got
						}
					}
				}
				// ... or on the columns of a unique index (not reported as a key by the
				// query layer, and possibly renamed): accepted when the row is the only
				// one that matches the sels on some subset of their columns
				if want == "" && got != "" && alt == "" {
					for sub := 1; sub < 1<<len(names); sub++ {
						var sn []string
						var sv []qm.Val
						for i := range names {
							if sub&(1<<i) != 0 {
								sn = append(sn, names[i])
								sv = append(sv, vals[i])
							}
						}
						if mk := matching(sn, sv); len(mk) == 1 && Fk[mk[0]] == got {
							alt = got
							break
						}
					}
				}
				_ = strict
				if got != want && got != alt {
					return fmt.Sprintf("Lookup(%v = %v) returned %q, expected %q", names, vals, got, want)
				}
				return ""
			})
		}
		for _, r := range F {
			v := valsOf(r, rc)
			if m := lookup(rc, v, true); m != "" {
				ck.fail(env, q, pc, "lookup", "%s; strategy: %s", m, p.Strategy)
				return
			}
			for k := range rc {
				v2 := append([]qm.Val(nil), v...)
				v2[k] = absent(rc[k])
				if m := lookup(rc, v2, true); m != "" {
					ck.fail(env, q, pc, "lookup-absent", "%s; strategy: %s", m, p.Strategy)
					return
				}
			}
			if extraCol != "" {
				names := append(append([]string(nil), rc...), extraCol)
				if m := lookup(names, append(append([]qm.Val(nil), v...), r[colIdx(extraCol)]), false); m != "" {
					ck.fail(env, q, pc, "lookup-extra", "%s; strategy: %s", m, p.Strategy)
					return
				}
				if m := lookup(names, append(append([]qm.Val(nil), v...), absent(extraCol)), false); m != "" {
					ck.fail(env, q, pc, "lookup-extra-absent", "%s; strategy: %s", m, p.Strategy)
					return
				}
			}
			c.Eval(2 + len(rc))
		}
		if len(F) == 0 {
			v := make([]qm.Val, len(rc))
			for k := range rc {
				v[k] = qm.Int(987)
			}
			if m := lookup(rc, v, true); m != "" {
				ck.fail(env, q, pc, "lookup-empty", "%s; strategy: %s", m, p.Strategy)
				return
			}
		}
		// Lookup must leave no select behind
		if m := try(func() string {
			again, err := s.readSeq(core.Next, true)
			if err != nil {
				return err.Error()
			}
			if !equalSeq(again, Fk) {
				return fmt.Sprintf("after the lookups a full read gives %v, before %v", again, Fk)
			}
			return ""
		}); m != "" {
			ck.fail(env, q, pc, "after-lookup", "%s; strategy: %s", m, p.Strategy)
			return
		}
	}
	if pc.Req.Use == "order" || pc.Req.Use == "group" {
		rc := pc.Req.Cols
		prefixes := [][]string{rc}
		if pc.Req.Use == "order" {
			for n := 1; n < len(rc); n++ {
				prefixes = append(prefixes, rc[:n])
			}
		}
		sel := func(names []string, vals []qm.Val, exact bool, upper []int) string {
			return try(func() string {
				p.Q.Select(sels(names, vals))
				fw, err := s.readSeq(core.Next, false) // Select must rewind
				if err != nil {
					return err.Error()
				}
				m := matching(names, vals)
				want := make([]string, len(m))
				for i, j := range m {
					want[i] = Fk[j]
				}
				ok := equalSeq(fw, want)
				if !ok && !exact {
					// an extra column may be ignored: between the rows matching
					// all sels and the rows matching the required columns
					up := map[string]bool{}
					for _, j := range upper {
						up[Fk[j]] = true
					}
					ok = true
					got := map[string]bool{}
					for _, k := range fw {
						got[k] = true
						if !up[k] {
							ok = false
						}
					}
					for _, k := range want {
						if !got[k] {
							ok = false
						}
					}
				}
				if !ok {
					return fmt.Sprintf("Select(%v = %v) then reading gives %v, expected %v", names, vals, fw, want)
				}
				bw, err := s.readSeq(core.Prev, true)
				if err != nil {
					return err.Error()
				}
				if !equalSeq(bw, reversed(fw)) {
					return fmt.Sprintf("Select(%v = %v): backwards %v, forwards %v", names, vals, bw, fw)
				}
				p.Q.Select(nil)
				all, err := s.readSeq(core.Next, false)
				if err != nil {
					return err.Error()
				}
				if !equalSeq(all, Fk) {
					return fmt.Sprintf("after Select(%v = %v) and Select(nil) a read gives %v, before %v", names, vals, all, Fk)
				}
				return ""
			})
		}
		for _, names := range prefixes {
			done := map[string]bool{}
			for _, r := range F {
				v := valsOf(r, names)
				if done[rowKey(v)] {
					continue
				}
				done[rowKey(v)] = true
				if m := sel(names, v, true, nil); m != "" {
					ck.fail(env, q, pc, "select", "%s; strategy: %s", m, p.Strategy)
					return
				}
				v2 := append([]qm.Val(nil), v...)
				v2[len(v2)-1] = absent(names[len(names)-1])
				if m := sel(names, v2, true, nil); m != "" {
					ck.fail(env, q, pc, "select-absent", "%s; strategy: %s", m, p.Strategy)
					return
				}
				if extraCol != "" && len(names) == len(rc) {
					upper := matching(names, v)
					n2 := append(append([]string(nil), names...), extraCol)
					if m := sel(n2, append(append([]qm.Val(nil), v...), r[colIdx(extraCol)]), false, upper); m != "" {
						ck.fail(env, q, pc, "select-extra", "%s; strategy: %s", m, p.Strategy)
						return
					}
				}
				c.Eval(3)
			}
			if len(F) == 0 {
				v := make([]qm.Val, len(names))
				for k := range names {
					v[k] = qm.Int(987)
				}
				if m := sel(names, v, true, nil); m != "" {
					ck.fail(env, q, pc, "select-empty", "%s; strategy: %s", m, p.Strategy)
					return
				}
			}
		}
	}
	c.Count("strategies_checked", 1)
	if len(F) > 1 {
		c.Nontrivial(1)
	}
	c.Distinct(pc.Req.Use + ":" + pc.Mode + ":" + stratShape(p.Strategy))
	if ck.sample%2003 == 0 {
		c.Sample(map[string]any{"query": q.Text(), "db": env.Name, "plan": pc.String(), "strategy": p.Strategy, "rows": len(F)})
	}
	ck.sample++
}

func stratShape(s string) string {
	var sb strings.Builder
	for _, w := range strings.Fields(s) {
		switch {
		case strings.ContainsAny(w, "^"):
			sb.WriteString("T^ ")
		case strings.HasPrefix(w, "project") || strings.HasPrefix(w, "summarize") ||
			strings.HasPrefix(w, "union") || strings.HasPrefix(w, "join") ||
			strings.HasPrefix(w, "leftjoin") || strings.HasPrefix(w, "semijoin") ||
			strings.HasPrefix(w, "tempindex") || strings.HasPrefix(w, "where") ||
			w == "intersect" || w == "minus" || w == "times" || w == "extend" || w == "rename" ||
			w == "1:1" || w == "1:n" || w == "n:1" || w == "n:n" || w == "reverse":
			sb.WriteString(w + " ")
		}
	}
	return sb.String()
}

// checkCase runs all plans of one (query, content variant).
func (ck *checker) checkCase(env *qh.Env, q *qm.Q, only *qh.PlanCase) {
	c := ck.c
	text := q.Text()
	sh := env.Model.ShapeOf(q)
	if _, err := env.Model.Eval(q); err != nil || sh == nil {
		// undecided / invalid queries: C22 counts them; the access contracts
		// do not depend on the model, but expressions that may throw make the
		// reference read itself fail
		c.Count("skipped_undecided_or_invalid", 1)
		return
	}
	pq, err := env.ParseOnly(text)
	if err != nil {
		c.Count("rejected_by_parser", 1)
		return
	}
	cols := pq.Columns()
	if !qh.SameCols(cols, sh.Cols) {
		if qm.MinMax1(q) {
			c.Count("minmax_shape_not_modelled", 1) // as in C22
			return
		}
		ck.fail(env, q, qh.PlanCase{}, "columns", "columns %v, model %v", cols, sh.Cols)
		return
	}
	_, isSort := pq.(*qry.Sort)
	visit := func(pc qh.PlanCase, p *qh.Prepared, err error) {
		if err != nil {
			if pc.Knobs.Stats != "" {
				c.Count("setup_panic_under_scaled_statistics", 1)
				return
			}
			if strings.Contains(err.Error(), "cannot do math on String literal") {
				c.Count("undecided_expression_error_at_setup", 1) // as in C22
				return
			}
			ck.fail(env, q, pc, "setup", "%v", err)
			return
		}
		if !qh.SameCols(p.Cols, cols) {
			ck.fail(env, q, pc, "columns-optimized", "optimized query has columns %v, parsed %v (%s)", p.Cols, cols, p.Strategy)
			return
		}
		ck.checkPlan(env, q, pq, pc, p, cols)
	}
	if only != nil {
		p, err := env.Prepare(text, qh.ParseMode(only.Mode), only.Req, only.Knobs, only.Choices)
		if err == qh.ErrImpossible {
			return
		}
		visit(*only, p, err)
		if p != nil {
			p.Close()
		}
		return
	}
	for _, mode := range []qry.Mode{qry.ReadMode, qry.UpdateMode, qry.CursorMode} {
		rs := []qh.Req{{Use: "none"}}
		if mode == qry.ReadMode {
			rs = reqs(pq, isSort, cols)
		}
		for _, r := range rs {
			st := env.ExplorePlans(text, mode, r, ck.effort(q, mode, r), visit)
			c.Count("optimizer_runs", st.Runs)
			c.Count("req_"+r.Use, 1)
		}
	}
	c.Count("cases", 1)
}

type work struct {
	q        *qm.Q
	variants []string
}

func queries(c *lib.Ctx) []work {
	var out []work
	all := qm.VariantNames
	g := &qm.Gen{DB: qm.Variants()["small"], Outer: 1, Inner: 0}
	d1, d2 := g.QuickQueries()
	for _, q := range d1 {
		out = append(out, work{q, all})
		if ss := g.Sorts(q); len(ss) > 0 {
			out = append(out, work{ss[len(ss)-1], all[:3]})
		}
	}
	step := lib.Pick(c, 6, 1)
	for k, q := range d2 {
		if k%step == 0 {
			out = append(out, work{q, all[:3]})
		}
	}
	return out
}

func run(c *lib.Ctx) {
	if pre := os.Getenv("VERIF_TRIAGE"); pre != "" {
		triage, _ = os.Create(fmt.Sprintf("%s-%d.txt", pre, c.Shard))
		defer triage.Close()
	}
	ck := newChecker(c)
	qs := queries(c)
	c.Set("queries_enumerated", len(qs))
	c.Set("call_strings", len(ck.walks))
	for k, w := range qs {
		if k%c.NShards != c.Shard {
			continue
		}
		if c.Expired() {
			c.Cap("stopped at query %d of %d", k, len(qs))
			break
		}
		for _, vn := range w.variants {
			ck.checkCase(ck.envs[vn], w.q, nil)
		}
	}
}

func replay(c *lib.Ctx, raw json.RawMessage) {
	var fc failCase
	if err := json.Unmarshal(raw, &fc); err != nil {
		lib.Infra("bad case: %v", err)
	}
	ck := newChecker(c)
	env := ck.envs[fc.Variant]
	if env == nil {
		lib.Infra("unknown variant %q", fc.Variant)
	}
	var only *qh.PlanCase
	if fc.Plan.Mode != "" {
		only = &fc.Plan
	}
	ck.checkCase(env, fc.Q, only)
}

func main() {
	_ = sort.Strings
	lib.Main(lib.Spec{
		ID:    "C23",
		Level: "exploration",
		Rule: "every prepared strategy of the enumerated (query, contents, mode, requirement, optimizer decisions) space x every call string of length L over {Rewind, Get(Next), Get(Prev)} " +
			"+ every Lookup (unique) / Select (order, group) value combination incl. absent values and an extra column + Keys()/Fixed() of the parsed and of the optimized query; " +
			"evaluations = contract checks performed (reads, call strings, lookups, selects, key/fixed scans); non-trivial = strategies with >= 2 result rows that passed all checks; " +
			"distinct = distinct (requirement, mode, strategy skeleton)",
		Assumptions: []string{
			"reference = the row list of a full forward read of the same prepared query (its agreement with the relational model is C22's subject)",
			"a Lookup/Select with a column outside the requirement may ignore or apply that column (both accepted)",
			"queries whose expressions may throw or that the documentation leaves undecided are skipped as in C22",
			"known-finding classes are those of C22 (whole-row summarize, summarize result named like a source column)",
		},
		QuickBudget: 55, ThoroughBudget: 840,
		Procs: 16,
		Run:   run, Replay: replay,
	})
}
