//go:build verif

package query

import "math/rand/v2"

// Added by /verif (build overlay only): exported access to the optimizer's
// test seams and to a few unexported fields, for the C22-C25 checks (copy for C23).

// VerifSetRandomBest installs (or clears, with nil) the generator consulted by
// best.update.
func VerifSetRandomBest(r *rand.Rand) { randomBest = r }

// VerifSetJoinRev sets the join reversal cost adjustment (0 = normal,
// VerifImpossible = never reverse).
func VerifSetJoinRev(n int) { joinRev = n }

// VerifSetTicostAdj sets the temp index cost adjustment.
func VerifSetTicostAdj(n int) { ticostAdj = n }

const VerifImpossible = impossible

// VerifFix returns the column and packed values of one Fixed entry.
func VerifFix(f Fix) (string, []string) { return f.col, f.values }

// VerifReqCols returns the columns of a Require.
func VerifReqCols(r Require) []string { return r.cols }

// VerifSources returns the child queries of a node (nil for leaves).
func VerifSources(q Query) []Query {
	switch x := q.(type) {
	case q2i:
		return []Query{x.Source(), x.Source2()}
	case q1i:
		return []Query{x.Source()}
	case *ProjectNone:
		return []Query{x.source}
	}
	return nil
}

// VerifWholeRowBelow reports whether some summarize node that uses the
// "whole row" special case (overall min/max of a key also returns the record)
// lies below another operator (a Sort at the root does not count).
// Used only to classify failures.
func VerifWholeRowBelow(q Query) bool {
	if s, ok := q.(*Sort); ok {
		q = s.source
	}
	found := false
	var walk func(q Query, root bool)
	walk = func(q Query, root bool) {
		if su, ok := q.(*Summarize); ok && su.wholeRow && !root {
			found = true
		}
		for _, c := range VerifSources(q) {
			walk(c, false)
		}
	}
	walk(q, true)
	return found
}
