// C06 Every index always agrees with its table. See verif/txpipe.
package main

import "verif/txpipe"

func main() {
	txpipe.Main(txpipe.CheckDef{
		ID:         "C06",
		Groups:     []string{"idx", "atom"},
		Oracles:    txpipe.Oracles{IndexAgree: true},
		QuickBound: 1, ThoroughBound: 2,
		Rule: "Oracle: in every published state, for every table, every index reaches exactly the same set of record offsets, is strictly ordered, and each entry's key is the key computed from its row; the final persisted state passes the database's own full check.",
	})
}
