// C24 Query update statements change exactly the selected rows.
//
// Enumerated: table t(k,a,b) key(k) index(a) with every subset of a 4-row
// universe as contents (16), a second table u(k,a,b) key(k) with fixed
// contents as insert source / target; every statement of:
//
//	delete Q                      Q = t with each of 13 predicates, plus 4 two-operator queries
//	update Q set <list>           x 9 set lists (non-key, indexed column, key up / down / constant / +1, two columns)
//	insert { record } into ...    new key, existing key, missing columns, into a query
//	insert Q into table           other table, same table, fewer/more/renamed columns, a source that reads its own output
//
// run through DoAction in a real update transaction which is then committed
// (or aborted after an error).
//
// Oracle (package qm + this file): the rows Q selects are computed by the
// model evaluator on the model table; delete removes exactly those, update
// replaces each by the row with the set expressions (evaluated on the old
// row) applied, insert adds the rows; the reported count is their number
// (1 for insert record). A statement whose final table would hold two rows
// with one key must fail and leave the table unchanged; if only an
// intermediate state could collide (depends on the row order) either outcome
// is accepted. Any other error is a failure.
package main

import (
	"encoding/json"
	"fmt"
	"os"
	"sort"
	"strings"

	_ "github.com/apmckinlay/gsuneido/builtin"
	"github.com/apmckinlay/gsuneido/core"
	qry "github.com/apmckinlay/gsuneido/dbms/query"

	"verif/checks/c22/qh"
	"verif/checks/c22/qm"
	"verif/lib"
)

// ClassMovesForward: F7, the Halloween problem of update (action.go): the
// set list assigns, to a column of the key index the update iterates, a value
// that sorts after the row's current value, for at least two selected rows
// or such that a moved row lands beyond another selected row; the statement
// fails with "too many writes" and the table is unchanged.
const ClassMovesForward = "update-moves-row-forward-in-iterated-index"

// ClassProjectClears: an update through a project (that keeps the key, so it
// is accepted as updateable) rewrites the selected rows with "" in every
// column the project removed (updateAction builds the new record from the
// projected header, whose removed fields are "-").
const ClassProjectClears = "update-through-project-clears-other-columns"

// ClassInsertOwnOutput: insert Q into T where Q reads T and produces new keys
// beyond the ones it has read: the source iteration meets the inserted rows.
const ClassInsertOwnOutput = "insert-query-reads-own-output"

var (
	vi = qm.Int
	vs = qm.Str
)

var tCols = []string{"k", "a", "b"}

var universe = [][]qm.Val{
	{vi(1), vs("x"), vi(10)},
	{vi(2), vs("y"), vi(20)},
	{vi(3), vs("x"), vi(30)},
	{vi(5), vs(""), vi(0)},
}

var uRows = [][]qm.Val{
	{vi(2), vs("y"), vi(20)},
	{vi(7), vs("w"), vi(70)},
}

func modelDB(subset int) *qm.DB {
	db := &qm.DB{Tables: map[string]*qm.TableDef{}, Views: map[string]*qm.Q{}}
	t := &qm.TableDef{Name: "t", Cols: tCols, Keys: [][]string{{"k"}}, Indexes: [][]string{{"a"}}}
	for i, r := range universe {
		if subset&(1<<i) != 0 {
			t.Rows = append(t.Rows, r)
		}
	}
	u := &qm.TableDef{Name: "u", Cols: tCols, Keys: [][]string{{"k"}}, Rows: uRows}
	db.Tables["t"], db.Tables["u"] = t, u
	db.Order = []string{"t", "u"}
	return db
}

// stmt is one statement as written.
type stmt struct {
	Kind   string   `json:"kind"` // delete update insertrec insertq
	Q      *qm.Q    `json:"q,omitempty"`
	Set    []string `json:"set,omitempty"` // update: assigned columns
	Exprs  []*qm.E  `json:"exprs,omitempty"`
	Rec    []string `json:"reccols,omitempty"` // insert record: member names
	RecV   []qm.Val `json:"recvals,omitempty"`
	Target string   `json:"target,omitempty"` // insert query: table
}

func (s *stmt) Text() string {
	switch s.Kind {
	case "delete":
		return "delete " + s.Q.Text()
	case "update":
		var parts []string
		for i, c := range s.Set {
			parts = append(parts, c+" = "+s.Exprs[i].Text())
		}
		return "update " + s.Q.Text() + " set " + strings.Join(parts, ", ")
	case "insertrec":
		var parts []string
		for i, c := range s.Rec {
			parts = append(parts, c+": "+s.RecV[i].Lit())
		}
		return "insert { " + strings.Join(parts, ", ") + " } into " + s.Q.Text()
	}
	return "insert " + s.Q.Text() + " into " + s.Target
}

func col(c string) *qm.E              { return qm.Col(c) }
func con(v qm.Val) *qm.E              { return qm.Con(v) }
func bin(op string, x, y *qm.E) *qm.E { return qm.Bin(op, x, y) }
func where(q *qm.Q, e *qm.E) *qm.Q    { return qm.Where(q, e) }

func selections() []*qm.Q {
	t := qm.Table("t")
	preds := []*qm.E{
		bin("is", col("k"), con(vi(2))),
		bin(">", col("k"), con(vi(1))),
		qm.In(col("k"), vi(1), vi(3)),
		bin("is", col("a"), con(vs("x"))),
		bin("is", col("a"), con(vs(""))),
		bin(">", col("a"), con(vs("x"))),
		bin(">=", col("b"), con(vi(20))),
		bin("and", bin("<", col("b"), con(vi(20))), bin("is", col("a"), con(vs("x")))),
		bin("or", bin("is", col("k"), con(vi(1))), bin("is", col("k"), con(vi(5)))),
		bin("and", bin("is", col("k"), con(vi(2))), bin("is", col("k"), con(vi(3)))),
		bin("is", bin("+", col("b"), con(vi(1))), con(vi(21))),
		bin("isnt", col("a"), con(vs("x"))),
	}
	out := []*qm.Q{t}
	for _, p := range preds {
		out = append(out, where(t, p))
	}
	out = append(out,
		where(where(t, bin("is", col("a"), con(vs("x")))), bin(">", col("b"), con(vi(10)))),
		where(qm.Extend(t, []string{"z"}, []*qm.E{bin("+", col("b"), con(vi(1)))}), bin(">", col("z"), con(vi(20)))),
		where(qm.Rename(t, []string{"b"}, []string{"c"}), bin(">", col("c"), con(vi(10)))),
		where(qm.Project(t, "k", "a"), bin("is", col("a"), con(vs("x")))),
	)
	return out
}

type setList struct {
	cols  []string
	exprs []*qm.E
}

func setLists() []setList {
	return []setList{
		{[]string{"b"}, []*qm.E{bin("+", col("b"), con(vi(1)))}},
		{[]string{"a"}, []*qm.E{con(vs("q"))}},
		{[]string{"a"}, []*qm.E{con(vs(""))}},
		{[]string{"k"}, []*qm.E{bin("+", col("k"), con(vi(10)))}},
		{[]string{"k"}, []*qm.E{bin("-", col("k"), con(vi(10)))}},
		{[]string{"k"}, []*qm.E{con(vi(7))}},
		{[]string{"k"}, []*qm.E{bin("+", col("k"), con(vi(1)))}},
		{[]string{"k"}, []*qm.E{bin("-", col("k"), con(vi(1)))}},
		{[]string{"b", "a"}, []*qm.E{col("k"), bin("$", col("a"), con(vs("z")))}},
		{[]string{"c"}, []*qm.E{bin("+", col("c"), con(vi(1)))}}, // only through "rename b to c"
	}
}

func statements() []*stmt {
	var out []*stmt
	sels := selections()
	for _, q := range sels {
		out = append(out, &stmt{Kind: "delete", Q: q})
	}
	for _, q := range sels {
		sh := modelDB(15).ShapeOf(q)
		for _, sl := range setLists() {
			ok := true
			for _, c := range sl.cols {
				if !hasStr(sh.Cols, c) {
					ok = false
				}
			}
			for _, e := range sl.exprs {
				for _, c := range e.Cols() {
					if !hasStr(sh.Cols, c) {
						ok = false
					}
				}
			}
			if ok {
				out = append(out, &stmt{Kind: "update", Q: q, Set: sl.cols, Exprs: sl.exprs})
			}
		}
	}
	t := qm.Table("t")
	rec := func(target *qm.Q, cols []string, vals ...qm.Val) {
		out = append(out, &stmt{Kind: "insertrec", Q: target, Rec: cols, RecV: vals})
	}
	rec(t, tCols, vi(9), vs("n"), vi(90))
	rec(t, tCols, vi(2), vs("n"), vi(90))
	rec(t, tCols, vi(0), vs("x"), vi(10))
	rec(t, []string{"k"}, vi(9))
	rec(t, []string{"a", "b"}, vs("n"), vi(1))
	rec(where(t, bin("is", col("a"), con(vs("x")))), tCols, vi(9), vs("n"), vi(90))
	rec(qm.Rename(t, []string{"b"}, []string{"c"}), []string{"k", "a", "c"}, vi(9), vs("n"), vi(90))
	u := qm.Table("u")
	insq := func(q *qm.Q, target string) {
		out = append(out, &stmt{Kind: "insertq", Q: q, Target: target})
	}
	insq(u, "t")
	insq(t, "u")
	insq(where(t, bin("is", col("a"), con(vs("x")))), "u")
	insq(qm.Extend(t, []string{"z"}, []*qm.E{con(vi(1))}), "u")
	insq(qm.Project(t, "k", "a"), "u")
	insq(qm.Rename(t, []string{"k"}, []string{"j"}), "u")
	insq(t, "t")
	insq(qm.Binary("minus", u, t), "t")
	// reads t and inserts rows with larger keys into t
	insq(qm.Project(qm.Extend(qm.Rename(t, []string{"k"}, []string{"z"}), []string{"k"},
		[]*qm.E{bin("+", col("z"), con(vi(10)))}), "k", "a", "b"), "t")
	return out
}

func hasStr(list []string, s string) bool {
	for _, x := range list {
		if x == s {
			return true
		}
	}
	return false
}

// outcome the model allows.
type outcome struct {
	okFinal   map[string][][]qm.Val // table -> rows, if success is allowed
	count     int
	mustFail  bool // success not allowed (final state would violate the key)
	mayFail   bool // a duplicate-key failure is also acceptable (transient collision)
	undecided string
}

func keyOf(row []qm.Val) qm.Val { return row[0] }

func hasDupKeys(rows [][]qm.Val) bool {
	seen := map[qm.Val]bool{}
	for _, r := range rows {
		if seen[keyOf(r)] {
			return true
		}
		seen[keyOf(r)] = true
	}
	return false
}

// expect computes the allowed outcome of the statement on the model database.
// moved reports (for update) whether some selected row gets a larger key.
func expect(db *qm.DB, s *stmt) (o outcome, movedFwd bool) {
	tbl := func(name string) [][]qm.Val { return db.Tables[name].Rows }
	final := map[string][][]qm.Val{"t": tbl("t"), "u": tbl("u")}
	o.okFinal = final
	switch s.Kind {
	case "insertrec":
		row := make([]qm.Val, len(tCols))
		// the target query may rename columns: map record members to table columns by position
		qcols := db.ShapeOf(s.Q).Cols
		for i, c := range s.Rec {
			for j, qc := range qcols {
				if qc == c {
					row[j] = s.RecV[i]
				}
			}
		}
		final["t"] = append(append([][]qm.Val(nil), tbl("t")...), row)
		o.count = 1
		o.mustFail = hasDupKeys(final["t"])
		return
	}
	res, err := db.Eval(s.Q)
	if err != nil {
		o.undecided = err.Error()
		return
	}
	kcol := res.Col("k")
	switch s.Kind {
	case "delete", "update":
		if kcol < 0 {
			o.undecided = "no key column in the selection"
			return
		}
		selected := map[qm.Val][]qm.Val{}
		for _, r := range res.Rows {
			selected[r[kcol]] = r
		}
		o.count = len(res.Rows)
		var rest, updated [][]qm.Val
		for _, r := range tbl("t") {
			sel, ok := selected[keyOf(r)]
			if !ok {
				rest = append(rest, r)
				continue
			}
			if s.Kind == "delete" {
				continue
			}
			nr := append([]qm.Val(nil), r...)
			for i, c := range s.Set {
				v, err := qm.EvalExpr(s.Exprs[i], func(name string) (qm.Val, bool) {
					j := res.Col(name)
					if j < 0 {
						return qm.Empty, false
					}
					return sel[j], true
				})
				if err != nil {
					o.undecided = err.Error()
					return
				}
				// assigned column of the query -> table column (rename b to c)
				tc := c
				if c == "c" {
					tc = "b"
				}
				for j, name := range tCols {
					if name == tc {
						nr[j] = v
					}
				}
			}
			if qm.CmpStored(keyOf(nr), keyOf(r)) > 0 {
				movedFwd = true
			}
			// transient collision: the new key equals the old key of another row
			if keyOf(nr) != keyOf(r) {
				for _, other := range tbl("t") {
					if keyOf(other) == keyOf(nr) {
						o.mayFail = true
					}
				}
			}
			updated = append(updated, nr)
		}
		final["t"] = append(rest, updated...)
		o.mustFail = hasDupKeys(final["t"])
	case "insertq":
		target := append([][]qm.Val(nil), tbl(s.Target)...)
		for _, r := range res.Rows {
			nr := make([]qm.Val, len(tCols))
			for j, name := range tCols {
				if i := res.Col(name); i >= 0 {
					nr[j] = r[i]
				}
			}
			target = append(target, nr)
		}
		final[s.Target] = target
		o.count = len(res.Rows)
		o.mustFail = hasDupKeys(target)
	}
	return
}

type env struct {
	*qh.Env
	cur int // subset currently in t
}

func newEnv() *env {
	return &env{Env: qh.NewEnv("c24", modelDB(0)), cur: 0}
}

// reset makes table t hold exactly the subset and u its fixed contents: the
// tables are dropped and created again (admin requests, not under test) and
// filled by insert statements; the result is read back and must be right.
func (e *env) reset(subset int) error {
	m := modelDB(subset)
	var err error
	if perr := lib.Try(func() {
		for _, name := range []string{"t", "u"} {
			qry.DoAdmin(e.DB, "drop "+name, nil)
			qry.DoAdmin(e.DB, m.Tables[name].Schema(), nil)
			for _, r := range m.Tables[name].Rows {
				e.Act(qh.InsertText(m.Tables[name], r))
			}
			rows, rerr := e.contents(name, false)
			if rerr != nil {
				err = rerr
				return
			}
			if rowsText(rows) != rowsText(m.Tables[name].Rows) {
				err = fmt.Errorf("after inserting %s table %s holds %s", rowsText(m.Tables[name].Rows), name, rowsText(rows))
				return
			}
		}
	}); perr != nil {
		return fmt.Errorf("%s", lib.PanicText(perr))
	}
	e.cur = subset
	return err
}

// contents reads a table through the query layer (key index and index a).
func (e *env) contents(table string, viaIndex bool) ([][]qm.Val, error) {
	text := table
	if viaIndex {
		text += " sort a"
	}
	p, err := e.Prepare(text, qry.ReadMode, qh.Req{Use: "none"}, qh.Knobs{}, qh.Choices{Off: true})
	if err != nil {
		return nil, err
	}
	defer p.Close()
	rows, err := p.ReadAll(e.Th, core.Next)
	if err != nil {
		return nil, err
	}
	return qh.Rows(p, rows, tCols, e.Th)
}

func rowsText(rows [][]qm.Val) string {
	var parts []string
	for _, r := range rows {
		var f []string
		for _, v := range r {
			f = append(f, v.Lit())
		}
		parts = append(parts, "("+strings.Join(f, ",")+")")
	}
	sort.Strings(parts)
	return strings.Join(parts, " ")
}

type failCase struct {
	Subset   int   `json:"subset"`
	Universe int   `json:"universe"`
	Stmt     *stmt `json:"stmt"`
}

func checkCase(c *lib.Ctx, e *env, subset int, s *stmt) {
	model := modelDB(subset)
	exp, movedFwd := expect(model, s)
	if exp.undecided != "" {
		c.Count("undecided", 1)
		return
	}
	text := s.Text()
	fail := func(class, format string, a ...any) {
		if class != "" && os.Getenv("VERIF_DEV_KNOWN") != "" {
			// development aid: behave as if the classes were listed in KNOWN_FINDINGS
			c.Count("dev_known:"+class, 1)
			return
		}
		if os.Getenv("VERIF_TRIAGE") != "" {
			fmt.Fprintf(os.Stderr, "TRIAGE %s | t = %s | %s\n", text, rowsText(model.Tables["t"].Rows), fmt.Sprintf(format, a...))
			return
		}
		c.Fail(class, failCase{subset, len(universe), s}, "%s | t = %s | %s", text, rowsText(model.Tables["t"].Rows),
			fmt.Sprintf(format, a...))
	}
	if err := e.reset(subset); err != nil {
		fail("", "setting up the contents by insert statements failed: %v", err)
		return
	}
	before := map[string]string{"t": rowsText(model.Tables["t"].Rows), "u": rowsText(model.Tables["u"].Rows)}
	ut := e.DB.NewUpdateTran()
	n := 0
	perr := lib.Try(func() { n = qry.DoAction(e.Th, ut, text) })
	if perr == nil {
		if cerr := lib.Try(func() { ut.Commit() }); cerr != nil {
			perr = cerr
		}
	} else {
		ut.Abort()
	}
	c.Eval(1)
	got := map[string]string{}
	for _, name := range []string{"t", "u"} {
		rows, err := e.contents(name, false)
		if err != nil {
			fail("", "cannot read %s afterwards: %v", name, err)
			return
		}
		got[name] = rowsText(rows)
		if name == "t" {
			rows2, err := e.contents(name, true)
			if err != nil || rowsText(rows2) != got[name] {
				fail("", "table t read by index a differs from the key index afterwards: %s vs %s (%v)", rowsText(rows2), got[name], err)
				return
			}
		}
	}
	unchanged := got["t"] == before["t"] && got["u"] == before["u"]
	if perr != nil {
		msg := lib.PanicText(perr)
		c.Distinct("error:" + strings.SplitN(msg, ":", 2)[0])
		if !unchanged {
			fail("", "failed (%s) but the tables changed: t = %s, u = %s", msg, got["t"], got["u"])
			return
		}
		dup := strings.Contains(msg, "duplicate key")
		switch {
		case dup && (exp.mustFail || exp.mayFail):
			c.Count("refused_duplicate_key", 1)
		case strings.Contains(msg, "too many writes"):
			class := ""
			if s.Kind == "update" && movedFwd && hasStr(s.Set, "k") {
				class = ClassMovesForward
			}
			if s.Kind == "insertq" && s.Target == "t" && readsT(s.Q) {
				class = ClassInsertOwnOutput
			}
			fail(class, "a valid statement (model: %d rows, t afterwards = %s) fails with: %s", exp.count, rowsText(exp.okFinal["t"]), msg)
		default:
			fail("", "unexpected error: %s (model: %d rows, t afterwards = %s)", msg, exp.count, rowsText(exp.okFinal["t"]))
		}
		return
	}
	c.Distinct(fmt.Sprintf("%s:%d", s.Kind, n))
	if exp.mustFail {
		fail("", "succeeded (count %d) although the result has two rows with one key; t = %s u = %s", n, got["t"], got["u"])
		return
	}
	if n != exp.count {
		fail("", "reported %d rows, the query selects %d", n, exp.count)
		return
	}
	for _, name := range []string{"t", "u"} {
		if want := rowsText(exp.okFinal[name]); got[name] != want {
			class := ""
			if s.Kind == "update" && name == "t" && got[name] == rowsText(clearedByProject(model, s, exp.okFinal["t"])) {
				class = ClassProjectClears
			}
			fail(class, "table %s afterwards = %s, expected %s", name, got[name], want)
			return
		}
	}
	if exp.count > 0 {
		c.Nontrivial(1)
	}
}

// clearedByProject returns the expected table with, in every row that the
// statement changed or selected, "" in the columns that the selection query
// does not have (nil if the query has all columns).
func clearedByProject(model *qm.DB, s *stmt, final [][]qm.Val) [][]qm.Val {
	sh := model.ShapeOf(s.Q)
	res, err := model.Eval(s.Q)
	if sh == nil || err != nil || !s.Q.Has("project") {
		return nil
	}
	var missing []int
	for j, c := range tCols {
		if !hasStr(sh.Cols, c) {
			missing = append(missing, j)
		}
	}
	if len(missing) == 0 || len(res.Rows) == 0 {
		return nil
	}
	// the rows of final that are not untouched rows of the original table
	orig := map[string]bool{}
	selected := map[qm.Val]bool{}
	kcol := res.Col("k")
	for _, r := range res.Rows {
		selected[r[kcol]] = true
	}
	for _, r := range model.Tables["t"].Rows {
		if !selected[keyOf(r)] {
			orig[rowsText([][]qm.Val{r})] = true
		}
	}
	var out [][]qm.Val
	for _, r := range final {
		if orig[rowsText([][]qm.Val{r})] {
			out = append(out, r)
			continue
		}
		nr := append([]qm.Val(nil), r...)
		for _, j := range missing {
			nr[j] = qm.Empty
		}
		out = append(out, nr)
	}
	return out
}

func readsT(q *qm.Q) bool {
	found := false
	q.Walk(func(n *qm.Q) {
		if n.Op == "table" && n.Name == "t" {
			found = true
		}
	})
	return found
}

func run(c *lib.Ctx) {
	if !c.Quick() {
		// thorough: a fifth row (duplicate values in the non-key columns): 32 contents
		universe = append(universe, []qm.Val{vi(4), vs("y"), vi(20)})
	}
	e := newEnv()
	stmts := statements()
	c.Set("statements", len(stmts))
	nsub := 1 << len(universe)
	c.Set("table_contents", nsub)
	k := 0
	for si, s := range stmts {
		for subset := 0; subset < nsub; subset++ {
			k++
			if k%c.NShards != c.Shard {
				continue
			}
			if c.Expired() {
				return
			}
			checkCase(c, e, subset, s)
			if si%37 == 0 && subset == 11 {
				c.Sample(map[string]any{"statement": s.Text(), "t": rowsText(modelDB(subset).Tables["t"].Rows)})
			}
		}
	}
}

func replay(c *lib.Ctx, raw json.RawMessage) {
	var fc failCase
	if err := json.Unmarshal(raw, &fc); err != nil {
		lib.Infra("bad case: %v", err)
	}
	if fc.Universe == 5 {
		universe = append(universe, []qm.Val{vi(4), vs("y"), vi(20)})
	}
	checkCase(c, newEnv(), fc.Subset, fc.Stmt)
}

func main() {
	lib.Main(lib.Spec{
		ID:    "C24",
		Level: "exploration",
		Rule: "every statement of the enumerated delete/update/insert family x every subset of a 4-row universe as contents of t; " +
			"evaluations = statements executed in a real update transaction; non-trivial = statements whose model result affects >= 1 row and that were judged equal; " +
			"distinct = distinct (kind, reported count) and error kinds observed",
		Assumptions: []string{
			"oracle: selected rows by the qm relational evaluator; set expressions evaluated on the old row (the set lists never read a column they assign)",
			"a transient key collision that depends on the update order may either succeed or be refused as duplicate key",
			"contents afterwards are read back through the query layer by the key index and by index a",
		},
		QuickBudget: 60, ThoroughBudget: 300,
		Procs: 8,
		Run:   run, Replay: replay,
	})
}
