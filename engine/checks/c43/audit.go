package main

import (
	"fmt"

	"github.com/apmckinlay/gsuneido/compile"
	. "github.com/apmckinlay/gsuneido/core"

	"verif/lib"
)

// Reachability audit: a value is "made reachable from several threads" by
// SetConcurrent on the root that is handed over (Thread(block), Suneido.x = v).
// Everything mutable that can be reached from the root must then be concurrent
// (lockable), otherwise it is used from two threads without any lock - a data
// race no interleaving-level oracle can see because it happens inside Go maps
// and slices. The audit enumerates root shapes (containers, closures capturing
// locals, closures using only `this`, bound methods, instances, nestings of
// these) as compiled programs; each returns Object(root, reachable...). After
// root.SetConcurrent() every reachable value must not report IsConcurrent false.

var auditPrograms = []struct{ name, src string }{
	{"object>object", `function () { i = Object(1); o = Object(i); return Object(o, i) }`},
	{"object>named object", `function () { i = Object(1); o = Object(m: i); return Object(o, i) }`},
	{"object>object>object", `function () { k = Object(); i = Object(k); o = Object(i); return Object(o, i, k) }`},
	{"record>object", `function () { i = Object(1); r = Record(m: i); return Object(r, i) }`},
	{"object>record>object", `function () { i = Object(1); r = Record(m: i); o = Object(r); return Object(o, r, i) }`},
	{"closure capturing object", `function () { x = Object(); b = { x.Add(1) }; return Object(b, x) }`},
	{"closure capturing record", `function () { x = Record(); b = { x.n = 1 }; return Object(b, x) }`},
	{"closure capturing closure", `function () { x = Object(); b = { x.Add(1) }; c = { b() }; return Object(c, b, x) }`},
	{"closure using only this", `function () { c = class { New() { .n = 0 } F() { return { .n++ } } }; ob = c(); b = ob.F(); return Object(b, ob) }`},
	{"closure using this and a local", `function () { c = class { New() { .n = 0 } F() { x = Object(); return Object({ .n++; x.Add(1) }, x) } }; ob = c(); r = ob.F(); return Object(r[0], ob, r[1]) }`},
	{"nested closure using only this", `function () { c = class { New() { .n = 0 } F() { return { b = { .n++ }; b() } } }; ob = c(); b = ob.F(); return Object(b, ob) }`},
	{"bound method", `function () { c = class { New() { .n = 0 } F() { .n++ } }; ob = c(); m = ob.F; return Object(m, ob) }`},
	{"instance>object member", `function () { c = class { New() { .m = Object() } G() { return .m } }; ob = c(); return Object(ob, ob.G()) }`},
	{"object>instance>object", `function () { c = class { New() { .m = Object() } G() { return .m } }; ob = c(); o = Object(ob); return Object(o, ob, ob.G()) }`},
	{"object>closure using only this", `function () { c = class { New() { .n = 0 } F() { return { .n++ } } }; ob = c(); o = Object(ob.F()); return Object(o, ob) }`},
	{"record>closure capturing object", `function () { x = Object(); r = Record(f: { x.Add(1) }); return Object(r, x) }`},
}

func auditReachability(c *lib.Ctx) {
	for _, p := range auditPrograms {
		var fails []string
		e := lib.Try(func() {
			th := NewThread(nil)
			fn := compile.Constant(p.src)
			res := ToContainer(th.Call(fn))
			root := res.ListGet(0)
			root.SetConcurrent()
			for i := 0; i < res.ListSize(); i++ {
				v := res.ListGet(i)
				if _, isClosure := v.(*SuClosure); isClosure {
					// a block reports false when it captures no locals (it has no state of
					// its own); what it REACHES is what is judged
					continue
				}
				ic, ok := v.(interface{ IsConcurrent() Value })
				if ok && ic.IsConcurrent() == False {
					fails = append(fails, fmt.Sprintf("value #%d (%s) reachable from the root is not concurrent", i, v.Type()))
				}
			}
		})
		c.Eval(1)
		c.Distinct("audit:" + p.name)
		if e != nil {
			c.Fail("", map[string]string{"audit": p.name, "src": p.src}, "reachability audit %q: program failed: %v", p.name, e)
			continue
		}
		for _, f := range fails {
			c.Fail("", map[string]string{"audit": p.name, "src": p.src}, "reachability audit %q: after SetConcurrent on the root, %s (it would be used from several threads without a lock)", p.name, f)
		}
	}
}
