package main

import (
	"fmt"
	"sort"
	"strings"

	_ "github.com/apmckinlay/gsuneido/builtin"
	"github.com/apmckinlay/gsuneido/compile"
	. "github.com/apmckinlay/gsuneido/core"
	"github.com/apmckinlay/gsuneido/verifshim/vsched"

	"verif/lib"
	"verif/sched"
)

// Closure scenarios: a function creates two blocks sharing the variable n
// (inc = { n++ } and get = { n }); the blocks are made concurrent and called
// from two threads, each with its own interpreter Thread. core/frame.go and
// core/suclosure.go get statement-level scheduling points, the MayLock mutex in
// core/value.go is under the scheduler.
//
// Oracle (counter model): the values returned by all inc calls are exactly
// 0..k-1 (no lost or duplicated increment), each thread's values increase, and
// a final get returns k; object-valued shared variables (push = { ob.Add(i) })
// end up holding every added element exactly once.

const closureSrc = `function ()
	{
	n = 0
	ob = Object()
	inc = { n++ }
	get = { n }
	push = { |x| ob.Add(x); ob.Size() }
	all = { ob.Copy().Sort!() }
	return Object(inc, get, push, all)
	}`

type closureScen struct {
	name    string
	threads [][]string // "inc" | "get" | "push"
	bound   int
}

type closureExec struct {
	sc      *closureScen
	fns     map[string]Value
	results [][]string
}

var compiled Value

func (x *closureExec) Main() {
	vsched.NoPreempt(true)
	if compiled == nil {
		compiled = compile.Constant(closureSrc)
	}
	th := NewThread(nil)
	ob := ToContainer(th.Call(compiled))
	x.fns = map[string]Value{"inc": ob.ListGet(0), "get": ob.ListGet(1), "push": ob.ListGet(2), "all": ob.ListGet(3)}
	for _, f := range x.fns {
		f.SetConcurrent()
	}
	x.results = make([][]string, len(x.sc.threads))
	vsched.NoPreempt(false)
	for t, names := range x.sc.threads {
		t, names := t, names
		vsched.GoNamed(fmt.Sprintf("t%d", t), false, func() {
			th := NewThread(nil)
			for i, n := range names {
				r := guard(func() string {
					if n == "push" {
						return show(th.Call(x.fns[n], IntVal(t*10+i)))
					}
					return show(th.Call(x.fns[n]))
				})
				x.results[t] = append(x.results[t], r)
			}
		})
	}
}

func (x *closureExec) Monitor() {}

func (x *closureExec) Finish(out vsched.Outcome) (string, *sched.Failure) {
	th := NewThread(nil)
	finalN := guard(func() string { return show(th.Call(x.fns["get"])) })
	finalOb := guard(func() string { return show(th.Call(x.fns["all"])) })
	var sb strings.Builder
	for t, rs := range x.results {
		fmt.Fprintf(&sb, "t%d%v=%v ", t, x.sc.threads[t], rs)
	}
	fmt.Fprintf(&sb, "n=%s ob=%s", finalN, finalOb)
	obs := sb.String()
	fail := func(format string, a ...any) (string, *sched.Failure) {
		return obs, &sched.Failure{Msg: fmt.Sprintf(format, a...) + " [" + obs + "]"}
	}
	if out.Status != "ok" {
		return fail("execution ended with %s: %s", out.Status, out.Detail)
	}
	var incs []int
	nInc, nPush := 0, 0
	var pushed []string
	for t, rs := range x.results {
		last := -1
		for i, r := range rs {
			if strings.HasPrefix(r, "RUNTIME-ERROR") || strings.HasPrefix(r, "err:") {
				return fail("call %s failed: %s", x.sc.threads[t][i], r)
			}
			switch x.sc.threads[t][i] {
			case "inc":
				nInc++
				var v int
				fmt.Sscan(r, &v)
				if v <= last {
					return fail("thread %d saw the counter go from %d to %d", t, last, v)
				}
				last = v
				incs = append(incs, v)
			case "get":
				var v int
				fmt.Sscan(r, &v)
				if v < last+0 && last >= 0 && v <= last {
					return fail("thread %d read %d after its own increment returned %d", t, v, last)
				}
			case "push":
				nPush++
				pushed = append(pushed, fmt.Sprint(t*10+i))
			}
		}
	}
	sort.Ints(incs)
	for i, v := range incs {
		if v != i {
			return fail("increments returned %v: lost or duplicated update", incs)
		}
	}
	if finalN != fmt.Sprint(nInc) {
		return fail("counter is %s after %d increments", finalN, nInc)
	}
	sort.Strings(pushed)
	// #(a, b, c) display of the sorted copy
	wantOb := "#(" + strings.Join(sortNumeric(pushed), ", ") + ")"
	if finalOb != wantOb {
		return fail("shared object holds %s, expected %s", finalOb, wantOb)
	}
	return obs, nil
}

func sortNumeric(s []string) []string {
	n := make([]int, len(s))
	for i, x := range s {
		fmt.Sscan(x, &n[i])
	}
	sort.Ints(n)
	out := make([]string, len(n))
	for i, x := range n {
		out[i] = fmt.Sprint(x)
	}
	return out
}

func closureScenarios(c *lib.Ctx) []*sched.Scenario {
	scs := []*closureScen{
		{name: "closure/inc,inc|inc,inc", threads: [][]string{{"inc", "inc"}, {"inc", "inc"}}, bound: lib.Pick(c, 2, 3)},
		{name: "closure/inc,get|inc,get", threads: [][]string{{"inc", "get"}, {"inc", "get"}}, bound: lib.Pick(c, 2, 3)},
		{name: "closure/push,push|push,inc", threads: [][]string{{"push", "push"}, {"push", "inc"}}, bound: lib.Pick(c, 2, 3)},
		{name: "closure/inc|inc|push", threads: [][]string{{"inc"}, {"inc"}, {"push"}}, bound: lib.Pick(c, 1, 2)},
	}
	var out []*sched.Scenario
	for _, s := range scs {
		s := s
		out = append(out, &sched.Scenario{Name: s.name, MaxBound: s.bound, MaxSteps: 40000,
			New: func() sched.Execution { return &closureExec{sc: s} }})
	}
	return out
}
