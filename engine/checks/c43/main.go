// C43 Shared values are safe under concurrent use.
//
// core/suobject.go and core/surecord.go are rebuilt with their sync and
// sync/atomic imports routed to the controlled scheduler AND a scheduling
// point inserted before every statement of every function, so an access that
// is not protected by the object's lock interleaves with the other thread at
// statement granularity. Two threads run 1-2 operations each on one shared
// (SetConcurrent) object or record; every interleaving within the preemption
// bound is executed.
//
// Oracle: no Go runtime error / crash; the results of all operations and the
// final content must be explained by some sequential order of the operations
// that respects each thread's program order (linearizability, brute force over
// the <= 6 orders), the sequential reference being the same operations run one
// after the other on a fresh private object. Iteration and packing may instead
// fail loudly with the documented "object modified during iteration/packing".
package main

import (
	"encoding/json"
	"fmt"
	"strings"

	. "github.com/apmckinlay/gsuneido/core"
	"github.com/apmckinlay/gsuneido/verifshim/vsched"

	"verif/lib"
	"verif/sched"
)

type op struct {
	name string
	f    func(ob Container) string
}

// keptOps work on a copy that the calling thread keeps (copy-on-write: the
// copy, the original and the copies of other threads share storage until one
// of them is modified)
var keptOps = map[string]func(ob Container, kept *Container) string{
	"keepcopy":  func(ob Container, kept *Container) string { *kept = ob.Copy(); return "" },
	"keepslice": func(ob Container, kept *Container) string { *kept = ob.Slice(0); return "" },
	"keptadd": func(ob Container, kept *Container) string {
		if *kept == nil {
			return "nothing kept"
		}
		(*kept).Add(IntVal(5))
		return content(*kept)
	},
	"keptread": func(ob Container, kept *Container) string {
		if *kept == nil {
			return "nothing kept"
		}
		return content(*kept)
	},
}

func call(name string, ob Container, kept *Container) string {
	if f, ok := keptOps[name]; ok {
		return f(ob, kept)
	}
	return opByName(name).f(ob)
}

const modified = "<modified-during>"

func show(v Value) string {
	if v == nil {
		return "nil"
	}
	return Display(nil, v)
}

func content(ob Container) string {
	var sb strings.Builder
	for i := 0; i < ob.ListSize(); i++ {
		fmt.Fprintf(&sb, "%s,", show(ob.ListGet(i)))
	}
	it := ob.Iter2(false, true)
	var named []string
	for k, v := it(); k != nil; k, v = it() {
		named = append(named, show(k)+":"+show(v))
	}
	// named order is hash order: sort for a canonical form
	for i := range named {
		for j := i + 1; j < len(named); j++ {
			if named[j] < named[i] {
				named[i], named[j] = named[j], named[i]
			}
		}
	}
	return sb.String() + strings.Join(named, ",")
}

func guard(f func() string) (res string) {
	defer func() {
		if e := recover(); e != nil {
			s := fmt.Sprint(e)
			if lib.IsRuntimeError(e) {
				res = "RUNTIME-ERROR: " + s
			} else if strings.Contains(s, "modified during") {
				res = modified
			} else {
				res = "err: " + s
			}
		}
	}()
	return f()
}

var A = SuStr("a")
var B = SuStr("b")

func put(ob Container, k, v Value) {
	switch x := ob.(type) {
	case *SuObject:
		x.Set(k, v)
	case *SuRecord:
		x.Put(nil, k, v)
	}
}

var ops = []op{
	{"get0", func(ob Container) string { return show(ob.GetIfPresent(nil, Zero)) }},
	{"getA", func(ob Container) string { return show(ob.GetIfPresent(nil, A)) }},
	{"putA7", func(ob Container) string { put(ob, A, IntVal(7)); return "" }},
	{"putB8", func(ob Container) string { put(ob, B, IntVal(8)); return "" }},
	{"put0x", func(ob Container) string { put(ob, Zero, SuStr("x")); return "" }},
	{"put2y", func(ob Container) string { put(ob, IntVal(2), SuStr("y")); return "" }}, // extends the list by one
	{"add9", func(ob Container) string { ob.Add(IntVal(9)); return "" }},
	{"ins0", func(ob Container) string { ob.Insert(0, IntVal(4)); return "" }},
	{"del0", func(ob Container) string { return fmt.Sprint(ob.Delete(nil, Zero)) }},
	{"delA", func(ob Container) string { return fmt.Sprint(ob.Delete(nil, A)) }},
	{"eraseA", func(ob Container) string { return fmt.Sprint(ob.Erase(nil, A)) }},
	{"lsize", func(ob Container) string { return fmt.Sprint(ob.ListSize()) }},
	{"nsize", func(ob Container) string { return fmt.Sprint(ob.NamedSize()) }},
	{"hasA", func(ob Container) string { return fmt.Sprint(ob.HasKey(A)) }},
	{"iter", func(ob Container) string {
		it := ob.Iter2(true, true)
		var out []string
		for k, v := it(); k != nil; k, v = it() {
			out = append(out, show(k)+":"+show(v))
		}
		// named part is in hash order: canonicalise
		for i := range out {
			for j := i + 1; j < len(out); j++ {
				if out[j] < out[i] {
					out[i], out[j] = out[j], out[i]
				}
			}
		}
		return strings.Join(out, ",")
	}},
	{"copy+add", func(ob Container) string {
		c := ob.Copy()
		c.Add(IntVal(5))
		return content(c)
	}},
	{"slice+add", func(ob Container) string {
		c := ob.Slice(0)
		c.Add(IntVal(6))
		return content(c)
	}},
	{"delall", func(ob Container) string { ob.DeleteAll(); return "" }},
	{"pack", func(ob Container) string { return Display(nil, Unpack(Pack(ob.(Packable)))) }},
	{"display", func(ob Container) string { return Display(nil, ob) }},
	{"sort", func(ob Container) string {
		if o, ok := ob.(*SuObject); ok {
			o.Sort(nil, False)
		}
		return ""
	}},
}

func opByName(n string) op {
	for _, o := range ops {
		if o.name == n {
			return o
		}
	}
	panic("no op " + n)
}

type scen struct {
	name    string
	record  bool
	threads [][]string
	bound   int
	// prelude: before the threads start the (already concurrent) object is
	// copied and then modified, i.e. it has been through one copy-on-write
	prelude bool
}

func prelude(ob Container) {
	_ = ob.Copy()
	ob.Add(IntVal(3))
}

func fresh(record bool) Container {
	if record {
		r := NewSuRecord()
		r.Add(IntVal(1))
		r.Add(IntVal(2))
		r.Put(nil, A, IntVal(5))
		return r
	}
	ob := SuObjectOf(IntVal(1), IntVal(2))
	ob.Set(A, IntVal(5))
	return ob
}

type exec struct {
	sc      *scen
	ob      Container
	results [][]string
}

func (x *exec) Main() {
	vsched.NoPreempt(true)
	x.ob = fresh(x.sc.record)
	switch o := x.ob.(type) {
	case *SuObject:
		o.SetConcurrent()
	case *SuRecord:
		o.SetConcurrent()
	}
	if x.sc.prelude {
		prelude(x.ob)
	}
	x.results = make([][]string, len(x.sc.threads))
	vsched.NoPreempt(false)
	for t, names := range x.sc.threads {
		t, names := t, names
		vsched.GoNamed(fmt.Sprintf("t%d", t), false, func() {
			var kept Container
			for _, n := range names {
				n := n
				x.results[t] = append(x.results[t], guard(func() string { return call(n, x.ob, &kept) }))
			}
		})
	}
}

func (x *exec) Monitor() {}

// orders enumerates the interleavings of the threads' op indices that respect
// program order.
func orders(lens []int) [][][2]int {
	var out [][][2]int
	pos := make([]int, len(lens))
	var cur [][2]int
	var rec func()
	rec = func() {
		done := true
		for t := range lens {
			if pos[t] < lens[t] {
				done = false
				cur = append(cur, [2]int{t, pos[t]})
				pos[t]++
				rec()
				pos[t]--
				cur = cur[:len(cur)-1]
			}
		}
		if done {
			out = append(out, append([][2]int{}, cur...))
		}
	}
	rec()
	return out
}

func (x *exec) Finish(out vsched.Outcome) (string, *sched.Failure) {
	var sb strings.Builder
	for t, rs := range x.results {
		fmt.Fprintf(&sb, "t%d%v=%q ", t, x.sc.threads[t], rs)
	}
	final := guard(func() string { return content(x.ob) })
	fmt.Fprintf(&sb, "final=%s", final)
	obs := sb.String()
	fail := func(format string, a ...any) (string, *sched.Failure) {
		return obs, &sched.Failure{Msg: fmt.Sprintf(format, a...) + " [" + obs + "]"}
	}
	if out.Status != "ok" {
		return fail("execution ended with %s: %s", out.Status, out.Detail)
	}
	for t, rs := range x.results {
		for i, r := range rs {
			if strings.HasPrefix(r, "RUNTIME-ERROR") {
				return fail("operation %s crashed: %s", x.sc.threads[t][i], r)
			}
		}
	}
	lens := make([]int, len(x.sc.threads))
	for t := range lens {
		lens[t] = len(x.sc.threads[t])
	}
	var tried []string
	for _, ord := range orders(lens) {
		ref := fresh(x.sc.record)
		if x.sc.prelude {
			prelude(ref)
		}
		keptRef := make([]Container, len(x.sc.threads))
		ok := true
		var desc []string
		for _, ti := range ord {
			name := x.sc.threads[ti[0]][ti[1]]
			want := guard(func() string { return call(name, ref, &keptRef[ti[0]]) })
			got := x.results[ti[0]][ti[1]]
			desc = append(desc, name+"="+want)
			if got != want && !(got == modified && (name == "iter" || name == "pack" || name == "display" || name == "copy+add" || name == "slice+add")) {
				ok = false
			}
		}
		if ok && content(ref) == final {
			return obs, nil
		}
		tried = append(tried, strings.Join(desc, ";")+" => "+content(ref))
	}
	return fail("results are not explained by any sequential order of the operations; sequential orders give: %s", strings.Join(tried, " || "))
}

func scenarios(c *lib.Ctx) []*scen {
	var out []*scen
	names := make([]string, len(ops))
	for i, o := range ops {
		names[i] = o.name
	}
	for _, rec := range []bool{false, true} {
		kind := "object"
		if rec {
			kind = "record"
		}
		// every unordered pair of single operations
		for i, a := range names {
			for _, b := range names[i:] {
				out = append(out, &scen{name: fmt.Sprintf("%s/%s|%s", kind, a, b), record: rec,
					threads: [][]string{{a}, {b}}, bound: lib.Pick(c, 2, 3)})
			}
		}
		// two operations against one: writers followed by a read, against each op
		for _, pre := range [][]string{{"putA7", "getA"}, {"add9", "lsize"}, {"del0", "get0"}, {"ins0", "iter"}, {"delall", "add9"}, {"slice+add", "put0x"}} {
			for _, b := range names {
				if c.Quick() && (b == "hasA" || b == "putB8" || b == "eraseA" || b == "display") {
					continue
				}
				out = append(out, &scen{name: fmt.Sprintf("%s/%s,%s|%s", kind, pre[0], pre[1], b), record: rec,
					threads: [][]string{pre, {b}}, bound: lib.Pick(c, 1, 2)})
			}
		}
		// copy-on-write: copies kept by the threads, taken from an object that has
		// been through a copy-on-write before, then modified / read after the
		// original or the other copy changed
		for _, th := range [][][]string{
			{{"keepcopy", "add9", "keptadd"}, {"keepcopy", "keptread"}},
			{{"keepcopy", "add9", "keptadd"}, {"keepslice", "keptread"}},
			{{"keepcopy", "keptadd"}, {"keepcopy", "keptadd"}},
			{{"keepcopy", "put0x", "keptread"}, {"keepcopy", "keptadd", "getA"}},
			{{"keepslice", "delall", "keptadd"}, {"keepcopy", "keptread"}},
		} {
			for _, pre := range []bool{true, false} {
				out = append(out, &scen{name: fmt.Sprintf("%s/cow%v/%s|%s", kind, pre, strings.Join(th[0], ","), strings.Join(th[1], ",")),
					record: rec, threads: th, bound: lib.Pick(c, 2, 3), prelude: pre})
			}
		}
	}
	return out
}

func build(c *lib.Ctx) []*sched.Scenario {
	out := closureScenarios(c)
	for _, s := range scenarios(c) {
		s := s
		out = append(out, &sched.Scenario{Name: s.name, MaxBound: s.bound, MaxSteps: 20000,
			New: func() sched.Execution { return &exec{sc: s} }})
	}
	return out
}

func run(c *lib.Ctx) {
	if c.Shard == 0 {
		auditReachability(c)
	}
	scs := build(c)
	c.Set("scenarios", len(scs))
	shard, n := c.Shard, c.NShards
	c.Shard, c.NShards = 0, 1
	for i, sc := range scs {
		if i%n != shard {
			continue
		}
		if c.Expired() {
			c.Cap("scenario %s not started", sc.Name)
			continue
		}
		sched.Explore(c, sc)
	}
}

func replay(c *lib.Ctx, raw json.RawMessage) {
	var probe struct {
		Audit string `json:"audit"`
	}
	if json.Unmarshal(raw, &probe) == nil && probe.Audit != "" {
		auditReachability(c)
		return
	}
	sched.Replay(c, build(c), raw)
}

func main() {
	lib.Main(lib.Spec{
		ID:    "C43",
		Level: "exploration",
		Rule: "every interleaving at STATEMENT granularity (a scheduling point before every statement of core/suobject.go and core/surecord.go, plus every lock/atomic operation) within the preemption bound, of two threads running 1-2 operations from a 21-operation alphabet on one shared object or record: all unordered pairs of single operations and 6 two-operation prefixes against every operation; " +
			"evaluations = complete executions; distinct = distinct (scenario, results, final content) outcomes",
		Assumptions: []string{
			"sequentially consistent, statement-atomic interleavings: weaker memory orderings and tearing inside one statement (incl. inside the uninstrumented hash map package) are outside the explored space",
			"the sequential reference is the same operation sequence on a fresh private object",
			"iteration, packing, display and copy may fail with the documented 'object modified during ...' error instead of returning a value",
			"closures sharing variables are driven through compiled code on two interpreter threads (closure.go); classes are immutable and instances are not driven",
		},
		QuickBudget: 100, ThoroughBudget: 1200,
		Procs: 16,
		Run:   run, Replay: replay,
	})
}
