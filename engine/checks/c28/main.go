// C28 Value comparison is a consistent total order.
//
// What is enumerated: an alphabet of ~120 values covering every comparable
// class and every representation of equal values that the public
// constructors produce: false/true; numbers as smi / SuInt64 / SuDnum at the
// representation thresholds (smi limits, 16 digit coefficient limit, int64
// limits, dnum.ToInt64 limit), decimals, infinities; strings as SuStr /
// SuConcat / SuExcept including "", a NUL byte, 0xff, strings that differ
// only after the 64 hashed bytes; dates and timestamps (extra 1,7,255) at the
// same instant; objects and records: empty, list only, named only, equal
// content inserted in different order, nested, with equal numbers in
// different representations, more than 4 named members (hash cut-off).
// ALL ordered pairs and ALL ordered triples are checked.
//
// Oracle: (a) the algebraic laws the property states, on the real
// Compare/Equal/Hash: sign(Compare(a,b)) = -sign(Compare(b,a)); a<=b & b<=c
// => a<=c on every triple; Equal symmetric and transitive; Equal => Compare
// == 0 and Hash equal. (b) an independent reference model of every alphabet
// value (built by construction, not read back from core): class order
// boolean < number < string < date < object, exact numeric order (math/big),
// bytewise string order, chronological date order with the timestamp extra
// byte last, lexicographic order of object list members (named members do
// not take part in Compare), deep equality for Equal. (c) member lookup:
// for every pair (k,k') of model-equal values: Set(k) then
// Get/GetIfPresent/HasKey/Delete by k' on a fresh object, on a crowded object
// holding one key of every equivalence class, and on a record.
package main

import (
	"encoding/json"
	"fmt"
	"math"
	"math/big"
	"os"
	"sort"
	"strings"

	"github.com/apmckinlay/gsuneido/core"
	"github.com/apmckinlay/gsuneido/util/dnum"

	"verif/lib"
)

// ---------------------------------------------------------------- model

const (
	clBool = iota
	clNum
	clStr
	clDate
	clObj
)

var className = []string{"boolean", "number", "string", "date", "object"}

// mval is the reference model of one alphabet value.
type mval struct {
	class int
	kind  string   // representation: bool smi int64 dnum str concat except date ts object record
	b     bool     // clBool
	n     *big.Rat // clNum (nil = infinite)
	inf   int
	s     string // clStr
	d     [8]int // clDate: y m d h mi s ms extra
	list  []*mval
	named []member // clObj
}

type member struct{ k, v *mval }

// key is a canonical text of the abstract value: two values are equal in the
// language iff their keys are equal.
func (m *mval) key() string {
	switch m.class {
	case clBool:
		return fmt.Sprint("b:", m.b)
	case clNum:
		if m.n == nil {
			return fmt.Sprint("n:inf", m.inf)
		}
		return "n:" + m.n.RatString()
	case clStr:
		return fmt.Sprintf("s:%q", m.s)
	case clDate:
		return fmt.Sprint("d:", m.d)
	}
	var sb strings.Builder
	sb.WriteString("o(")
	for _, x := range m.list {
		sb.WriteString(x.key())
		sb.WriteString(",")
	}
	sb.WriteString("|")
	var ns []string
	for _, e := range m.named {
		ns = append(ns, e.k.key()+"="+e.v.key())
	}
	sort.Strings(ns)
	sb.WriteString(strings.Join(ns, ","))
	sb.WriteString(")")
	return sb.String()
}

func sgn(i int) int {
	switch {
	case i < 0:
		return -1
	case i > 0:
		return 1
	}
	return 0
}

// refCompare is the reference order.
func refCompare(a, b *mval) int {
	if a.class != b.class {
		return sgn(a.class - b.class)
	}
	switch a.class {
	case clBool:
		x, y := 0, 0
		if a.b {
			x = 1
		}
		if b.b {
			y = 1
		}
		return sgn(x - y)
	case clNum:
		if a.n == nil || b.n == nil {
			x, y := a.inf*2, b.inf*2
			if a.n != nil {
				x = a.n.Sign()
			}
			if b.n != nil {
				y = b.n.Sign()
			}
			return sgn(x - y)
		}
		return a.n.Cmp(b.n)
	case clStr:
		return strings.Compare(a.s, b.s)
	case clDate:
		for i := range a.d {
			if a.d[i] != b.d[i] {
				return sgn(a.d[i] - b.d[i])
			}
		}
		return 0
	}
	// objects: list members only, lexicographic, a proper prefix is smaller
	for i := 0; i < len(a.list) && i < len(b.list); i++ {
		if c := refCompare(a.list[i], b.list[i]); c != 0 {
			return c
		}
	}
	return sgn(len(a.list) - len(b.list))
}

// ---------------------------------------------------------------- alphabet

type entry struct {
	name string
	m    *mval
	v    core.Value
	eq   int // equivalence class number (by key)
}

var alpha []entry

func bigInt(s string) *big.Int {
	n, ok := new(big.Int).SetString(s, 10)
	if !ok {
		panic(s)
	}
	return n
}

func kindOf(v core.Value) string {
	switch v.(type) {
	case core.SuDnum:
		return "dnum"
	case core.SuInt64:
		return "int64"
	}
	if fmt.Sprintf("%T", v) == "*core.smi" {
		return "smi"
	}
	return fmt.Sprintf("%T", v)
}

func add(name string, m *mval, v core.Value) *entry {
	alpha = append(alpha, entry{name: name + "<" + m.kind + ">", m: m, v: v})
	return &alpha[len(alpha)-1]
}

// show prints a model value with the representation of every leaf
func show(m *mval) string {
	switch m.class {
	case clBool:
		return fmt.Sprint(m.b)
	case clNum:
		if m.n == nil {
			return fmt.Sprintf("inf%d<%s>", m.inf, m.kind)
		}
		return m.n.RatString() + "<" + m.kind + ">"
	case clStr:
		return fmt.Sprintf("%q<%s>", m.s, m.kind)
	case clDate:
		return fmt.Sprint(m.d)
	}
	var parts []string
	for _, x := range m.list {
		parts = append(parts, show(x))
	}
	for _, e := range m.named {
		parts = append(parts, show(e.k)+": "+show(e.v))
	}
	if m.kind == "record" {
		return "[" + strings.Join(parts, ", ") + "]"
	}
	return "#(" + strings.Join(parts, ", ") + ")"
}

// number entries -----------------------------------------------------------

func numModel(kind string, r *big.Rat) *mval { return &mval{class: clNum, kind: kind, n: r} }

// addInt adds the integer n in every representation that holds it exactly.
func addInt(s string) {
	n := bigInt(s)
	r := new(big.Rat).SetInt(n)
	i := n.Int64()
	if core.MinSuInt <= i && i <= core.MaxSuInt {
		add(s, numModel("smi", r), core.SuInt(int(i)))
		if i == core.MinSuInt || i == core.MaxSuInt {
			if v := core.Int64Val(i); kindOf(v) == "int64" {
				add(s, numModel("int64", r), v)
			}
		}
	} else {
		v := core.IntVal(int(i))
		if kindOf(v) != "int64" {
			lib.Infra("IntVal(%d) is a %s", i, kindOf(v))
		}
		add(s, numModel("int64", r), v)
	}
	if sigDigits(n) <= 16 {
		add(s, numModel("dnum", r), core.SuDnum{Dnum: dnum.FromInt(i)})
	}
}

func sigDigits(n *big.Int) int {
	s := strings.TrimLeft(new(big.Int).Abs(n).String(), "0")
	return len(strings.TrimRight(s, "0"))
}

func addDec(s string) {
	r, ok := new(big.Rat).SetString(s)
	if !ok {
		panic(s)
	}
	add(s, numModel("dnum", r), core.SuDnum{Dnum: dnum.FromStr(s)})
}

// string entries -----------------------------------------------------------

func strModel(kind, s string) *mval { return &mval{class: clStr, kind: kind, s: s} }

func addStr(name, s string, reprs ...string) {
	for _, k := range reprs {
		switch k {
		case "str":
			add(name, strModel(k, s), core.SuStr(s))
		case "concat":
			c := core.NewSuConcat()
			if len(s) > 0 {
				h := len(s) / 2
				c = c.Add(s[:h]).Add(s[h:])
			}
			add(name, strModel(k, s), c)
		case "except":
			add(name, strModel(k, s), core.BuiltinSuExcept(s))
		}
	}
}

// date entries -------------------------------------------------------------

func addDate(y, mo, d, h, mi, s, ms int, extras ...int) {
	dt := core.NewDate(y, mo, d, h, mi, s, ms)
	if dt == core.NilDate {
		lib.Infra("bad alphabet date")
	}
	name := fmt.Sprintf("#%04d%02d%02d.%02d%02d%02d%03d", y, mo, d, h, mi, s, ms)
	for _, x := range extras {
		if x == 0 {
			add(name, &mval{class: clDate, kind: "date", d: [8]int{y, mo, d, h, mi, s, ms, 0}}, dt)
			continue
		}
		lit := fmt.Sprintf("%s%03d", name, x)
		ts := core.DateFromLiteral(lit)
		if _, ok := ts.(core.SuTimestamp); !ok {
			lib.Infra("DateFromLiteral(%s) is not a timestamp: %v", lit, ts)
		}
		add(lit, &mval{class: clDate, kind: "ts", d: [8]int{y, mo, d, h, mi, s, ms, x}}, ts)
	}
}

// object entries -----------------------------------------------------------

// leaf returns model and value of a small scalar for use inside objects
func leafInt(n int, kind string) (*mval, core.Value) {
	r := new(big.Rat).SetInt64(int64(n))
	switch kind {
	case "dnum":
		return numModel("dnum", r), core.SuDnum{Dnum: dnum.FromInt(int64(n))}
	case "smi":
		return numModel("smi", r), core.SuInt(n)
	}
	return numModel("int64", r), core.IntVal(n)
}

func leafStr(s string) (*mval, core.Value) { return strModel("str", s), core.SuStr(s) }

type pair struct {
	m *mval
	v core.Value
}

func p(m *mval, v core.Value) pair { return pair{m, v} }

// addObj builds an object (or record) from list members and named members
// (in the given insertion order).
func addObj(name string, record bool, list []pair, named [][2]pair) *entry {
	m, v := mkObj(record, list, named)
	return add(name, m, v)
}

func mkObj(record bool, list []pair, named [][2]pair) (*mval, core.Value) {
	m := &mval{class: clObj, kind: "object"}
	ob := &core.SuObject{}
	for _, e := range list {
		m.list = append(m.list, e.m)
		ob.Add(e.v)
	}
	for _, kv := range named {
		m.named = append(m.named, member{kv[0].m, kv[1].m})
		ob.Set(kv[0].v, kv[1].v)
	}
	if ob.ListSize() != len(list) || ob.NamedSize() != len(named) {
		lib.Infra("alphabet object built with unexpected sizes")
	}
	if record {
		m.kind = "record"
		return m, core.SuRecordFromObject(ob)
	}
	return m, ob
}

func buildAlphabet(c *lib.Ctx) {
	alpha = nil
	add("false", &mval{class: clBool, kind: "bool", b: false}, core.False)
	add("true", &mval{class: clBool, kind: "bool", b: true}, core.True)

	for _, s := range []string{"0", "1", "-1", "2", "32767", "-32768", "32768", "-32769", "100000", "2147483648",
		"9999999999999999", "1000000000000000000", "1000000000000000001", "-1000000000000000001",
		"9223372036854775000", "9223372036854775807", "-9223372036854775808"} {
		addInt(s)
	}
	if !c.Quick() {
		for _, s := range []string{"-2", "65536", "-100000", "10000000000000000", "10000000000000001",
			"-1000000000000000000", "999999999999999999", "-9223372036854775000", "4611686018427387904"} {
			addInt(s)
		}
	}
	for _, s := range []string{"1.5", "-1.5", "1e-10", "9223372036854776000", "1e20"} {
		addDec(s)
	}
	add("inf", &mval{class: clNum, kind: "dnum", inf: 1}, core.Inf)
	add("-inf", &mval{class: clNum, kind: "dnum", inf: -1}, core.NegInf)

	addStr(`""`, "", "str", "concat", "except")
	addStr(`"a"`, "a", "str", "concat", "except")
	addStr(`"ab"`, "ab", "str", "concat", "except")
	// a concatenation whose buffer is shared with a longer one ("a" is the
	// first byte of the buffer that also holds "ab")
	shared := core.NewSuConcat().Add("a")
	longer := shared.Add("b")
	add(`"a"+shared`, strModel("concat", "a"), shared)
	add(`"ab"+shared`, strModel("concat", "ab"), longer)
	addStr(`"b"`, "b", "str")
	addStr(`"A"`, "A", "str")
	addStr(`"a\x00"`, "a\x00", "str", "concat")
	addStr(`"\xff"`, "\xff", "str")
	addStr(`"1"`, "1", "str") // the text of a number is not the number
	long := strings.Repeat("x", 64)
	addStr("x64+y", long+"y", "str", "concat") // differ after the 64 hashed bytes:
	addStr("x64+z", long+"z", "str", "concat") // forced hash collision
	addStr("x300", strings.Repeat("x", 300), "str", "concat")

	addDate(1700, 1, 1, 0, 0, 0, 0, 0)
	addDate(2020, 1, 2, 0, 0, 0, 0, 0, 1)
	addDate(2020, 1, 2, 0, 0, 0, 1, 0)
	addDate(2020, 1, 2, 3, 4, 5, 6, 0, 1, 7, 255)
	addDate(2020, 1, 3, 0, 0, 0, 0, 0)
	addDate(2020, 2, 1, 0, 0, 0, 0, 0)
	addDate(3000, 1, 1, 0, 0, 0, 0, 0)

	one := func(k string) pair { return p(leafInt(1, k)) }
	two := p(leafInt(2, "smi"))
	three := p(leafInt(3, "smi"))
	sa, sb, sc := p(leafStr("a")), p(leafStr("b")), p(leafStr("c"))
	addObj("#()", false, nil, nil)
	addObj("[]", true, nil, nil)
	addObj("#(1)", false, []pair{one("smi")}, nil)
	addObj("#(1.0)", false, []pair{one("dnum")}, nil)
	addObj("[1]", true, []pair{one("smi")}, nil)
	addObj("#(1,2)", false, []pair{one("smi"), two}, nil)
	addObj("#(1,2,3)", false, []pair{one("smi"), two, three}, nil)
	addObj("#(2)", false, []pair{two}, nil)
	addObj("#(a:1)", false, nil, [][2]pair{{sa, one("smi")}})
	addObj("[a:1]", true, nil, [][2]pair{{sa, one("smi")}})
	addObj("#(a:1.0)", false, nil, [][2]pair{{sa, one("dnum")}})
	addObj("#(a:2)", false, nil, [][2]pair{{sa, two}})
	addObj("#(1,a:1)", false, []pair{one("smi")}, [][2]pair{{sa, one("smi")}})
	addObj("#(a:1,b:2)", false, nil, [][2]pair{{sa, one("smi")}, {sb, two}})
	addObj("#(b:2,a:1)", false, nil, [][2]pair{{sb, two}, {sa, one("smi")}})
	addObj("#(a:1,b:2,c:3)", false, nil, [][2]pair{{sa, one("smi")}, {sb, two}, {sc, three}})
	addObj(`#("a")`, false, []pair{sa}, nil)
	addObj(`#("")`, false, []pair{p(leafStr(""))}, nil)
	addObj("#(false)", false, []pair{p(&mval{class: clBool, kind: "bool"}, core.False)}, nil)
	// nested
	em, ev := mkObj(false, nil, nil)
	addObj("#(#())", false, []pair{p(em, ev)}, nil)
	i1m, i1v := mkObj(false, []pair{one("smi")}, nil)
	addObj("#(#(1))", false, []pair{p(i1m, i1v)}, nil)
	i2m, i2v := mkObj(true, []pair{one("dnum")}, nil)
	addObj("#([1.0])", false, []pair{p(i2m, i2v)}, nil)
	i3m, i3v := mkObj(false, []pair{one("smi")}, nil)
	addObj("#(#(1),2)", false, []pair{p(i3m, i3v), two}, nil)
	i4m, i4v := mkObj(false, nil, [][2]pair{{sa, one("smi")}})
	addObj("#(x:#(a:1))", false, nil, [][2]pair{{p(leafStr("x")), p(i4m, i4v)}})
	// equal numbers outside the smi range in different representations
	big64 := p(leafInt(100000, "int64"))
	bigdn := p(leafInt(100000, "dnum"))
	addObj("#(100000)", false, []pair{big64}, nil)
	addObj("#(100000.0)", false, []pair{bigdn}, nil)
	addObj("#(100000:'v')", false, nil, [][2]pair{{big64, sa}})
	addObj("#(100000.0:'v')", false, nil, [][2]pair{{bigdn, sa}})
	// 5 named members: Hash ignores named members when there are more than 4
	var five, fiveRev [][2]pair
	for i := 0; i < 5; i++ {
		k := p(leafStr(string(rune('k' + i))))
		five = append(five, [2]pair{k, p(leafInt(i, "smi"))})
	}
	for i := 4; i >= 0; i-- {
		fiveRev = append(fiveRev, five[i])
	}
	addObj("#(k..o)", false, nil, five)
	addObj("#(o..k)", false, nil, fiveRev)
	// non-string keys
	addObj("#(1.5:'a')", false, nil, [][2]pair{{p(numModel("dnum", big.NewRat(3, 2)), core.SuDnum{Dnum: dnum.FromStr("1.5")}), sa}})
	addObj("#(true:'a')", false, nil, [][2]pair{{p(&mval{class: clBool, kind: "bool", b: true}, core.True), sa}})

	if !c.Quick() {
		// generated: strings over {a, b, NUL} up to length 2 in two representations
		for _, x := range []string{"", "a", "b", "\x00"} {
			for _, y := range []string{"a", "b", "\x00"} {
				addStr(fmt.Sprintf("%q", x+y), x+y, "str", "concat")
			}
		}
		for _, s := range []string{"3", "-3", "0.5", "1e15", "123456789012345.6", "-1e20", "1e-126", "9.999999999999999e126"} {
			addDec(s)
		}
		addDate(1999, 12, 31, 23, 59, 59, 999, 0, 1, 255)
		addDate(2000, 1, 1, 0, 0, 0, 0, 0, 1)
		addDate(2000, 2, 29, 12, 0, 0, 0, 0)
		// generated objects: list of length <= 2 over a pool, named subsets of
		// size <= 2 in both insertion orders, as object and as record
		pool := []pair{one("smi"), one("dnum"), two, sa, p(mkObj(false, nil, nil)), big64, bigdn}
		nameds := [][2]pair{{sa, one("smi")}, {sa, two}, {sb, one("dnum")}, {three, sa}, {big64, sb}, {bigdn, sb}}
		var lists [][]pair
		lists = append(lists, nil)
		for _, a := range pool {
			lists = append(lists, []pair{a})
			for _, b := range pool[:4] {
				lists = append(lists, []pair{a, b})
			}
		}
		var namedSets [][][2]pair
		namedSets = append(namedSets, nil)
		for i, a := range nameds {
			namedSets = append(namedSets, [][2]pair{a})
			for j, b := range nameds {
				if i != j && a[0].m.key() != b[0].m.key() {
					namedSets = append(namedSets, [][2]pair{a, b})
				}
			}
		}
		k := 0
		for li, l := range lists {
			for ni, ns := range namedSets {
				// thin the product deterministically: every list with the
				// first few named sets, every named set with the first lists
				if li > 3 && ni > 3 && (li+ni)%5 != 0 {
					continue
				}
				k++
				e := addObj("", (li+ni)%4 == 3, l, ns)
				e.name = fmt.Sprintf("gen%d:%s", k, show(e.m))
			}
		}
	}

	// equivalence classes by model key
	classes := map[string]int{}
	for i := range alpha {
		k := alpha[i].m.key()
		if _, ok := classes[k]; !ok {
			classes[k] = len(classes)
		}
		alpha[i].eq = classes[k]
	}
	c.Set("alphabet_values", len(alpha))
	c.Set("equivalence_classes", len(classes))
}

// ---------------------------------------------------------------- classes of known findings

// reprDiffs walks two model-equal values in parallel and returns the set of
// representation pairs ("int64/dnum" ...) in which their leaves differ,
// and whether every differing number leaf is an integer outside the smi range.
func reprDiffs(a, b *mval, out map[string]bool) {
	if a.class != clObj {
		if a.kind != b.kind {
			ks := []string{a.kind, b.kind}
			sort.Strings(ks)
			k := ks[0] + "/" + ks[1]
			if a.class == clNum && a.n != nil && a.n.IsInt() && a.n.Num().IsInt64() &&
				(a.n.Num().Int64() < core.MinSuInt || a.n.Num().Int64() > core.MaxSuInt) {
				k += ":outside-smi"
			}
			out[k] = true
		}
		return
	}
	for i := range a.list {
		reprDiffs(a.list[i], b.list[i], out)
	}
	for _, e := range a.named {
		for _, f := range b.named {
			if e.k.key() == f.k.key() {
				reprDiffs(e.k, f.k, out)
				reprDiffs(e.v, f.v, out)
			}
		}
	}
}

// hashClass: "int64-dnum-hash" iff the two (model-equal) values contain, at
// corresponding leaves, the same integer outside the smi range once as
// SuInt64 and once as SuDnum (possibly nested in objects). Other
// representation differences (smi/dnum, str/concat/except, object/record)
// are judged on their own by the direct pairs of the alphabet.
func hashClass(a, b *mval) string {
	d := map[string]bool{}
	reprDiffs(a, b, d)
	if d["dnum/int64:outside-smi"] {
		return "int64-dnum-hash"
	}
	return ""
}

// inexactPair: a SuInt64 with more than 16 significant digits against a
// SuDnum: core compares them after rounding the integer to 16 digits
func over16(a, b *mval) bool {
	return a.class == clNum && b.class == clNum && a.kind == "int64" && b.kind == "dnum" &&
		sigDigits(a.n.Num()) > 16
}

// toInt64Limit: +-9223372036854775000 as decimal against the same integer
func toInt64Limit(a, b *mval) bool {
	return a.class == clNum && b.class == clNum && a.kind == "dnum" && b.kind == "int64" && a.n != nil &&
		new(big.Int).Abs(a.n.Num()).String() == "9223372036854775000" && a.n.IsInt() && a.n.Cmp(b.n) == 0
}

// namedOrderClass: "object-hash-named-order" iff both are (model-equal)
// objects/records with 2..4 named members at the top level that were
// inserted in a different order: SuObject.Hash folds the named members in
// iteration order (only when there are 1..4 of them).
func namedOrderClass(a, b *mval) string {
	if a.class != clObj || b.class != clObj || len(a.named) != len(b.named) || len(a.named) < 2 || len(a.named) > 4 {
		return ""
	}
	for i := range a.named {
		if a.named[i].k.key() != b.named[i].k.key() {
			return "object-hash-named-order"
		}
	}
	return ""
}

// equalClass classifies a failure on a pair of model-equal values
func equalClass(a, b *mval) string {
	if cl := cmpClass(a, b); cl != "" {
		return cl
	}
	if cl := hashClass(a, b); cl != "" {
		return cl
	}
	return namedOrderClass(a, b)
}

func cmpClass(a, b *mval) string {
	switch {
	case over16(a, b) || over16(b, a):
		return "int64-over-16-digits-vs-dnum"
	case toInt64Limit(a, b) || toInt64Limit(b, a):
		return "dnum-toint64-limit"
	}
	return ""
}

// ---------------------------------------------------------------- triage aid

var assumeKnown = map[string]bool{}

func init() {
	for _, k := range strings.Split(os.Getenv("VERIF_ASSUME_KNOWN"), ",") {
		if k != "" {
			assumeKnown[k] = true
		}
	}
}

// failc: as c.Fail; VERIF_ASSUME_KNOWN=class,... (never set by ./check)
// makes the listed classes count-only so that other classes stay visible.
func failc(c *lib.Ctx, class string, cs any, format string, a ...any) {
	if class != "" {
		c.Count("class:"+class, 1)
		if assumeKnown[class] {
			return
		}
	}
	c.Fail(class, cs, format, a...)
}

// ---------------------------------------------------------------- checks

type tcase struct {
	Kind    string `json:"kind"` // pair | triple | lookup
	A, B, C string
}

type obs struct {
	cmp   [][]int8
	eq    [][]bool
	hash  []uint64
	wrong [][]bool // core Compare sign differs from the reference
}

func observe(c *lib.Ctx) *obs {
	n := len(alpha)
	o := &obs{cmp: make([][]int8, n), eq: make([][]bool, n), hash: make([]uint64, n), wrong: make([][]bool, n)}
	for i := range alpha {
		o.cmp[i] = make([]int8, n)
		o.eq[i] = make([]bool, n)
		o.wrong[i] = make([]bool, n)
		a := &alpha[i]
		if e := lib.Try(func() { o.hash[i] = a.v.Hash() }); e != nil {
			c.Fail("", tcase{Kind: "pair", A: a.name, B: a.name}, "Hash(%s) panicked: %s", a.name, lib.PanicText(e))
		}
		for j := range alpha {
			b := &alpha[j]
			if e := lib.Try(func() {
				o.cmp[i][j] = int8(sgn(a.v.Compare(b.v)))
				o.eq[i][j] = a.v.Equal(b.v)
			}); e != nil {
				c.Fail("", tcase{Kind: "pair", A: a.name, B: b.name}, "comparing %s with %s panicked: %s", a.name, b.name, lib.PanicText(e))
			}
		}
	}
	return o
}

func checkPair(c *lib.Ctx, o *obs, i, j int) {
	a, b := &alpha[i], &alpha[j]
	cs := tcase{Kind: "pair", A: a.name, B: b.name}
	ref := refCompare(a.m, b.m)
	refEq := a.eq == b.eq
	cc := cmpClass(a.m, b.m)
	if refEq {
		cc = equalClass(a.m, b.m)
	}
	// reference order (includes the class order boolean < number < string < date < object)
	if int(o.cmp[i][j]) != ref {
		o.wrong[i][j] = true
		what := "order"
		if a.m.class != b.m.class {
			what = "class order " + className[a.m.class] + " vs " + className[b.m.class]
		}
		failc(c, cc, cs, "%s: Compare(%s, %s) = %d, reference %d", what, a.name, b.name, o.cmp[i][j], ref)
	}
	// antisymmetry
	if o.cmp[i][j] != -o.cmp[j][i] {
		failc(c, cc, cs, "antisymmetry: Compare(%s, %s) = %d but Compare(%s, %s) = %d", a.name, b.name, o.cmp[i][j], b.name, a.name, o.cmp[j][i])
	}
	// Equal against the model, symmetric
	if o.eq[i][j] != refEq {
		failc(c, cc, cs, "Equal(%s, %s) = %v, reference %v", a.name, b.name, o.eq[i][j], refEq)
	}
	if o.eq[i][j] != o.eq[j][i] {
		failc(c, cc, cs, "Equal is not symmetric: Equal(%s, %s) = %v, Equal(%s, %s) = %v", a.name, b.name, o.eq[i][j], b.name, a.name, o.eq[j][i])
	}
	// equal values compare as equal and hash equally
	if o.eq[i][j] || refEq {
		if o.cmp[i][j] != 0 {
			failc(c, cc, cs, "%s and %s are equal but Compare = %d", a.name, b.name, o.cmp[i][j])
		}
		if o.hash[i] != o.hash[j] {
			failc(c, cc, cs, "%s and %s are equal but hash differently", a.name, b.name)
		}
	}
}

func checkTriple(c *lib.Ctx, o *obs, i, j, k int) {
	// transitivity of <=, which includes transitivity of the induced equivalence
	if o.cmp[i][j] <= 0 && o.cmp[j][k] <= 0 && o.cmp[i][k] > 0 {
		a, b, d := &alpha[i], &alpha[j], &alpha[k]
		class := ""
		// known class iff one of the three comparisons is a known inexact pair
		for _, pr := range [][2]int{{i, j}, {j, k}, {i, k}} {
			if o.wrong[pr[0]][pr[1]] {
				if cc := cmpClass(alpha[pr[0]].m, alpha[pr[1]].m); cc != "" {
					class = cc
				}
			}
		}
		failc(c, class, tcase{Kind: "triple", A: a.name, B: b.name, C: d.name},
			"transitivity: %s <= %s (%d) and %s <= %s (%d) but Compare(%s, %s) = %d",
			a.name, b.name, o.cmp[i][j], b.name, d.name, o.cmp[j][k], a.name, d.name, o.cmp[i][k])
	}
	// Equal is transitive
	if o.eq[i][j] && o.eq[j][k] && !o.eq[i][k] {
		a, b, d := &alpha[i], &alpha[j], &alpha[k]
		class := ""
		for _, pr := range [][2]int{{i, j}, {j, k}, {i, k}} {
			if cc := cmpClass(alpha[pr[0]].m, alpha[pr[1]].m); cc != "" {
				class = cc
			}
		}
		failc(c, class, tcase{Kind: "triple", A: a.name, B: b.name, C: d.name},
			"Equal is not transitive: %s = %s = %s but not Equal(%s, %s)", a.name, b.name, d.name, a.name, d.name)
	}
}

// checkLookup: store under key i, look up by every model-equal key j.
func checkLookup(c *lib.Ctx, i int, crowded func() (*core.SuObject, map[int]core.Value)) (evals int) {
	a := &alpha[i]
	for j := range alpha {
		b := &alpha[j]
		if a.eq != b.eq {
			continue
		}
		cs := tcase{Kind: "lookup", A: a.name, B: b.name}
		class := equalClass(a.m, b.m)
		marker := core.SuStr("marker")
		for _, record := range []bool{false, true} {
			evals++
			if e := lib.Try(func() {
				ob := &core.SuObject{}
				// a few other members so that the key is a named member
				ob.Set(core.SuStr("other"), core.True)
				ob.Set(a.v, marker)
				var get func(core.Value) core.Value
				var has func(core.Value) bool
				if record {
					r := core.SuRecordFromObject(ob)
					get = func(k core.Value) core.Value { return r.GetIfPresent(nil, k) }
					has = r.HasKey
				} else {
					get = func(k core.Value) core.Value { return ob.GetIfPresent(nil, k) }
					has = ob.HasKey
				}
				if got := get(b.v); got != marker {
					failc(c, class, cs, "member stored under %s is not found by the equal key %s (record=%v): got %v", a.name, b.name, record, got)
				} else if !has(b.v) {
					failc(c, class, cs, "HasKey(%s) is false after Set(%s) (record=%v)", b.name, a.name, record)
				}
				if !record {
					// overwrite through the equal key must not create a second member
					n := ob.Size()
					ob.Set(b.v, core.SuStr("second"))
					if ob.Size() != n {
						failc(c, class, cs, "Set(%s) after Set(%s) created a second member", b.name, a.name)
					} else if !ob.Delete(nil, b.v) || ob.Size() != n-1 {
						failc(c, class, cs, "Delete(%s) did not remove the member stored under %s", b.name, a.name)
					}
				}
			}); e != nil {
				c.Fail("", cs, "lookup %s / %s panicked: %s", a.name, b.name, lib.PanicText(e))
			}
		}
	}
	// crowded object: one key per equivalence class, value = marker of the class
	ob, want := crowded()
	evals++
	if e := lib.Try(func() {
		got := ob.GetIfPresent(nil, a.v)
		w := want[a.eq]
		if got != w {
			rep := representative[a.eq]
			class := equalClass(a.m, alpha[rep].m)
			failc(c, class, tcase{Kind: "lookup", A: alpha[rep].name, B: a.name},
				"crowded object: member stored under %s is not found by the equal key %s: got %v", alpha[rep].name, a.name, got)
		}
	}); e != nil {
		c.Fail("", tcase{Kind: "lookup", A: a.name, B: a.name}, "crowded lookup %s panicked: %s", a.name, lib.PanicText(e))
	}
	return
}

var representative = map[int]int{} // equivalence class -> first alphabet index

func mkCrowded() (*core.SuObject, map[int]core.Value) {
	ob := &core.SuObject{}
	want := map[int]core.Value{}
	for i := range alpha {
		if _, ok := representative[alpha[i].eq]; !ok {
			representative[alpha[i].eq] = i
		}
		if representative[alpha[i].eq] == i {
			v := core.SuStr(fmt.Sprint("v", alpha[i].eq))
			want[alpha[i].eq] = v
			ob.Set(alpha[i].v, v)
		}
	}
	return ob, want
}

// lazyRecords: a record that is still backed by its database row (not yet
// unpacked) nested in an object. Equal values must hash equally whatever the
// internal state, and a hash must not change by merely reading the value.
func lazyRecords(c *lib.Ctx) {
	n := 0
	for nf := 0; nf <= 3; nf++ {
		for pos := 0; pos < 3; pos++ { // first list member, second list member, named member
			n++
			cs := tcase{Kind: "lazy-record", A: fmt.Sprintf("row-backed record with %d fields", nf), B: fmt.Sprintf("position %d", pos)}
			if e := lib.Try(func() {
				cols := []string{"a", "b", "c"}[:nf]
				rb := core.RecordBuilder{}
				plain := &core.SuObject{}
				for i, col := range cols {
					rb.Add(core.SuStr(fmt.Sprint(i)))
					plain.Set(core.SuStr(col), core.SuStr(fmt.Sprint(i)))
				}
				row := core.Row{core.DbRec{Record: rb.Build()}}
				hdr := core.NewHeader([][]string{cols}, cols)
				lazy := core.SuRecordFromRow(row, hdr, "", nil)
				wrap := func(v core.Value) *core.SuObject {
					ob := &core.SuObject{}
					switch pos {
					case 0:
						ob.Add(v)
					case 1:
						ob.Add(core.True)
						ob.Add(v)
					default:
						ob.Set(core.SuStr("m"), v)
					}
					return ob
				}
				outer, ref := wrap(lazy), wrap(core.SuRecordFromObject(plain))
				h1, hr := outer.Hash(), ref.Hash()
				eq := outer.Equal(ref) && ref.Equal(outer) // (unpacks the row)
				h2 := outer.Hash()
				if !eq {
					c.Fail("", cs, "an object holding a record read from a row is not Equal to the same object holding the equal in-memory record")
				} else if h1 != hr {
					c.Fail("", cs, "equal values hash differently: object holding a row-backed record %d, holding the equal in-memory record %d", h1, hr)
				}
				if h1 != h2 {
					c.Fail("", cs, "the hash of an object holding a row-backed record changed from %d to %d by comparing it (no modification)", h1, h2)
				}
			}); e != nil {
				c.Fail("", cs, "panicked: %s", lib.PanicText(e))
			}
		}
	}
	c.Eval(n)
	c.Set("lazy_record_cases", n)
}

func run(c *lib.Ctx) {
	lazyRecords(c)
	buildAlphabet(c)
	n := len(alpha)
	o := observe(c)
	c.Eval(n*n*2 + n)
	// pairs
	nt := 0
	for i := 0; i < n; i++ {
		for j := 0; j < n; j++ {
			checkPair(c, o, i, j)
			if i != j {
				nt++
			}
		}
	}
	c.Eval(n * n * 6)
	c.Nontrivial(nt)
	outcomes := map[string]int{}
	for i := 0; i < n; i++ {
		for j := 0; j < n; j++ {
			outcomes[fmt.Sprintf("%s/%s cmp=%d eq=%v", className[alpha[i].m.class], className[alpha[j].m.class], o.cmp[i][j], o.eq[i][j])]++
		}
	}
	c.Set("pair_outcomes", outcomes)
	// triples (parallel over the first index)
	c.Par(n, func(i int) {
		for j := 0; j < n; j++ {
			for k := 0; k < n; k++ {
				checkTriple(c, o, i, j, k)
			}
		}
		c.Eval(n * n * 2)
		c.Nontrivial(n * n)
	})
	// member lookup (sequential: objects are not shared, cheap)
	mkCrowded()
	lookups := 0
	for i := 0; i < n && !c.Expired(); i++ {
		lookups += checkLookup(c, i, mkCrowded)
	}
	c.Eval(lookups)
	c.Count("lookups", lookups)
	eqPairs := 0
	for i := range alpha {
		for j := range alpha {
			if i != j && alpha[i].eq == alpha[j].eq {
				eqPairs++
			}
		}
	}
	c.Count("equal_pairs_in_different_representations", eqPairs)
	for _, ij := range [][2]int{{3, 4}, {n / 3, n / 2}, {n / 2, n - 2}, {n - 3, n - 1}} {
		a, b := &alpha[ij[0]], &alpha[ij[1]]
		c.Sample(map[string]any{"a": a.name, "b": b.name, "compare": o.cmp[ij[0]][ij[1]], "equal": o.eq[ij[0]][ij[1]],
			"hash_equal": o.hash[ij[0]] == o.hash[ij[1]]})
	}
	_ = math.MaxInt64
}

func replay(c *lib.Ctx, raw json.RawMessage) {
	var tc tcase
	if err := json.Unmarshal(raw, &tc); err != nil {
		lib.Infra("bad case: %v", err)
	}
	if tc.Kind == "lazy-record" {
		lazyRecords(c) // the whole (12 case) family
		return
	}
	c.Tier = "thorough"
	buildAlphabet(c)
	idx := func(name string) int {
		for i := range alpha {
			if alpha[i].name == name {
				return i
			}
		}
		lib.Infra("replay: %s is not in the alphabet", name)
		return -1
	}
	o := observe(c)
	// fill o.wrong
	for i := range alpha {
		for j := range alpha {
			o.wrong[i][j] = int(o.cmp[i][j]) != refCompare(alpha[i].m, alpha[j].m)
		}
	}
	switch tc.Kind {
	case "pair":
		checkPair(c, o, idx(tc.A), idx(tc.B))
	case "triple":
		checkTriple(c, o, idx(tc.A), idx(tc.B), idx(tc.C))
	case "lookup":
		mkCrowded()
		checkLookup(c, idx(tc.A), mkCrowded)
		checkLookup(c, idx(tc.B), mkCrowded)
	}
}

func main() {
	lib.Main(lib.Spec{
		ID:    "C28",
		Level: "exploration",
		Rule: "all ordered pairs and all ordered triples of the value alphabet (every comparable class, every representation of equal values) " +
			"through Compare/Equal/Hash, judged by the algebraic laws and by an independent reference model; every model-equal key pair through " +
			"object/record member lookup; evaluations = law instances judged; a pair/triple is distinct by construction (different alphabet positions)",
		Assumptions: []string{
			"the reference model (class order boolean<number<string<date<object, exact numeric order, bytewise strings, chronological dates, lexicographic object lists) is read off the documentation and the property statement",
			"Compare on objects ignores named members (documented in suobject.go); only Equal => Compare==0 is required, not the converse",
			"values of class 'other' (functions, classes, instances) are outside the property's quantifier",
			"hash values depend on a per-process random seed; only equality of hashes inside one process is judged",
			"verdict is for the enumerated alphabet only",
		},
		QuickBudget:    60,
		ThoroughBudget: 300,
		Run:            run,
		Replay:         replay,
	})
}
