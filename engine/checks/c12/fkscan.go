package main

// Foreign key scans (db19/tran.go: rangeEnd as used by its real callers
// cascadeRange and fkeyDeleteExists), observed at database level.
//
// A target table t and a source table s with a foreign key "in t" are filled
// with ALL tuples over a field alphabet (byte strings with embedded / trailing
// zero bytes, the empty field, integers whose packed form contains 0,0).
// Then, for EVERY target row v, in a fresh update transaction that is aborted
// afterwards:
//
//	cascade: delete v from t   -> s loses exactly the rows whose foreign key fields equal v
//	cascade: change v's key    -> exactly those rows of s follow
//	block:   delete v from t   -> refused iff such a row of s exists
//
// (an all-empty foreign key references nothing). The expected result is
// computed from the tuples as written; the rows are read back through the
// source table's own key index.

import (
	"fmt"
	"sort"
	"strings"

	"github.com/apmckinlay/gsuneido/core"
	"github.com/apmckinlay/gsuneido/db19"
	"github.com/apmckinlay/gsuneido/db19/index"
	"github.com/apmckinlay/gsuneido/db19/meta/schema"
	"github.com/apmckinlay/gsuneido/db19/stor"

	"verif/lib"
)

type fkScenario struct {
	name   string
	nfk    int    // number of foreign key columns
	smode  byte   // mode of the source index: 'k' (s has key(a)), 'i', 'u'
	alpha  string // "str" | "int"
	every  int    // s holds every n'th tuple (1 = all)
	fkmode byte   // schema.Cascade | schema.Block
}

type fkCase struct {
	Kind     string   `json:"kind"` // fkscan
	Scenario string   `json:"scenario"`
	Op       string   `json:"op"`
	Target   []string `json:"target"` // hex packed fields of the target row
}

func fkScenarios() []fkScenario {
	var out []fkScenario
	for _, fkmode := range []byte{schema.Cascade, schema.Block} {
		for _, every := range []int{1, 2} {
			for _, alpha := range []string{"str", "int"} {
				out = append(out,
					fkScenario{"", 1, 'k', alpha, every, fkmode},
					fkScenario{"", 1, 'i', alpha, every, fkmode},
					fkScenario{"", 1, 'u', alpha, every, fkmode})
			}
			out = append(out,
				fkScenario{"", 2, 'i', "str", every, fkmode},
				fkScenario{"", 2, 'u', "str", every, fkmode},
				fkScenario{"", 2, 'k', "str", every, fkmode})
		}
	}
	for i := range out {
		s := &out[i]
		m := "cascade"
		if s.fkmode == schema.Block {
			m = "block"
		}
		s.name = fmt.Sprintf("%dcol-%c-%s-every%d-%s", s.nfk, s.smode, s.alpha, s.every, m)
	}
	return out
}

// packed field alphabets
func fkAlpha(kind string) []string {
	var out []string
	if kind == "int" {
		// packed integers: 1000001 packs to 03 87 0a 00 00 0a (contains 0,0)
		for _, n := range []int{0, 1, 10, 1000001, 1000002, 1000099, 1000100, 1000000, 100000001, 99} {
			out = append(out, core.PackValue(core.IntVal(n)))
		}
		return out
	}
	for _, s := range strs(b3, 2) {
		out = append(out, core.PackValue(core.SuStr(s))) // "" packs to "", else 04 + bytes
	}
	return out
}

type fkRow struct {
	off uint64
	fk  []string // the foreign key fields
	k   string   // s only: the k column (packed)
}

func allEmpty(t []string) bool {
	for _, f := range t {
		if f != "" {
			return false
		}
	}
	return true
}

func eqT(a, b []string) bool {
	for i := range a {
		if a[i] != b[i] {
			return false
		}
	}
	return true
}

var fkInit = func() bool {
	db19.MakeSuTran = func(ut *db19.UpdateTran) *core.SuTran { return core.NewSuTran(nil, true) }
	return true
}()

// runFkScenario returns (evaluations, non-trivial cases)
func runFkScenario(c *lib.Ctx, sc fkScenario, only []string) (int, int) {
	db := db19.CreateDb(stor.HeapStor(8192))
	db.CheckerSync()
	cols := []string{"a", "b"}[:sc.nfk]
	db.Create(&schema.Schema{Table: "t", Columns: cols,
		Indexes: []schema.Index{{Mode: 'k', Columns: cols}}})
	fk := schema.Fkey{Table: "t", Columns: cols, Mode: sc.fkmode}
	scols := append([]string{"k"}, cols...)
	var sidx []schema.Index
	if sc.smode == 'k' {
		// the foreign key index is itself the key of s
		sidx = []schema.Index{{Mode: 'k', Columns: cols, Fk: fk}}
	} else {
		sidx = []schema.Index{{Mode: 'k', Columns: []string{"k"}}, {Mode: sc.smode, Columns: cols, Fk: fk}}
	}
	db.Create(&schema.Schema{Table: "s", Columns: scols, Indexes: sidx})

	tuples := allTuples(fkAlpha(sc.alpha), sc.nfk)
	mk := func(fields ...string) core.Record {
		var rb core.RecordBuilder
		for _, f := range fields {
			rb.AddRaw(f)
		}
		return rb.Trim().Build()
	}
	ut := db.NewUpdateTran()
	for _, t := range tuples {
		ut.Output(nil, "t", mk(t...))
	}
	db.CommitMerge(ut)
	ut = db.NewUpdateTran()
	for i, t := range tuples {
		if i%sc.every == 0 {
			ut.Output(nil, "s", mk(append([]string{core.PackValue(core.IntVal(i + 1))}, t...)...))
		}
	}
	db.CommitMerge(ut)

	// read rows through index 0 of a table, as seen by tran
	type tranT interface {
		GetIndexI(table string, iIndex int) *index.Overlay
		Read(table string, iIndex int, from, to string)
		Num() int
		GetRecord(off uint64) core.Record
	}
	scan := func(tran tranT, table string) []fkRow {
		var rows []fkRow
		it := index.NewOverIter(table, 0)
		for it.Next(tran); !it.Eof(); it.Next(tran) {
			_, off := it.Cur()
			rec := tran.GetRecord(off)
			r := fkRow{off: off}
			base := 0
			if table == "s" {
				base = 1
				r.k = rec.GetRaw(0)
			}
			for i := 0; i < sc.nfk; i++ {
				r.fk = append(r.fk, rec.GetRaw(base+i))
			}
			rows = append(rows, r)
		}
		return rows
	}
	rt := db.NewReadTran()
	trows := scan(rt, "t")
	srows := scan(rt, "s")
	wantS := (len(tuples) + sc.every - 1) / sc.every
	if len(trows) != len(tuples) || len(srows) != wantS {
		c.Fail("", fkCase{Kind: "fkscan", Scenario: sc.name}, "foreign key scenario %s: after inserting distinct tuples and rows that reference them: %d rows in t (inserted %d), %d in s (inserted %d)", sc.name, len(trows), len(tuples), len(srows), wantS)
		return 0, 0
	}
	show := func(rows []fkRow) string {
		var ss []string
		for _, r := range rows {
			ss = append(ss, fmt.Sprintf("%q", r.fk))
		}
		sort.Strings(ss)
		return strings.Join(ss, " ")
	}
	// multiset of (k, fk) of rows
	content := func(rows []fkRow) string {
		var ss []string
		for _, r := range rows {
			ss = append(ss, fmt.Sprintf("%q:%q", r.k, r.fk))
		}
		sort.Strings(ss)
		return strings.Join(ss, " ")
	}
	evals, nontrivial := 0, 0
	newval := core.PackValue(core.SuStr("NEW"))
	for _, v := range trows {
		if only != nil && !eqT(v.fk, only) {
			continue
		}
		var refs, others []fkRow
		for _, r := range srows {
			if !allEmpty(v.fk) && eqT(r.fk, v.fk) {
				refs = append(refs, r)
			} else {
				others = append(others, r)
			}
		}
		ops := []string{"delete"}
		if sc.fkmode == schema.Cascade {
			ops = append(ops, "update")
		}
		for _, op := range ops {
			if op == "update" && allEmpty(v.fk) {
				// whether changing an all-empty key cascades to the rows with
				// an all-empty foreign key is foreign key policy (C08), not
				// a question of key ranges
				continue
			}
			class := "" // set below when the failure is the precisely known one
			fail := func(format string, a ...any) {
				failc(c, class, fkCase{Kind: "fkscan", Scenario: sc.name, Op: op, Target: hx(v.fk)},
					"foreign key scan, scenario %s, %s of target row %q: %s", sc.name, op, v.fk, fmt.Sprintf(format, a...))
			}
			ut := db.NewUpdateTran()
			var after []fkRow
			e := lib.Try(func() {
				if op == "delete" {
					ut.Delete(nil, "t", v.off)
				} else {
					nf := append([]string{newval}, v.fk[1:]...)
					ut.Update(nil, "t", v.off, mk(nf...))
				}
				after = scan(ut, "s")
			})
			ut.Abort()
			evals++
			if len(refs) > 0 || sc.every == 1 {
				nontrivial++
			}
			// rawArtifact: with an un-encoded (single field) source index the
			// callers hand the raw key x to rangeEnd, which then also covers
			// x+00.., or everything from x up to the first 0,0 inside x + Max.
			unenc := sc.smode == 'k' && sc.nfk == 1
			rawArtifact := func(y string) bool {
				x := v.fk[0]
				if !unenc || y <= x {
					return false
				}
				if i := strings.Index(x, "\x00\x00"); i >= 0 {
					return strings.HasPrefix(y, x[:i+2])
				}
				return strings.HasPrefix(y, x+"\x00")
			}
			if sc.fkmode == schema.Block {
				blocked := e != nil && strings.Contains(lib.PanicText(e), "blocked by foreign key")
				if e != nil && !blocked {
					fail("unexpected error: %s", lib.PanicText(e))
				} else if blocked != (len(refs) > 0) {
					if blocked {
						for _, r := range srows {
							if rawArtifact(r.fk[0]) {
								class = "fkscan-unencoded-key-range"
							}
						}
					}
					fail("blocked = %v but %d rows of s reference it (s has %s)", blocked, len(refs), show(srows))
				} else if !blocked && content(after) != content(srows) {
					fail("s changed by a delete in block mode")
				}
				continue
			}
			if e != nil {
				// cascading the new key to several rows of s (the referencing
				// one and rows inside the raw range artifact) gives a duplicate key
				if op == "update" && strings.Contains(lib.PanicText(e), "duplicate key") {
					for _, r := range srows {
						if rawArtifact(r.fk[0]) {
							class = "fkscan-unencoded-key-range"
						}
					}
				}
				fail("unexpected error: %s", lib.PanicText(e))
				continue
			}
			want := append([]fkRow{}, others...)
			if op == "update" {
				for _, r := range refs {
					want = append(want, fkRow{k: r.k, fk: append([]string{newval}, r.fk[1:]...)})
				}
			}
			if content(after) != content(want) {
				// known class iff every row is as expected except rows inside the raw range artifact
				inAfter := map[string]bool{}
				for _, r := range after {
					inAfter[fmt.Sprintf("%q:%q", r.k, r.fk)] = true
				}
				onlyArtifact := len(after) <= len(want)
				for _, r := range want {
					if !inAfter[fmt.Sprintf("%q:%q", r.k, r.fk)] && !rawArtifact(r.fk[0]) {
						onlyArtifact = false
					}
				}
				if unenc && onlyArtifact {
					class = "fkscan-unencoded-key-range"
				}
				fail("s afterwards holds foreign keys %s, want %s", show(after), show(want))
			}
		}
	}
	// nothing may have leaked out of the aborted transactions
	rt = db.NewReadTran()
	if content(scan(rt, "s")) != content(srows) || len(scan(rt, "t")) != len(trows) {
		c.Fail("", fkCase{Kind: "fkscan", Scenario: sc.name}, "foreign key scenario %s: aborted transactions changed the committed state", sc.name)
	}
	return evals, nontrivial
}

func runFkScans(c *lib.Ctx) {
	scs := fkScenarios()
	c.Par(len(scs), func(i int) {
		var ev, nt int
		if e := lib.Try(func() { ev, nt = runFkScenario(c, scs[i], nil) }); e != nil {
			// the scenario's own rows are valid (distinct tuples, references that
			// exist): a rejected set-up or a panic while scanning is the code's
			c.Fail("", fkCase{Kind: "fkscan", Scenario: scs[i].name}, "foreign key scenario %s: building or scanning its tables panicked: %s", scs[i].name, lib.PanicText(e))
			return
		}
		c.Eval(ev)
		c.Nontrivial(nt)
		c.Count("fkscan_cases", ev)
	})
	c.Set("fkscan_scenarios", len(scs))
}

func replayFk(c *lib.Ctx, k fkCase) {
	for _, sc := range fkScenarios() {
		if sc.name == k.Scenario {
			runFkScenario(c, sc, unhx(k.Target))
			return
		}
	}
	lib.Infra("unknown fkscan scenario %q", k.Scenario)
}
