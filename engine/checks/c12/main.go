// C12 Composite index keys preserve value order and are unambiguous.
//
// What is enumerated (bounded-exhaustive, no sampling):
//
//   - "families" of field tuples: ALL tuples of nf(+nf2) fields whose fields are
//     ALL byte strings up to a length over a boundary byte alphabet read off
//     ixkey.go (00 = the byte that is escaped / forms the separator, 01 = the
//     escape byte, 02 = first ordinary byte, 'a', ff = the byte ixkey.Max is
//     made of, plus the empty field which is trimmed when trailing).
//     Every tuple is built into a real core.Record with RecordBuilder (two
//     physical layouts) and run through the real ixkey.Spec.Key.
//   - for every family ALL ordered pairs of tuples: byte-wise key order,
//     Spec.Compare and key equality are judged against the lexicographic
//     comparison of the indexed fields (reference model below).
//   - specs: plain multi field, single field (unencoded), unique-index specs
//     with Fields2 (used only when all Fields are empty), _lower! fields.
//   - for every tuple t, every prefix length n and EVERY n-field tuple p of the
//     same alphabet: db19.rangeEnd, HasPrefix, SplitPrefixSuffix,
//     JoinPrefixSuffix select t iff the leading n fields of t equal p;
//     Decode, Decode1, TruncFunc, CompKey/Encoder, Encode per tuple.
//
// Oracle: a boring reference model written here (escape 00 -> 00 01, join with
// 00 00, trim trailing empty fields; tuple comparison field by field with
// bytes.Compare; ASCII lower-casing of fields that start with the PackString
// tag). It works from the tuples as written, never from repo code.
package main

import (
	"bytes"
	"encoding/hex"
	"encoding/json"
	"fmt"
	"strings"
	"sync"

	"github.com/apmckinlay/gsuneido/core"
	"github.com/apmckinlay/gsuneido/db19"
	"github.com/apmckinlay/gsuneido/db19/index/ixkey"

	"verif/lib"
)

const sep = "\x00\x00"
const maxKey = "\xff\xff\xff\xff\xff\xff\xff\xff" // documented value of ixkey.Max

// ---------------------------------------------------------------- reference model

// esc is the documented field escaping: every zero byte becomes 0,1.
func esc(f string) string {
	var b []byte
	for i := 0; i < len(f); i++ {
		b = append(b, f[i])
		if f[i] == 0 {
			b = append(b, 1)
		}
	}
	return string(b)
}

// encUntrimmed joins the escaped fields with the 0,0 separator.
func encUntrimmed(t []string) string {
	var b []byte
	for i, f := range t {
		if i > 0 {
			b = append(b, 0, 0)
		}
		b = append(b, esc(f)...)
	}
	return string(b)
}

// trim drops trailing empty fields.
func trim(t []string) []string {
	n := len(t)
	for n > 0 && t[n-1] == "" {
		n--
	}
	return t[:n]
}

func encTrimmed(t []string) string { return encUntrimmed(trim(t)) }

// field i of t, "" when absent (trailing empties are not stored)
func fld(t []string, i int) string {
	if i < len(t) {
		return t[i]
	}
	return ""
}

// cmpTuples compares field by field, missing fields count as empty.
func cmpTuples(a, b []string) int {
	n := max(len(a), len(b))
	for i := 0; i < n; i++ {
		if c := bytes.Compare([]byte(fld(a, i)), []byte(fld(b, i))); c != 0 {
			return c
		}
	}
	return 0
}

// leadEq: are the leading n fields of t equal to p (len(p) == n)?
func leadEq(t []string, p []string) bool {
	for i := range p {
		if fld(t, i) != p[i] {
			return false
		}
	}
	return true
}

// lowerPacked is the reference for _lower! fields: packed strings (tag byte 4)
// are ASCII lower-cased, anything else is unchanged.
func lowerPacked(f string) string {
	if len(f) == 0 || f[0] != 4 {
		return f
	}
	b := []byte(f)
	for i, c := range b {
		if 'A' <= c && c <= 'Z' {
			b[i] = c + 32
		}
	}
	return string(b)
}

// ---------------------------------------------------------------- families

type family struct {
	name    string
	nf, nf2 int      // number of Fields / Fields2
	lower   []bool   // per field of Fields: is it a _lower! field
	alpha   []string // field alphabet
	helpers bool     // also run the prefix / range helper enumeration
	thor    bool     // thorough tier only

	specA, specB ixkey.Spec // the two physical layouts
	tuples       []tup
	prefixes     [][]pfx // prefixes[n] = all n-field tuples (n = 1..nf) with their real keys
}

type tup struct {
	t          []string // the fields as written: Fields values then Fields2 values
	recA, recB core.Record
	key        string
	// eff is the tuple of indexed fields by the rules of the property:
	// Fields (lower-cased where flagged) and, only when they are all empty,
	// followed by Fields2. Trailing empties trimmed for the Fields path.
	eff    []string
	f2path bool
	full   string // reference untrimmed encoding of all nf Fields (plain specs)
}

type pfx struct {
	p      []string
	key    string // ixkey.CompKey(p...)  (trimmed, as a target index key would be)
	end    string // db19.rangeEnd(key, n)
	lo, hi string // JoinPrefixSuffix(key, n, ""), (key, n, Max)
	untr   string // reference untrimmed encoding of p
}

// strs returns all byte strings over bs of length 0..maxlen, shortest first.
func strs(bs string, maxlen int) []string {
	out := []string{""}
	prev := []string{""}
	for l := 1; l <= maxlen; l++ {
		var cur []string
		for _, s := range prev {
			for i := 0; i < len(bs); i++ {
				cur = append(cur, s+bs[i:i+1])
			}
		}
		out = append(out, cur...)
		prev = cur
	}
	return out
}

func allTuples(alpha []string, n int) [][]string {
	out := [][]string{{}}
	for k := 0; k < n; k++ {
		var next [][]string
		for _, t := range out {
			for _, a := range alpha {
				nt := append(append([]string{}, t...), a)
				next = append(next, nt)
			}
		}
		out = next
	}
	return out
}

const b5 = "\x00\x01\x02a\xff"
const b3 = "\x00\x01a"
const b7 = "\x00\x01\x02ab\xfe\xff"

// alphabet for _lower! fields: packed strings (tag 4) around the A-Z range
// boundaries ('@' 'A' 'Z' '[' '`' 'a' 'z' '{'), with zero bytes, mixed case,
// non-string tags (3, 5) and unpacked text that must NOT be lowered.
var lowerAlpha = []string{"", "\x04", "\x04A", "\x04a", "\x04B", "\x04b", "\x04Z", "\x04z",
	"\x04@", "\x04[", "\x04`", "\x04{", "\x04\x00", "\x04A\x00", "\x04a\x00B", "\x04aB", "\x04Ab", "\x04AB",
	"\x03A", "\x03a", "\x05A", "A", "a", "\x04\xc1", "\x04\xe1"}

func families() []*family {
	return []*family{
		{name: "2f-len2-b5", nf: 2, alpha: strs(b5, 2), helpers: true},
		{name: "3f-len1-b5", nf: 3, alpha: strs(b5, 1), helpers: true},
		{name: "1f-len2-b5", nf: 1, alpha: strs(b5, 2)},
		{name: "4f-len1-b3", nf: 4, alpha: strs(b3, 1), helpers: true},
		{name: "u2+1-len1-b5", nf: 2, nf2: 1, alpha: strs(b5, 1), helpers: true},
		{name: "u1+2-len1-b5", nf: 1, nf2: 2, alpha: strs(b5, 1), helpers: true},
		{name: "u2+2-len1-b3", nf: 2, nf2: 2, alpha: strs(b3, 1), helpers: true},
		{name: "u1+1-len2-b3", nf: 1, nf2: 1, alpha: strs(b3, 2), helpers: true},
		{name: "u3+1-len1-b3", nf: 3, nf2: 1, alpha: strs(b3, 1), helpers: true},
		{name: "lower10", nf: 2, lower: []bool{true, false}, alpha: lowerAlpha},
		{name: "lower11", nf: 2, lower: []bool{true, true}, alpha: lowerAlpha},
		{name: "lower01", nf: 2, lower: []bool{false, true}, alpha: lowerAlpha},
		{name: "lower1", nf: 1, lower: []bool{true}, alpha: lowerAlpha},
		{name: "lower1+u1", nf: 1, nf2: 1, lower: []bool{true}, alpha: lowerAlpha[:12]},
		// longer fields / more bytes
		{name: "2f-len2-b7", nf: 2, alpha: strs(b7, 2), helpers: true},
		{name: "3f-len2-b3", nf: 3, alpha: strs(b3, 2), helpers: true},
		{name: "2f-len3-b3", nf: 2, alpha: strs(b3, 3), helpers: true},
		{name: "u2+1-len2-b3", nf: 2, nf2: 1, alpha: strs(b3, 2), helpers: true},
		// thorough tier
		{name: "4f-len1-b5", nf: 4, alpha: strs(b5, 1), helpers: true, thor: true},
		{name: "5f-len1-b3", nf: 5, alpha: strs(b3, 1), helpers: true, thor: true},
		{name: "u2+2-len1-b5", nf: 2, nf2: 2, alpha: strs(b5, 1), helpers: true, thor: true},
		{name: "2f-len3-b5", nf: 2, alpha: strs(b5, 3), helpers: true, thor: true},
		{name: "3f-len2-b5", nf: 3, alpha: strs(b5, 2), helpers: true, thor: true},
	}
}

func mkrec(fields []string) core.Record {
	var rb core.RecordBuilder
	for _, f := range fields {
		rb.AddRaw(f)
	}
	return rb.Build()
}

func (fm *family) build() {
	n := fm.nf + fm.nf2
	if fm.lower == nil {
		fm.lower = make([]bool, fm.nf)
	}
	// layout A: record = the tuple, field i at index i
	// layout B: record = junk, then the tuple reversed: field i at index n-i
	enc := func(idx int, lower bool) int {
		if lower {
			return -idx - 2 // how meta/schema encodes _lower! fields
		}
		return idx
	}
	fm.specA.Fields, fm.specB.Fields = []int{}, []int{}
	for i := 0; i < fm.nf; i++ {
		fm.specA.Fields = append(fm.specA.Fields, enc(i, fm.lower[i]))
		fm.specB.Fields = append(fm.specB.Fields, enc(n-i, fm.lower[i]))
	}
	for i := fm.nf; i < n; i++ {
		fm.specA.Fields2 = append(fm.specA.Fields2, i)
		fm.specB.Fields2 = append(fm.specB.Fields2, n-i)
	}
	for _, t := range allTuples(fm.alpha, n) {
		tp := tup{t: t}
		tp.recA = mkrec(t)
		rb := []string{"junk\x00"}
		for i := n - 1; i >= 0; i-- {
			rb = append(rb, t[i])
		}
		tp.recB = mkrec(rb)
		tp.key = fm.specA.Key(tp.recA)
		var e []string
		allEmpty := true
		for i := 0; i < fm.nf; i++ {
			f := t[i]
			if fm.lower[i] {
				f = lowerPacked(f)
			}
			if f != "" {
				allEmpty = false
			}
			e = append(e, f)
		}
		if allEmpty && fm.nf2 > 0 {
			e = append(e, t[fm.nf:]...)
			tp.f2path = true
		} else {
			e = trim(e)
		}
		tp.eff = e
		if !tp.f2path {
			full := make([]string, fm.nf)
			for i := range full {
				full[i] = fld(e, i)
			}
			tp.full = encUntrimmed(full)
		}
		fm.tuples = append(fm.tuples, tp)
	}
	if fm.helpers {
		fm.prefixes = make([][]pfx, fm.nf+1)
		for k := 1; k <= fm.nf; k++ {
			for _, p := range allTuples(fm.alpha, k) {
				x := pfx{p: p, key: ixkey.CompKey(p...), untr: encUntrimmed(p)}
				x.end = db19.VerifRangeEnd(x.key, k)
				x.lo = ixkey.JoinPrefixSuffix(x.key, k, "")
				x.hi = ixkey.JoinPrefixSuffix(x.key, k, ixkey.Max)
				fm.prefixes[k] = append(fm.prefixes[k], x)
			}
		}
	}
}

// ---------------------------------------------------------------- cases (replayable)

type kase struct {
	Kind string   `json:"kind"` // tuple | pair | helper
	Fam  string   `json:"family"`
	T1   []string `json:"t1"` // hex fields
	T2   []string `json:"t2,omitempty"`
	N    int      `json:"n,omitempty"`
}

func hx(t []string) []string {
	out := make([]string, len(t))
	for i, f := range t {
		out[i] = hex.EncodeToString([]byte(f))
	}
	return out
}

func unhx(t []string) []string {
	out := make([]string, len(t))
	for i, f := range t {
		b, err := hex.DecodeString(f)
		if err != nil {
			lib.Infra("bad hex in case: %v", err)
		}
		out[i] = string(b)
	}
	return out
}

func q(t []string) string { return fmt.Sprintf("%q", t) }

func sgn(i int) int {
	switch {
	case i < 0:
		return -1
	case i > 0:
		return 1
	}
	return 0
}

// ---------------------------------------------------------------- per tuple checks

func (fm *family) checkTuple(c *lib.Ctx, tp *tup) {
	fail := func(class, format string, a ...any) {
		failc(c, class, kase{Kind: "tuple", Fam: fm.name, T1: hx(tp.t)}, "family %s tuple %s: %s", fm.name, q(tp.t), fmt.Sprintf(format, a...))
	}
	// the key does not depend on where the fields sit in the record
	if kb := fm.specB.Key(tp.recB); kb != tp.key {
		fail("", "Key differs between record layouts: %q vs %q", tp.key, kb)
	}
	single := fm.nf == 1 && fm.nf2 == 0
	var dec []string // what decoding the key must give (modulo trailing empties)
	switch {
	case single:
		// single field keys are not encoded (documented)
		if tp.key != fld(tp.eff, 0) {
			fail("", "single field key %q want the raw field %q", tp.key, fld(tp.eff, 0))
		}
		return
	case tp.f2path:
		dec = tp.eff
	default:
		dec = tp.eff
		if want := encTrimmed(tp.eff); tp.key != want {
			fail("", "Key = %q want %q (fields escaped, joined by 0,0, trailing empties trimmed)", tp.key, want)
		}
	}
	// decoding recovers the fields
	got := ixkey.Decode(tp.key)
	if cmpTuples(got, dec) != 0 || len(trim(got)) != len(trim(dec)) {
		fail("", "Decode(%q) = %s want %s", tp.key, q(got), q(dec))
	}
	for i := -1; i <= len(dec)+1; i++ {
		want := ""
		if i >= 0 {
			want = fld(dec, i)
		}
		if g := ixkey.Decode1(tp.key, i); g != want {
			fail("", "Decode1(%q, %d) = %q want %q", tp.key, i, g, want)
		}
	}
	if !tp.f2path && !anyTrue(fm.lower) {
		// the incremental encoder and CompKey build the same key
		if g := ixkey.CompKey(tp.t[:fm.nf]...); g != tp.key {
			fail("", "CompKey = %q, Spec.Key = %q", g, tp.key)
		}
		var e ixkey.Encoder
		for _, f := range tp.t[:fm.nf] {
			e.Add(f)
		}
		d := e.Dup()
		if g := e.String(); g != tp.key {
			fail("", "Encoder = %q, Spec.Key = %q", g, tp.key)
		}
		if g := d.String(); g != tp.key {
			fail("", "Encoder.Dup = %q, Spec.Key = %q", g, tp.key)
		}
		if g := ixkey.Encode(tp.t[0]); g != esc(tp.t[0]) {
			fail("", "Encode(%q) = %q want %q", tp.t[0], g, esc(tp.t[0]))
		}
	}
}

// stripSeps removes trailing 0,0 separators.
func stripSeps(s string) string {
	for strings.HasSuffix(s, sep) {
		s = s[:len(s)-len(sep)]
	}
	return s
}

func anyTrue(b []bool) bool {
	for _, x := range b {
		if x {
			return true
		}
	}
	return false
}

// ---------------------------------------------------------------- pairs

// checkPair: byte order of keys == order of the indexed field tuples ==
// Spec.Compare; equal keys iff equal tuples.
func (fm *family) checkPair(c *lib.Ctx, a, b *tup) int {
	want := cmpTuples(a.eff, b.eff)
	fail := func(format string, x ...any) {
		c.Fail("", kase{Kind: "pair", Fam: fm.name, T1: hx(a.t), T2: hx(b.t)},
			"family %s (Fields %v Fields2 %v) records %s vs %s: %s", fm.name, fm.specA.Fields, fm.specA.Fields2,
			q(a.t), q(b.t), fmt.Sprintf(format, x...))
	}
	if g := strings.Compare(a.key, b.key); g != want {
		fail("byte-wise key comparison %q vs %q = %d, field comparison = %d", a.key, b.key, g, want)
	}
	if (a.key == b.key) != (want == 0) {
		fail("keys equal = %v but field tuples equal = %v (keys %q, %q)", a.key == b.key, want == 0, a.key, b.key)
	}
	if g := sgn(fm.specA.Compare(a.recA, b.recA)); g != want {
		fail("Spec.Compare = %d, field comparison = %d", g, want)
	}
	if g := sgn(fm.specB.Compare(a.recB, b.recB)); g != want {
		fail("Spec.Compare (second record layout) = %d, field comparison = %d", g, want)
	}
	return want
}

// ---------------------------------------------------------------- helpers

type hstats struct{ evals, sel, nonsel int }

// logical returns the fields a key stands for (what Decode has to give)
func (tp *tup) logical() []string { return tp.eff }

// checkHelpersN: the checks that depend on (tuple, n) only.
func (fm *family) checkHelpersN(c *lib.Ctx, tp *tup, n int, st *hstats) {
	lt := tp.logical()
	fail := func(class, format string, a ...any) {
		failc(c, class, kase{Kind: "helper", Fam: fm.name, T1: hx(tp.t), N: n},
			"family %s tuple %s key %q n=%d: %s", fm.name, q(tp.t), tp.key, n, fmt.Sprintf(format, a...))
	}
	lead := make([]string, n)
	for i := range lead {
		lead[i] = fld(lt, i)
	}
	wantPre := encTrimmed(lead)
	wantSuf := ""
	if len(lt) > n {
		wantSuf = encUntrimmed(lt[n:])
	}
	pre, suf := ixkey.SplitPrefixSuffix(tp.key, n)
	if pre != wantPre || suf != wantSuf {
		fail("", "SplitPrefixSuffix = (%q, %q) want (%q, %q)", pre, suf, wantPre, wantSuf)
	}
	for _, s := range []string{wantSuf, "", maxKey, "x", "\x00\x01"} {
		want := encUntrimmed(lead) + sep + s
		if g := ixkey.JoinPrefixSuffix(wantPre, n, s); g != want {
			fail("", "JoinPrefixSuffix(%q, %d, %q) = %q want %q", wantPre, n, s, g, want)
		}
	}
	if len(lt) > n {
		if g := ixkey.JoinPrefixSuffix(pre, n, suf); g != tp.key {
			fail("", "JoinPrefixSuffix(SplitPrefixSuffix(key)) = %q", g)
		}
	}
	st.evals += 7

	// TruncFunc converts the key of this spec to the key of the spec made of
	// its first n fields (what a foreign key target index holds).
	spec2 := ixkey.Spec{Fields: fm.specA.Fields[:n:n]}
	want2 := encTrimmed(lead)
	if n == 1 {
		want2 = lead[0] // single field keys are not encoded
	}
	if k2 := spec2.Key(tp.recA); k2 != want2 {
		fail("", "Spec{Fields[:%d]}.Key = %q want %q", n, k2, want2)
	}
	got2 := ixkey.TruncFunc(fm.specA, spec2)(tp.key)
	if got2 != want2 {
		class := ""
		switch {
		case tp.f2path && n == fm.nf && n > 1 && got2 == tp.key && want2 == "":
			// unique index whose Fields are all empty: key returned unchanged
			class = "truncfunc-fields2-key-unchanged"
		case n > 1 && n < fm.nf && strings.HasSuffix(got2, sep) && stripSeps(got2) == want2:
			// fewer fields, field n is empty: trailing separator(s) not trimmed
			class = "truncfunc-trailing-empty-not-trimmed"
		}
		fail(class, "TruncFunc(%v -> %v)(%q) = %q want %q (= Spec.Key of the first %d fields)",
			fm.specA.Fields, spec2.Fields, tp.key, got2, want2, n)
	}
	st.evals += 2
}

// checkHelpersP: does the n-field prefix tuple p select this key?
func (fm *family) checkHelpersP(c *lib.Ctx, tp *tup, n int, p *pfx, st *hstats) {
	lt := tp.logical()
	want := leadEq(lt, p.p)
	fail := func(format string, a ...any) {
		c.Fail("", kase{Kind: "helper", Fam: fm.name, T1: hx(tp.t), T2: hx(p.p), N: n},
			"family %s tuple %s key %q, %d-field prefix %s key %q: %s (leading fields equal = %v)",
			fm.name, q(tp.t), tp.key, n, q(p.p), p.key, fmt.Sprintf(format, a...), want)
	}
	// foreign key range [key, rangeEnd(key, n)]
	if in := p.key <= tp.key && tp.key <= p.end; in != want {
		fail("in range [%q, rangeEnd = %q] = %v", p.key, p.end, in)
	}
	// group test of the skip scan: same SplitPrefixSuffix prefix
	pre, _ := ixkey.SplitPrefixSuffix(tp.key, n)
	if (pre == p.key) != want {
		fail("SplitPrefixSuffix prefix %q == prefix key = %v", pre, pre == p.key)
	}
	// seek targets of the skip scan bracket exactly the keys of the group
	// that have a suffix (more than n fields)
	if in := p.lo <= tp.key && tp.key <= p.hi; in != (want && len(lt) > n) {
		fail("in [JoinPrefixSuffix(p,n,\"\") = %q, JoinPrefixSuffix(p,n,Max) = %q] = %v, has suffix = %v", p.lo, p.hi, in, len(lt) > n)
	}
	// HasPrefix is prefix by field. Both keys have their trailing empty
	// fields trimmed, and the empty key stands for one empty field.
	pp, tt := trim(p.p), lt
	if len(pp) == 0 {
		pp = []string{""}
	}
	if len(tt) == 0 {
		tt = []string{""}
	}
	wantHP := len(pp) <= len(tt) && leadEq(tt, pp)
	if g := ixkey.HasPrefix(tp.key, p.key); g != wantHP {
		fail("HasPrefix(%q, %q) = %v want %v", tp.key, p.key, g, wantHP)
	}
	if !tp.f2path {
		// untrimmed encodings: exactly "leading n fields equal"
		if g := ixkey.HasPrefix(tp.full, p.untr); g != want {
			fail("HasPrefix(untrimmed %q, untrimmed %q) = %v", tp.full, p.untr, g)
		}
	}
	st.evals += 5
	if want {
		st.sel++
	} else {
		st.nonsel++
	}
}

// ---------------------------------------------------------------- driver

func run(c *lib.Ctx) {
	var fams []*family
	for _, fm := range families() {
		if fm.thor && c.Quick() {
			continue
		}
		fm.build()
		fams = append(fams, fm)
	}
	runFkScans(c)
	sizes := map[string]int{}
	for _, fm := range fams {
		sizes[fm.name] = len(fm.tuples)
	}
	c.Set("families_tuples", sizes)
	for _, fm := range fams {
		if c.Expired() {
			break
		}
		n := len(fm.tuples)
		c.Par(n, func(i int) {
			a := &fm.tuples[i]
			fm.checkTuple(c, a)
			var lt, eq, gt int
			for j := range fm.tuples {
				switch fm.checkPair(c, a, &fm.tuples[j]) {
				case -1:
					lt++
				case 0:
					eq++
				default:
					gt++
				}
			}
			c.Eval(1 + n)
			c.Nontrivial(lt + gt) // ordered pairs of different indexed-field tuples
			c.Count("pairs_less", lt)
			c.Count("pairs_equal", eq)
			c.Count("pairs_greater", gt)
			if a.f2path {
				c.Count("tuples_on_fields2_path", 1)
			}
			if fm.helpers {
				var st hstats
				for k := 1; k <= fm.nf; k++ {
					fm.checkHelpersN(c, a, k, &st)
					for pi := range fm.prefixes[k] {
						fm.checkHelpersP(c, a, k, &fm.prefixes[k][pi], &st)
					}
				}
				c.Eval(st.evals)
				c.Nontrivial(st.sel + st.nonsel)
				c.Count("prefix_selects_key", st.sel)
				c.Count("prefix_does_not_select_key", st.nonsel)
			}
			if i%211 == 7 && c.NSamples() < 6 {
				b := &fm.tuples[(i*37+11)%n]
				c.Sample(map[string]any{"family": fm.name, "t1": q(a.t), "key1": fmt.Sprintf("%q", a.key),
					"t2": q(b.t), "key2": fmt.Sprintf("%q", b.key), "field_order": cmpTuples(a.eff, b.eff)})
			}
		})
	}
}

func replay(c *lib.Ctx, raw json.RawMessage) {
	var k kase
	if err := json.Unmarshal(raw, &k); err != nil {
		lib.Infra("bad case: %v", err)
	}
	if k.Kind == "fkscan" {
		var fc fkCase
		json.Unmarshal(raw, &fc)
		replayFk(c, fc)
		return
	}
	var fm *family
	for _, f := range families() {
		if f.name == k.Fam {
			fm = f
		}
	}
	if fm == nil {
		lib.Infra("unknown family %q", k.Fam)
	}
	fm.build()
	find := func(h []string) *tup {
		t := unhx(h)
		for i := range fm.tuples {
			if cmpExact(fm.tuples[i].t, t) {
				return &fm.tuples[i]
			}
		}
		lib.Infra("tuple %q not in family", t)
		return nil
	}
	a := find(k.T1)
	switch k.Kind {
	case "tuple":
		fm.checkTuple(c, a)
	case "pair":
		fm.checkPair(c, a, find(k.T2))
	case "helper":
		var st hstats
		if k.T2 == nil {
			fm.checkHelpersN(c, a, k.N, &st)
			return
		}
		p := unhx(k.T2)
		for i := range fm.prefixes[k.N] {
			if cmpExact(fm.prefixes[k.N][i].p, p) {
				fm.checkHelpersP(c, a, k.N, &fm.prefixes[k.N][i], &st)
			}
		}
	}
}

func cmpExact(a, b []string) bool {
	if len(a) != len(b) {
		return false
	}
	for i := range a {
		if a[i] != b[i] {
			return false
		}
	}
	return true
}

func main() {
	lib.Main(lib.Spec{
		ID:    "C12",
		Level: "exploration",
		Rule: "families = all tuples of nf(+nf2) fields over all byte strings up to a length on {00,01,02,'a',ff} (and a packed-string case alphabet for _lower!); " +
			"per family all ordered pairs of tuples (key byte order, Spec.Compare, key equality vs field-by-field comparison) and all (tuple, n, n-field prefix tuple) " +
			"triples (rangeEnd, SplitPrefixSuffix, JoinPrefixSuffix, HasPrefix select the key iff its leading fields equal the prefix), plus Decode/Decode1/TruncFunc/CompKey per tuple; " +
			"non-trivial = ordered pairs of tuples with different indexed fields + all (tuple,prefix) triples, distinct by construction",
		Assumptions: []string{
			"reference model: escape 00->00 01, separator 00 00, trailing empty fields trimmed (package doc of ixkey); tuple order = field by field bytes.Compare with missing fields empty",
			"Fields2 is part of the indexed tuple only when all Fields are empty (documented on Spec.Fields2); for such keys only Decode (not the exact bytes) is demanded",
			"_lower! fields: packed strings (tag 4) compare/encode ASCII lower-cased, other values unchanged",
			"field values never reach ixkey.Max (8 x ff), as the package doc assumes; HasPrefix on trimmed keys treats the empty key as one empty field",
			"rangeEnd is called with encoded keys (its stated precondition); verdict is for the enumerated alphabets only",
		},
		QuickBudget: 100, ThoroughBudget: 900,
		Run: run, Replay: replay,
	})
}

// failc reports a failure. Failures that carry a precise class (candidates
// for KNOWN_FINDINGS) are counted per class in the evidence; while a class is
// not a listed known finding only its first case is reported as a violation,
// so that one run shows every class (lib stops after 5 violations).
var classMu sync.Mutex
var classReported = map[string]bool{}

func failc(c *lib.Ctx, class string, cs any, format string, a ...any) {
	if class == "" {
		c.Fail("", cs, format, a...)
		return
	}
	c.Count("classified_failures:"+class, 1)
	classMu.Lock()
	defer classMu.Unlock()
	if classReported[class] {
		return
	}
	if known := c.Fail(class, cs, format, a...); !known {
		classReported[class] = true
	}
}
