//go:build verif

package db19

// VerifRangeEnd exports rangeEnd (range end for foreign key scans) for check C12.
func VerifRangeEnd(key string, n int) string { return rangeEnd(key, n) }
